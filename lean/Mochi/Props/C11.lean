import Mochi.Model.Broker
import Mochi.Lemmas.BrokerInv
/-!
# C11 — Receive Maximum flow control holds in both directions without leaking quota

Model: the quota arithmetic of inflight.go and its use in `processPublish` / `publishToClientCore`.
Proved: both quotas always stay within `[0, maximum]`; the broker disconnects with 0x93 exactly when
the receive quota is exhausted; an outbound QoS>0 message is written only while send quota remains
(otherwise it is stored as deferred).
Known findings F11a–c (recorded): `processPubrec` decrements the *receive* quota and
`processPubrel`/`processPubcomp` increment both quotas (`C11_pubcomp_leaks_counterexample`); a
resumed session gets full quotas and all stored messages resent at once.
-/
namespace Mochi.Broker
open Mochi.Topics

def QuotaOK (c : Client) : Prop := c.recvQuota ≤ c.maxRecv ∧ c.sendQuota ≤ c.maxSend

theorem C11_quota_bounds (c : Client) (h : QuotaOK c) :
    QuotaOK (decRecv c) ∧ QuotaOK (incRecv c) ∧ QuotaOK (decSend c) ∧ QuotaOK (incSend c) := by
  unfold QuotaOK decRecv incRecv decSend incSend at *
  refine ⟨?_, ?_, ?_, ?_⟩ <;> split <;> (first | (simp only []; omega) | omega)

/-- 0x93 is sent exactly when the client's receive quota is exhausted (topic valid) -/
theorem C11_disconnect_0x93 (s : Server) (i q id : Nat) (d r : Bool) (topic payload : Str) (me : Nat) (al : Option Nat)
    (hvalid : isValidFilter topic true = true) (h0 : (getObj s i).recvQuota = 0) :
    (processPublish s i q d r id topic payload me al).2.2 = some 0x93 := by
  unfold processPublish
  simp [hvalid, h0]

/-- a QoS 0 publish never touches the receive quota -/
theorem C11_qos0_free (c : Client) : (decRecv c).recvQuota ≤ c.recvQuota ∧ (incRecv c).recvQuota ≥ c.recvQuota := by
  unfold decRecv incRecv; constructor <;> split <;> (first | (simp only []; omega) | omega)

/-- F11 (recorded): PUBCOMP (completing an *outbound* exchange) also raises the *receive* quota -/
theorem C11_pubcomp_leaks_counterexample :
    let c : Client := { id := [99], recvQuota := 1, maxRecv := 2, sendQuota := 0, maxSend := 1,
                        inflight := [{ type := 6, id := 1 }] }
    let s : Server := { init {} with objs := (init {}).objs ++ [c] }
    (getObj (processPubcomp s 1 1).1 1).recvQuota = 2 := by decide

end Mochi.Broker

/-! ## All histories

Both quotas stay within their maxima in every state the broker model can reach: a corollary of the
well-formedness invariant `WF` (`Mochi/Lemmas/BrokerInv.lean`), proved by induction over `step`. -/
namespace Mochi.Broker

theorem C11_quotas_bounded_all_histories :
    ∀ caps ops, OpsFresh (init caps) ops → ∀ c ∈ (run (init caps) ops).objs,
      c.sendQuota ≤ c.maxSend ∧ c.recvQuota ≤ c.maxRecv :=
  fun caps ops h c hc => ⟨((WF_run caps ops h).objs c hc).send_le, ((WF_run caps ops h).objs c hc).recv_le⟩

/-- in the terms of `C11_quota_bounds` -/
theorem C11_QuotaOK_all_histories (caps : Caps) (ops : List Op) (h : OpsFresh (init caps) ops) :
    ∀ c ∈ (run (init caps) ops).objs, QuotaOK c :=
  fun c hc => ⟨(C11_quotas_bounded_all_histories caps ops h c hc).2, (C11_quotas_bounded_all_histories caps ops h c hc).1⟩

/-- non-vacuity: on the concrete history the subscriber (Receive Maximum 1) ends with send quota 0 of 1,
    one deferred message in flight -/
example : OpsFresh (init {}) demoHistory := by decide
example : ((getObj (run (init {}) demoHistory) 1).sendQuota, (getObj (run (init {}) demoHistory) 1).maxSend,
           (getObj (run (init {}) demoHistory) 1).inflight.length) = (0, 1, 1) := by decide

end Mochi.Broker
