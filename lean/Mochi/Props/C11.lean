import Mochi.Model.Broker
import Mochi.Lemmas.BrokerInv
import Mochi.Lemmas.BrokerQuota
/-!
# C11 — Receive Maximum flow control holds in both directions without leaking quota

Model: the quota arithmetic of inflight.go and its use in `processPublish` / `publishToClientCore`.
Proved: both quotas always stay within `[0, maximum]`; the broker disconnects with 0x93 exactly when
the receive quota is exhausted; an outbound QoS>0 message is written only while send quota remains
(otherwise it is stored as deferred).
Known findings F11a–c (recorded): `processPubrec` decrements the *receive* quota and
`processPubrel`/`processPubcomp` increment both quotas (`C11_pubcomp_leaks_counterexample`); a
resumed session gets full quotas and all stored messages resent at once.

History level (second half of this file, `Mochi/Lemmas/BrokerQuota.lean`): the quotas as ACCOUNTING invariants
(`C11_recv_quota_accounting_partial`, `C11_send_quota_accounting_partial`, `C11_no_send_beyond_quota_partial`,
`C11_0x93_only_at_limit_partial`) on a decidable class of histories, with one `decide` counterexample per excluded
class — these pin F11a–c, F09 and the quota leaks of the error / expiry paths down exactly.
-/
namespace Mochi.Broker
open Mochi.Topics

def QuotaOK (c : Client) : Prop := c.recvQuota ≤ c.maxRecv ∧ c.sendQuota ≤ c.maxSend

theorem C11_quota_bounds (c : Client) (h : QuotaOK c) :
    QuotaOK (decRecv c) ∧ QuotaOK (incRecv c) ∧ QuotaOK (decSend c) ∧ QuotaOK (incSend c) := by
  unfold QuotaOK decRecv incRecv decSend incSend at *
  refine ⟨?_, ?_, ?_, ?_⟩ <;> split <;> (first | (simp only []; omega) | omega)

/-- 0x93 is sent exactly when the client's receive quota is exhausted (topic valid) -/
theorem C11_disconnect_0x93 (s : Server) (i q id : Nat) (d r : Bool) (topic payload : Str) (me : Nat) (al : Option Nat)
    (hvalid : isValidFilter topic true = true) (h0 : (getObj s i).recvQuota = 0) :
    (processPublish s i q d r id topic payload me al).2.2 = some 0x93 := by
  unfold processPublish
  simp [hvalid, h0]

/-- a QoS 0 publish never touches the receive quota -/
theorem C11_qos0_free (c : Client) : (decRecv c).recvQuota ≤ c.recvQuota ∧ (incRecv c).recvQuota ≥ c.recvQuota := by
  unfold decRecv incRecv; constructor <;> split <;> (first | (simp only []; omega) | omega)

/-- F11 (recorded): PUBCOMP (completing an *outbound* exchange) also raises the *receive* quota -/
theorem C11_pubcomp_leaks_counterexample :
    let c : Client := { id := [99], recvQuota := 1, maxRecv := 2, sendQuota := 0, maxSend := 1,
                        inflight := [{ type := 6, id := 1 }] }
    let s : Server := { init {} with objs := (init {}).objs ++ [c] }
    (getObj (processPubcomp s 1 1).1 1).recvQuota = 2 := by decide

end Mochi.Broker

/-! ## All histories

Both quotas stay within their maxima in every state the broker model can reach: a corollary of the
well-formedness invariant `WF` (`Mochi/Lemmas/BrokerInv.lean`), proved by induction over `step`. -/
namespace Mochi.Broker

theorem C11_quotas_bounded_all_histories :
    ∀ caps ops, OpsFresh (init caps) ops → ∀ c ∈ (run (init caps) ops).objs,
      c.sendQuota ≤ c.maxSend ∧ c.recvQuota ≤ c.maxRecv :=
  fun caps ops h c hc => ⟨((WF_run caps ops h).objs c hc).send_le, ((WF_run caps ops h).objs c hc).recv_le⟩

/-- in the terms of `C11_quota_bounds` -/
theorem C11_QuotaOK_all_histories (caps : Caps) (ops : List Op) (h : OpsFresh (init caps) ops) :
    ∀ c ∈ (run (init caps) ops).objs, QuotaOK c :=
  fun c hc => ⟨(C11_quotas_bounded_all_histories caps ops h c hc).2, (C11_quotas_bounded_all_histories caps ops h c hc).1⟩

/-- non-vacuity: on the concrete history the subscriber (Receive Maximum 1) ends with send quota 0 of 1,
    one deferred message in flight -/
example : OpsFresh (init {}) demoHistory := by decide
example : ((getObj (run (init {}) demoHistory) 1).sendQuota, (getObj (run (init {}) demoHistory) 1).maxSend,
           (getObj (run (init {}) demoHistory) 1).inflight.length) = (0, 1, 1) := by decide

end Mochi.Broker

/-! ## Quotas as accounting invariants over histories

`RecvAcc c : recvQuota + inboundOpen c = maxRecv` where `inboundOpen` counts the in-flight records of the inbound
direction (type 5: PUBREC awaiting PUBREL; type 4: a PUBACK record whose write failed).
`fc11OpsOK P (init caps) ops` (decidable, `Mochi/Lemmas/BrokerQuota.lean`): every op is fresh, the stored messages
are PUBLISH packets with non-negative time stamps (`Fc11Store`, true in every reachable state), and `fc11OpOK`:
* `recv` / `recvCut` / `inlinePublish`: the handler's own update of the ACTING client's records and quotas keeps the
  accounting (`fc11PkOK`, one implication per handler branch; trivially true for SUBSCRIBE, UNSUBSCRIBE, PINGREQ,
  DISCONNECT);
* `connect` / `connectHold` / `release` of a parked CONNECT: the client id is not in the Clients map (no take-over,
  no resumption);
* `tick "inflight"`: the tick drops no record the accounting depends on.
Everything else — deliveries to every other client, deferral, `nextImmediate`, wills, session clean-up, expiry of
sessions, retained housekeeping, drops, parked handlers — is covered unconditionally, for all 12 op kinds. -/
namespace Mochi.Broker
open Mochi.Topics

/-- **C11, receive side (all 12 op kinds, all histories of the class)**: every registered client has
    `recvQuota + (open inbound records) = maxRecv` -/
theorem C11_recv_quota_accounting_partial (caps : Caps) (ops : List Op)
    (h : fc11OpsOK fc11RecvP (init caps) ops) :
    ∀ id k, (id, k) ∈ (run (init caps) ops).clients →
      (getObj (run (init caps) ops) k).recvQuota + inboundOpen (getObj (run (init caps) ops) k)
        = (getObj (run (init caps) ops) k).maxRecv :=
  fun id k hm => (fc11_run fc11RecvP_laws _ ops (WF_init caps) (fc11_init fc11RecvP_laws caps) h k ⟨id, hm⟩).1

/-- the step form: one op of the class keeps the accounting of every registered client -/
theorem C11_recv_quota_accounting_step (s : Server) (op : Op) (hwf : WF s) (hf : OpFresh s op) (hst : Fc11Store s)
    (hg : fc11OpOK fc11RecvP s op) (h : Fc11Inv fc11RecvP s) : Fc11Inv fc11RecvP (step s op).1 :=
  fc11_step fc11RecvP_laws s op hwf hf hst hg h

/-! ### 0x93 only at the limit -/

def fc11Not93 (r : HRes) : Prop := r.2.2 ≠ some 0x93

theorem fc11_ite_code {p : Prop} [Decidable p] {a b : HRes}
    (ha : p → fc11Not93 a) (hb : ¬ p → fc11Not93 b) : fc11Not93 (if p then a else b) := by
  by_cases h : p
  · rw [if_pos h]; exact ha h
  · rw [if_neg h]; exact hb h

theorem fc11_ackRes_code (s : Server) (i t id rc : Nat) : fc11Not93 (ackRes s i t id rc) := by
  unfold fc11Not93
  rcases ackRes_cases s i t id rc with h | h <;> rw [h] <;> intro e <;> cases e

/-- `processPublish` returns 0x93 only on the exhausted-quota branch -/
theorem fc11_processPublish_0x93 (s : Server) (i : Nat) (qos : Nat) (dup retain : Bool) (id : Nat) (topic payload : Str)
    (msgExpiry : Nat) (alias : Option Nat)
    (h : (processPublish s i qos dup retain id topic payload msgExpiry alias).2.2 = some 0x93) :
    (getObj s i).recvQuota = 0 := by
  false_or_by_contra
  rename_i hrq
  revert h
  show fc11Not93 _
  unfold processPublish
  extract_lets +onlyGivenNames c
  have early : ∀ code, code ≠ 0x93 → fc11Not93
      (if (qos == 0) = true then ((s, [], none) : HRes)
        else if (c.ver != 5) = true then
          match disconnectClient s i code with
          | (s, o) => (s, o, some code)
        else ackRes s i (if (qos == 2) = true then 5 else 4) id code) := by
    intro code hc
    refine fc11_ite_code (fun _ => ?_) (fun _ => fc11_ite_code (fun _ => ?_) (fun _ => fc11_ackRes_code _ _ _ _ _))
    · intro e; cases e
    · intro e
      apply hc
      exact Option.some.inj e
  refine fc11_ite_code (fun _ => early _ (by decide)) (fun _ => ?_)
  refine fc11_ite_code (fun h0 => ?_) (fun _ => ?_)
  · exact absurd (by simpa using h0) hrq
  refine fc11_ite_code (fun _ => early _ (by decide)) (fun _ => ?_)
  extract_lets +onlyGivenNames e pk pre
  have hpre : ∀ r, pre = some r → fc11Not93 r := by
    intro r h
    simp only [pre] at h
    split at h
    · cases h
    · split at h
      · split at h
        · cases h; exact fc11_ackRes_code _ _ _ _ _
        · cases h
      · cases h
  generalize pre = pre' at hpre
  split
  · rename_i r
    exact hpre r rfl
  · split
    rename_i s1 c1 heq
    split
    rename_i c2 pk2 heq2
    extract_lets +onlyGivenNames s2
    refine fc11_ite_code (fun _ => ?_) (fun _ => ?_)
    · intro e; cases e
    extract_lets +onlyGivenNames pk3 mode
    refine fc11_ite_code (fun _ => ?_) (fun _ => fc11_ite_code (fun _ => fc11_ackRes_code _ _ _ _ _) (fun _ => ?_))
    · intro e; cases e
    extract_lets +onlyGivenNames pk4 s3
    refine fc11_ite_code (fun _ => ?_) (fun _ => ?_)
    · intro e; cases e
    extract_lets +onlyGivenNames s4 ackT ackRC ack
    split
    rename_i c5 isNew heq5
    extract_lets +onlyGivenNames s5 src s6
    refine fc11_ite_code (fun _ => ?_) (fun _ => ?_)
    · intro e; cases e
    · intro e; cases e

/-- **C11, 0x93 only at the limit**: on the class of `C11_recv_quota_accounting_partial`, if handling a PUBLISH for a
    registered client ends with reason code 0x93 (the code `receivePacket` then sends in the DISCONNECT), the client's
    receive quota is 0 and it really has `maxRecv` inbound exchanges open — the model counterpart of the harness's
    inbound oracle. -/
theorem C11_0x93_only_at_limit_partial (caps : Caps) (ops : List Op) (h : fc11OpsOK fc11RecvP (init caps) ops)
    (cid : Str) (i : Nat) (hreg : (cid, i) ∈ (run (init caps) ops).clients)
    (qos : Nat) (dup retain : Bool) (id : Nat) (topic payload : Str) (msgExpiry : Nat) (alias : Option Nat)
    (h93 : (processPublish (run (init caps) ops) i qos dup retain id topic payload msgExpiry alias).2.2 = some 0x93) :
    (getObj (run (init caps) ops) i).recvQuota = 0 ∧
    inboundOpen (getObj (run (init caps) ops) i) = (getObj (run (init caps) ops) i).maxRecv := by
  have h0 := fc11_processPublish_0x93 _ _ _ _ _ _ _ _ _ _ h93
  have hacc := C11_recv_quota_accounting_partial caps ops h cid i hreg
  rw [h0] at hacc
  exact ⟨h0, by simpa using hacc⟩

/-! ### the send side -/

/-- **C11, send side (all 12 op kinds, all histories of the class)**: every registered client with a Receive Maximum
    (`maxSend > 0`) has `sendQuota + (outbound records of type 3/6 that are not deferred) = maxSend` -/
theorem C11_send_quota_accounting_partial (caps : Caps) (ops : List Op)
    (h : fc11OpsOK fc11SendP (init caps) ops) :
    ∀ id k, (id, k) ∈ (run (init caps) ops).clients → 0 < (getObj (run (init caps) ops) k).maxSend →
      (getObj (run (init caps) ops) k).sendQuota + outboundOpen (getObj (run (init caps) ops) k)
        = (getObj (run (init caps) ops) k).maxSend :=
  fun id k hm => (fc11_run fc11SendP_laws _ ops (WF_init caps) (fc11_init fc11SendP_laws caps) h k ⟨id, hm⟩).1

theorem C11_send_quota_accounting_step (s : Server) (op : Op) (hwf : WF s) (hf : OpFresh s op) (hst : Fc11Store s)
    (hg : fc11OpOK fc11SendP s op) (h : Fc11Inv fc11SendP s) : Fc11Inv fc11SendP (step s op).1 :=
  fc11_step fc11SendP_laws s op hwf hf hst hg h

/-- **C11, no send beyond the quota**: on the send-side class (a) the unacknowledged, non-deferred outbound records of
    a registered client never exceed its Receive Maximum, and no record is marked deferred while send quota is left;
    (b) a delivery of a QoS > 0 message to a client whose send quota is 0 writes no packet at all (it is stored as
    deferred) — so a new PUBLISH is written only if the send quota was positive (or `maxSend = 0`: no limit). -/
theorem C11_no_send_beyond_quota_partial (caps : Caps) (ops : List Op)
    (h : fc11OpsOK fc11SendP (init caps) ops) :
    (∀ id k, (id, k) ∈ (run (init caps) ops).clients → 0 < (getObj (run (init caps) ops) k).maxSend →
      outboundOpen (getObj (run (init caps) ops) k) ≤ (getObj (run (init caps) ops) k).maxSend ∧
      (0 < (getObj (run (init caps) ops) k).sendQuota →
        ∀ m ∈ (getObj (run (init caps) ops) k).inflight, 0 ≤ m.expiry)) ∧
    (∀ i sub f pk, (getObj (run (init caps) ops) i).sendQuota = 0 → 0 < (getObj (run (init caps) ops) i).maxSend →
      shapeQos (run (init caps) ops).caps sub pk.qos > 0 →
      ∀ conn w, Out.wrote conn w ∉ (publishToClientCore (run (init caps) ops) i sub f pk).2) := by
  refine ⟨fun id k hm hpos => ?_, fun i sub f pk h0 hm hq => fc11_core_defers _ i sub f pk h0 hm hq⟩
  have hP := fc11_run fc11SendP_laws _ ops (WF_init caps) (fc11_init fc11SendP_laws caps) h k ⟨id, hm⟩
  have := hP.1 hpos
  exact ⟨by omega, hP.2 hpos⟩

/-! ### non-vacuity and the excluded classes (each by `decide`)

Client 1 = `s` (`[115]`, Receive Maximum 2, subscribed to `t` at QoS 2), client 2 = `p` (`[112]`). -/

/-- in both classes: QoS 2 publish + duplicate (answered 0x91) + PUBREL, QoS 1 publishes, deferral at send quota 0,
    a parked and released CONNECT, housekeeping ticks, an inline publish, a parked drop and its release, a drop -/
def fc11DemoBoth : List Op :=
  [.connect 1 { ver := 5, id := [115], rm := some 2 },
   .recv 1 (.subscribe 1 0 [{ filter := [116], qos := 2 }]),
   .connectHold 2 { ver := 5, id := [112] } 1,
   .release 2,
   .recv 2 (.publish 2 false false 1 [116] [97] 0 none),
   .recv 2 (.publish 1 false false 2 [116] [98] 0 none),
   .recv 2 (.publish 2 false false 1 [116] [97] 0 none),
   .recv 2 (.pubrel 1 0),
   .recv 2 (.publish 1 false false 3 [116] [99] 0 none),
   .tick "clients" (NOW + 5),
   .tick "inflight" (NOW + 5),
   .inlinePublish [116] [99] false 1,
   .dropHold 1, .release 1,
   .drop 2]

set_option maxRecDepth 100000 in
example : fc11OpsOK fc11RecvP (init {}) fc11DemoBoth ∧ fc11OpsOK fc11SendP (init {}) fc11DemoBoth := by decide

set_option maxRecDepth 100000 in
/-- mid-history (after the ninth op): the publisher's exchange is closed again, the subscriber holds two sent and one
    deferred message at send quota 0 of 2 -/
example :
    let s := run (init {}) (fc11DemoBoth.take 9)
    ((getObj s 1).sendQuota, outboundOpen (getObj s 1), (getObj s 1).maxSend, (getObj s 1).inflight.length,
     (getObj s 2).recvQuota, inboundOpen (getObj s 2)) = (0, 2, 2, 3, 1024, 0) := by decide

set_option maxRecDepth 100000 in
/-- after the fifth op the publisher has one inbound exchange open: 1023 + 1 = 1024 -/
example :
    let s := run (init {}) (fc11DemoBoth.take 5)
    ((getObj s 2).recvQuota, inboundOpen (getObj s 2), (getObj s 2).maxRecv) = (1023, 1, 1024) := by decide

/-- an outbound QoS 2 exchange acknowledged by PUBREC / PUBCOMP is in the SEND class … -/
def fc11DemoOut : List Op :=
  [.connect 1 { ver := 5, id := [115], rm := some 2 },
   .recv 1 (.subscribe 1 0 [{ filter := [116], qos := 2 }]),
   .connect 2 { ver := 5, id := [112] },
   .recv 2 (.publish 1 false false 1 [116] [97] 0 none),
   .recv 2 (.publish 2 false false 2 [116] [98] 0 none),
   .recv 1 (.pubrec 2 0),
   .recv 1 (.pubcomp 2 0),
   .recv 1 (.puback 1 0)]

set_option maxRecDepth 100000 in
example : fc11OpsOK fc11SendP (init {}) fc11DemoOut := by decide

set_option maxRecDepth 100000 in
/-- … but not in the RECEIVE class (F11a: `processPubrec` decrements the RECEIVE quota of the subscriber, which has no
    inbound exchange open: 1023 + 0 ≠ 1024; Go: server.go `processPubrec` → `cl.State.Inflight.DecreaseReceiveQuota()`);
    PUBCOMP gives the unit back -/
theorem C11_recv_counterexample_outbound_qos2 :
    ¬ fc11OpsOK fc11RecvP (init {}) (fc11DemoOut.take 6) ∧
    (let s := run (init {}) (fc11DemoOut.take 6)
     ((getObj s 1).recvQuota, inboundOpen (getObj s 1), (getObj s 1).maxRecv) = (1023, 0, 1024)) ∧
    (let s := run (init {}) (fc11DemoOut.take 7)
     ((getObj s 1).recvQuota, inboundOpen (getObj s 1), (getObj s 1).maxRecv) = (1024, 0, 1024)) := by decide

set_option maxRecDepth 100000 in
/-- excluded, receive side: a session resumed with an open inbound exchange gets a full receive quota on top of the
    inherited record (F11c; Go: `inheritClientSession` → `ResetReceiveQuota`): 1024 + 1 ≠ 1024 -/
theorem C11_recv_counterexample_resumption :
    let ops : List Op :=
      [.connect 1 { ver := 5, id := [112], clean := false, sei := some 100 },
       .recv 1 (.publish 2 false false 1 [116] [97] 0 none),
       .drop 1,
       .connect 2 { ver := 5, id := [112], clean := false, sei := some 100 }]
    fc11OpsOK fc11RecvP (init {}) (ops.take 3) ∧ ¬ fc11OpsOK fc11RecvP (init {}) ops ∧
    ([112], 2) ∈ (run (init {}) ops).clients ∧
    ((getObj (run (init {}) ops) 2).recvQuota, inboundOpen (getObj (run (init {}) ops) 2)) = (1024, 1) := by decide

set_option maxRecDepth 100000 in
/-- excluded, receive side: a PUBREL with an error reason code deletes the record of the inbound exchange without
    returning the quota unit (Go: `processPubrel`, the `ReasonCode >= ErrUnspecifiedError.Code` branch): 1023 + 0 -/
theorem C11_recv_counterexample_pubrel_error :
    let ops : List Op :=
      [.connect 1 { ver := 5, id := [112] },
       .recv 1 (.publish 2 false false 1 [116] [97] 0 none),
       .recv 1 (.pubrel 1 0x92)]
    fc11OpsOK fc11RecvP (init {}) (ops.take 2) ∧ ¬ fc11OpsOK fc11RecvP (init {}) ops ∧
    ((getObj (run (init {}) ops) 1).recvQuota, inboundOpen (getObj (run (init {}) ops) 1)) = (1023, 0) := by decide

set_option maxRecDepth 100000 in
/-- excluded, receive side: in-flight housekeeping expires the record of an open inbound exchange without returning
    the quota unit (Go: `ClearExpiredInflights`) -/
theorem C11_recv_counterexample_inflight_expiry :
    let ops : List Op :=
      [.connect 1 { ver := 5, id := [112] },
       .recv 1 (.publish 2 false false 1 [116] [97] 0 none),
       .tick "inflight" (NOW + 100000)]
    fc11OpsOK fc11RecvP (init {}) (ops.take 2) ∧ ¬ fc11OpsOK fc11RecvP (init {}) ops ∧
    ((getObj (run (init {}) ops) 1).recvQuota, inboundOpen (getObj (run (init {}) ops) 1)) = (1023, 0) := by decide

set_option maxRecDepth 100000 in
/-- excluded, receive side: a PUBCOMP (any packet id — `processPubcomp` does not look the record up) raises the receive
    quota while an inbound exchange is open (F11b): 1024 + 1 -/
theorem C11_recv_counterexample_pubcomp :
    let ops : List Op :=
      [.connect 1 { ver := 5, id := [112] },
       .recv 1 (.publish 2 false false 1 [116] [97] 0 none),
       .recv 1 (.pubcomp 7 0)]
    fc11OpsOK fc11RecvP (init {}) (ops.take 2) ∧ ¬ fc11OpsOK fc11RecvP (init {}) ops ∧
    ((getObj (run (init {}) ops) 1).recvQuota, inboundOpen (getObj (run (init {}) ops) 1)) = (1024, 1) := by decide

set_option maxRecDepth 100000 in
/-- the LITERAL candidate (type 5 records only) fails where `RecvAcc` holds: a QoS 1 publish whose PUBACK cannot be
    written (the peer is gone) leaves the type 4 record and the decremented quota (Go: `processPublish` returns the
    `WritePacket` error before `IncreaseReceiveQuota`). The history is in the class; `inboundOpen` counts the record. -/
theorem C11_recv_literal_candidate_counterexample :
    let ops : List Op :=
      [.connect 1 { ver := 5, id := [112], sei := some 100 },
       .recvCut 1 (.publish 1 false false 1 [116] [97] 0 none)]
    fc11OpsOK fc11RecvP (init {}) ops ∧ ([112], 1) ∈ (run (init {}) ops).clients ∧
    ((getObj (run (init {}) ops) 1).recvQuota, inboundOpen5 (getObj (run (init {}) ops) 1),
     inboundOpen (getObj (run (init {}) ops) 1), (getObj (run (init {}) ops) 1).maxRecv) = (1023, 0, 1, 1024) := by
  decide

set_option maxRecDepth 100000 in
/-- excluded, send side (F11b): the PUBREL that completes an INBOUND QoS 2 exchange raises the SEND quota while the
    client's outbound message is still unacknowledged: 2 + 1 ≠ 2 (Go: `processPubrel` → `IncreaseSendQuota`) -/
theorem C11_send_counterexample_inbound_qos2 :
    let ops : List Op :=
      [.connect 1 { ver := 5, id := [115], rm := some 2 },
       .recv 1 (.subscribe 1 0 [{ filter := [116], qos := 1 }]),
       .recv 1 (.publish 2 false false 7 [116] [97] 0 none),
       .recv 1 (.pubrel 7 0)]
    fc11OpsOK fc11SendP (init {}) (ops.take 3) ∧ ¬ fc11OpsOK fc11SendP (init {}) ops ∧
    fc11OpsOK fc11RecvP (init {}) ops ∧
    ((getObj (run (init {}) ops) 1).sendQuota, outboundOpen (getObj (run (init {}) ops) 1),
     (getObj (run (init {}) ops) 1).maxSend) = (2, 1, 2) := by decide

set_option maxRecDepth 100000 in
/-- excluded, send side (F09): an acknowledgement frees send quota while a message is deferred; `nextImmediate` writes
    the deferred message, DELETES its record and takes the quota unit: 0 + 1 ≠ 2, and the sent message is untracked -/
theorem C11_send_counterexample_deferred_release :
    let ops : List Op := fc11DemoOut.take 5 ++
      [.recv 2 (.publish 1 false false 3 [116] [99] 0 none), .recv 1 (.puback 1 0)]
    fc11OpsOK fc11SendP (init {}) (ops.take 6) ∧ ¬ fc11OpsOK fc11SendP (init {}) ops ∧
    ((getObj (run (init {}) ops) 1).sendQuota, outboundOpen (getObj (run (init {}) ops) 1),
     (getObj (run (init {}) ops) 1).maxSend, (getObj (run (init {}) ops) 1).inflight.map (·.id)) = (0, 1, 2, [2]) := by
  decide

set_option maxRecDepth 100000 in
/-- excluded, send side: a PUBREC with an error reason code deletes the outbound record without returning the quota
    unit (Go: `processPubrec`, error branch): 1 + 0 ≠ 2 -/
theorem C11_send_counterexample_pubrec_error :
    let ops : List Op :=
      [.connect 1 { ver := 5, id := [115], rm := some 2 },
       .recv 1 (.subscribe 1 0 [{ filter := [116], qos := 2 }]),
       .connect 2 { ver := 5, id := [112] },
       .recv 2 (.publish 2 false false 2 [116] [98] 0 none),
       .recv 1 (.pubrec 1 0x80)]
    fc11OpsOK fc11SendP (init {}) (ops.take 4) ∧ ¬ fc11OpsOK fc11SendP (init {}) ops ∧
    ((getObj (run (init {}) ops) 1).sendQuota, outboundOpen (getObj (run (init {}) ops) 1),
     (getObj (run (init {}) ops) 1).maxSend) = (1, 0, 2) := by decide

set_option maxRecDepth 100000 in
/-- excluded, send side (F11c): a resumed session gets a full send quota and every stored message resent: 2 + 1 ≠ 2 -/
theorem C11_send_counterexample_resumption :
    let ops : List Op :=
      [.connect 1 { ver := 5, id := [115], rm := some 2, clean := false, sei := some 100 },
       .recv 1 (.subscribe 1 0 [{ filter := [116], qos := 1 }]),
       .inlinePublish [116] [99] false 1,
       .drop 1,
       .connect 2 { ver := 5, id := [115], rm := some 2, clean := false, sei := some 100 }]
    fc11OpsOK fc11SendP (init {}) (ops.take 4) ∧ ¬ fc11OpsOK fc11SendP (init {}) ops ∧
    ((getObj (run (init {}) ops) 2).sendQuota, outboundOpen (getObj (run (init {}) ops) 2),
     (getObj (run (init {}) ops) 2).maxSend) = (2, 1, 2) := by decide

end Mochi.Broker
