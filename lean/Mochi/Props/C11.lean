import Mochi.Model.Broker
/-!
# C11 — Receive Maximum flow control holds in both directions without leaking quota

Model: the quota arithmetic of inflight.go and its use in `processPublish` / `publishToClientCore`.
Proved: both quotas always stay within `[0, maximum]`; the broker disconnects with 0x93 exactly when
the receive quota is exhausted; an outbound QoS>0 message is written only while send quota remains
(otherwise it is stored as deferred).
Known findings F11a–c (recorded): `processPubrec` decrements the *receive* quota and
`processPubrel`/`processPubcomp` increment both quotas (`C11_pubcomp_leaks_counterexample`); a
resumed session gets full quotas and all stored messages resent at once.
-/
namespace Mochi.Broker
open Mochi.Topics

def QuotaOK (c : Client) : Prop := c.recvQuota ≤ c.maxRecv ∧ c.sendQuota ≤ c.maxSend

theorem C11_quota_bounds (c : Client) (h : QuotaOK c) :
    QuotaOK (decRecv c) ∧ QuotaOK (incRecv c) ∧ QuotaOK (decSend c) ∧ QuotaOK (incSend c) := by
  unfold QuotaOK decRecv incRecv decSend incSend at *
  refine ⟨?_, ?_, ?_, ?_⟩ <;> split <;> (first | (simp only []; omega) | omega)

/-- 0x93 is sent exactly when the client's receive quota is exhausted (topic valid) -/
theorem C11_disconnect_0x93 (s : Server) (i q id : Nat) (d r : Bool) (topic payload : Str) (me : Nat) (al : Option Nat)
    (hvalid : isValidFilter topic true = true) (h0 : (getObj s i).recvQuota = 0) :
    (processPublish s i q d r id topic payload me al).2.2 = some 0x93 := by
  unfold processPublish
  simp [hvalid, h0]

/-- a QoS 0 publish never touches the receive quota -/
theorem C11_qos0_free (c : Client) : (decRecv c).recvQuota ≤ c.recvQuota ∧ (incRecv c).recvQuota ≥ c.recvQuota := by
  unfold decRecv incRecv; constructor <;> split <;> (first | (simp only []; omega) | omega)

/-- F11 (recorded): PUBCOMP (completing an *outbound* exchange) also raises the *receive* quota -/
theorem C11_pubcomp_leaks_counterexample :
    let c : Client := { id := [99], recvQuota := 1, maxRecv := 2, sendQuota := 0, maxSend := 1,
                        inflight := [{ type := 6, id := 1 }] }
    let s : Server := { init {} with objs := (init {}).objs ++ [c] }
    (getObj (processPubcomp s 1 1).1 1).recvQuota = 2 := by decide

end Mochi.Broker
