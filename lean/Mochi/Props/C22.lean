import Mochi.Lemmas.Storage
/-!
# C22 — All bundled storage backends behave identically

*For any sequence of storage hook events, the badger, pebble, bolt and redis backends return the same
clients, subscriptions, retained messages, in-flight messages and system info when the stored state is
read back, up to ordering.*

Model: `Mochi.Storage` (Model/Storage.lean): the hook methods of hooks/storage/{badger,pebble,bolt,redis}
as key-value writes over `KV`, per backend (`Backend` = the facts in which the four sources differ), and
the `Stored*` read-backs. `run b evs` is the store of backend `b` after the events `evs`;
`readback b kv` is everything `readStore` obtains.

"Up to ordering": the model's read-backs list the records in store order, and all theorems below give
*equality of these lists*, which is stronger than equality up to a permutation.
"Modulo the key namespace": the `ID` field of a stored subscription / message holds the physical key
string (`SUB_a:c` on the single-keyspace engines, `a:c` in redis' `mochi-SUB` hash);
`ReadBack.eraseIds` forgets exactly that field, and `C22_ids_are_keys` shows it carries nothing but the key.

Status: **false** for the pinned tree between {badger, pebble} and {bolt, redis} — see the
`_counterexample` theorems (replayed on the real engines by the `storage` suite, signatures
`F22-packet_id-*`, `F22-disconnect-*`) — and true within each group.
-/
namespace Mochi.Storage

/-- **General.** Two backend descriptions that interpret every event of a sequence alike (over logical keys)
    return the same read-back after that sequence, whatever their key namespaces. -/
theorem C22_same_interpretation_same_readback (a b : Backend) (evs : List Event)
    (h : ∀ e ∈ evs, interpL a.facts e = interpL b.facts e) :
    (readback a (run a evs)).eraseIds = (readback b (run b evs)).eraseIds := by
  rw [readback_logical, readback_logical, runL_congr _ _ evs h]

/-- **General (fact records).** Backends with equal fact records behave identically on every event sequence. -/
theorem C22_equal_facts_equal_behaviour (a b : Backend) (h : a.facts = b.facts) (evs : List Event) :
    (readback a (run a evs)).eraseIds = (readback b (run b evs)).eraseIds :=
  C22_same_interpretation_same_readback a b evs (fun e _ => by rw [h])

/-- the erased `id` of a stored subscription is the physical key string: nothing else is forgotten -/
theorem C22_ids_are_keys (b : Backend) (e : Event) (k : PKey) (r : Record) (h : Write.set k r ∈ interp b e) :
    (∀ s, r = .sub s → s.id = k.key) ∧ (∀ m, r = .msg m → m.id = k.key) := by
  cases e with
  | established cl => simp [interp, updateClient] at h; obtain ⟨_, rfl⟩ := h; simp
  | willSent cl => simp [interp, updateClient] at h; obtain ⟨_, rfl⟩ := h; simp
  | clientExpired cl => simp [interp] at h
  | disconnect cl expire =>
    simp only [interp, onDisconnect, updateClient, List.mem_append] at h
    rcases h with h | h
    · split at h
      · simp at h; obtain ⟨_, rfl⟩ := h; simp
      · simp at h
    · split at h
      · simp at h
      · split at h <;> simp at h
  | subscribed cl fs codes =>
    simp only [interp, onSubscribed, List.mem_map] at h
    obtain ⟨fc, _, hw⟩ := h
    simp at hw; obtain ⟨rfl, rfl⟩ := hw
    simp [subRecord]
  | unsubscribed cl fs => simp [interp, onUnsubscribed] at h
  | retain cl pk del =>
    simp only [interp, onRetainMessage] at h
    split at h
    · simp at h
    · simp at h; obtain ⟨rfl, rfl⟩ := h; simp [msgRecord]
  | retainedExpired topic => simp [interp] at h
  | qosPublish cl pk sent resends =>
    simp [interp, onQosPublish] at h; obtain ⟨rfl, rfl⟩ := h; simp [msgRecord]
  | qosComplete cl pk => simp [interp, onQosComplete] at h
  | qosDropped cl pk => simp [interp, onQosComplete] at h
  | sysInfo info => simp [interp, onSysInfoTick] at h; obtain ⟨_, rfl⟩ := h; simp

/-! ## badger = pebble (identical hook bodies, identical keys) -/

theorem interp_badger_pebble (e : Event) : interp badger e = interp pebble e := by
  cases e <;> rfl

/-- **badger and pebble return exactly the same read-back after every event sequence.** -/
theorem C22_badger_pebble_equal (evs : List Event) : readback badger (run badger evs) = readback pebble (run pebble evs) := by
  rw [run_congr badger pebble evs (fun e _ => interp_badger_pebble e)]
  rfl

/-! ## bolt = redis modulo the key namespace -/

/-- **bolt and redis return the same read-back after every event sequence** (ids modulo the key namespace). -/
theorem C22_bolt_redis_equal (evs : List Event) :
    (readback bolt (run bolt evs)).eraseIds = (readback redis (run redis evs)).eraseIds :=
  C22_equal_facts_equal_behaviour bolt redis rfl evs

/-! ## {badger, pebble} versus {bolt, redis}: false, with the exact region where it holds -/

/-- the events on which the four hook implementations agree: anything but `OnDisconnect`
    (badger/pebble rewrite the client record first, and test the take-over cause with `errors.Is`),
    and `OnQosPublish` only for packet id 0 (bolt/redis do not store `PacketID`) -/
def agreeable : Event → Bool
  | .disconnect _ _ => false
  | .qosPublish _ pk _ _ => pk.pid == 0
  | _ => true

theorem interpL_agreeable (f g : Facts) (e : Event) (h : agreeable e = true) : interpL f e = interpL g e := by
  cases e with
  | disconnect cl expire => simp [agreeable] at h
  | qosPublish cl pk sent resends =>
    simp [agreeable] at h
    simp [interpL, h]
  | _ => rfl

/-- **Partial (all pairs).** On event sequences without `OnDisconnect` and with `OnQosPublish` only for packet id 0,
    any two of the four backends return the same read-back. -/
theorem C22_all_backends_partial (a b : Backend) (evs : List Event) (h : ∀ e ∈ evs, agreeable e = true) :
    (readback a (run a evs)).eraseIds = (readback b (run b evs)).eraseIds :=
  C22_same_interpretation_same_readback a b evs (fun e he => interpL_agreeable _ _ e (h e he))

theorem C22_badger_bolt_partial (evs : List Event) (h : ∀ e ∈ evs, agreeable e = true) :
    (readback badger (run badger evs)).eraseIds = (readback bolt (run bolt evs)).eraseIds :=
  C22_all_backends_partial badger bolt evs h

theorem C22_badger_redis_partial (evs : List Event) (h : ∀ e ∈ evs, agreeable e = true) :
    (readback badger (run badger evs)).eraseIds = (readback redis (run redis evs)).eraseIds :=
  C22_all_backends_partial badger redis evs h

theorem C22_pebble_bolt_partial (evs : List Event) (h : ∀ e ∈ evs, agreeable e = true) :
    (readback pebble (run pebble evs)).eraseIds = (readback bolt (run bolt evs)).eraseIds :=
  C22_all_backends_partial pebble bolt evs h

theorem C22_pebble_redis_partial (evs : List Event) (h : ∀ e ∈ evs, agreeable e = true) :
    (readback pebble (run pebble evs)).eraseIds = (readback redis (run redis evs)).eraseIds :=
  C22_all_backends_partial pebble redis evs h

/-- client `a` (MQTT 5, session expiry 60) -/
def wClient : Client := { id := [97], pv := 5, sei := 60, listener := [116] }
/-- a QoS 1 PUBLISH to topic `t` with packet id 7 -/
def wPublish : Packet := { topic := [116], payload := [112], qos := 1, type := 3, pid := 7, created := 1 }

/-- witness 1 (F22 packet id): one `OnQosPublish(a, pid 7)` -/
def witnessPacketId : List Event := [.qosPublish wClient wPublish 1 0]
/-- witness 2 (F22 disconnect): `OnDisconnect(a, expire=false)` of a client whose record was never written -/
def witnessDisconnect : List Event := [.disconnect wClient false]
/-- witness 3 (F22 disconnect, stale record): established with a will, then a clean DISCONNECT cleared the will -/
def witnessStaleWill : List Event :=
  [.established { wClient with will := { topic := [119], payload := [120], flag := 1 } }, .disconnect wClient false]

/-- badger stores packet id 7, bolt stores 0 -/
theorem C22_badger_bolt_counterexample :
    (readback badger (run badger witnessPacketId)).eraseIds ≠ (readback bolt (run bolt witnessPacketId)).eraseIds := by
  decide

theorem C22_badger_redis_counterexample :
    (readback badger (run badger witnessPacketId)).eraseIds ≠ (readback redis (run redis witnessPacketId)).eraseIds := by
  decide

theorem C22_pebble_bolt_counterexample :
    (readback pebble (run pebble witnessPacketId)).eraseIds ≠ (readback bolt (run bolt witnessPacketId)).eraseIds := by
  decide

theorem C22_pebble_redis_counterexample :
    (readback pebble (run pebble witnessPacketId)).eraseIds ≠ (readback redis (run redis witnessPacketId)).eraseIds := by
  decide

/-- `OnDisconnect` alone creates the client record in badger/pebble and nothing in bolt/redis -/
theorem C22_disconnect_counterexample :
    (readback badger (run badger witnessDisconnect)).clients.length = 1 ∧
    (readback pebble (run pebble witnessDisconnect)).clients.length = 1 ∧
    (readback bolt (run bolt witnessDisconnect)).clients = [] ∧
    (readback redis (run redis witnessDisconnect)).clients = [] := by
  decide

/-- after a clean DISCONNECT badger/pebble hold the will-less record, bolt/redis the stale one with the will -/
theorem C22_stale_will_counterexample :
    ((readback badger (run badger witnessStaleWill)).clients.map (·.will.flag)) = [0] ∧
    ((readback bolt (run bolt witnessStaleWill)).clients.map (·.will.flag)) = [1] ∧
    ((readback redis (run redis witnessStaleWill)).clients.map (·.will.flag)) = [1] := by
  decide

/-- a take-over cause wrapped by `fmt.Errorf("%w")`: badger/pebble (`errors.Is`) keep the record, bolt/redis (`==`) delete it -/
theorem C22_wrapped_takeover_counterexample :
    let evs : List Event := [.established wClient, .disconnect { wClient with stop := .wrappedTakenOver } true]
    (readback badger (run badger evs)).clients.length = 1 ∧ (readback bolt (run bolt evs)).clients = [] := by
  decide

/-! ## non-vacuity -/

/-- the partial theorem's hypothesis is satisfiable by a history that stores one record of every kind -/
example :
    let evs : List Event := [.established wClient, .subscribed wClient [{ filter := [99], qos := 1 }] [1],
      .retain wClient wPublish false, .qosPublish wClient { wPublish with pid := 0 } 1 0, .sysInfo { version := [50], nums := [1] }]
    (∀ e ∈ evs, agreeable e = true) ∧
    (readback redis (run redis evs)).clients.length = 1 ∧ (readback redis (run redis evs)).subs.length = 1 ∧
    (readback redis (run redis evs)).retained.length = 1 ∧ (readback redis (run redis evs)).inflight.length = 1 ∧
    (readback redis (run redis evs)).sys.info.version = [50] := by
  decide

/-- the ids differ between the namespaces exactly by the kind prefix -/
example : ((readback bolt (run bolt [.subscribed wClient [{ filter := [99] }] [0]])).subs.map (·.id)) = [[83, 85, 66, 95, 97, 58, 99]] ∧
          ((readback redis (run redis [.subscribed wClient [{ filter := [99] }] [0]])).subs.map (·.id)) = [[97, 58, 99]] := by
  decide

end Mochi.Storage
