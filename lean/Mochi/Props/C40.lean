import Mochi.Model.Broker
import Mochi.Props.C01
import Mochi.Lemmas.BrokerShared
import Mochi.Props.C06
/-!
# C40 — The inline client API behaves like a regular subscriber and publisher

Model: `Op.inlinePublish` / `inlineSubscribe` / `inlineUnsubscribe` (server.go `Publish`, `Subscribe`,
`Unsubscribe`) over the topic index.  Which subscriptions a topic selects — including inline
subscriptions whose trailing `#` matches the parent level — is C01 (`C01_inline_exact`, proved for
every history); which retained messages a filter selects is C02.
Proved here: an inline subscription receives the retained matches at subscribe time; unsubscribing
one identifier leaves the other identifiers at that filter in place; the per-client delivered QoS is
`min(requested, subscription, server maximum)` (C04).
Second part (lemmas: `Mochi/Lemmas/BrokerShared.lean`): which inline subscriptions a publish reaches —
`inline_delivery_exact` (exactly the identifiers holding an index entry whose filter `specMatch`es the topic, once
each), the inline publish op (`C40_inline_publish_reaches_exactly`: exactly the entitled connections AND exactly the
matching inline subscriptions) and `C40_inline_unsubscribe_only_that_id`.
-/
namespace Mochi.Broker
open Mochi.Topics

/-- an inline subscription first receives the matching retained messages (as the index selects them) -/
theorem C40_subscribe_gets_retained (s : Server) (id : Nat) (filter : Str) (h : isValidFilter filter false = true) :
    (step s (.inlineSubscribe id filter)).2 =
      (permuteBy s.permSeed (messages (inlineSubscribe s.topics id { filter := filter, ident := id }).1 filter)).map
        (fun r => Out.inline id r.topic r.payload) := by
  simp [step, h]

/-- an invalid filter is refused and changes nothing -/
theorem C40_invalid_filter (s : Server) (id : Nat) (filter : Str) (h : isValidFilter filter false = false) :
    step s (.inlineSubscribe id filter) = (s, []) := by
  simp [step, h]

/-- `a/#` as an inline subscription is selected for topic `a` (the repaired parent-level case), and
    unsubscribing identifier 1 leaves identifier 2 subscribed -/
example : ((subscribers (inlineSubscribe (init {}).topics 7 { filter := [97, 47, 35], ident := 7 }).1 [97]).inline.map Prod.fst) = [7] := by
  decide
example :
    let t1 := (inlineSubscribe (init {}).topics 1 { filter := [97], ident := 1 }).1
    let t2 := (inlineSubscribe t1 2 { filter := [97], ident := 2 }).1
    let t3 := (inlineUnsubscribe t2 1 [97]).1
    ((subscribers t3 [97]).inline.map Prod.fst) = [2] := by decide

/-! ## Which inline subscriptions a publish reaches

`InlineMatching x topic id`: a particle whose address `q` `specMatch`es the topic holds an inline subscription of
`id` (`inlineAt x q id`); `q` is the list of levels of the filter `id` subscribed under. -/

/-- **an inline publish reaches exactly the entitled connections and exactly the matching inline subscriptions.**
    `s`: any state satisfying the all-history invariants (every `ReachSeq` state).  The op
    `step s (.inlinePublish topic payload retain qos)` (`Server.Publish`), accepted (`AcceptedInline`), QoS 0 after
    shaping, no shared subscription matching the topic (the hypotheses of `inline_publish_delivery_exact`):

    1. a PUBLISH is written to exactly the entitled connections, once each, and every output is an inline delivery
       of `(topic, payload)` or a copy of the message (`DeliversExactly` = `inline_publish_delivery_exact`);
    2. `Out.inline id t p` is among the outputs **iff** `t = topic`, `p = payload` and inline subscription `id`
       holds an index entry whose filter `specMatch`es the topic (read in the state BEFORE the op);
    3. at most once per identifier. -/
theorem C40_inline_publish_reaches_exactly (s : Server) (hs : SyncInv s) (hw : WF s) (hcm : ConnMap s)
    (topic payload : Str) (retain : Bool) (qos : Nat) (h : AcceptedInline s topic)
    (hq : qos = 0 ∨ ∀ c sub, MatchingSub s.topics topic c sub → sub.qos = 0)
    (hsh : (subscribers s.topics topic).shared = []) :
    (∀ n, DeliversExactly s (inlineMsg s topic payload retain qos)
      (step s (.inlinePublish topic payload retain qos)).2 n) ∧
    (∀ id t p, Out.inline id t p ∈ (step s (.inlinePublish topic payload retain qos)).2 ↔
      t = topic ∧ p = payload ∧ InlineMatching s.topics topic id) ∧
    ∀ id, (step s (.inlinePublish topic payload retain qos)).2.count (Out.inline id topic payload) ≤ 1 := by
  refine ⟨fun n => inline_publish_delivery_exact s hs hw hcm topic payload retain qos h hq hsh n, ?_⟩
  have hnh := no_hash_level_of_noWild topic h.noWild
  have hsh' := (retainedState_shared s (inlineMsg s topic payload retain qos) hs.idx topic h.nonempty hnh).mpr hsh
  obtain ⟨is, _, _⟩ := retainedState_inv (inlineMsg s topic payload retain qos) hs hw hcm
  have hq' : (inlineMsg s topic payload retain qos).qos = 0 ∨
      ∀ c sub, MatchingSub (retainedState s (inlineMsg s topic payload retain qos)).topics topic c sub → sub.qos = 0 :=
    hq.imp (inlineMsg_fields s topic payload retain qos).2.2.2.2.2
      (fun g c sub hm => g c sub ((matchingSub_congr (retainedState_quiet s _).plain topic c sub).mp hm))
  rw [step_inlinePublish_accepted s topic payload retain qos h
    (hq'.imp id (merged_qos_zero _ is.idx topic h.nonempty hnh (C03_one_entry_per_client _ topic))) hsh']
  have key := fun id => inline_delivery_exact (retainedState s (inlineMsg s topic payload retain qos)) is.idx
    (inlineMsg s topic payload retain qos) rfl h.nonempty hnh id
  refine ⟨fun id t p => ?_, fun id => (key id).2⟩
  rw [(key id).1 t p, inlineMatching_retainedState]
  exact Iff.rfl

/-- the same for a QoS 0 inline publish with NO hypothesis on shared subscriptions; the entitlement
    (`EntitledShared`: plain entry or picked member of a candidate entry, C06) is read in the state in which the
    message is routed — `retainedState`: the state before the op with the retained store updated if `retain` -/
theorem C40_inline_publish_reaches_exactly_shared (s : Server) (hs : SyncInv s) (hw : WF s) (hcm : ConnMap s)
    (topic payload : Str) (retain : Bool) (h : AcceptedInline s topic) :
    (∀ n, ((∃ ver m mes, Out.wrote n (.publish ver m mes) ∈ (step s (.inlinePublish topic payload retain 0)).2) ↔
        EntitledShared (retainedState s (inlineMsg s topic payload retain 0)) (inlineMsg s topic payload retain 0) n) ∧
      ((step s (.inlinePublish topic payload retain 0)).2.filterMap pubConn).count n ≤ 1) ∧
    (∀ id t p, Out.inline id t p ∈ (step s (.inlinePublish topic payload retain 0)).2 ↔
      t = topic ∧ p = payload ∧ InlineMatching s.topics topic id) ∧
    ∀ id, (step s (.inlinePublish topic payload retain 0)).2.count (Out.inline id topic payload) ≤ 1 := by
  have hnh := no_hash_level_of_noWild topic h.noWild
  obtain ⟨is, iw, ic⟩ := retainedState_inv (inlineMsg s topic payload retain 0) hs hw hcm
  have hq0 : (inlineMsg s topic payload retain 0).qos = 0 := (inlineMsg_fields s topic payload retain 0).2.2.2.2.2 rfl
  rw [step_inlinePublish_accepted_shared s topic payload retain 0 h (Or.inl hq0)]
  have key := fun id => inline_delivery_exact (retainedState s (inlineMsg s topic payload retain 0)) is.idx
    (inlineMsg s topic payload retain 0) rfl h.nonempty hnh id
  refine ⟨fun n => ?_, fun id t p => ?_, fun id => (key id).2⟩
  · obtain ⟨h1, _, _, h4, _⟩ := publishToSubscribers_writes_exact_shared _ iw ic.distinct
      (inlineMsg s topic payload retain 0) rfl rfl hq0 n
    exact ⟨h1, h4⟩
  · rw [(key id).1 t p, inlineMatching_retainedState]
    exact Iff.rfl

/-- **unsubscribing one inline subscription stops delivery for that identifier (and that filter) only.**  `s`: a
    state with a structurally sound index (every reachable state); `t`: any later state whose index is that of
    `step s (.inlineUnsubscribe id f)` (`f` a valid filter).  For every message `pk` published in `t`:

    1. for every OTHER identifier `id'` the inline deliveries are those a publish in `s` produces — in particular
       `id'` still receives if it held a matching entry;
    2. `id` receives iff it holds ANOTHER entry (at an address other than that of `f`) whose filter matches. -/
theorem C40_inline_unsubscribe_only_that_id (s : Server) (hx : IdxOK s.topics) (id : Nat) (f : Str)
    (hv : isValidFilter f false = true) (t : Server) (ht : t.topics = (step s (.inlineUnsubscribe id f)).1.topics)
    (pk : Msg) (hig : pk.ignore = false) (hne : pk.topic ≠ []) (hnh : ∀ l ∈ splitLevels pk.topic, l ≠ [hash]) :
    (∀ id', id' ≠ id → ∀ tp p,
      (Out.inline id' tp p ∈ (publishToSubscribers t pk).2 ↔ Out.inline id' tp p ∈ (publishToSubscribers s pk).2)) ∧
    (∀ id', id' ≠ id → InlineMatching s.topics pk.topic id' →
      Out.inline id' pk.topic pk.payload ∈ (publishToSubscribers t pk).2) ∧
    (∀ tp p, Out.inline id tp p ∈ (publishToSubscribers t pk).2 ↔
      tp = pk.topic ∧ p = pk.payload ∧
        ∃ q sub, q ≠ splitLevels f ∧ inlineAt s.topics q id = some sub ∧ specMatch q pk.topic = true) := by
  have htop : t.topics = (inlineUnsubscribe s.topics id f).1 := by
    rw [ht]; simp [step, hv]
  have hxt : IdxOK t.topics := by rw [htop]; exact idxOK_inlineUnsubscribe _ hx _ _
  have hat : ∀ q id', inlineAt t.topics q id' =
      if q = splitLevels f ∧ id' = id then none else inlineAt s.topics q id' := by
    intro q id'
    rw [htop, inlineAt_inlineUnsubscribe _ hx.pc, plainPath_eq]
  have hother : ∀ id', id' ≠ id → (InlineMatching t.topics pk.topic id' ↔ InlineMatching s.topics pk.topic id') := by
    intro id' hne'
    unfold InlineMatching
    simp only [hat, hne', and_false, if_false]
  have h1 : ∀ id', id' ≠ id → ∀ tp p,
      (Out.inline id' tp p ∈ (publishToSubscribers t pk).2 ↔ Out.inline id' tp p ∈ (publishToSubscribers s pk).2) := by
    intro id' hne' tp p
    rw [(inline_delivery_exact t hxt pk hig hne hnh id').1, (inline_delivery_exact s hx pk hig hne hnh id').1,
      hother id' hne']
  refine ⟨h1, ?_, ?_⟩
  · intro id' hne' hm
    exact (h1 id' hne' _ _).mpr (((inline_delivery_exact s hx pk hig hne hnh id').1 _ _).mpr ⟨rfl, rfl, hm⟩)
  · intro tp p
    rw [(inline_delivery_exact t hxt pk hig hne hnh id).1]
    unfold InlineMatching
    constructor
    · rintro ⟨a, b, q, sub, hq, hsm⟩
      rw [hat] at hq
      by_cases hqf : q = splitLevels f
      · rw [if_pos ⟨hqf, rfl⟩] at hq; cases hq
      · rw [if_neg (fun h => hqf h.1)] at hq
        exact ⟨a, b, q, sub, hqf, hq, hsm⟩
    · rintro ⟨a, b, q, sub, hqf, hq, hsm⟩
      refine ⟨a, b, q, sub, ?_, hsm⟩
      rw [hat, if_neg (fun h => hqf h.1)]
      exact hq

/-! ### Non-vacuity: `c06State` (`Mochi/Props/C06.lean`) — inline subscriber 7 on `a/b`, inline subscriber 9 on `a/#`,
three plain subscribers, two share groups -/

/-- both inline subscribers hold an entry matching `a/b` … -/
theorem c06_inline_matching : InlineMatching c06State.topics [97, 47, 98] 7 ∧ InlineMatching c06State.topics [97, 47, 98] 9 :=
  ⟨⟨[[97], [98]], { filter := [97, 47, 98], ident := 7 }, by decide, by decide⟩,
   ⟨[[97], [35]], { filter := [97, 47, 35], ident := 9 }, by decide, by decide⟩⟩

/-- … the inline publish of `a/b` (QoS 0) is accepted … -/
theorem c06_inline_accepted (p o : Nat) : AcceptedInline (withSeeds c06State p o) [97, 47, 98] :=
  ⟨(by decide : (getObj c06State 0).inline = true), by decide, by decide,
   (by decide : (getObj c06State 0).recvQuota ≠ 0), (by decide : assocGet c06State.pubHook [97, 47, 98] = none),
   (by decide : ∀ m ∈ (getObj c06State 0).inflight, 0 ≤ m.expiry)⟩

set_option maxRecDepth 4000 in
/-- … and reaches both, once each, besides the connections 2, 3 (`p`: the origin is the inline client), 1 of the plain
    subscribers, 8 (`m3`, group `h`) and 6 or 7 (`m1` or `m2`, group `g`, by `pickSeed`) -/
example :
    (step (withSeeds c06State 0 0) (.inlinePublish [97, 47, 98] [1] false 0)).2.filterMap pubConn = [2, 3, 1, 8, 6] ∧
    (step (withSeeds c06State 3 0) (.inlinePublish [97, 47, 98] [1] false 0)).2.filterMap pubConn = [2, 3, 1, 8, 7] ∧
    (step (withSeeds c06State 0 0) (.inlinePublish [97, 47, 98] [1] false 0)).2.filter isInlineOut =
      [Out.inline 7 [97, 47, 98] [1], Out.inline 9 [97, 47, 98] [1]] := by decide

/-- the theorem, instantiated (shared subscriptions match: the `_shared` form) -/
example (p o : Nat) : Out.inline 7 [97, 47, 98] [1] ∈ (step (withSeeds c06State p o) (.inlinePublish [97, 47, 98] [1] false 0)).2 ∧
    Out.inline 9 [97, 47, 98] [1] ∈ (step (withSeeds c06State p o) (.inlinePublish [97, 47, 98] [1] false 0)).2 ∧
    Out.inline 8 [97, 47, 98] [1] ∉ (step (withSeeds c06State p o) (.inlinePublish [97, 47, 98] [1] false 0)).2 := by
  have hr := (withSeeds_reach c06State_reach p o).inv
  have h := (C40_inline_publish_reaches_exactly_shared (withSeeds c06State p o) hr.1 hr.2.1 hr.2.2.1 [97, 47, 98] [1]
    false (c06_inline_accepted p o)).2.1
  refine ⟨(h 7 _ _).mpr ⟨rfl, rfl, c06_inline_matching.1⟩, (h 9 _ _).mpr ⟨rfl, rfl, c06_inline_matching.2⟩, ?_⟩
  intro hm
  obtain ⟨_, _, q, sub, hq, _⟩ := (h 8 _ _).mp hm
  unfold inlineAt at hq
  have hall : ∀ n ∈ c06State.topics.nodes, assocGet n.inline 8 = none := by decide
  cases hn : getNode c06State.topics.nodes q with
  | none =>
    have : getNode (withSeeds c06State p o).topics.nodes q = none := hn
    rw [this] at hq; cases hq
  | some n =>
    have : getNode (withSeeds c06State p o).topics.nodes q = some n := hn
    rw [this] at hq
    have := hall n (getNode_mem hn)
    simp only [Option.bind_some] at hq
    rw [this] at hq; cases hq

set_option maxRecDepth 4000 in
/-- after `InlineUnsubscribe(7, a/b)` a publish of `a/b` still reaches inline subscriber 9, and 7 no longer -/
example :
    (publishToSubscribers (step c06State (.inlineUnsubscribe 7 [97, 47, 98])).1 c03Msg).2.filter isInlineOut =
      [Out.inline 9 [97, 47, 98] [1]] := by decide

/-- the theorem, instantiated -/
example : Out.inline 9 [97, 47, 98] [1] ∈
    (publishToSubscribers (step c06State (.inlineUnsubscribe 7 [97, 47, 98])).1 c03Msg).2 :=
  (C40_inline_unsubscribe_only_that_id c06State c06State_reach.inv.1.idx 7 [97, 47, 98] (by decide) _ rfl c03Msg rfl
    (by decide) (by decide)).2.1 9 (by decide) c06_inline_matching.2

end Mochi.Broker

#print axioms Mochi.Broker.inline_delivery_exact
#print axioms Mochi.Broker.C40_inline_publish_reaches_exactly
#print axioms Mochi.Broker.C40_inline_publish_reaches_exactly_shared
#print axioms Mochi.Broker.C40_inline_unsubscribe_only_that_id
#print axioms Mochi.Broker.c06_inline_matching
#print axioms Mochi.Broker.c06_inline_accepted
