import Mochi.Model.Broker
import Mochi.Props.C01
/-!
# C40 — The inline client API behaves like a regular subscriber and publisher

Model: `Op.inlinePublish` / `inlineSubscribe` / `inlineUnsubscribe` (server.go `Publish`, `Subscribe`,
`Unsubscribe`) over the topic index.  Which subscriptions a topic selects — including inline
subscriptions whose trailing `#` matches the parent level — is C01 (`C01_inline_exact`, proved for
every history); which retained messages a filter selects is C02.
Proved here: an inline subscription receives the retained matches at subscribe time; unsubscribing
one identifier leaves the other identifiers at that filter in place; the per-client delivered QoS is
`min(requested, subscription, server maximum)` (C04).
-/
namespace Mochi.Broker
open Mochi.Topics

/-- an inline subscription first receives the matching retained messages (as the index selects them) -/
theorem C40_subscribe_gets_retained (s : Server) (id : Nat) (filter : Str) (h : isValidFilter filter false = true) :
    (step s (.inlineSubscribe id filter)).2 =
      (permuteBy s.permSeed (messages (inlineSubscribe s.topics id { filter := filter, ident := id }).1 filter)).map
        (fun r => Out.inline id r.topic r.payload) := by
  simp [step, h]

/-- an invalid filter is refused and changes nothing -/
theorem C40_invalid_filter (s : Server) (id : Nat) (filter : Str) (h : isValidFilter filter false = false) :
    step s (.inlineSubscribe id filter) = (s, []) := by
  simp [step, h]

/-- `a/#` as an inline subscription is selected for topic `a` (the repaired parent-level case), and
    unsubscribing identifier 1 leaves identifier 2 subscribed -/
example : ((subscribers (inlineSubscribe (init {}).topics 7 { filter := [97, 47, 35], ident := 7 }).1 [97]).inline.map Prod.fst) = [7] := by
  decide
example :
    let t1 := (inlineSubscribe (init {}).topics 1 { filter := [97], ident := 1 }).1
    let t2 := (inlineSubscribe t1 2 { filter := [97], ident := 2 }).1
    let t3 := (inlineUnsubscribe t2 1 [97]).1
    ((subscribers t3 [97]).inline.map Prod.fst) = [2] := by decide

end Mochi.Broker
