import Mochi.Lemmas.CodecNoPanic
/-!
# C27 — Packet decoding is total: no input makes it panic or overread

Model: `Mochi.Codec.decodeBody` and the decode helpers (packets/codec.go, properties.go, packets.go
after the repair "fix: SubscribeDecode reads the subscription options byte with a bounds check").
Every raw index or slice expression of the Go decoders is an explicit `DErr.panic` outcome of the
model (`sliceFrom`, `rawIndex`); the theorems say that outcome is unreachable — for **every** byte
string, every protocol version byte, every header byte and every (possibly wrong) remaining length.
-/
namespace Mochi.Codec

theorem decodePropsAt_spec (name : String) (pkt : Nat) (buf : Str) (off : Nat) (p0 : Props)
    (hoff : off ≤ buf.length) :
    NoPanic (decodePropsAt name pkt buf off p0) ∧
    ∀ p o, decodePropsAt name pkt buf off p0 = .ok (p, o) → off ≤ o ∧ o ≤ buf.length := by
  unfold decodePropsAt
  have hs : sliceFrom buf off = .ok (buf.drop off) := by unfold sliceFrom; simp [hoff]
  rw [hs]
  simp only [bind, Except.bind]
  have hp := propsDecode_spec pkt (buf.drop off) p0
  cases hd : propsDecode pkt (buf.drop off) p0 with
  | error e =>
    have := hp.1; rw [hd] at this
    cases e with
    | panic => exact absurd rfl this
    | code c => simp [wrapErr, err, NoPanic]
  | ok r =>
    obtain ⟨p, n⟩ := r
    have := hp.2 p n hd
    simp only [List.length_drop] at this
    simp only [wrapErr, pure, Except.pure]
    refine ⟨noPanic_ok _, ?_⟩
    intro p' o h
    injection h with h; injection h with _ h2; subst h2
    omega

/-- tactic: peel one `wrapErr n (helper …) >>= fun (v, off) => …` layer -/
macro "peel " np:term ", " ok:term : tactic =>
  `(tactic| (apply noPanic_bind _ _ (noPanic_wrap _ _ $np); rintro ⟨_, _⟩ h; have := $ok _ _ _ _ (wrap_ok _ _ _ h); simp only []))

theorem connectDecode_np (pk : Packet) (buf : Str) : NoPanic (connectDecode pk buf) := by
  unfold connectDecode
  apply noPanic_bind _ _ (noPanic_wrap _ _ (decodeBytes_np _ _))
  rintro ⟨pname, o1⟩ h1; have b1 := decodeBytes_ok _ _ _ _ (wrap_ok _ _ _ h1); simp only []
  apply noPanic_bind _ _ (noPanic_wrap _ _ (decodeByte_np _ _))
  rintro ⟨ver, o2⟩ h2; have b2 := decodeByte_ok _ _ _ _ (wrap_ok _ _ _ h2); simp only []
  apply noPanic_bind _ _ (noPanic_wrap _ _ (decodeByte_np _ _))
  rintro ⟨flags, o3⟩ h3; have b3 := decodeByte_ok _ _ _ _ (wrap_ok _ _ _ h3); simp only []
  apply noPanic_bind _ _ (noPanic_wrap _ _ (decodeUint16_np _ _))
  rintro ⟨ka, o4⟩ h4; have b4 := decodeUint16_ok _ _ _ _ (wrap_ok _ _ _ h4); simp only []
  -- v5 properties
  apply noPanic_bind (β := Packet)
    (x := (if (ver == 5) = true then _ else pure (_, o4) : Dec (Packet × Nat)))
  · split
    · apply noPanic_bind _ _ (decodePropsAt_spec _ _ _ _ _ b4.2).1
      rintro ⟨props, o5⟩ h5; exact noPanic_pure _
    · exact noPanic_pure _
  rintro ⟨pk5, o5⟩ h5
  have b5 : o5 ≤ buf.length := by
    split at h5
    · cases hd : decodePropsAt "ErrMalformedProperties" pk.fixedHeader.type buf o4 pk.properties with
      | error e => simp [hd, bind, Except.bind] at h5
      | ok r =>
        obtain ⟨p, o⟩ := r
        simp only [hd, bind, Except.bind, pure, Except.pure] at h5
        injection h5 with h5; injection h5 with _ h5b; subst h5b
        exact ((decodePropsAt_spec _ _ _ _ _ b4.2).2 p o hd).2
    · simp only [pure, Except.pure] at h5; injection h5 with h5; injection h5 with _ h5b; omega
  simp only []
  apply noPanic_bind _ _ (noPanic_wrap _ _ (decodeString_np _ _))
  rintro ⟨cid, o6⟩ h6; have b6 := decodeString_ok _ _ _ _ (wrap_ok _ _ _ h6); simp only []
  -- will block
  apply noPanic_bind (β := Packet)
  · split
    · apply noPanic_bind (β := Packet × Nat)
      · split
        · apply noPanic_bind _ _ (decodePropsAt_spec _ _ _ _ _ b6.2).1
          rintro ⟨wp, o7⟩ h7; exact noPanic_pure _
        · exact noPanic_pure _
      rintro ⟨pk7, o7⟩ h7
      simp only []
      apply noPanic_bind _ _ (noPanic_wrap _ _ (decodeString_np _ _))
      rintro ⟨wt, o8⟩ h8; simp only []
      apply noPanic_bind _ _ (noPanic_wrap _ _ (decodeBytes_np _ _))
      rintro ⟨wpl, o9⟩ h9; exact noPanic_pure _
    · exact noPanic_pure _
  rintro ⟨pk9, o9⟩ h9
  simp only []
  apply noPanic_bind (β := Packet)
  · split
    · split
      · exact noPanic_err _
      · apply noPanic_bind _ _ (noPanic_wrap _ _ (decodeBytes_np _ _))
        rintro ⟨u, o10⟩ h10; exact noPanic_pure _
    · exact noPanic_pure _
  rintro ⟨pk10, o10⟩ h10
  simp only []
  split
  · apply noPanic_bind _ _ (noPanic_wrap _ _ (decodeBytes_np _ _))
    rintro ⟨pw, o11⟩ h11; exact noPanic_pure _
  · exact noPanic_pure _

/-- result of the `if v5 then decodePropsAt … else pure` block stays in range -/
theorem propsBlock_spec (c : Bool) (pk : Packet) (buf : Str) (off : Nat) (hoff : off ≤ buf.length)
    (f : Props → Packet) (name : String) (pkt : Nat) (p0 : Props) :
    NoPanic (if c = true then (decodePropsAt name pkt buf off p0 >>= fun (x : Props × Nat) => pure (f x.1, x.2))
             else (pure (pk, off) : Dec (Packet × Nat))) ∧
    ∀ r o, (if c = true then (decodePropsAt name pkt buf off p0 >>= fun (x : Props × Nat) => pure (f x.1, x.2))
             else (pure (pk, off) : Dec (Packet × Nat))) = .ok (r, o) → off ≤ o ∧ o ≤ buf.length := by
  have hp := decodePropsAt_spec name pkt buf off p0 hoff
  split
  · constructor
    · apply noPanic_bind _ _ hp.1
      rintro ⟨props, o5⟩ h5; exact noPanic_pure _
    · intro r o h
      cases hd : decodePropsAt name pkt buf off p0 with
      | error e => simp [hd, bind, Except.bind] at h
      | ok x =>
        obtain ⟨p, o'⟩ := x
        simp only [hd, bind, Except.bind, pure, Except.pure] at h
        injection h with h; injection h with _ h2; subst h2
        exact hp.2 p o' hd
  · constructor
    · exact noPanic_pure _
    · intro r o h
      simp only [pure, Except.pure] at h
      injection h with h; injection h with _ h2; omega

theorem connackDecode_np (pk : Packet) (buf : Str) : NoPanic (connackDecode pk buf) := by
  unfold connackDecode
  apply noPanic_bind _ _ (noPanic_wrap _ _ (decodeByteBool_np _ _))
  rintro ⟨sp, o1⟩ h1; have b1 := decodeByteBool_ok _ _ _ _ (wrap_ok _ _ _ h1); simp only []
  apply noPanic_bind _ _ (noPanic_wrap _ _ (decodeByte_np _ _))
  rintro ⟨rc, o2⟩ h2; have b2 := decodeByte_ok _ _ _ _ (wrap_ok _ _ _ h2); simp only []
  split
  · apply noPanic_bind _ _ (decodePropsAt_spec _ _ _ _ _ b2.2).1
    rintro ⟨props, o3⟩ h3; exact noPanic_pure _
  · exact noPanic_pure _

theorem disconnectDecode_np (pk : Packet) (buf : Str) : NoPanic (disconnectDecode pk buf) := by
  unfold disconnectDecode
  split
  · apply noPanic_bind _ _ (noPanic_wrap _ _ (decodeByte_np _ _))
    rintro ⟨rc, o1⟩ h1; have b1 := decodeByte_ok _ _ _ _ (wrap_ok _ _ _ h1); simp only []
    split
    · apply noPanic_bind _ _ (decodePropsAt_spec _ _ _ _ _ b1.2).1
      rintro ⟨props, o3⟩ h3; exact noPanic_pure _
    · exact noPanic_pure _
  · exact noPanic_pure _

theorem authDecode_np (pk : Packet) (buf : Str) : NoPanic (authDecode pk buf) := by
  unfold authDecode
  split
  · exact noPanic_pure _
  · apply noPanic_bind _ _ (noPanic_wrap _ _ (decodeByte_np _ _))
    rintro ⟨rc, o1⟩ h1; have b1 := decodeByte_ok _ _ _ _ (wrap_ok _ _ _ h1); simp only []
    split
    · apply noPanic_bind _ _ (decodePropsAt_spec _ _ _ _ _ b1.2).1
      rintro ⟨props, o3⟩ h3; exact noPanic_pure _
    · exact noPanic_pure _

theorem ackDecode_np (pk : Packet) (buf : Str) : NoPanic (ackDecode pk buf) := by
  unfold ackDecode
  apply noPanic_bind _ _ (noPanic_wrap _ _ (decodeUint16_np _ _))
  rintro ⟨id, o1⟩ h1; have b1 := decodeUint16_ok _ _ _ _ (wrap_ok _ _ _ h1); simp only []
  split
  · apply noPanic_bind _ _ (noPanic_wrap _ _ (decodeByte_np _ _))
    rintro ⟨rc, o2⟩ h2; have b2 := decodeByte_ok _ _ _ _ (wrap_ok _ _ _ h2); simp only []
    split
    · apply noPanic_bind _ _ (decodePropsAt_spec _ _ _ _ _ b2.2).1
      rintro ⟨props, o3⟩ h3; exact noPanic_pure _
    · exact noPanic_pure _
  · exact noPanic_pure _

theorem publishDecode_np (pk : Packet) (buf : Str) : NoPanic (publishDecode pk buf) := by
  unfold publishDecode
  apply noPanic_bind _ _ (noPanic_wrap _ _ (decodeString_np _ _))
  rintro ⟨topic, o1⟩ h1; have b1 := decodeString_ok _ _ _ _ (wrap_ok _ _ _ h1); simp only []
  refine noPanic_bind _ _ ?_ ?_
  · split
    · apply noPanic_bind _ _ (noPanic_wrap _ _ (decodeUint16_np _ _))
      rintro ⟨id, o2⟩ h2; exact noPanic_pure _
    · exact noPanic_pure _
  rintro ⟨pk2, o2⟩ h2
  have b2 : o2 ≤ buf.length := by
    split at h2
    · cases hd : wrapErr "ErrMalformedPacketID" (decodeUint16 buf o1) with
      | error e => simp [hd, bind, Except.bind] at h2
      | ok r =>
        obtain ⟨id, o⟩ := r
        simp only [hd, bind, Except.bind, pure, Except.pure] at h2
        injection h2 with h2; injection h2 with _ h2b; subst h2b
        exact (decodeUint16_ok _ _ _ _ (wrap_ok _ _ _ hd)).2
    · simp only [pure, Except.pure] at h2; injection h2 with h2; injection h2 with _ h2b; omega
  simp only []
  have hb := propsBlock_spec (pk2.protocolVersion == 5) pk2 buf o2 b2
    (fun props => { pk2 with properties := props }) "ErrMalformedProperties" pk2.fixedHeader.type pk2.properties
  refine noPanic_bind _ _ hb.1 ?_
  rintro ⟨pk3, o3⟩ h3
  have b3 := hb.2 pk3 o3 h3
  simp only []
  apply noPanic_bind _ _ (sliceFrom_np _ _ b3.2)
  intro payload _; exact noPanic_pure _

theorem subackDecode_np (pk : Packet) (buf : Str) : NoPanic (subackDecode pk buf) := by
  unfold subackDecode
  apply noPanic_bind _ _ (noPanic_wrap _ _ (decodeUint16_np _ _))
  rintro ⟨id, o1⟩ h1; have b1 := decodeUint16_ok _ _ _ _ (wrap_ok _ _ _ h1); simp only []
  have hb := propsBlock_spec ({ pk with packetID := id }.protocolVersion == 5) { pk with packetID := id } buf o1 b1.2
    (fun props => { ({ pk with packetID := id } : Packet) with properties := props }) "ErrMalformedProperties"
    ({ pk with packetID := id } : Packet).fixedHeader.type ({ pk with packetID := id } : Packet).properties
  refine noPanic_bind _ _ hb.1 ?_
  rintro ⟨pk3, o3⟩ h3
  have b3 := hb.2 pk3 o3 h3
  simp only []
  apply noPanic_bind _ _ (sliceFrom_np _ _ b3.2)
  intro rcs _; exact noPanic_pure _

theorem unsubackDecode_np (pk : Packet) (buf : Str) : NoPanic (unsubackDecode pk buf) := by
  unfold unsubackDecode
  apply noPanic_bind _ _ (noPanic_wrap _ _ (decodeUint16_np _ _))
  rintro ⟨id, o1⟩ h1; have b1 := decodeUint16_ok _ _ _ _ (wrap_ok _ _ _ h1); simp only []
  split
  · have hp := decodePropsAt_spec "ErrMalformedProperties" ({ pk with packetID := id } : Packet).fixedHeader.type buf o1
      ({ pk with packetID := id } : Packet).properties b1.2
    apply noPanic_bind _ _ hp.1
    rintro ⟨props, o2⟩ h2
    have b2 := hp.2 props o2 h2
    simp only []
    apply noPanic_bind _ _ (sliceFrom_np _ _ b2.2)
    intro rcs _; exact noPanic_pure _
  · exact noPanic_pure _

theorem subscribeFilters_np (ver ident : Nat) (buf : Str) (fuel off : Nat) (acc : List Subscription) :
    NoPanic (subscribeFilters ver ident buf fuel off acc) := by
  induction fuel generalizing off acc with
  | zero => unfold subscribeFilters; exact noPanic_ok _
  | succ fuel ih =>
    unfold subscribeFilters
    split
    · cases h1 : wrapErr "ErrMalformedTopic" (decodeString buf off) with
      | error e =>
        have := noPanic_wrap "ErrMalformedTopic" _ (decodeString_np buf off); rw [h1] at this
        simp only []; intro h'; injection h' with h'; exact this (by rw [h'])
      | ok r =>
        obtain ⟨filter, o1⟩ := r
        simp only []
        cases h2 : wrapErr "ErrMalformedQos" (decodeByte buf o1) with
        | error e =>
          have := noPanic_wrap "ErrMalformedQos" _ (decodeByte_np buf o1); rw [h2] at this
          simp only []; intro h'; injection h' with h'; exact this (by rw [h'])
        | ok r2 =>
          obtain ⟨opt, o2⟩ := r2
          simp only []
          repeat' split
          all_goals first | exact noPanic_err _ | exact ih _ _
    · exact noPanic_ok _

theorem unsubscribeFilters_np (buf : Str) (fuel off : Nat) (acc : List Subscription) :
    NoPanic (unsubscribeFilters buf fuel off acc) := by
  induction fuel generalizing off acc with
  | zero => unfold unsubscribeFilters; exact noPanic_ok _
  | succ fuel ih =>
    unfold unsubscribeFilters
    split
    · cases h1 : wrapErr "ErrMalformedTopic" (decodeString buf off) with
      | error e =>
        have := noPanic_wrap "ErrMalformedTopic" _ (decodeString_np buf off); rw [h1] at this
        simp only []; intro h'; injection h' with h'; exact this (by rw [h'])
      | ok r =>
        obtain ⟨filter, o1⟩ := r
        simp only []
        exact ih _ _
    · exact noPanic_ok _

theorem subscribeDecode_np (pk : Packet) (buf : Str) : NoPanic (subscribeDecode pk buf) := by
  unfold subscribeDecode
  apply noPanic_bind _ _ (noPanic_wrap _ _ (decodeUint16_np _ _))
  rintro ⟨id, o1⟩ h1; have b1 := decodeUint16_ok _ _ _ _ (wrap_ok _ _ _ h1); simp only []
  have hb := propsBlock_spec ({ pk with packetID := id }.protocolVersion == 5) { pk with packetID := id } buf o1 b1.2
    (fun props => { ({ pk with packetID := id } : Packet) with properties := props }) "ErrMalformedProperties"
    ({ pk with packetID := id } : Packet).fixedHeader.type ({ pk with packetID := id } : Packet).properties
  refine noPanic_bind _ _ hb.1 ?_
  rintro ⟨pk3, o3⟩ h3
  simp only []
  apply noPanic_bind _ _ (subscribeFilters_np _ _ _ _ _ _)
  intro fs _; exact noPanic_pure _

theorem unsubscribeDecode_np (pk : Packet) (buf : Str) : NoPanic (unsubscribeDecode pk buf) := by
  unfold unsubscribeDecode
  apply noPanic_bind _ _ (noPanic_wrap _ _ (decodeUint16_np _ _))
  rintro ⟨id, o1⟩ h1; have b1 := decodeUint16_ok _ _ _ _ (wrap_ok _ _ _ h1); simp only []
  have hb := propsBlock_spec ({ pk with packetID := id }.protocolVersion == 5) { pk with packetID := id } buf o1 b1.2
    (fun props => { ({ pk with packetID := id } : Packet) with properties := props }) "ErrMalformedProperties"
    ({ pk with packetID := id } : Packet).fixedHeader.type ({ pk with packetID := id } : Packet).properties
  refine noPanic_bind _ _ hb.1 ?_
  rintro ⟨pk3, o3⟩ h3
  simp only []
  apply noPanic_bind _ _ (unsubscribeFilters_np _ _ _ _)
  intro fs _; exact noPanic_pure _

/-- **Decoding never panics** — for every protocol version, every fixed header (its `remaining` need
    not equal the body length) and every byte string. -/
theorem C27_no_panic (ver : Nat) (fh : FixedHeader) (buf : Str) : decodeBody ver fh buf ≠ .error .panic := by
  unfold decodeBody
  repeat' split
  all_goals first
    | exact connectDecode_np _ _ | exact connackDecode_np _ _ | exact publishDecode_np _ _
    | exact ackDecode_np _ _ | exact subscribeDecode_np _ _ | exact subackDecode_np _ _
    | exact unsubscribeDecode_np _ _ | exact unsubackDecode_np _ _ | exact noPanic_pure _
    | exact disconnectDecode_np _ _ | exact authDecode_np _ _ | exact noPanic_err _

/-- `Properties.Decode` never reads outside the supplied bytes: its reported consumption is bounded
    by the input, so every caller's `buf[offset:]` is in range. -/
theorem C27_no_overread (pkt : Nat) (b : Str) (p0 p : Props) (m : Nat)
    (h : propsDecode pkt b p0 = .ok (p, m)) : m ≤ b.length :=
  (propsDecode_spec pkt b p0).2 p m h

/-- a declared length exceeding the available bytes is rejected (strings and binary data) -/
theorem C27_length_rejected_bytes (buf : Str) (off : Nat) (v : Str) (o : Nat)
    (h : decodeBytes buf off = .ok (v, o)) : o ≤ buf.length ∧ off + 2 ≤ o :=
  ⟨(decodeBytes_ok buf off v o h).2, (decodeBytes_ok buf off v o h).1⟩

/-- a declared property-block length exceeding the available bytes is rejected -/
theorem C27_length_rejected_props (pkt : Nat) (b : Str) (p0 : Props) (n bu : Nat)
    (hd : Mochi.Varint.decodeLength b = .ok (n, bu)) (hbig : n + bu > b.length) :
    ∃ e, propsDecode pkt b p0 = .error e := by
  cases h : propsDecode pkt b p0 with
  | error e => exact ⟨e, rfl⟩
  | ok r =>
    obtain ⟨p, m⟩ := r
    have hm := (propsDecode_spec pkt b p0).2 p m h
    unfold propsDecode at h
    simp only [hd] at h
    split at h
    · injection h with h; injection h with _ h2; omega
    · split at h
      · simp at h
      · injection h with h; injection h with _ h2; omega

/-- the formerly panicking input: v5 SUBSCRIBE `00 01 00 00 01 61` now yields an error -/
example : decodeBody 5 { type := 8, qos := 1, remaining := 6 } [0, 1, 0, 0, 1, 0x61] = err "ErrMalformedQos" := by
  rfl

end Mochi.Codec
