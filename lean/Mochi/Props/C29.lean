import Mochi.Lemmas.Varint
/-!
# C29 — Variable byte integers are canonical and bounded

Model: `Mochi.Varint.encodeLength` / `decodeLength` (packets/codec.go `encodeLength`, `DecodeLength`,
after the repair "fix: DecodeLength rejects variable byte integers longer than four bytes").
Spec: `specDecode` (at most four base-128 digits), `minLen`.
All theorems are for every value / every byte string — no enumeration.
-/
namespace Mochi.Varint

/-- The decoder is the reference decoder, for every byte string. -/
theorem C29_decode_refines_spec (bs : List Nat) (hb : ∀ b ∈ bs, b < 256) :
    decodeLength bs = specDecode bs := by
  unfold decodeLength
  match bs, hb with
  | [], _ => simp [decodeLoop, specDecode]
  | [a], hb =>
    have ha : a < 256 := hb a (by simp)
    simp only [decodeLoop, specDecode, step1]
    by_cases h : a < 128
    · have : a / 128 % 2 = 0 := by omega
      have h2 : ¬ a % 128 > maxVBI := by unfold maxVBI; omega
      simp [h, this, h2]
    · have : ¬ a / 128 % 2 = 0 := by omega
      have h2 : ¬ a % 128 > maxVBI := by unfold maxVBI; omega
      simp [h, this, h2]
  | a :: b :: rest, hb =>
    have ha : a < 256 := hb a (by simp)
    have hbb : b < 256 := hb b (by simp)
    simp only [decodeLoop, specDecode, step1]
    have h2 : ¬ a % 128 > maxVBI := by unfold maxVBI; omega
    by_cases h : a < 128
    · have : a / 128 % 2 = 0 := by omega
      simp [h, this, h2]
    · have hc : ¬ a / 128 % 2 = 0 := by omega
      simp only [h, hc, h2, if_false]
      rw [step2 _ _ (by omega)]
      have h3 : ¬ a % 128 + 128 * (b % 128) > maxVBI := by unfold maxVBI; omega
      by_cases h' : b < 128
      · have : b / 128 % 2 = 0 := by omega
        have e : b % 128 = b := by omega
        simp [h', this, e]; unfold maxVBI; omega
      · have hc' : ¬ b / 128 % 2 = 0 := by omega
        simp only [h', hc', h3, if_false, show ¬ (1 + 1 > 4) by omega]
        match rest, hb with
        | [], _ => simp [decodeLoop]
        | c :: rest2, hb =>
          have hcc : c < 256 := hb c (by simp)
          simp only [decodeLoop]
          rw [step3 _ _ (by omega)]
          have h4 : ¬ a % 128 + 128 * (b % 128) + 16384 * (c % 128) > maxVBI := by unfold maxVBI; omega
          by_cases h'' : c < 128
          · have : c / 128 % 2 = 0 := by omega
            have e : c % 128 = c := by omega
            simp [h'', this, e]; unfold maxVBI; omega
          · have hc'' : ¬ c / 128 % 2 = 0 := by omega
            simp only [h'', hc'', h4, if_false, show ¬ (1 + 1 + 1 > 4) by omega]
            match rest2, hb with
            | [], _ => simp [decodeLoop]
            | d :: rest3, hb =>
              have hdd : d < 256 := hb d (by simp)
              simp only [decodeLoop]
              rw [step4 _ _ (by omega)]
              have h5 : ¬ a % 128 + 128 * (b % 128) + 16384 * (c % 128) + 2097152 * (d % 128) > maxVBI := by
                unfold maxVBI; omega
              by_cases h''' : d < 128
              · have : d / 128 % 2 = 0 := by omega
                have e : d % 128 = d := by omega
                simp [h''', this, e]; unfold maxVBI; omega
              · have hc''' : ¬ d / 128 % 2 = 0 := by omega
                simp [h''', hc''', h5]

/-- every byte `encodeLength` writes is a byte -/
theorem encodeLength_bytes (n : Nat) : ∀ b ∈ encodeLength n, b < 256 := by
  induction n using Nat.strongRecOn with
  | _ n ih =>
    unfold encodeLength
    split
    · intro b hb
      simp only [List.mem_cons] at hb
      rcases hb with rfl | hb
      · omega
      · exact ih (n / 128) (by omega) b hb
    · intro b hb; simp at hb; omega

/-- **Canonical and round-trips**: every value 0 … 268,435,455 is written in the minimum number of
    bytes (1–4) and decodes back to itself, consuming exactly those bytes. -/
theorem C29_roundtrip_minimal (n : Nat) (h : n ≤ maxVBI) :
    (encodeLength n).length = minLen n ∧ decodeLength (encodeLength n) = .ok (n, minLen n) := by
  unfold maxVBI at h
  rw [C29_decode_refines_spec _ (encodeLength_bytes n)]
  unfold minLen
  by_cases h1 : n < 128
  · have e : encodeLength n = [n % 128] := by unfold encodeLength; simp; omega
    have e' : n % 128 = n := by omega
    rw [e]; simp [h1, specDecode, e']
  · have e1 : encodeLength n = (n % 128 + 128) :: encodeLength (n / 128) := by
      rw [encodeLength]; simp; omega
    by_cases h2 : n < 16384
    · have e2 : encodeLength (n / 128) = [n / 128 % 128] := by unfold encodeLength; simp; omega
      rw [e1, e2]; simp [h1, h2, specDecode]
      have : ¬ (n % 128 + 128 < 128) := by omega
      simp [this]
      have a2 : n / 128 % 128 < 128 := by omega
      simp [a2]; omega
    · have e2 : encodeLength (n / 128) = (n / 128 % 128 + 128) :: encodeLength (n / 128 / 128) := by
        rw [encodeLength]; simp; omega
      by_cases h3 : n < 2097152
      · have e3 : encodeLength (n / 128 / 128) = [n / 128 / 128 % 128] := by unfold encodeLength; simp; omega
        rw [e1, e2, e3]; simp [h1, h2, h3, specDecode]
        have a1 : ¬ (n % 128 + 128 < 128) := by omega
        have a2 : ¬ (n / 128 % 128 + 128 < 128) := by omega
        simp [a1, a2]
        have a3 : n / 128 / 128 % 128 < 128 := by omega
        simp [a3]; omega
      · have e3 : encodeLength (n / 128 / 128) = (n / 128 / 128 % 128 + 128) :: encodeLength (n / 128 / 128 / 128) := by
          rw [encodeLength]; simp; omega
        have e4 : encodeLength (n / 128 / 128 / 128) = [n / 128 / 128 / 128 % 128] := by
          unfold encodeLength; simp; omega
        rw [e1, e2, e3, e4]; simp [h1, h2, h3, specDecode]
        have a1 : ¬ (n % 128 + 128 < 128) := by omega
        have a2 : ¬ (n / 128 % 128 + 128 < 128) := by omega
        have a3 : ¬ (n / 128 / 128 % 128 + 128 < 128) := by omega
        simp [a1, a2, a3]
        have a4 : n / 128 / 128 / 128 % 128 < 128 := by omega
        simp [a4]; omega

theorem specDecode_ok (bs : List Nat) (hb : ∀ b ∈ bs, b < 256) (n k : Nat)
    (h : specDecode bs = .ok (n, k)) : 1 ≤ k ∧ k ≤ 4 ∧ k ≤ bs.length ∧ n ≤ maxVBI := by
  unfold maxVBI
  match bs, hb with
  | [], _ => simp [specDecode] at h
  | [a], hb =>
    have ha := hb a (by simp)
    simp only [specDecode] at h
    split at h
    · injection h with h; injection h with h1 h2; subst h1 h2; simp; omega
    · simp at h
  | a :: b :: rest, hb =>
    have ha := hb a (by simp)
    have hbb := hb b (by simp)
    simp only [specDecode] at h
    split at h
    · injection h with h; injection h with h1 h2; subst h1 h2; simp; omega
    · split at h
      · injection h with h; injection h with h1 h2; subst h1 h2; simp; omega
      · match rest, hb with
        | [], _ => simp at h
        | c :: rest2, hb =>
          have hc := hb c (by simp)
          simp only at h
          split at h
          · injection h with h; injection h with h1 h2; subst h1 h2; simp; omega
          · match rest2, hb with
            | [], _ => simp at h
            | d :: rest3, hb =>
              have hd := hb d (by simp)
              simp only at h
              split at h
              · injection h with h; injection h with h1 h2; subst h1 h2; simp; omega
              · simp at h

/-- Encodings longer than four bytes are rejected: an accepted input used at most four bytes, all of
    them present in the input. -/
theorem C29_reject_overlong (bs : List Nat) (hb : ∀ b ∈ bs, b < 256) (n k : Nat)
    (h : decodeLength bs = .ok (n, k)) : 1 ≤ k ∧ k ≤ 4 ∧ k ≤ bs.length := by
  rw [C29_decode_refines_spec bs hb] at h
  have := specDecode_ok bs hb n k h
  omega

/-- Values above the maximum are never produced. -/
theorem C29_reject_large (bs : List Nat) (hb : ∀ b ∈ bs, b < 256) (n k : Nat)
    (h : decodeLength bs = .ok (n, k)) : n ≤ maxVBI := by
  rw [C29_decode_refines_spec bs hb] at h
  exact (specDecode_ok bs hb n k h).2.2.2

/-- In particular five continuation bytes followed by a terminator (the pre-repair acceptance
    `80 80 80 80 00 ↦ 0`) are rejected. -/
example : decodeLength [0x80, 0x80, 0x80, 0x80, 0x00] = .error .malformed := by rfl
example : decodeLength [0xff, 0xff, 0xff, 0xff, 0x00] = .error .malformed := by rfl
/-- non-vacuity: the boundary values -/
example : decodeLength [0xff, 0xff, 0xff, 0x7f] = .ok (268435455, 4) := by rfl

end Mochi.Varint
