import Mochi.Model.Broker
import Mochi.Lemmas.BrokerRetained
import Mochi.Lemmas.BrokerReplay
/-!
# C05 — Retained store reflects the latest retained publish per topic

Model: `retainMsg` (server.go `retainMessage` + topics.go `RetainMessage`) and
`publishRetainedToClient` (Retain Handling, shared filters).  Which topics a filter selects is C02.
-/
namespace Mochi.Broker
open Mochi.Topics

theorem assocGet_assocSet_self {β} (m : List (Str × β)) (k : Str) (v : β) : assocGet (assocSet m k v) k = some v := by
  induction m with
  | nil => simp [assocSet, assocGet]
  | cons x xs ih =>
    obtain ⟨a, b⟩ := x
    unfold assocSet
    by_cases h : a = k
    · simp [h, assocGet]
    · simp [h, assocGet, ih]

theorem assocGet_assocDel_self {β} (m : List (Str × β)) (k : Str) : assocGet (assocDel m k) k = none := by
  induction m with
  | nil => simp [assocDel, assocGet]
  | cons x xs ih =>
    obtain ⟨a, b⟩ := x
    unfold assocDel at ih ⊢
    by_cases h : a = k
    · simp [h, List.filter_cons]; simpa using ih
    · simp [h, List.filter_cons, assocGet]; simpa using ih

/-- the latest retained publish with a payload is what the store holds for its topic -/
theorem C05_latest_wins (s : Server) (pk : Msg) (ha : s.caps.retainAvailable ≠ 0) (hi : pk.ignore = false)
    (hp : pk.payload.length > 0) :
    (assocGet (retainMsg s pk).rmsgs pk.topic).map (·.payload) = some pk.payload := by
  unfold retainMsg
  have : (s.caps.retainAvailable == 0) = false := by simpa using ha
  simp only [this, hi, Bool.or_self, Bool.false_eq_true, if_false, hp, if_true]
  rw [assocGet_assocSet_self]; rfl

/-- an empty payload deletes the retained message -/
theorem C05_empty_deletes (s : Server) (pk : Msg) (ha : s.caps.retainAvailable ≠ 0) (hi : pk.ignore = false)
    (hp : pk.payload = []) : assocGet (retainMsg s pk).rmsgs pk.topic = none := by
  unfold retainMsg
  have : (s.caps.retainAvailable == 0) = false := by simpa using ha
  simp only [this, hi, Bool.or_self, Bool.false_eq_true, if_false, hp, List.length_nil, Nat.lt_irrefl, gt_iff_lt]
  exact assocGet_assocDel_self _ _

/-- nothing is retained while the server has retain unavailable -/
theorem C05_unavailable (s : Server) (pk : Msg) (h : s.caps.retainAvailable = 0) : retainMsg s pk = s := by
  unfold retainMsg; simp [h]

/-- Retain Handling 2 never sends; 1 sends only for a new subscription; shared filters never receive -/
theorem C05_rh2_never (s : Server) (i : Nat) (sub : Sub) (ex : Bool) (k : Nat) (h : sub.rh = 2) :
    publishRetainedToClient s i sub ex k = (s, []) := by
  unfold publishRetainedToClient; split <;> simp [h]

theorem C05_rh1_existing (s : Server) (i : Nat) (sub : Sub) (k : Nat) (h : sub.rh = 1) :
    publishRetainedToClient s i sub true k = (s, []) := by
  unfold publishRetainedToClient; split <;> simp [h]

theorem C05_shared_never (s : Server) (i : Nat) (sub : Sub) (ex : Bool) (k : Nat) (h : isSharedFilter sub.filter = true) :
    publishRetainedToClient s i sub ex k = (s, []) := by
  unfold publishRetainedToClient; simp [h]

example : (assocGet (retainMsg (retainMsg (init {}) { topic := [97], payload := [1], retain := true })
            { topic := [97], payload := [2], retain := true }).rmsgs [97]).map (·.payload) = some [2] := by decide


/-! ## The retained store along histories

`NW T s` (`Mochi/Lemmas/BrokerRetained.lean`): no session object of `s` holds a will with the retain flag on a topic of
`T`, and no delayed will is one.  It holds at `init` and is kept by every op that is not a CONNECT carrying such a
will (`C05_will_invariant_step`).  `op.avoids T U`: the op is not a PUBLISH (client or inline) with the retain flag on a
topic of `U` (a topic given through an alias counts as "may be in `U`"), not `tick "retained"`, and not a CONNECT with a
retained will on a topic of `T`.  All 12 op kinds are covered, sequential or not. -/

/-- what `retainMsg` stores for a message -/
def storedMsg (pk : Msg) : Msg := { pk with dup := false, id := 0, alias := 0, subIds := [] }

theorem retainMsg_look_self (s : Server) (pk : Msg) (ha : s.caps.retainAvailable ≠ 0) (hi : pk.ignore = false) :
    assocGet (retainMsg s pk).rmsgs pk.topic = if pk.payload.length > 0 then some (storedMsg pk) else none := by
  unfold retainMsg
  have h : ¬ (s.caps.retainAvailable == 0 || pk.ignore) = true := by simp [ha, hi]
  rw [if_neg h]
  show assocGet (if pk.payload.length > 0 then assocSet s.rmsgs pk.topic _ else assocDel s.rmsgs pk.topic) pk.topic = _
  by_cases hp : pk.payload.length > 0
  · rw [if_pos hp, if_pos hp, assocGet_assocSet_self]; rfl
  · rw [if_neg hp, if_neg hp, assocGet_assocDel_self]

/-- **1(a)** the retained store at `t` changes only by a retained publish on `t` (client, inline, or a will with the
    retain flag) or by `tick "retained"`: every other op — of all 12 kinds — leaves the lookup at `t` unchanged -/
theorem C05_store_changes_only_by (s : Server) (op : Op) (t : Str)
    (hnw : NW (fun u => u = t) s) (hav : op.avoids (fun u => u = t) (fun u => u = t)) :
    assocGet (step s op).1.rmsgs t = assocGet s.rmsgs t :=
  (step_rk (fun _ h => h) s op hnw hav).2 t rfl

/-- … and `tick "retained"` only removes -/
theorem C05_store_tick_only_removes (s : Server) (now : Int) (t : Str) :
    assocGet (step s (.tick "retained" now)).1.rmsgs t = none ∨
    assocGet (step s (.tick "retained" now)).1.rmsgs t = assocGet s.rmsgs t := by
  rw [step_tick_retained]; exact tickRetained_mono s now t

/-- the will side condition is an invariant of every history without a CONNECT carrying a retained will on `t` -/
theorem C05_will_invariant_step (s : Server) (op : Op) (t : Str) (hnw : NW (fun u => u = t) s)
    (hw : op.willAvoids (fun u => u = t)) : NW (fun u => u = t) (step s op).1 := NW_step s op hnw hw

theorem C05_will_invariant_run (caps : Caps) (ops : List Op) (t : Str)
    (hw : ∀ op ∈ ops, op.willAvoids (fun u => u = t)) : NW (fun u => u = t) (run (init caps) ops) :=
  NW_run _ ops (NW_init _ caps) hw

/-- **1(b), client, QoS 0** after an accepted retained publish on `topic` the store holds exactly that message at
    `topic` (origin = the publisher's id, payload, QoS; expiry stamped) — or nothing when the payload is empty.
    Restrictions (those of `step_recv_publish_accepted`): QoS 0, no alias, no shared subscription matches the topic,
    the publisher holds no deferred message. -/
theorem C05_accepted_retained_publish_sets (s : Server) (conn i : Nat) (dup : Bool) (topic payload : Str) (me : Nat)
    (hc : assocGet s.connOf conn = some i) (h : AcceptedQ0 s i topic)
    (hsh : (subscribers (retainedState s (inboundMsg s i 0 dup true 0 topic payload me)).topics topic).shared = [])
    (hra : s.caps.retainAvailable ≠ 0) :
    assocGet (step s (.recv conn (.publish 0 dup true 0 topic payload me none))).1.rmsgs topic =
      if payload.length > 0 then some (storedMsg (inboundMsg s i 0 dup true 0 topic payload me)) else none := by
  rw [step_recv_publish_accepted s conn i dup true topic payload me hc h hsh, (publishToSubscribers_kw _ _).2]
  show assocGet (retainMsg s (inboundMsg s i 0 dup true 0 topic payload me)).rmsgs
    (inboundMsg s i 0 dup true 0 topic payload me).topic = _
  rw [retainMsg_look_self _ _ hra rfl]
  rfl

/-- **1(b), inline API** (any QoS; the stored QoS is the requested one capped at the server maximum) -/
theorem C05_accepted_inline_retained_publish_sets (s : Server) (topic payload : Str) (qos : Nat)
    (h : AcceptedInline s topic)
    (hq : (inlineMsg s topic payload true qos).qos = 0 ∨
      ∀ cs ∈ (subscribers (retainedState s (inlineMsg s topic payload true qos)).topics topic).subs, cs.2.qos = 0)
    (hsh : (subscribers (retainedState s (inlineMsg s topic payload true qos)).topics topic).shared = [])
    (hra : s.caps.retainAvailable ≠ 0) :
    assocGet (step s (.inlinePublish topic payload true qos)).1.rmsgs topic =
      if payload.length > 0 then some (storedMsg (inlineMsg s topic payload true qos)) else none := by
  rw [step_inlinePublish_accepted s topic payload true qos h hq hsh, (publishToSubscribers_kw _ _).2]
  show assocGet (retainMsg s (inlineMsg s topic payload true qos)).rmsgs (inlineMsg s topic payload true qos).topic = _
  rw [retainMsg_look_self _ _ hra rfl]
  rfl

/-- what the stored message is: the publisher's id, the payload, the (capped) QoS, the retain flag, the stamped expiry -/
theorem storedMsg_inboundMsg_fields (s : Server) (i qos : Nat) (dup : Bool) (id : Nat) (topic payload : Str) (me : Nat) :
    let m := storedMsg (inboundMsg s i qos dup true id topic payload me)
    m.origin = (getObj s i).id ∧ m.payload = payload ∧ m.topic = topic ∧ m.qos = qos ∧ m.retain = true ∧ m.type = 3 ∧
    m.created = NOW ∧
    m.expiry = (if minimumNZ s.caps.maxMessageExpiry me > 0 then NOW + minimumNZ s.caps.maxMessageExpiry me else 0) :=
  ⟨rfl, rfl, rfl, rfl, rfl, rfl, rfl, rfl⟩

/-- the lift: once the store at `t` holds `v` (or nothing), it still does after any further ops that avoid `t` -/
theorem C05_store_kept_run (s : Server) (post : List Op) (t : Str) (hnw : NW (fun u => u = t) s)
    (hpost : ∀ op ∈ post, op.avoids (fun u => u = t) (fun u => u = t)) :
    assocGet (run s post).rmsgs t = assocGet s.rmsgs t :=
  (run_rk (fun _ h => h) s post hnw hpost).2 t rfl

/-- **1(c)** latest wins, over whole histories (sequential or not): if the last retained publish on `topic` in the
    history `pre ++ [PUBLISH] ++ post` — no later op is a retained publish on `topic` or `tick "retained"`, and no
    CONNECT of the history carries a retained will on `topic` — was accepted and carried `payload`, the store at the
    end holds that message at `topic`, or nothing if the payload was empty -/
theorem C05_latest_wins_seq (caps : Caps) (pre post : List Op) (conn i : Nat) (dup : Bool) (topic payload : Str) (me : Nat)
    (hpre : ∀ op ∈ pre, op.willAvoids (fun u => u = topic))
    (hc : assocGet (run (init caps) pre).connOf conn = some i) (h : AcceptedQ0 (run (init caps) pre) i topic)
    (hsh : (subscribers (retainedState (run (init caps) pre)
      (inboundMsg (run (init caps) pre) i 0 dup true 0 topic payload me)).topics topic).shared = [])
    (hra : (run (init caps) pre).caps.retainAvailable ≠ 0)
    (hpost : ∀ op ∈ post, op.avoids (fun u => u = topic) (fun u => u = topic)) :
    assocGet (run (init caps) (pre ++ .recv conn (.publish 0 dup true 0 topic payload me none) :: post)).rmsgs topic =
      if payload.length > 0 then some (storedMsg (inboundMsg (run (init caps) pre) i 0 dup true 0 topic payload me))
      else none := by
  have hnw := C05_will_invariant_run caps pre topic hpre
  have hnw1 := NW_step _ (.recv conn (.publish 0 dup true 0 topic payload me none)) hnw trivial
  rw [run_append_rk, run_cons_rk, C05_store_kept_run _ post topic hnw1 hpost]
  exact C05_accepted_retained_publish_sets _ conn i dup topic payload me hc h hsh hra

/-- … the same for a retained publish through the inline API -/
theorem C05_latest_wins_inline_seq (caps : Caps) (pre post : List Op) (topic payload : Str) (qos : Nat)
    (hpre : ∀ op ∈ pre, op.willAvoids (fun u => u = topic))
    (h : AcceptedInline (run (init caps) pre) topic)
    (hq : (inlineMsg (run (init caps) pre) topic payload true qos).qos = 0 ∨
      ∀ cs ∈ (subscribers (retainedState (run (init caps) pre)
        (inlineMsg (run (init caps) pre) topic payload true qos)).topics topic).subs, cs.2.qos = 0)
    (hsh : (subscribers (retainedState (run (init caps) pre)
      (inlineMsg (run (init caps) pre) topic payload true qos)).topics topic).shared = [])
    (hra : (run (init caps) pre).caps.retainAvailable ≠ 0)
    (hpost : ∀ op ∈ post, op.avoids (fun u => u = topic) (fun u => u = topic)) :
    assocGet (run (init caps) (pre ++ .inlinePublish topic payload true qos :: post)).rmsgs topic =
      if payload.length > 0 then some (storedMsg (inlineMsg (run (init caps) pre) topic payload true qos)) else none := by
  have hnw := C05_will_invariant_run caps pre topic hpre
  have hnw1 := NW_step _ (.inlinePublish topic payload true qos) hnw trivial
  rw [run_append_rk, run_cons_rk, C05_store_kept_run _ post topic hnw1 hpost]
  exact C05_accepted_inline_retained_publish_sets _ topic payload qos h hq hsh hra


/-! ## The retained replay of a new subscription

Stated for `publishRetainedToClient s i sub existed k` — the call `processSubscribe` makes for the `k`-th filter of an
accepted SUBSCRIBE, in the state after the subscription is filed (filing changes neither `rmsgs` nor the index's retained
store).  Restrictions: a plain (not shared) filter, a QoS 0 subscription (nothing is filed in-flight), a live client that
uses no topic aliases (`ReplayClient`: MQTT 5 or MQTT 3), nothing retained under the empty topic (a will topic is not
validated, `hne`), `StoredPub s` (decidable: every stored packet is a PUBLISH with the retain flag under its own topic —
true of everything `processPublish` / `sendLWT` store; not proved here as an invariant of all histories).  The index
hypotheses `RetIdxOK`, `RetKeysOK` hold after EVERY history (`RetIdxOK_run`, `RetKeys_run`). -/

/-- **2** the PUBLISH packets written by the replay are exactly the copies of the stored retained messages whose topic
    the filter matches (`specMatch`) and which the client may read (not excluded by No Local, read ACL) — for Retain
    Handling 0, and Retain Handling 1 when the subscription is new -/
theorem C05_subscribe_replays_exactly (s : Server) (i : Nat) (sub : Sub) (ex : Bool) (k : Nat) (hc : ReplayClient s i)
    (hq : sub.qos = 0) (hsp : StoredPub s) (hns : isSharedFilter sub.filter = false)
    (hrh : sub.rh = 0 ∨ (sub.rh = 1 ∧ ex = false))
    (hidx : RetIdxOK (core s)) (hkeys : RetKeysOK (core s)) (hne : assocGet s.rmsgs [] = none)
    (hf : sub.filter ≠ []) (hok : specLevelsOK (splitLevels sub.filter) = true) (o : Out) :
    (publishRetainedToClient s i sub ex k).1 = s ∧
    (o ∈ (publishRetainedToClient s i sub ex k).2 ↔
      ∃ t pk, assocGet s.rmsgs t = some pk ∧ specMatch (splitLevels sub.filter) t = true ∧
        replayGate s i (withIdent sub) pk = true ∧ o = replayPacket s i (withIdent sub) pk) := by
  have hrh' : ((sub.rh == 1 && ex) || sub.rh == 2) = false := by
    rcases hrh with h | ⟨h, h'⟩
    · rw [h]; rfl
    · rw [h, h']; rfl
  refine ⟨?_, replay_mem_iff s i sub ex k hc hq hsp hns hrh' hidx hkeys hne hf hok o⟩
  rw [publishRetainedToClient_replay s i sub ex k hc hq hsp hns hrh']

/-- each replayed copy carries the retain flag, the stored topic, payload and origin -/
theorem C05_replayed_copy_fields (s : Server) (i : Nat) (sub : Sub) (t : Str) (pk : Msg) (hsp : StoredPub s)
    (hg : assocGet s.rmsgs t = some pk) :
    ∃ m me, replayPacket s i sub pk = .wrote (getObj s i).conn (.publish (getObj s i).ver m me) ∧
      m.retain = true ∧ m.topic = t ∧ m.payload = pk.payload ∧ m.origin = pk.origin := by
  obtain ⟨_, h2, h3⟩ := hsp _ (assocGet_some_mem _ _ _ hg)
  exact ⟨_, _, rfl, h2, h3, rfl, rfl⟩

/-- … one per retained message: the replay is the image of the (permuted) list `Messages(filter)` returns, whose topics
    are pairwise distinct -/
theorem C05_subscribe_replays_each_once (s : Server) (i : Nat) (sub : Sub) (ex : Bool) (k : Nat) (hc : ReplayClient s i)
    (hq : sub.qos = 0) (hsp : StoredPub s) (hns : isSharedFilter sub.filter = false)
    (hrh : ((sub.rh == 1 && ex) || sub.rh == 2) = false)
    (hidx : RetIdxOK (core s)) (hne : assocGet s.topics.retained [] = none)
    (hok : specLevelsOK (splitLevels sub.filter) = true) :
    (publishRetainedToClient s i sub ex k).2 =
      (permuteBy (permDigit s.permSeed k) (messages s.topics sub.filter)).flatMap (replayOne s i (withIdent sub)) ∧
    ((permuteBy (permDigit s.permSeed k) (messages s.topics sub.filter)).map (·.topic)).Nodup := by
  refine ⟨by rw [publishRetainedToClient_replay s i sub ex k hc hq hsp hns hrh], ?_⟩
  exact ((permuteBy_perm _ _).map _).nodup_iff.mpr (messages_nodup_of_RetIdxOK s hidx hne sub.filter hok)

/-- Retain Handling 2: none; Retain Handling 1: none if the subscription existed; a shared filter: none -/
theorem C05_subscribe_replays_none (s : Server) (i : Nat) (sub : Sub) (ex : Bool) (k : Nat)
    (h : isSharedFilter sub.filter = true ∨ sub.rh = 2 ∨ (sub.rh = 1 ∧ ex = true)) :
    publishRetainedToClient s i sub ex k = (s, []) := replay_none s i sub ex k h

/-! ## Non-vacuity (closed histories, by `decide`) -/

/-- an MQTT 5 publisher retains payload 1, then payload 2 on topic `a` (Message Expiry Interval 10) -/
def c05History : List Op :=
  [.connect 1 { ver := 5, id := [112] },
   .recv 1 (.publish 0 false true 0 [97] [1] 10 none),
   .recv 1 (.publish 0 false true 0 [97] [2] 10 none)]

/-- the subscriber's ops: connect, SUBSCRIBE `#` -/
def c05Sub : Op := .recv 2 (.subscribe 1 0 [{ filter := [35] }])

def isPubOf (conn : Nat) (topic payload : Str) (retain : Bool) (o : Out) : Bool :=
  match o with
  | .wrote c (.publish _ m _) => c == conn && m.topic == topic && m.payload == payload && m.retain == retain
  | _ => false

def isAnyPub (o : Out) : Bool :=
  match o with
  | .wrote _ (.publish ..) => true
  | _ => false

set_option maxRecDepth 100000 in
theorem C05_C25_nonvacuity :
    -- latest wins: the store holds payload 2 (origin `p`, expiry time `NOW + 10`)
    (assocGet (run (init {}) c05History).rmsgs [97]).map (fun m => (m.payload, m.origin, m.expiry, m.retain))
      = some ([2], [112], NOW + 10, true) ∧
    -- an empty payload clears the topic
    assocGet (run (init {}) (c05History ++ [.recv 1 (.publish 0 false true 0 [97] [] 0 none)])).rmsgs [97] = none ∧
    -- a new subscriber is replayed exactly that message, with the retain flag
    ((step (run (init {}) (c05History ++ [.connect 2 { ver := 5, id := [115] }])) c05Sub).2.filter isAnyPub).map
        (isPubOf 2 [97] [2] true) = [true] ∧
    -- housekeeping at `NOW + 20 > NOW + 10` removes it, and the later subscriber is replayed nothing
    (run (init {}) (c05History ++ [.tick "retained" (NOW + 20)])).rmsgs = [] ∧
    (step (run (init {}) (c05History ++ [.tick "retained" (NOW + 20), .connect 2 { ver := 5, id := [115] }])) c05Sub).2.filter
        isAnyPub = [] ∧
    -- housekeeping at `NOW + 10` (not strictly later) keeps it
    (run (init {}) (c05History ++ [.tick "retained" (NOW + 10)])).rmsgs.length = 1 ∧
    -- the side conditions of the replay theorem hold in that state
    StoredPub (run (init {}) (c05History ++ [.connect 2 { ver := 5, id := [115] }])) := by
  decide

/-- the general theorems instantiated: the CONNECT and the SUBSCRIBE of the subscriber leave the store at `a` alone -/
example : assocGet (run (run (init {}) c05History) [.connect 2 { ver := 5, id := [115] }, c05Sub]).rmsgs [97] =
    assocGet (run (init {}) c05History).rmsgs [97] := by
  refine C05_store_kept_run _ _ [97] (C05_will_invariant_run {} c05History [97] ?_) ?_
  · intro op hop
    simp only [c05History, List.mem_cons, List.not_mem_nil, or_false] at hop
    rcases hop with rfl | rfl | rfl
    · intro w hw; cases hw
    · trivial
    · trivial
  · intro op hop
    simp only [c05Sub, List.mem_cons, List.not_mem_nil, or_false] at hop
    rcases hop with rfl | rfl
    · intro w hw; cases hw
    · trivial

end Mochi.Broker

#print axioms Mochi.Broker.C05_store_changes_only_by
#print axioms Mochi.Broker.C05_accepted_retained_publish_sets
#print axioms Mochi.Broker.C05_accepted_inline_retained_publish_sets
#print axioms Mochi.Broker.C05_latest_wins_seq
#print axioms Mochi.Broker.C05_latest_wins_inline_seq
#print axioms Mochi.Broker.C05_subscribe_replays_exactly
#print axioms Mochi.Broker.C05_subscribe_replays_each_once
#print axioms Mochi.Broker.C05_C25_nonvacuity
