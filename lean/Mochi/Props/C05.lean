import Mochi.Model.Broker
/-!
# C05 — Retained store reflects the latest retained publish per topic

Model: `retainMsg` (server.go `retainMessage` + topics.go `RetainMessage`) and
`publishRetainedToClient` (Retain Handling, shared filters).  Which topics a filter selects is C02.
-/
namespace Mochi.Broker
open Mochi.Topics

theorem assocGet_assocSet_self {β} (m : List (Str × β)) (k : Str) (v : β) : assocGet (assocSet m k v) k = some v := by
  induction m with
  | nil => simp [assocSet, assocGet]
  | cons x xs ih =>
    obtain ⟨a, b⟩ := x
    unfold assocSet
    by_cases h : a = k
    · simp [h, assocGet]
    · simp [h, assocGet, ih]

theorem assocGet_assocDel_self {β} (m : List (Str × β)) (k : Str) : assocGet (assocDel m k) k = none := by
  induction m with
  | nil => simp [assocDel, assocGet]
  | cons x xs ih =>
    obtain ⟨a, b⟩ := x
    unfold assocDel at ih ⊢
    by_cases h : a = k
    · simp [h, List.filter_cons]; simpa using ih
    · simp [h, List.filter_cons, assocGet]; simpa using ih

/-- the latest retained publish with a payload is what the store holds for its topic -/
theorem C05_latest_wins (s : Server) (pk : Msg) (ha : s.caps.retainAvailable ≠ 0) (hi : pk.ignore = false)
    (hp : pk.payload.length > 0) :
    (assocGet (retainMsg s pk).rmsgs pk.topic).map (·.payload) = some pk.payload := by
  unfold retainMsg
  have : (s.caps.retainAvailable == 0) = false := by simpa using ha
  simp only [this, hi, Bool.or_self, Bool.false_eq_true, if_false, hp, if_true]
  rw [assocGet_assocSet_self]; rfl

/-- an empty payload deletes the retained message -/
theorem C05_empty_deletes (s : Server) (pk : Msg) (ha : s.caps.retainAvailable ≠ 0) (hi : pk.ignore = false)
    (hp : pk.payload = []) : assocGet (retainMsg s pk).rmsgs pk.topic = none := by
  unfold retainMsg
  have : (s.caps.retainAvailable == 0) = false := by simpa using ha
  simp only [this, hi, Bool.or_self, Bool.false_eq_true, if_false, hp, List.length_nil, Nat.lt_irrefl, gt_iff_lt]
  exact assocGet_assocDel_self _ _

/-- nothing is retained while the server has retain unavailable -/
theorem C05_unavailable (s : Server) (pk : Msg) (h : s.caps.retainAvailable = 0) : retainMsg s pk = s := by
  unfold retainMsg; simp [h]

/-- Retain Handling 2 never sends; 1 sends only for a new subscription; shared filters never receive -/
theorem C05_rh2_never (s : Server) (i : Nat) (sub : Sub) (ex : Bool) (k : Nat) (h : sub.rh = 2) :
    publishRetainedToClient s i sub ex k = (s, []) := by
  unfold publishRetainedToClient; split <;> simp [h]

theorem C05_rh1_existing (s : Server) (i : Nat) (sub : Sub) (k : Nat) (h : sub.rh = 1) :
    publishRetainedToClient s i sub true k = (s, []) := by
  unfold publishRetainedToClient; split <;> simp [h]

theorem C05_shared_never (s : Server) (i : Nat) (sub : Sub) (ex : Bool) (k : Nat) (h : isSharedFilter sub.filter = true) :
    publishRetainedToClient s i sub ex k = (s, []) := by
  unfold publishRetainedToClient; simp [h]

example : (assocGet (retainMsg (retainMsg (init {}) { topic := [97], payload := [1], retain := true })
            { topic := [97], payload := [2], retain := true }).rmsgs [97]).map (·.payload) = some [2] := by decide

end Mochi.Broker
