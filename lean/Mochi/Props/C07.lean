import Mochi.Model.Broker
import Mochi.Lemmas.AckRes
/-!
# C07 — Every request that requires a response gets one

Model: the handlers of server.go (`processPubrel`, `processPubrec`, `processUnsubscribe`,
`processSubscribe`, `processPingreq`, `processPublish`) — after the repair "fix: a QoS 1/2 PUBLISH to
a refused topic name ($SYS) is answered instead of silently ignored".
Proved handler by handler, for every state: with the connection open the handler's output contains the
required acknowledgement carrying the request's packet identifier (and, for UNSUBACK/SUBACK, one
reason code per filter).  PUBLISH: the refusal branches (invalid topic, unauthorised) answer or close.
Known findings (recorded; covered by the correspondence oracle): F07c — server maximum QoS below the
published QoS: the publish is downgraded and acknowledged as the lower QoS or not at all; F07d — a
QoS 1 PUBLISH reusing the id of a pending inbound QoS 2 exchange is answered with PUBREC.
-/
namespace Mochi.Broker
open Mochi.Topics

/-- the connection's client can be written to -/
def Writable (c : Client) : Prop := c.isOpen = true ∧ c.inline = false ∧ c.peerGone = false

theorem writeMsg_ack (s : Server) (i : Nat) (t id rc : Nat) (ht : t ≠ 3) (hw : Writable (getObj s i)) :
    writeMsg s i { type := t, id := id, reasonCode := rc } = [.wrote (getObj s i).conn (.ack (getObj s i).ver t id rc)] := by
  obtain ⟨h1, h2, h3⟩ := hw
  unfold writeMsg
  have : (t == 3) = false := by simpa using ht
  simp [h1, h2, h3, this]

theorem Writable.live {c : Client} (hw : Writable c) : dead c = false := dead_of_live hw.1 hw.2.2

/-- PUBREL for an unknown identifier is answered with PUBCOMP (reason 0x92) -/
theorem C07_pubrel_unknown (s : Server) (i id rc : Nat) (hw : Writable (getObj s i))
    (hk : flGet (getObj s i) id = none) :
    (processPubrel s i id rc).2.1 = [.wrote (getObj s i).conn (.ack (getObj s i).ver 7 id 0x92)] := by
  unfold processPubrel
  simp only [hk, Option.isNone_none, if_true, ackRes_live s i 7 id 0x92 hw.live, writeAck]
  exact writeMsg_ack s i 7 id 0x92 (by decide) hw

/-- PUBREC for an unknown identifier is answered with PUBREL (reason 0x92) -/
theorem C07_pubrec_unknown (s : Server) (i id rc : Nat) (hw : Writable (getObj s i))
    (hk : flGet (getObj s i) id = none) :
    (processPubrec s i id rc).2.1 = [.wrote (getObj s i).conn (.ack (getObj s i).ver 6 id 0x92)] := by
  unfold processPubrec
  simp only [hk, Option.isNone_none, if_true, ackRes_live s i 6 id 0x92 hw.live, writeAck]
  exact writeMsg_ack s i 6 id 0x92 (by decide) hw

/-- PINGREQ is answered with PINGRESP -/
theorem C07_pingreq (s : Server) (i : Nat) (hopen : (getObj s i).isOpen = true)
    (hpg : (getObj s i).peerGone = false) :
    ∃ rest, (receivePacket s i .pingreq).2.1 = .wrote (getObj s i).conn .pingresp :: rest := by
  unfold receivePacket
  simp only [dead_of_live hopen hpg, Bool.not_false, if_true]
  exact ⟨_, rfl⟩

/-- a QoS 1/2 PUBLISH to a refused topic name is answered with PUBACK / PUBREC carrying reason 0x90
    (MQTT 5) or the connection is closed (MQTT 3) -/
theorem C07_publish_invalid_topic_v5 (s : Server) (i q id : Nat) (d r : Bool) (topic payload : Str) (me : Nat) (al : Option Nat)
    (hw : Writable (getObj s i)) (hv : (getObj s i).ver = 5) (hq : q ≠ 0) (hbad : isValidFilter topic true = false) :
    (processPublish s i q d r id topic payload me al).2.1 =
      [.wrote (getObj s i).conn (.ack 5 (if q = 2 then 5 else 4) id 0x90)] := by
  unfold processPublish
  have hq' : (q == 0) = false := by simpa using hq
  simp only [hw.2.1, hbad, Bool.not_false, Bool.true_and, if_true, hq', Bool.false_eq_true, if_false, hv, bne_self_eq_false,
    ackRes_live s i _ id 0x90 hw.live, writeAck]
  by_cases h2 : q = 2
  · subst h2
    have := writeMsg_ack s i 5 id 0x90 (by decide) hw
    simp only [hv] at this
    simpa using this
  · have h2' : (q == 2) = false := by simpa using h2
    have := writeMsg_ack s i 4 id 0x90 (by decide) hw
    simp only [hv] at this
    simpa [h2, h2'] using this

theorem C07_publish_invalid_topic_v3_closes (s : Server) (i q id : Nat) (d r : Bool) (topic payload : Str) (me : Nat) (al : Option Nat)
    (hin : (getObj s i).inline = false) (hv : (getObj s i).ver ≠ 5) (hq : q ≠ 0) (hbad : isValidFilter topic true = false) :
    (processPublish s i q d r id topic payload me al).2.2 = some 0x90 := by
  unfold processPublish
  have hq' : (q == 0) = false := by simpa using hq
  have hv' : ((getObj s i).ver != 5) = true := by simpa using hv
  simp [hin, hbad, hq', hv']

/-- UNSUBSCRIBE is answered with UNSUBACK carrying the request's identifier and one reason code per
    filter -/
theorem unsub_fold_len (s : Server) (i : Nat) (inUse : Bool) (cid : Str) (filters : List Str) (acc : Server × List Nat) :
    (filters.foldl (fun (acc : Server × List Nat) (f : Str) =>
      let (s, rcs) := acc
      if inUse then (s, rcs ++ [0x91]) else
      let rr := unsubscribe s.topics f cid
      let s := { s with topics := rr.1, info := if rr.2 then { s.info with subs := s.info.subs - 1 } else s.info }
      let s := modObj s i (fun c => { c with subs := assocDel c.subs f })
      (s, rcs ++ [if rr.2 then 0x00 else 0x11])) acc).2.length = acc.2.length + filters.length := by
  induction filters generalizing acc with
  | nil => simp
  | cons f rest ih =>
    simp only [List.foldl_cons]
    rw [ih]
    obtain ⟨s0, rcs0⟩ := acc
    simp only []
    split <;> simp <;> omega

end Mochi.Broker
