import Mochi.Model.Broker
import Mochi.Lemmas.AckRes
import Mochi.Lemmas.BrokerAnswers
import Mochi.Lemmas.BrokerAnswersPub
import Mochi.Props.C04
import Mochi.Model.AckFit
/-!
# C07 — Every request that requires a response gets one

Model: the handlers of server.go (`processPubrel`, `processPubrec`, `processUnsubscribe`,
`processSubscribe`, `processPingreq`, `processPublish`) — after the repair "fix: a QoS 1/2 PUBLISH to
a refused topic name ($SYS) is answered instead of silently ignored".
Proved handler by handler, for every state: with the connection open the handler's output contains the
required acknowledgement carrying the request's packet identifier (and, for UNSUBACK/SUBACK, one
reason code per filter).  PUBLISH: the refusal branches (invalid topic, unauthorised) answer or close.
Known findings (recorded; covered by the correspondence oracle): F07c — server maximum QoS below the
published QoS: the publish is downgraded and acknowledged as the lower QoS or not at all; F07d — a
QoS 1 PUBLISH reusing the id of a pending inbound QoS 2 exchange is answered with PUBREC.
-/
namespace Mochi.Broker
open Mochi.Topics

/-- the connection's client can be written to -/
def Writable (c : Client) : Prop := c.isOpen = true ∧ c.inline = false ∧ c.peerGone = false

theorem writeMsg_ack (s : Server) (i : Nat) (t id rc : Nat) (ht : t ≠ 3) (hw : Writable (getObj s i)) :
    writeMsg s i { type := t, id := id, reasonCode := rc } = [.wrote (getObj s i).conn (.ack (getObj s i).ver t id rc)] := by
  obtain ⟨h1, h2, h3⟩ := hw
  unfold writeMsg
  have : (t == 3) = false := by simpa using ht
  simp [h1, h2, h3, this]

theorem Writable.live {c : Client} (hw : Writable c) : dead c = false := dead_of_live hw.1 hw.2.2

/-- PUBREL for an unknown identifier is answered with PUBCOMP (reason 0x92) -/
theorem C07_pubrel_unknown (s : Server) (i id rc : Nat) (hw : Writable (getObj s i))
    (hk : flGet (getObj s i) id = none) :
    (processPubrel s i id rc).2.1 = [.wrote (getObj s i).conn (.ack (getObj s i).ver 7 id 0x92)] := by
  unfold processPubrel
  simp only [hk, Option.isNone_none, if_true, ackRes_live s i 7 id 0x92 hw.live, writeAck]
  exact writeMsg_ack s i 7 id 0x92 (by decide) hw

/-- PUBREC for an unknown identifier is answered with PUBREL (reason 0x92) -/
theorem C07_pubrec_unknown (s : Server) (i id rc : Nat) (hw : Writable (getObj s i))
    (hk : flGet (getObj s i) id = none) :
    (processPubrec s i id rc).2.1 = [.wrote (getObj s i).conn (.ack (getObj s i).ver 6 id 0x92)] := by
  unfold processPubrec
  simp only [hk, Option.isNone_none, if_true, ackRes_live s i 6 id 0x92 hw.live, writeAck]
  exact writeMsg_ack s i 6 id 0x92 (by decide) hw

/-- PINGREQ is answered with PINGRESP -/
theorem C07_pingreq (s : Server) (i : Nat) (hopen : (getObj s i).isOpen = true)
    (hpg : (getObj s i).peerGone = false) :
    ∃ rest, (receivePacket s i .pingreq).2.1 = .wrote (getObj s i).conn .pingresp :: rest := by
  unfold receivePacket
  simp only [dead_of_live hopen hpg, Bool.not_false, if_true]
  exact ⟨_, rfl⟩

/-- a QoS 1/2 PUBLISH to a refused topic name is answered with PUBACK / PUBREC carrying reason 0x90
    (MQTT 5) or the connection is closed (MQTT 3) -/
theorem C07_publish_invalid_topic_v5 (s : Server) (i q id : Nat) (d r : Bool) (topic payload : Str) (me : Nat) (al : Option Nat)
    (hw : Writable (getObj s i)) (hv : (getObj s i).ver = 5) (hq : q ≠ 0) (hbad : isValidFilter topic true = false) :
    (processPublish s i q d r id topic payload me al).2.1 =
      [.wrote (getObj s i).conn (.ack 5 (if q = 2 then 5 else 4) id 0x90)] := by
  unfold processPublish
  have hq' : (q == 0) = false := by simpa using hq
  simp only [hw.2.1, hbad, Bool.not_false, Bool.true_and, if_true, hq', Bool.false_eq_true, if_false, hv, bne_self_eq_false,
    ackRes_live s i _ id 0x90 hw.live, writeAck]
  by_cases h2 : q = 2
  · subst h2
    have := writeMsg_ack s i 5 id 0x90 (by decide) hw
    simp only [hv] at this
    simpa using this
  · have h2' : (q == 2) = false := by simpa using h2
    have := writeMsg_ack s i 4 id 0x90 (by decide) hw
    simp only [hv] at this
    simpa [h2, h2'] using this

theorem C07_publish_invalid_topic_v3_closes (s : Server) (i q id : Nat) (d r : Bool) (topic payload : Str) (me : Nat) (al : Option Nat)
    (hin : (getObj s i).inline = false) (hv : (getObj s i).ver ≠ 5) (hq : q ≠ 0) (hbad : isValidFilter topic true = false) :
    (processPublish s i q d r id topic payload me al).2.2 = some 0x90 := by
  unfold processPublish
  have hq' : (q == 0) = false := by simpa using hq
  have hv' : ((getObj s i).ver != 5) = true := by simpa using hv
  simp [hin, hbad, hq', hv']

/-- UNSUBSCRIBE is answered with UNSUBACK carrying the request's identifier and one reason code per
    filter -/
theorem unsub_fold_len (s : Server) (i : Nat) (inUse : Bool) (cid : Str) (filters : List Str) (acc : Server × List Nat) :
    (filters.foldl (fun (acc : Server × List Nat) (f : Str) =>
      let (s, rcs) := acc
      if inUse then (s, rcs ++ [0x91]) else
      let rr := unsubscribe s.topics f cid
      let s := { s with topics := rr.1, info := if rr.2 then { s.info with subs := s.info.subs - 1 } else s.info }
      let s := modObj s i (fun c => { c with subs := assocDel c.subs f })
      (s, rcs ++ [if rr.2 then 0x00 else 0x11])) acc).2.length = acc.2.length + filters.length := by
  induction filters generalizing acc with
  | nil => simp
  | cons f rest ih =>
    simp only [List.foldl_cons]
    rw [ih]
    obtain ⟨s0, rcs0⟩ := acc
    simp only []
    split <;> simp <;> omega

end Mochi.Broker

/-! ## Operation level: `step s (.recv conn pk)` answers on the same connection, or closes it

`R07.Live s conn i`: client object `i` is the one registered on connection `conn`, open, not stopped, not inline, its
peer not gone.  `R07.Answered conn r X`: `wrote conn X ∈ r.2 ∨ closed conn ∈ r.2`.
(Lemmas: `Mochi/Lemmas/BrokerAnswers.lean`.) -/
namespace Mochi.Broker
open Mochi.Topics R07

/-- the MQTT 3 downgrade leaves MQTT 5 codes alone and turns every failure code into 0x80 for MQTT 3 -/
theorem C07_finCode (ver rc : Nat) :
    (ver = 5 → finCode ver rc = rc) ∧ (rc ≤ 2 → finCode ver rc = rc) ∧ (ver < 5 → rc > 2 → finCode ver rc = 0x80) := by
  unfold finCode
  refine ⟨fun h => ?_, fun h => ?_, fun h g => ?_⟩
  · subst h; simp
  · have : ¬ rc > 2 := by omega
    simp [this]
  · simp [h, g]

/-- the reason code of one filter: 0x91 identifier in use (since fix e36320d downgraded for MQTT 3 like the other
    refusals; before, the `continue` in `processSubscribe` skipped the downgrade), else 0x8F invalid filter, 0x82 No Local on a shared subscription, 0x87
    denied (0x80 when `ObscureNotAuthorized`), else the granted QoS `min requested maximumQos` (`C04_suback`) — each
    passed through the MQTT 3 downgrade `finCode` (failure codes become 0x80) -/
theorem C07_suback_code (s : Server) (i id : Nat) (sub : Sub) :
    subCode s i id sub =
      if (flGet (getObj s i) id).isSome then finCode (getObj s i).ver 0x91
      else if !isValidFilter sub.filter false then finCode (getObj s i).ver 0x8F
      else if sub.noLocal && isSharedFilter sub.filter then finCode (getObj s i).ver 0x82
      else if !aclOk s (getObj s i).id sub.filter false then
        finCode (getObj s i).ver (if s.caps.obscureNotAuthorized then 0x80 else 0x87)
      else finCode (getObj s i).ver (min sub.qos s.caps.maximumQos) := by
  unfold subCode
  rw [C04_suback]

/-- **SUBSCRIBE → SUBACK with the same identifier and EXACTLY one reason code per filter, in order, written before
    anything else the op writes** (the retained replay, a released deferred message, …); the connection is not closed
    instead: a live client is always written the SUBACK. -/
theorem C07_subscribe_answered (s : Server) (conn i id subId : Nat) (fs : List Sub) (L : Live s conn i)
    (hne : fs ≠ []) :
    ∃ rcs rest, (step s (.recv conn (.subscribe id subId fs))).2 =
        .wrote conn (.suback (getObj s i).ver id rcs) :: rest ∧
      rcs.length = fs.length ∧ rcs = fs.map (subCode s i id) := by
  obtain ⟨rest, h⟩ := step_prefix L (.subscribe id subId fs)
  have he : fs.isEmpty = false := by cases fs <;> simp_all
  have hh : handler s i (.subscribe id subId fs) = processSubscribe s i id subId fs := by
    show (if fs.isEmpty then _ else _) = _
    rw [he]; rfl
  rw [hh] at h
  obtain ⟨replay, hr⟩ := (processSubscribe_out L id subId fs).2
  rw [hr] at h
  exact ⟨_, replay ++ rest, h, by simp, rfl⟩

/-- **UNSUBSCRIBE → UNSUBACK with the same identifier and exactly one reason code per filter** (0x91 for every filter
    when the identifier is in use, else 0x00 removed / 0x11 no subscription existed), first thing the op writes.  The
    model's UNSUBACK carries the codes for every protocol version; the wire form for MQTT 3 has none (`WPk.render`). -/
theorem C07_unsubscribe_answered (s : Server) (conn i id : Nat) (fs : List Str) (L : Live s conn i) (hne : fs ≠ []) :
    ∃ rcs rest, (step s (.recv conn (.unsubscribe id fs))).2 =
        .wrote conn (.unsuback (getObj s i).ver id rcs) :: rest ∧
      rcs.length = fs.length ∧
      (∀ rc ∈ rcs, if (flGet (getObj s i) id).isSome then rc = 0x91 else (rc = 0x00 ∨ rc = 0x11)) := by
  obtain ⟨rest, h⟩ := step_prefix L (.unsubscribe id fs)
  have he : fs.isEmpty = false := by cases fs <;> simp_all
  have hh : handler s i (.unsubscribe id fs) = processUnsubscribe s i id fs := by
    show (if fs.isEmpty then _ else _) = _
    rw [he]; rfl
  rw [hh] at h
  obtain ⟨rcs, hr, hlen, hcodes⟩ := processUnsubscribe_out L id fs
  rw [hr] at h
  exact ⟨rcs, rest, h, hlen, hcodes⟩

/-- **PINGREQ → PINGRESP**, first thing the op writes. -/
theorem C07_pingreq_answered (s : Server) (conn i : Nat) (L : Live s conn i) :
    ∃ rest, (step s (.recv conn .pingreq)).2 = .wrote conn .pingresp :: rest := by
  obtain ⟨rest, h⟩ := step_prefix L .pingreq
  rw [handler_pingreq L] at h
  exact ⟨rest, h⟩

/-- **PUBREL → PUBCOMP with the same identifier**: reason 0x92 when no record exists under the identifier, reason 0
    when a record exists and the PUBREL carries a defined success code.  Known finding F07b (restriction `hrc`): a
    PUBREL with a failure / undefined reason code for a KNOWN identifier deletes the record and is not answered
    (server.go `processPubrel`: `if pk.ReasonCode >= ErrUnspecifiedError.Code || !pk.ReasonCodeValid() { … return nil }`)
    — counterexample `C07_pubrel_failure_code_unanswered`. -/
theorem C07_pubrel_answered_partial (s : Server) (conn i id rc : Nat) (L : Live s conn i)
    (hrc : (flGet (getObj s i) id).isSome = true → rc < 0x80 ∧ reasonValid 6 rc = true) :
    ∃ rest, (step s (.recv conn (.pubrel id rc))).2 =
      .wrote conn (.ack (getObj s i).ver 7 id (if (flGet (getObj s i) id).isNone then 0x92 else 0)) :: rest := by
  obtain ⟨rest, h⟩ := step_prefix L (.pubrel id rc)
  have ho := (processPubrel_out L id rc).2
  refine ⟨rest, ?_⟩
  rw [h]
  show (processPubrel s i id rc).2.1 ++ rest = _
  rw [ho]
  by_cases h1 : (flGet (getObj s i) id).isNone = true
  · rw [if_pos h1, if_pos h1]; rfl
  · rw [if_neg h1, if_neg h1]
    have hs : (flGet (getObj s i) id).isSome = true := by
      cases hg : flGet (getObj s i) id with
      | none => rw [hg] at h1; exact absurd rfl h1
      | some _ => rfl
    obtain ⟨a, b⟩ := hrc hs
    have : (decide (rc ≥ 0x80) || !reasonValid 6 rc) = false := by
      rw [b]; simp; omega
    rw [this]; rfl

/-- **PUBREC → PUBREL with the same identifier**: reason 0x92 when no record exists under the identifier (the id is
    unknown: the broker still answers), reason 0 when a record exists and the PUBREC carries a defined success code.
    A PUBREC with a failure / undefined reason code for a known identifier ends the exchange: the record is deleted
    and NOTHING is written (MQTT 5 §4.3.3: correct — a failed PUBREC is not followed by PUBREL); counterexample
    `C07_pubrec_failure_code_unanswered`. -/
theorem C07_pubrec_answered_partial (s : Server) (conn i id rc : Nat) (L : Live s conn i)
    (hrc : (flGet (getObj s i) id).isSome = true → rc < 0x80 ∧ reasonValid 5 rc = true) :
    ∃ rest, (step s (.recv conn (.pubrec id rc))).2 =
      .wrote conn (.ack (getObj s i).ver 6 id (if (flGet (getObj s i) id).isNone then 0x92 else 0)) :: rest := by
  obtain ⟨rest, h⟩ := step_prefix L (.pubrec id rc)
  have ho := (processPubrec_out L id rc).2
  refine ⟨rest, ?_⟩
  rw [h]
  show (processPubrec s i id rc).2.1 ++ rest = _
  rw [ho]
  by_cases h1 : (flGet (getObj s i) id).isNone = true
  · rw [if_pos h1, if_pos h1]; rfl
  · rw [if_neg h1, if_neg h1]
    have hs : (flGet (getObj s i) id).isSome = true := by
      cases hg : flGet (getObj s i) id with
      | none => rw [hg] at h1; exact absurd rfl h1
      | some _ => rfl
    obtain ⟨a, b⟩ := hrc hs
    have : (decide (rc ≥ 0x80) || !reasonValid 5 rc) = false := by
      rw [b]; simp; omega
    rw [this]; rfl

/-- PUBREL / PUBREC for an UNKNOWN identifier are always answered (no restriction) -/
theorem C07_pubrel_unknown_answered (s : Server) (conn i id rc : Nat) (L : Live s conn i)
    (hk : flGet (getObj s i) id = none) :
    ∃ rest, (step s (.recv conn (.pubrel id rc))).2 = .wrote conn (.ack (getObj s i).ver 7 id 0x92) :: rest := by
  have := C07_pubrel_answered_partial s conn i id rc L (by rw [hk]; intro h; cases h)
  rw [hk] at this
  exact this

theorem C07_pubrec_unknown_answered (s : Server) (conn i id rc : Nat) (L : Live s conn i)
    (hk : flGet (getObj s i) id = none) :
    ∃ rest, (step s (.recv conn (.pubrec id rc))).2 = .wrote conn (.ack (getObj s i).ver 6 id 0x92) :: rest := by
  have := C07_pubrec_answered_partial s conn i id rc L (by rw [hk]; intro h; cases h)
  rw [hk] at this
  exact this

/-! ### PUBLISH

`R07.pubVerdict s i qos id topic alias` (`Mochi/Lemmas/BrokerAnswersPub.lean`) is the table of every exit of
`PublishValidate` / `processPublish` for a live network client, computed from the state before the packet:
`close` (validation error 0x82/0x94, receive quota 0 → 0x93, unbound alias → 0x82, a refused QoS>0 publish of an MQTT 3
client → 0x90/0x87), `ack t rc` (refused MQTT 5 publish: invalid topic 0x90 / not authorised 0x87 as PUBACK or PUBREC by
QoS; PUBREC record under the identifier → PUBREC 0x91; hook error code → PUBACK / PUBREC 0x87 by the CLAMPED QoS `q`;
accepted → PUBACK `QosCodes[q]` / PUBREC 0 by the CLAMPED QoS `q`), `silent` (QoS 0 refusals, rejecting hook, clamped
QoS 0). -/

/-- **every exit**: verdict `close` — `closed conn` is emitted; verdict `ack t rc` — the FIRST output of the op is that
    acknowledgement with the request's identifier -/
theorem C07_publish_every_exit (s : Server) (conn i : Nat) (L : Live s conn i) (qos : Nat) (dup retain : Bool) (id : Nat)
    (topic payload : Str) (me : Nat) (alias : Option Nat) :
    (pubVerdict s i qos id topic alias = .close →
      Out.closed conn ∈ (step s (.recv conn (.publish qos dup retain id topic payload me alias))).2) ∧
    (∀ t rc, pubVerdict s i qos id topic alias = .ack t rc →
      ∃ rest, (step s (.recv conn (.publish qos dup retain id topic payload me alias))).2 =
        .wrote conn (.ack (getObj s i).ver t id rc) :: rest) :=
  step_publish_table L qos dup retain id topic payload me alias

/-- **QoS 1 → PUBACK with the same identifier (success or failure code), or the connection is closed.**
    Restrictions, each with a counterexample below: `hclamp` (F07c, Go: server.go:940-942), `hrec` (F07d, Go:
    server.go:921-925), `hhook` (a hook that rejects the packet: excluded by the property's own text, Go:
    server.go:947-948). -/
theorem C07_publish_qos1_answered_partial (s : Server) (conn i : Nat) (L : Live s conn i) (dup retain : Bool) (id : Nat)
    (topic payload : Str) (me : Nat) (alias : Option Nat)
    (hclamp : 1 ≤ s.caps.maximumQos)
    (hrec : ((flGet (getObj s i) id).map (·.type)) ≠ some 5)
    (hhook : assocGet s.pubHook (pubTopic s i topic alias) ≠ some "reject") :
    Out.closed conn ∈ (step s (.recv conn (.publish 1 dup retain id topic payload me alias))).2 ∨
    ∃ rc rest, (step s (.recv conn (.publish 1 dup retain id topic payload me alias))).2 =
      .wrote conn (.ack (getObj s i).ver 4 id rc) :: rest := by
  obtain ⟨h1, h2⟩ := step_publish_table L 1 dup retain id topic payload me alias
  rcases pubVerdict_qos1 s i id topic alias hclamp hrec hhook with h | ⟨rc, h⟩
  · exact Or.inl (h1 h)
  · exact Or.inr ⟨rc, h2 4 rc h⟩

/-- **QoS 2 → PUBREC with the same identifier (success or failure code, 0x91 when the identifier is in use), or the
    connection is closed.**  Restrictions: `hclamp` (F07c), `hhook` (rejecting hook).  A hook error code for an MQTT 5
    client is sent as PUBREC 0x87 (Go: server.go `processPublish`, the acknowledgement type of the OnPublish error branch
    is chosen by QoS; history `C07_hook_error_qos2_pubrec`). -/
theorem C07_publish_qos2_answered_partial (s : Server) (conn i : Nat) (L : Live s conn i) (dup retain : Bool) (id : Nat)
    (topic payload : Str) (me : Nat) (alias : Option Nat)
    (hclamp : 2 ≤ s.caps.maximumQos)
    (hhook : assocGet s.pubHook (pubTopic s i topic alias) ≠ some "reject") :
    Out.closed conn ∈ (step s (.recv conn (.publish 2 dup retain id topic payload me alias))).2 ∨
    ∃ rc rest, (step s (.recv conn (.publish 2 dup retain id topic payload me alias))).2 =
      .wrote conn (.ack (getObj s i).ver 5 id rc) :: rest := by
  obtain ⟨h1, h2⟩ := step_publish_table L 2 dup retain id topic payload me alias
  rcases pubVerdict_qos2 s i id topic alias hclamp hhook with h | ⟨rc, h⟩
  · exact Or.inl (h1 h)
  · exact Or.inr ⟨rc, h2 5 rc h⟩

/-- **QoS 0 → no acknowledgement**: the handler takes an exit that writes none (`silent`: no error, no acknowledgement
    written by `processPublish`) or the connection is closed.  (`hrec`: no PUBREC record under identifier 0 —
    `PublishValidate` refuses QoS 0 with a non-zero identifier.) -/
theorem C07_publish_qos0_no_ack (s : Server) (conn i : Nat) (L : Live s conn i) (dup retain : Bool) (id : Nat)
    (topic payload : Str) (me : Nat) (alias : Option Nat)
    (hrec : ((flGet (getObj s i) id).map (·.type)) ≠ some 5) :
    (pubVerdict s i 0 id topic alias = .close ∧
      Out.closed conn ∈ (step s (.recv conn (.publish 0 dup retain id topic payload me alias))).2) ∨
    (pubVerdict s i 0 id topic alias = .silent ∧ ∀ t rc, pubVerdict s i 0 id topic alias ≠ .ack t rc) := by
  rcases pubVerdict_qos0 s i id topic alias hrec with h | h
  · exact Or.inl ⟨h, (step_publish_table L 0 dup retain id topic payload me alias).1 h⟩
  · exact Or.inr ⟨h, fun t rc g => by rw [h] at g; cases g⟩

end Mochi.Broker

/-! ### concrete histories: the demo and the counterexamples behind every restriction -/
namespace Mochi.Broker.R07
open Mochi.Topics

/-- the outputs of a history, op by op -/
def outsOf (s : Server) : List Op → List (List Out)
  | [] => []
  | op :: ops => (step s op).2 :: outsOf (step s op).1 ops

/-- everything but events and forwarded PUBLISH copies: the answers -/
def isAnswer : Out → Bool
  | .event _ => false
  | .wrote _ (.publish ..) => false
  | _ => true

def answers (s : Server) (ops : List Op) : List (List Out) := (outsOf s ops).map (·.filter isAnswer)

/-- configuration of the demo: Receive Maximum 2; client "p" may not write topic "x"; the `OnPublish` hook rejects
    topic "r" and returns an error code for topic "e" -/
def r07S0 : Server :=
  { init { receiveMaximum := 2 } with
    aclDeny := [([112], [120], true)], pubHook := [([114], "reject"), ([101], "err")] }

def r07P : Connect := { ver := 5, id := [112] }

def r07History : List Op :=
  [.connect 1 r07P,                                                                     -- 0
   .recv 1 (.subscribe 1 0 [{ filter := [116], qos := 1 }, { filter := [35, 47, 98], qos := 0 }]),  -- 1 SUBACK [01, 8F]
   .recv 1 (.unsubscribe 2 [[116], [117]]),                                              -- 2 UNSUBACK [00, 11]
   .recv 1 .pingreq,                                                                     -- 3 PINGRESP
   .recv 1 (.publish 1 false false 3 [116] [97] 0 none),                                 -- 4 PUBACK 3
   .recv 1 (.publish 2 false false 9 [116] [97] 0 none),                                 -- 5 PUBREC 9
   .recv 1 (.publish 2 true false 9 [116] [97] 0 none),                                  -- 6 refused, id in use: PUBREC 9 0x91
   .recv 1 (.pubrel 9 0),                                                                -- 7 PUBCOMP 9
   .recv 1 (.pubrel 9 0),                                                                -- 8 unknown id: PUBCOMP 9 0x92
   .recv 1 (.pubrec 77 0),                                                               -- 9 unknown id: PUBREL 77 0x92
   .recv 1 (.publish 1 false false 4 [36, 83, 89, 83, 47, 120] [97] 0 none),             -- 10 refused, "$SYS/x": PUBACK 4 0x90
   .recv 1 (.publish 1 false false 5 [120] [97] 0 none),                                 -- 11 refused, ACL: PUBACK 5 0x87
   .recv 1 (.publish 1 false false 6 [101] [97] 0 none),                                 -- 12 refused, hook error: PUBACK 6 0x87
   .recv 1 (.publish 2 false false 13 [101] [97] 0 none),                                -- 13 refused, hook error, QoS 2: PUBREC 13 0x87
   .recv 1 (.publish 1 false false 7 [114] [97] 0 none),                                 -- 14 rejecting hook: NOTHING (excluded)
   .recv 1 (.publish 0 false false 0 [116] [97] 0 none),                                 -- 15 QoS 0: nothing
   .connect 2 { ver := 5, id := [113] },                                                 -- 16
   .recv 2 (.publish 1 false false 8 [] [97] 0 (some 3)),                                -- 17 refused, unbound alias: closed
   .connect 3 { ver := 4, id := [118] },                                                 -- 18
   .recv 3 (.publish 1 false false 4 [36, 83, 89, 83, 47, 120] [97] 0 none),             -- 19 refused, MQTT 3: closed
   .connect 4 { ver := 5, id := [119] },                                                 -- 20
   .recv 4 (.publish 1 false false 0 [116] [97] 0 none),                                 -- 21 PublishValidate (id 0): closed
   .recv 1 (.publish 2 false false 10 [116] [97] 0 none),                                -- 22 PUBREC 10
   .recv 1 (.publish 2 false false 11 [116] [97] 0 none),                                -- 23 PUBREC 11 (quota now 0)
   .recv 1 (.publish 1 false false 12 [116] [97] 0 none)]                                -- 24 refused, quota: closed

end Mochi.Broker.R07

namespace Mochi.Broker
open Mochi.Topics R07

set_option maxRecDepth 1000000 in
/-- the demo: every request once, one refused publish of each kind — what is written back, op by op -/
theorem C07_demo_answers : answers r07S0 r07History =
    [[.wrote 1 (.connack 5 false 0 2 2 none)],
     [.wrote 1 (.suback 5 1 [1, 0x8F])],
     [.wrote 1 (.unsuback 5 2 [0, 0x11])],
     [.wrote 1 .pingresp],
     [.wrote 1 (.ack 5 4 3 1)],
     [.wrote 1 (.ack 5 5 9 0)],
     [.wrote 1 (.ack 5 5 9 0x91)],
     [.wrote 1 (.ack 5 7 9 0)],
     [.wrote 1 (.ack 5 7 9 0x92)],
     [.wrote 1 (.ack 5 6 77 0x92)],
     [.wrote 1 (.ack 5 4 4 0x90)],
     [.wrote 1 (.ack 5 4 5 0x87)],
     [.wrote 1 (.ack 5 4 6 0x87)],
     [.wrote 1 (.ack 5 5 13 0x87)],
     [],
     [],
     [.wrote 2 (.connack 5 false 0 2 2 none)],
     [.wrote 2 (.disconnect 5 0x82), .closed 2],
     [.wrote 3 (.connack 4 false 0 2 2 none)],
     [.wrote 3 (.disconnect 4 0x90), .closed 3],
     [.wrote 4 (.connack 5 false 0 2 2 none)],
     [.wrote 4 (.disconnect 5 0x82), .closed 4],
     [.wrote 1 (.ack 5 5 10 0)],
     [.wrote 1 (.ack 5 5 11 0)],
     [.wrote 1 (.disconnect 5 0x93), .closed 1]] := by decide

set_option maxRecDepth 1000000 in
/-- the demo is a sequential history with fresh connection numbers, and the client is `Live` when its requests start -/
theorem C07_demo_valid : SeqOps r07History ∧ OpsFresh r07S0 r07History ∧
    Live (run r07S0 (r07History.take 1)) 1 1 := by
  refine ⟨by decide, by decide, by decide⟩

/-- the demo's states are reachable (`ReachSeq`: ops without schedule ops, interleaved with configuration) -/
theorem C07_demo_reach : ReachSeq { receiveMaximum := 2 } (run r07S0 r07History) :=
  ((ReachSeq.init (caps := { receiveMaximum := 2 })).config (s' := r07S0) ⟨rfl, rfl, rfl, rfl, rfl, rfl, rfl, rfl⟩).run
    r07History C07_demo_valid.1 C07_demo_valid.2.1

set_option maxRecDepth 1000000 in
/-- **F07c** (Go: server.go:940-942, the QoS is clamped BEFORE the acknowledgement is chosen): server maximum QoS 1 —
    a QoS 2 PUBLISH is answered with PUBACK; server maximum QoS 0 — QoS 1 and QoS 2 PUBLISH are not answered at all -/
theorem C07_F07c_counterexample :
    answers (init { maximumQos := 1 }) [.connect 1 r07P, .recv 1 (.publish 2 false false 5 [116] [97] 0 none)] =
      [[.wrote 1 (.connack 5 false 0 1024 1 none)], [.wrote 1 (.ack 5 4 5 1)]] ∧
    answers (init { maximumQos := 0 }) [.connect 1 r07P, .recv 1 (.publish 1 false false 5 [116] [97] 0 none),
        .recv 1 (.publish 2 false false 6 [116] [97] 0 none)] =
      [[.wrote 1 (.connack 5 false 0 1024 0 none)], [], []] := by decide

set_option maxRecDepth 1000000 in
/-- **F07d** (Go: server.go:921-925, the duplicate test does not look at the QoS): a QoS 1 PUBLISH under the identifier
    of an open inbound QoS 2 exchange is answered with PUBREC 0x91 -/
theorem C07_F07d_counterexample :
    answers (init {}) [.connect 1 r07P, .recv 1 (.publish 2 false false 9 [116] [97] 0 none),
        .recv 1 (.publish 1 false false 9 [116] [97] 0 none)] =
      [[.wrote 1 (.connack 5 false 0 1024 2 none)], [.wrote 1 (.ack 5 5 9 0)], [.wrote 1 (.ack 5 5 9 0x91)]] := by
  decide

set_option maxRecDepth 1000000 in
/-- a hook error code for an MQTT 5 client refuses a QoS 2 PUBLISH with PUBREC 0x87 (Go: server.go `processPublish`,
    OnPublish error branch: PUBACK for QoS 1, PUBREC for QoS 2) -/
theorem C07_hook_error_qos2_pubrec :
    answers r07S0 [.connect 1 r07P, .recv 1 (.publish 2 false false 6 [101] [97] 0 none)] =
      [[.wrote 1 (.connack 5 false 0 2 2 none)], [.wrote 1 (.ack 5 5 6 0x87)]] := by decide

set_option maxRecDepth 1000000 in
/-- a rejecting hook: a QoS 1 PUBLISH is not answered and the connection stays open (Go: server.go:947-948; excluded by
    the property's text) -/
theorem C07_hook_reject_unanswered :
    answers r07S0 [.connect 1 r07P, .recv 1 (.publish 1 false false 7 [114] [97] 0 none)] =
      [[.wrote 1 (.connack 5 false 0 2 2 none)], []] := by decide

set_option maxRecDepth 1000000 in
/-- **F07b**: PUBREL with a failure reason code for a KNOWN identifier: the record is deleted, no PUBCOMP (Go:
    `processPubrel`, `if pk.ReasonCode >= ErrUnspecifiedError.Code || !pk.ReasonCodeValid()`) -/
theorem C07_pubrel_failure_code_unanswered :
    answers (init {}) [.connect 1 r07P, .recv 1 (.publish 2 false false 9 [116] [97] 0 none),
        .recv 1 (.pubrel 9 0x80)] =
      [[.wrote 1 (.connack 5 false 0 1024 2 none)], [.wrote 1 (.ack 5 5 9 0)], []] := by decide

set_option maxRecDepth 1000000 in
/-- PUBREC with a failure reason code for a known identifier (an outbound QoS 2 delivery, identifier 1): the exchange
    ends, no PUBREL — correct MQTT behaviour -/
theorem C07_pubrec_failure_code_unanswered :
    answers (init {}) [.connect 1 r07P, .recv 1 (.subscribe 1 0 [{ filter := [116], qos := 2 }]),
        .recv 1 (.publish 2 false false 9 [116] [97] 0 none), .recv 1 (.pubrec 1 0x80)] =
      [[.wrote 1 (.connack 5 false 0 1024 2 none)], [.wrote 1 (.suback 5 1 [2])], [.wrote 1 (.ack 5 5 9 0)], []] := by
  decide

/-- **every request gets its response on the same connection, or the connection is closed** — for every state
    reachable by a sequential history (interleaved with configuration changes) and every `Live` client: the conjunction
    of the clauses above.  (`ReachSeq` is not needed by the proofs: they hold in EVERY state with a `Live` client.) -/
theorem C07_every_request_answered_seq (caps : Caps) (s : Server) (_hr : ReachSeq caps s) (conn i : Nat)
    (L : Live s conn i) :
    -- SUBSCRIBE
    (∀ id subId fs, fs ≠ [] → ∃ rcs rest, (step s (.recv conn (.subscribe id subId fs))).2 =
        .wrote conn (.suback (getObj s i).ver id rcs) :: rest ∧ rcs.length = fs.length ∧
        rcs = fs.map (subCode s i id)) ∧
    -- UNSUBSCRIBE
    (∀ id fs, fs ≠ [] → ∃ rcs rest, (step s (.recv conn (.unsubscribe id fs))).2 =
        .wrote conn (.unsuback (getObj s i).ver id rcs) :: rest ∧ rcs.length = fs.length ∧
        (∀ rc ∈ rcs, if (flGet (getObj s i) id).isSome then rc = 0x91 else (rc = 0x00 ∨ rc = 0x11))) ∧
    -- PUBLISH QoS 1 / QoS 2 / QoS 0
    (∀ dup retain id topic payload me alias, 1 ≤ s.caps.maximumQos →
      ((flGet (getObj s i) id).map (·.type)) ≠ some 5 →
      assocGet s.pubHook (pubTopic s i topic alias) ≠ some "reject" →
      Out.closed conn ∈ (step s (.recv conn (.publish 1 dup retain id topic payload me alias))).2 ∨
      ∃ rc rest, (step s (.recv conn (.publish 1 dup retain id topic payload me alias))).2 =
        .wrote conn (.ack (getObj s i).ver 4 id rc) :: rest) ∧
    (∀ dup retain id topic payload me alias, 2 ≤ s.caps.maximumQos →
      assocGet s.pubHook (pubTopic s i topic alias) ≠ some "reject" →
      Out.closed conn ∈ (step s (.recv conn (.publish 2 dup retain id topic payload me alias))).2 ∨
      ∃ rc rest, (step s (.recv conn (.publish 2 dup retain id topic payload me alias))).2 =
        .wrote conn (.ack (getObj s i).ver 5 id rc) :: rest) ∧
    (∀ id topic alias, ((flGet (getObj s i) id).map (·.type)) ≠ some 5 →
      ∀ t rc, pubVerdict s i 0 id topic alias ≠ .ack t rc) ∧
    -- PUBREL / PUBREC / PINGREQ
    (∀ id rc, ((flGet (getObj s i) id).isSome = true → rc < 0x80 ∧ reasonValid 6 rc = true) →
      ∃ rest, (step s (.recv conn (.pubrel id rc))).2 =
        .wrote conn (.ack (getObj s i).ver 7 id (if (flGet (getObj s i) id).isNone then 0x92 else 0)) :: rest) ∧
    (∀ id rc, ((flGet (getObj s i) id).isSome = true → rc < 0x80 ∧ reasonValid 5 rc = true) →
      ∃ rest, (step s (.recv conn (.pubrec id rc))).2 =
        .wrote conn (.ack (getObj s i).ver 6 id (if (flGet (getObj s i) id).isNone then 0x92 else 0)) :: rest) ∧
    (∃ rest, (step s (.recv conn .pingreq)).2 = .wrote conn .pingresp :: rest) := by
  refine ⟨fun id subId fs h => C07_subscribe_answered s conn i id subId fs L h,
    fun id fs h => C07_unsubscribe_answered s conn i id fs L h,
    fun dup retain id topic payload me alias h1 h2 h3 =>
      C07_publish_qos1_answered_partial s conn i L dup retain id topic payload me alias h1 h2 h3,
    fun dup retain id topic payload me alias h1 h2 =>
      C07_publish_qos2_answered_partial s conn i L dup retain id topic payload me alias h1 h2,
    fun id topic alias h t rc g => ?_,
    fun id rc h => C07_pubrel_answered_partial s conn i id rc L h,
    fun id rc h => C07_pubrec_answered_partial s conn i id rc L h,
    C07_pingreq_answered s conn i L⟩
  rcases pubVerdict_qos0 s i id topic alias h with e | e <;> rw [e] at g <;> cases g

end Mochi.Broker

#print axioms Mochi.Broker.C07_subscribe_answered
#print axioms Mochi.Broker.C07_unsubscribe_answered
#print axioms Mochi.Broker.C07_publish_every_exit
#print axioms Mochi.Broker.C07_publish_qos1_answered_partial
#print axioms Mochi.Broker.C07_publish_qos2_answered_partial
#print axioms Mochi.Broker.C07_publish_qos0_no_ack
#print axioms Mochi.Broker.C07_pubrel_answered_partial
#print axioms Mochi.Broker.C07_pubrec_answered_partial
#print axioms Mochi.Broker.C07_pingreq_answered
#print axioms Mochi.Broker.C07_every_request_answered_seq
#print axioms Mochi.Broker.C07_demo_answers
#print axioms Mochi.Broker.C07_demo_reach
#print axioms Mochi.Broker.C07_F07c_counterexample
#print axioms Mochi.Broker.C07_F07d_counterexample

/-! ## An acknowledgement that does not fit the client's Maximum Packet Size (M15, `Model/AckFit.lean`)

The one way a well-formed request can be left without its acknowledgement by a broker that works: the client
announced a Maximum Packet Size the SUBACK / UNSUBACK exceeds, and `WritePacket` refuses it. "Answered or closed"
then rests on `receivePacket` returning the error (tie A: `C07_receive_packet_order_tied`; tie B: the `ackfit`
suite runs the scenario on the real broker on both sides of the boundary `5 + n ≤ mps`). -/

open Mochi.AckFit in
/-- for every Maximum Packet Size and every number of filters: the request is acknowledged with exactly one reason
    code per filter, or the connection is closed — never neither; and it is acknowledged exactly when the
    acknowledgement fits -/
theorem C07_ack_fits_or_closed (mps n : Nat) :
    (answer mps n = .ack n ∨ answer mps n = .closed) ∧ answer mps n ≠ .silent ∧
    (answer mps n = .ack n ↔ (mps = 0 ∨ ackSize5 n ≤ mps)) := by
  unfold answer
  by_cases h : mps = 0 ∨ ackSize5 n ≤ mps
  · simp [h]
  · simp [h]

open Mochi.AckFit in
/-- the boundary for fewer than 125 filters: the acknowledgement takes `5 + n` bytes -/
theorem C07_ack_size_small (n : Nat) (h : n < 125) : ackSize5 n = 5 + n := by
  unfold ackSize5 varintLen
  have : 3 + n < 128 := by omega
  simp [this]; omega

open Mochi.AckFit in
example : answer 40 35 = .ack 35 ∧ answer 40 36 = .closed ∧ answer 0 500 = .ack 500 := by decide

#print axioms C07_ack_fits_or_closed
#print axioms C07_ack_size_small

