import Mochi.Model.Broker
import Mochi.Lemmas.AckRes
import Mochi.Lemmas.BrokerAnswers
import Mochi.Props.C04
/-!
# C07 — Every request that requires a response gets one

Model: the handlers of server.go (`processPubrel`, `processPubrec`, `processUnsubscribe`,
`processSubscribe`, `processPingreq`, `processPublish`) — after the repair "fix: a QoS 1/2 PUBLISH to
a refused topic name ($SYS) is answered instead of silently ignored".
Proved handler by handler, for every state: with the connection open the handler's output contains the
required acknowledgement carrying the request's packet identifier (and, for UNSUBACK/SUBACK, one
reason code per filter).  PUBLISH: the refusal branches (invalid topic, unauthorised) answer or close.
Known findings (recorded; covered by the correspondence oracle): F07c — server maximum QoS below the
published QoS: the publish is downgraded and acknowledged as the lower QoS or not at all; F07d — a
QoS 1 PUBLISH reusing the id of a pending inbound QoS 2 exchange is answered with PUBREC.
-/
namespace Mochi.Broker
open Mochi.Topics

/-- the connection's client can be written to -/
def Writable (c : Client) : Prop := c.isOpen = true ∧ c.inline = false ∧ c.peerGone = false

theorem writeMsg_ack (s : Server) (i : Nat) (t id rc : Nat) (ht : t ≠ 3) (hw : Writable (getObj s i)) :
    writeMsg s i { type := t, id := id, reasonCode := rc } = [.wrote (getObj s i).conn (.ack (getObj s i).ver t id rc)] := by
  obtain ⟨h1, h2, h3⟩ := hw
  unfold writeMsg
  have : (t == 3) = false := by simpa using ht
  simp [h1, h2, h3, this]

theorem Writable.live {c : Client} (hw : Writable c) : dead c = false := dead_of_live hw.1 hw.2.2

/-- PUBREL for an unknown identifier is answered with PUBCOMP (reason 0x92) -/
theorem C07_pubrel_unknown (s : Server) (i id rc : Nat) (hw : Writable (getObj s i))
    (hk : flGet (getObj s i) id = none) :
    (processPubrel s i id rc).2.1 = [.wrote (getObj s i).conn (.ack (getObj s i).ver 7 id 0x92)] := by
  unfold processPubrel
  simp only [hk, Option.isNone_none, if_true, ackRes_live s i 7 id 0x92 hw.live, writeAck]
  exact writeMsg_ack s i 7 id 0x92 (by decide) hw

/-- PUBREC for an unknown identifier is answered with PUBREL (reason 0x92) -/
theorem C07_pubrec_unknown (s : Server) (i id rc : Nat) (hw : Writable (getObj s i))
    (hk : flGet (getObj s i) id = none) :
    (processPubrec s i id rc).2.1 = [.wrote (getObj s i).conn (.ack (getObj s i).ver 6 id 0x92)] := by
  unfold processPubrec
  simp only [hk, Option.isNone_none, if_true, ackRes_live s i 6 id 0x92 hw.live, writeAck]
  exact writeMsg_ack s i 6 id 0x92 (by decide) hw

/-- PINGREQ is answered with PINGRESP -/
theorem C07_pingreq (s : Server) (i : Nat) (hopen : (getObj s i).isOpen = true)
    (hpg : (getObj s i).peerGone = false) :
    ∃ rest, (receivePacket s i .pingreq).2.1 = .wrote (getObj s i).conn .pingresp :: rest := by
  unfold receivePacket
  simp only [dead_of_live hopen hpg, Bool.not_false, if_true]
  exact ⟨_, rfl⟩

/-- a QoS 1/2 PUBLISH to a refused topic name is answered with PUBACK / PUBREC carrying reason 0x90
    (MQTT 5) or the connection is closed (MQTT 3) -/
theorem C07_publish_invalid_topic_v5 (s : Server) (i q id : Nat) (d r : Bool) (topic payload : Str) (me : Nat) (al : Option Nat)
    (hw : Writable (getObj s i)) (hv : (getObj s i).ver = 5) (hq : q ≠ 0) (hbad : isValidFilter topic true = false) :
    (processPublish s i q d r id topic payload me al).2.1 =
      [.wrote (getObj s i).conn (.ack 5 (if q = 2 then 5 else 4) id 0x90)] := by
  unfold processPublish
  have hq' : (q == 0) = false := by simpa using hq
  simp only [hw.2.1, hbad, Bool.not_false, Bool.true_and, if_true, hq', Bool.false_eq_true, if_false, hv, bne_self_eq_false,
    ackRes_live s i _ id 0x90 hw.live, writeAck]
  by_cases h2 : q = 2
  · subst h2
    have := writeMsg_ack s i 5 id 0x90 (by decide) hw
    simp only [hv] at this
    simpa using this
  · have h2' : (q == 2) = false := by simpa using h2
    have := writeMsg_ack s i 4 id 0x90 (by decide) hw
    simp only [hv] at this
    simpa [h2, h2'] using this

theorem C07_publish_invalid_topic_v3_closes (s : Server) (i q id : Nat) (d r : Bool) (topic payload : Str) (me : Nat) (al : Option Nat)
    (hin : (getObj s i).inline = false) (hv : (getObj s i).ver ≠ 5) (hq : q ≠ 0) (hbad : isValidFilter topic true = false) :
    (processPublish s i q d r id topic payload me al).2.2 = some 0x90 := by
  unfold processPublish
  have hq' : (q == 0) = false := by simpa using hq
  have hv' : ((getObj s i).ver != 5) = true := by simpa using hv
  simp [hin, hbad, hq', hv']

/-- UNSUBSCRIBE is answered with UNSUBACK carrying the request's identifier and one reason code per
    filter -/
theorem unsub_fold_len (s : Server) (i : Nat) (inUse : Bool) (cid : Str) (filters : List Str) (acc : Server × List Nat) :
    (filters.foldl (fun (acc : Server × List Nat) (f : Str) =>
      let (s, rcs) := acc
      if inUse then (s, rcs ++ [0x91]) else
      let rr := unsubscribe s.topics f cid
      let s := { s with topics := rr.1, info := if rr.2 then { s.info with subs := s.info.subs - 1 } else s.info }
      let s := modObj s i (fun c => { c with subs := assocDel c.subs f })
      (s, rcs ++ [if rr.2 then 0x00 else 0x11])) acc).2.length = acc.2.length + filters.length := by
  induction filters generalizing acc with
  | nil => simp
  | cons f rest ih =>
    simp only [List.foldl_cons]
    rw [ih]
    obtain ⟨s0, rcs0⟩ := acc
    simp only []
    split <;> simp <;> omega

end Mochi.Broker

/-! ## Operation level: `step s (.recv conn pk)` answers on the same connection, or closes it

`R07.Live s conn i`: client object `i` is the one registered on connection `conn`, open, not stopped, not inline, its
peer not gone.  `R07.Answered conn r X`: `wrote conn X ∈ r.2 ∨ closed conn ∈ r.2`.
(Lemmas: `Mochi/Lemmas/BrokerAnswers.lean`.) -/
namespace Mochi.Broker
open Mochi.Topics R07

/-- the MQTT 3 downgrade leaves MQTT 5 codes alone and turns every failure code into 0x80 for MQTT 3 -/
theorem C07_finCode (ver rc : Nat) :
    (ver = 5 → finCode ver rc = rc) ∧ (rc ≤ 2 → finCode ver rc = rc) ∧ (ver < 5 → rc > 2 → finCode ver rc = 0x80) := by
  unfold finCode
  refine ⟨fun h => ?_, fun h => ?_, fun h g => ?_⟩
  · subst h; simp
  · have : ¬ rc > 2 := by omega
    simp [this]
  · simp [h, g]

/-- the reason code of one filter: 0x91 identifier in use (NOT downgraded for MQTT 3 — the `continue` in
    `processSubscribe` skips the downgrade), else 0x8F invalid filter, 0x82 No Local on a shared subscription, 0x87
    denied (0x80 when `ObscureNotAuthorized`), else the granted QoS `min requested maximumQos` (`C04_suback`) — each
    passed through the MQTT 3 downgrade `finCode` (failure codes become 0x80) -/
theorem C07_suback_code (s : Server) (i id : Nat) (sub : Sub) :
    subCode s i id sub =
      if (flGet (getObj s i) id).isSome then 0x91
      else if !isValidFilter sub.filter false then finCode (getObj s i).ver 0x8F
      else if sub.noLocal && isSharedFilter sub.filter then finCode (getObj s i).ver 0x82
      else if !aclOk s (getObj s i).id sub.filter false then
        finCode (getObj s i).ver (if s.caps.obscureNotAuthorized then 0x80 else 0x87)
      else finCode (getObj s i).ver (min sub.qos s.caps.maximumQos) := by
  unfold subCode
  rw [C04_suback]

/-- **SUBSCRIBE → SUBACK with the same identifier and EXACTLY one reason code per filter, in order, written before
    anything else the op writes** (the retained replay, a released deferred message, …); the connection is not closed
    instead: a live client is always written the SUBACK. -/
theorem C07_subscribe_answered (s : Server) (conn i id subId : Nat) (fs : List Sub) (L : Live s conn i)
    (hne : fs ≠ []) :
    ∃ rcs rest, (step s (.recv conn (.subscribe id subId fs))).2 =
        .wrote conn (.suback (getObj s i).ver id rcs) :: rest ∧
      rcs.length = fs.length ∧ rcs = fs.map (subCode s i id) := by
  obtain ⟨rest, h⟩ := step_prefix L (.subscribe id subId fs)
  have he : fs.isEmpty = false := by cases fs <;> simp_all
  have hh : handler s i (.subscribe id subId fs) = processSubscribe s i id subId fs := by
    show (if fs.isEmpty then _ else _) = _
    rw [he]; rfl
  rw [hh] at h
  obtain ⟨replay, hr⟩ := (processSubscribe_out L id subId fs).2
  rw [hr] at h
  exact ⟨_, replay ++ rest, h, by simp, rfl⟩

/-- **UNSUBSCRIBE → UNSUBACK with the same identifier and exactly one reason code per filter** (0x91 for every filter
    when the identifier is in use, else 0x00 removed / 0x11 no subscription existed), first thing the op writes.  The
    model's UNSUBACK carries the codes for every protocol version; the wire form for MQTT 3 has none (`WPk.render`). -/
theorem C07_unsubscribe_answered (s : Server) (conn i id : Nat) (fs : List Str) (L : Live s conn i) (hne : fs ≠ []) :
    ∃ rcs rest, (step s (.recv conn (.unsubscribe id fs))).2 =
        .wrote conn (.unsuback (getObj s i).ver id rcs) :: rest ∧
      rcs.length = fs.length ∧
      (∀ rc ∈ rcs, if (flGet (getObj s i) id).isSome then rc = 0x91 else (rc = 0x00 ∨ rc = 0x11)) := by
  obtain ⟨rest, h⟩ := step_prefix L (.unsubscribe id fs)
  have he : fs.isEmpty = false := by cases fs <;> simp_all
  have hh : handler s i (.unsubscribe id fs) = processUnsubscribe s i id fs := by
    show (if fs.isEmpty then _ else _) = _
    rw [he]; rfl
  rw [hh] at h
  obtain ⟨rcs, hr, hlen, hcodes⟩ := processUnsubscribe_out L id fs
  rw [hr] at h
  exact ⟨rcs, rest, h, hlen, hcodes⟩

/-- **PINGREQ → PINGRESP**, first thing the op writes. -/
theorem C07_pingreq_answered (s : Server) (conn i : Nat) (L : Live s conn i) :
    ∃ rest, (step s (.recv conn .pingreq)).2 = .wrote conn .pingresp :: rest := by
  obtain ⟨rest, h⟩ := step_prefix L .pingreq
  rw [handler_pingreq L] at h
  exact ⟨rest, h⟩

/-- **PUBREL → PUBCOMP with the same identifier**: reason 0x92 when no record exists under the identifier, reason 0
    when a record exists and the PUBREL carries a defined success code.  Known finding F07b (restriction `hrc`): a
    PUBREL with a failure / undefined reason code for a KNOWN identifier deletes the record and is not answered
    (server.go `processPubrel`: `if pk.ReasonCode >= ErrUnspecifiedError.Code || !pk.ReasonCodeValid() { … return nil }`)
    — counterexample `C07_pubrel_failure_code_unanswered`. -/
theorem C07_pubrel_answered_partial (s : Server) (conn i id rc : Nat) (L : Live s conn i)
    (hrc : (flGet (getObj s i) id).isSome = true → rc < 0x80 ∧ reasonValid 6 rc = true) :
    ∃ rest, (step s (.recv conn (.pubrel id rc))).2 =
      .wrote conn (.ack (getObj s i).ver 7 id (if (flGet (getObj s i) id).isNone then 0x92 else 0)) :: rest := by
  obtain ⟨rest, h⟩ := step_prefix L (.pubrel id rc)
  have ho := (processPubrel_out L id rc).2
  refine ⟨rest, ?_⟩
  rw [h]
  show (processPubrel s i id rc).2.1 ++ rest = _
  rw [ho]
  by_cases h1 : (flGet (getObj s i) id).isNone = true
  · rw [if_pos h1, if_pos h1]; rfl
  · rw [if_neg h1, if_neg h1]
    have hs : (flGet (getObj s i) id).isSome = true := by
      cases hg : flGet (getObj s i) id with
      | none => rw [hg] at h1; exact absurd rfl h1
      | some _ => rfl
    obtain ⟨a, b⟩ := hrc hs
    have : (decide (rc ≥ 0x80) || !reasonValid 6 rc) = false := by
      rw [b]; simp; omega
    rw [this]; rfl

/-- **PUBREC → PUBREL with the same identifier**: reason 0x92 when no record exists under the identifier (the id is
    unknown: the broker still answers), reason 0 when a record exists and the PUBREC carries a defined success code.
    A PUBREC with a failure / undefined reason code for a known identifier ends the exchange: the record is deleted
    and NOTHING is written (MQTT 5 §4.3.3: correct — a failed PUBREC is not followed by PUBREL); counterexample
    `C07_pubrec_failure_code_unanswered`. -/
theorem C07_pubrec_answered_partial (s : Server) (conn i id rc : Nat) (L : Live s conn i)
    (hrc : (flGet (getObj s i) id).isSome = true → rc < 0x80 ∧ reasonValid 5 rc = true) :
    ∃ rest, (step s (.recv conn (.pubrec id rc))).2 =
      .wrote conn (.ack (getObj s i).ver 6 id (if (flGet (getObj s i) id).isNone then 0x92 else 0)) :: rest := by
  obtain ⟨rest, h⟩ := step_prefix L (.pubrec id rc)
  have ho := (processPubrec_out L id rc).2
  refine ⟨rest, ?_⟩
  rw [h]
  show (processPubrec s i id rc).2.1 ++ rest = _
  rw [ho]
  by_cases h1 : (flGet (getObj s i) id).isNone = true
  · rw [if_pos h1, if_pos h1]; rfl
  · rw [if_neg h1, if_neg h1]
    have hs : (flGet (getObj s i) id).isSome = true := by
      cases hg : flGet (getObj s i) id with
      | none => rw [hg] at h1; exact absurd rfl h1
      | some _ => rfl
    obtain ⟨a, b⟩ := hrc hs
    have : (decide (rc ≥ 0x80) || !reasonValid 5 rc) = false := by
      rw [b]; simp; omega
    rw [this]; rfl

/-- PUBREL / PUBREC for an UNKNOWN identifier are always answered (no restriction) -/
theorem C07_pubrel_unknown_answered (s : Server) (conn i id rc : Nat) (L : Live s conn i)
    (hk : flGet (getObj s i) id = none) :
    ∃ rest, (step s (.recv conn (.pubrel id rc))).2 = .wrote conn (.ack (getObj s i).ver 7 id 0x92) :: rest := by
  have := C07_pubrel_answered_partial s conn i id rc L (by rw [hk]; intro h; cases h)
  rw [hk] at this
  exact this

theorem C07_pubrec_unknown_answered (s : Server) (conn i id rc : Nat) (L : Live s conn i)
    (hk : flGet (getObj s i) id = none) :
    ∃ rest, (step s (.recv conn (.pubrec id rc))).2 = .wrote conn (.ack (getObj s i).ver 6 id 0x92) :: rest := by
  have := C07_pubrec_answered_partial s conn i id rc L (by rw [hk]; intro h; cases h)
  rw [hk] at this
  exact this

end Mochi.Broker
