import Mochi.Model.Broker
import Mochi.Lemmas.BrokerConnect
import Mochi.Lemmas.BrokerDelivery
import Mochi.Lemmas.BrokerSession
/-!
# C13 — Connections start with one CONNACK and only authenticated clients are admitted

Sequential part (model `connect` = `attachClient` up to the read loop): a refused connection writes
exactly one CONNACK, creates no session and is closed; a client is admitted only if the
authentication hook allows it, and with no authentication hook every connection is refused.
Schedules (a concurrent publish reaching the new client between `Clients.Add` and the CONNACK write —
known finding F13) are the concurrency model's subject.

For every state reachable by a sequential history: `C13_connack_first_seq` (lemmas in
`Mochi/Lemmas/BrokerConnect.lean`) — a refused CONNECT writes exactly the failure CONNACK and the close and registers
nothing; an admitted one writes, before the CONNACK 0, only the take-over DISCONNECT 0x8E / close on ANOTHER
connection, and no CONNACK afterwards; the first packet on the new connection is the one CONNACK of the op.
-/
namespace Mochi.Broker
open Mochi.Topics

/-- with no authentication hook installed every connection is refused -/
theorem C13_no_hook_refused (s : Server) (k : Connect) (c : Client) (h : s.auth = .none) :
    (refuseCode s k c).isSome = true := by
  unfold refuseCode authAllows
  simp only [h]
  (repeat' split) <;> simp_all

/-- admission implies the authentication hook allowed the client -/
theorem C13_auth (s : Server) (k : Connect) (c : Client) (h : refuseCode s k c = none) : authAllows s k.id = true := by
  unfold refuseCode at h
  (repeat' split at h) <;> simp_all

/-- a refused connection: exactly one packet (the failure CONNACK) is written, the connection is
    closed, and the client map is untouched (no session) -/
theorem C13_refused_no_session (s : Server) (conn : Nat) (k : Connect) (code : Nat)
    (h : refuseCode { s with objs := s.objs ++ [parseConnect s conn k], connOf := s.connOf ++ [(conn, s.objs.length)] } k
          (parseConnect s conn k) = some code) :
    (connect s conn k).1.clients = s.clients ∧
    ((connect s conn k).2.filter (fun o => match o with | .wrote _ _ => true | _ => false)).length = 1 := by
  unfold connect
  simp only [h]
  unfold stopClient
  simp only []
  split <;> simp [setObj]
  all_goals (split <;> simp)

example : ((connect { init {} with auth := .none } 1 { ver := 5, id := [99] }).2.length) = 2 := by decide

end Mochi.Broker

namespace Mochi.Broker

def runOuts (s : Server) (ops : List Op) : Server × List Out :=
  ops.foldl (fun (acc : Server × List Out) op => let r := step acc.1 op; (r.1, acc.2 ++ r.2)) (s, [])

/-- what connection `conn` was written, in order: `true` for a CONNACK -/
def connStream (outs : List Out) (conn : Nat) : List Bool :=
  outs.filterMap fun o => match o with
    | .wrote c (.connack ..) => if c == conn then some true else none
    | .wrote c _ => if c == conn then some false else none
    | _ => none

/-- **F13 (schedule).** A session with a subscription to `a` is resumed on connection 3; its handler is
    parked between `Clients.Add` and `SendConnack`; another client publishes to `a`; the handler
    resumes: connection 3 is written the PUBLISH first and the CONNACK second. (Replayed on the real
    broker on every run: corpus/C13.) -/
theorem C13_connack_first_counterexample :
    connStream (runOuts (init {})
      [.connect 1 { ver := 5, clean := false, id := [99, 49], sei := some 100 },
       .recv 1 (.subscribe 5 0 [{ filter := [97] }]),
       .drop 1,
       .connect 2 { ver := 4, id := [99, 50] },
       .connectHold 3 { ver := 5, clean := false, id := [99, 49], sei := some 100 } 2,
       .recv 2 (.publish 0 false false 0 [97] [1] 0 none),
       .release 3]).2 3 = [false, true] := by decide

/-- the same history without the parked handler: CONNACK first -/
example :
    connStream (runOuts (init {})
      [.connect 1 { ver := 5, clean := false, id := [99, 49], sei := some 100 },
       .recv 1 (.subscribe 5 0 [{ filter := [97] }]),
       .drop 1,
       .connect 2 { ver := 4, id := [99, 50] },
       .connect 3 { ver := 5, clean := false, id := [99, 49], sei := some 100 },
       .recv 2 (.publish 0 false false 0 [97] [1] 0 none)]).2 3 = [true, false] := by decide

end Mochi.Broker

/-! ## C13 for every sequential history -/
namespace Mochi.Broker
open Mochi.Topics

/-- **C13, sequential (item 4).**  `s` reachable by a sequential history, `conn` a fresh connection number, `k` a CONNECT;
    `dec` = the decision of `attachClient` (`refuseCode` in the state where the new client object exists).

    * refused (`dec = some code`): `code` is a failure code (≥ 0x80); the outputs of the op are EXACTLY the failure
      CONNACK on `conn` and the close of `conn`; the Clients map and the delayed wills are unchanged (nothing is
      registered).  In this model every refusal writes a CONNACK: a CONNECT that cannot be decoded / validated before
      the protocol version is known never reaches `attachClient`'s decision (it is the reader's and the codec's
      subject: models M5/M7, property C21), so "refused without CONNACK" does not occur at a `connect` op;
    * admitted (`dec = none`): the authentication hook allowed the client; the outputs are `pre ++ [CONNACK 0] ++ post`
      where `pre` — the take-over of the session's old connection — consists only of a DISCONNECT 0x8E and a close on
      ANOTHER connection `c'`, and `post` (the taken-over handler's will fan-out, the resent in-flight messages, the
      barrier's releases) contains no CONNACK;
    * hence in both cases: the first packet written to `conn` is a CONNACK, and it is the only CONNACK of the op;
      its code is 0 iff the connection was admitted. -/
theorem C13_connack_first_seq (caps : Caps) (s : Server) (hr : ReachSeq caps s) (conn : Nat) (k : Connect)
    (hf : conn ∉ s.connOf.map (·.1)) :
    let dec := refuseCode (connState s conn k) k (parseConnect s conn k)
    let r := step s (.connect conn k)
    (∀ code, dec = some code → code ≥ 0x80 ∧
      r.2 = [.wrote conn (.connack k.ver false code s.caps.receiveMaximum s.caps.maximumQos none), .closed conn] ∧
      r.1.clients = s.clients ∧ r.1.willDelayed = s.willDelayed) ∧
    (dec = none → authAllows s k.id = true ∧
      ∃ c' pre ver sp rm mq seiOut post, c' ≠ conn ∧ TakeoverOut c' pre ∧
        r.2 = pre ++ [.wrote conn (.connack ver sp 0 rm mq seiOut)] ++ post ∧ NoConnack post) ∧
    (∃ ver sp code rm mq seiOut rest, writesTo conn r.2 = .connack ver sp code rm mq seiOut :: rest ∧
      (∀ pk ∈ rest, pk.isConnack = false) ∧ (code = 0 ↔ dec = none)) := by
  intro dec r
  obtain ⟨_, hw, hcm, _⟩ := hr.inv
  have refused : ∀ code, dec = some code → code ≥ 0x80 ∧
      r.2 = [.wrote conn (.connack k.ver false code s.caps.receiveMaximum s.caps.maximumQos none), .closed conn] ∧
      r.1.clients = s.clients ∧ r.1.willDelayed = s.willDelayed := by
    intro code hd
    obtain ⟨e, o, c, w⟩ := connect_refused s conn k code hd hf
    refine ⟨refuseCode_failure _ _ _ _ hd, ?_, ?_, ?_⟩
    · show (step s (.connect conn k)).2 = _; rw [e]; exact o
    · show (step s (.connect conn k)).1.clients = _; rw [e]; exact c
    · show (step s (.connect conn k)).1.willDelayed = _; rw [e]; exact w
  have admitted : dec = none → authAllows s k.id = true ∧
      ∃ c' pre ver sp rm mq seiOut post, c' ≠ conn ∧ TakeoverOut c' pre ∧
        r.2 = pre ++ [.wrote conn (.connack ver sp 0 rm mq seiOut)] ++ post ∧ NoConnack post := fun hd =>
    ⟨C13_auth (connState s conn k) k _ hd, connect_admitted_out s hw hcm conn k hd hf⟩
  refine ⟨refused, admitted, ?_⟩
  cases hd : dec with
  | some code =>
    obtain ⟨hc, ho, _⟩ := refused code hd
    refine ⟨k.ver, false, code, s.caps.receiveMaximum, s.caps.maximumQos, none, [], ?_, (fun _ h => by cases h), ?_⟩
    · rw [ho]; simp [writesTo]
    · constructor
      · intro h0; omega
      · intro h; cases h
  | none =>
    obtain ⟨_, c', pre, ver, sp, rm, mq, seiOut, post, hc', hto, ho, hnp⟩ := admitted hd
    refine ⟨ver, sp, 0, rm, mq, seiOut, writesTo conn post, ?_, writesTo_noConnack hnp, ?_⟩
    · rw [ho, writesTo_append, writesTo_append, writesTo_takeover hto hc']
      simp [writesTo]
    · exact ⟨fun _ => rfl, fun _ => rfl⟩

end Mochi.Broker

/-! ## Non-vacuity -/
namespace Mochi.Broker
open Mochi.Topics

/-- two clients; the authentication hook denies the client id `b` (configured between ops: `ReachSeq.config`) -/
def c13History : List Op :=
  [.connect 1 { ver := 5, id := [115] },
   .connect 2 { ver := 5, id := [99, 49], will := some { topic := [120], payload := [119] } }]

def c13State : Server := { run (init {}) c13History with auth := .deny [98] }

theorem c13State_reach : ReachSeq {} c13State :=
  (ReachSeq.init.run c13History (by decide) (by decide)).config ⟨rfl, rfl, rfl, rfl, rfl, rfl, rfl, rfl⟩

/-- **a refused CONNECT (bad authentication)**: CONNACK 0x86, close, nothing registered -/
example :
    let r := step c13State (.connect 3 { ver := 5, id := [98] })
    refuseCode (connState c13State 3 { ver := 5, id := [98] }) { ver := 5, id := [98] }
      (parseConnect c13State 3 { ver := 5, id := [98] }) = some 0x86 ∧
    r.2 = [.wrote 3 (.connack 5 false 0x86 1024 2 none), .closed 3] ∧ r.1.clients = c13State.clients := by decide

/-- **a take-over**: DISCONNECT 0x8E and close on the old connection 2, then CONNACK 0 on connection 3 -/
example :
    let r := step c13State (.connect 3 { ver := 5, id := [99, 49] })
    r.2.take 3 = [.wrote 2 (.disconnect 5 0x8E), .closed 2, .wrote 3 (.connack 5 false 0 1024 2 none)] ∧
    writesTo 3 r.2 = [.connack 5 false 0 1024 2 none] := by decide

/-- `C13_connack_first_seq` instantiated for both -/
example : ∃ ver sp code rm mq seiOut rest,
    writesTo 3 (step c13State (.connect 3 { ver := 5, id := [98] })).2 = .connack ver sp code rm mq seiOut :: rest ∧
    (∀ pk ∈ rest, pk.isConnack = false) ∧
    (code = 0 ↔ refuseCode (connState c13State 3 { ver := 5, id := [98] }) { ver := 5, id := [98] }
      (parseConnect c13State 3 { ver := 5, id := [98] }) = none) :=
  (C13_connack_first_seq {} c13State c13State_reach 3 { ver := 5, id := [98] } (by decide)).2.2

example : ∃ c' pre ver sp rm mq seiOut post, c' ≠ 3 ∧ TakeoverOut c' pre ∧
    (step c13State (.connect 3 { ver := 5, id := [99, 49] })).2 =
      pre ++ [.wrote 3 (.connack ver sp 0 rm mq seiOut)] ++ post ∧ NoConnack post :=
  ((C13_connack_first_seq {} c13State c13State_reach 3 { ver := 5, id := [99, 49] } (by decide)).2.1 (by decide)).2

end Mochi.Broker

#print axioms Mochi.Broker.C13_connack_first_seq
#print axioms Mochi.Broker.c13State_reach

/-! ## Admitted means registered (`Mochi/Lemmas/BrokerSession.lean`) -/
namespace Mochi.Broker
open Mochi.Topics

/-- **C13, admitted means registered.**  `s` reachable by a sequential history, `conn` a fresh connection number, `k` a
    CONNECT, `dec` the decision of `attachClient`; the client object the op creates has index `s.objs.length`.

    * admitted (`dec = none`): at the end of the op the Clients map is the old one with the NEW object under `k.id`
      (so `k.id ↦ s.objs.length`, every other id as before); the connection table maps `conn` to the new object; the
      new object is open, its connection is `conn`, its client id `k.id`;
    * refused (`dec = some code`): the Clients map is unchanged and no client id is mapped to the new object (nothing
      is registered for `conn`); the new object is closed (and stopped). -/
theorem C13_admitted_registered_seq (caps : Caps) (s : Server) (hr : ReachSeq caps s) (conn : Nat) (k : Connect)
    (hf : conn ∉ s.connOf.map (·.1)) :
    let dec := refuseCode (connState s conn k) k (parseConnect s conn k)
    let r := step s (.connect conn k)
    (dec = none →
      r.1.clients = assocSet s.clients k.id s.objs.length ∧
      assocGet r.1.clients k.id = some s.objs.length ∧
      (∀ id, id ≠ k.id → assocGet r.1.clients id = assocGet s.clients id) ∧
      assocGet r.1.connOf conn = some s.objs.length ∧
      (getObj r.1 s.objs.length).isOpen = true ∧ (getObj r.1 s.objs.length).conn = conn ∧
      (getObj r.1 s.objs.length).id = k.id) ∧
    (∀ code, dec = some code →
      r.1.clients = s.clients ∧ (∀ id, assocGet r.1.clients id ≠ some s.objs.length) ∧
      assocGet r.1.connOf conn = some s.objs.length ∧
      (getObj r.1 s.objs.length).isOpen = false ∧ (getObj r.1 s.objs.length).stopped = true) := by
  intro dec r
  obtain ⟨hs, hw, _, _⟩ := hr.inv
  have hw' : WF r.1 := WF_step s (.connect conn k) hw hf
  constructor
  · intro hd
    obtain ⟨_, c, n, o, cn, _⟩ := sp14_step_connect_admitted s hs hw conn k hf hd
    have hreg : assocGet r.1.clients k.id = some s.objs.length := by
      show assocGet (step s (.connect conn k)).1.clients k.id = _
      rw [c, assocGet_assocSet]; simp
    refine ⟨c, hreg, ?_, n, o, cn, (hw'.clients_valid k.id _ (assocGet_mem _ _ _ hreg)).2⟩
    intro id hid
    show assocGet (step s (.connect conn k)).1.clients id = _
    rw [c, assocGet_assocSet, if_neg hid]
  · intro code hd
    have e := sp14_connect_refused_state s conn k code hd hf
    have hlt : s.objs.length < (connState s conn k).objs.length := by
      show s.objs.length < (s.objs ++ [_]).length
      simp
    have hobj : getObj r.1 s.objs.length = { parseConnect s conn k with isOpen := false, stopped := true } := by
      show getObj (step s (.connect conn k)).1 s.objs.length = _
      rw [e, getObj_setObj_eq _ _ _ hlt]
    have hcl : r.1.clients = s.clients := by
      show (step s (.connect conn k)).1.clients = _
      rw [e]; rfl
    refine ⟨hcl, ?_, ?_, by rw [hobj], by rw [hobj]⟩
    · intro id hid
      rw [hcl] at hid
      exact Nat.lt_irrefl _ (hw.clients_valid id _ (assocGet_mem _ _ _ hid)).1
    · show assocGet (step s (.connect conn k)).1.connOf conn = _
      rw [e]
      show assocGet (s.connOf ++ [(conn, s.objs.length)]) conn = _
      exact assocGet_append_fresh _ _ _ hf

end Mochi.Broker

/-! ### non-vacuity (`c13State`: `c1` is connected on connection 2 as object 2; the hook denies `b`) -/
namespace Mochi.Broker
open Mochi.Topics

/-- the take-over of `c1` on connection 3 is admitted: object 3 is registered under `c1`, open, on connection 3 -/
example : assocGet (step c13State (.connect 3 { ver := 5, id := [99, 49] })).1.clients [99, 49] = some 3 ∧
    (getObj (step c13State (.connect 3 { ver := 5, id := [99, 49] })).1 3).isOpen = true ∧
    (getObj (step c13State (.connect 3 { ver := 5, id := [99, 49] })).1 3).conn = 3 := by
  have h := (C13_admitted_registered_seq {} c13State c13State_reach 3 { ver := 5, id := [99, 49] } (by decide)).1
    (by decide)
  exact ⟨h.2.1, h.2.2.2.2.1, h.2.2.2.2.2.1⟩

/-- the refused CONNECT of `b`: nothing is registered for object 3, which is closed -/
example : (∀ id, assocGet (step c13State (.connect 3 { ver := 5, id := [98] })).1.clients id ≠ some 3) ∧
    (getObj (step c13State (.connect 3 { ver := 5, id := [98] })).1 3).isOpen = false := by
  have h := (C13_admitted_registered_seq {} c13State c13State_reach 3 { ver := 5, id := [98] } (by decide)).2 0x86
    (by decide)
  exact ⟨h.2.1, h.2.2.2.1⟩

example : c13State.objs.length = 3 ∧ assocGet c13State.clients [99, 49] = some 2 := by decide

end Mochi.Broker

#print axioms Mochi.Broker.C13_admitted_registered_seq
