import Mochi.Model.Broker
/-!
# C13 — Connections start with one CONNACK and only authenticated clients are admitted

Sequential part (model `connect` = `attachClient` up to the read loop): a refused connection writes
exactly one CONNACK, creates no session and is closed; a client is admitted only if the
authentication hook allows it, and with no authentication hook every connection is refused.
Schedules (a concurrent publish reaching the new client between `Clients.Add` and the CONNACK write —
known finding F13) are the concurrency model's subject.
-/
namespace Mochi.Broker
open Mochi.Topics

/-- with no authentication hook installed every connection is refused -/
theorem C13_no_hook_refused (s : Server) (k : Connect) (c : Client) (h : s.auth = .none) :
    (refuseCode s k c).isSome = true := by
  unfold refuseCode authAllows
  simp only [h]
  (repeat' split) <;> simp_all

/-- admission implies the authentication hook allowed the client -/
theorem C13_auth (s : Server) (k : Connect) (c : Client) (h : refuseCode s k c = none) : authAllows s k.id = true := by
  unfold refuseCode at h
  (repeat' split at h) <;> simp_all

/-- a refused connection: exactly one packet (the failure CONNACK) is written, the connection is
    closed, and the client map is untouched (no session) -/
theorem C13_refused_no_session (s : Server) (conn : Nat) (k : Connect) (code : Nat)
    (h : refuseCode { s with objs := s.objs ++ [parseConnect s conn k], connOf := s.connOf ++ [(conn, s.objs.length)] } k
          (parseConnect s conn k) = some code) :
    (connect s conn k).1.clients = s.clients ∧
    ((connect s conn k).2.filter (fun o => match o with | .wrote _ _ => true | _ => false)).length = 1 := by
  unfold connect
  simp only [h]
  unfold stopClient
  simp only []
  split <;> simp [setObj]
  all_goals (split <;> simp)

example : ((connect { init {} with auth := .none } 1 { ver := 5, id := [99] }).2.length) = 2 := by decide

end Mochi.Broker
