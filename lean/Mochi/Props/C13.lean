import Mochi.Model.Broker
/-!
# C13 — Connections start with one CONNACK and only authenticated clients are admitted

Sequential part (model `connect` = `attachClient` up to the read loop): a refused connection writes
exactly one CONNACK, creates no session and is closed; a client is admitted only if the
authentication hook allows it, and with no authentication hook every connection is refused.
Schedules (a concurrent publish reaching the new client between `Clients.Add` and the CONNACK write —
known finding F13) are the concurrency model's subject.
-/
namespace Mochi.Broker
open Mochi.Topics

/-- with no authentication hook installed every connection is refused -/
theorem C13_no_hook_refused (s : Server) (k : Connect) (c : Client) (h : s.auth = .none) :
    (refuseCode s k c).isSome = true := by
  unfold refuseCode authAllows
  simp only [h]
  (repeat' split) <;> simp_all

/-- admission implies the authentication hook allowed the client -/
theorem C13_auth (s : Server) (k : Connect) (c : Client) (h : refuseCode s k c = none) : authAllows s k.id = true := by
  unfold refuseCode at h
  (repeat' split at h) <;> simp_all

/-- a refused connection: exactly one packet (the failure CONNACK) is written, the connection is
    closed, and the client map is untouched (no session) -/
theorem C13_refused_no_session (s : Server) (conn : Nat) (k : Connect) (code : Nat)
    (h : refuseCode { s with objs := s.objs ++ [parseConnect s conn k], connOf := s.connOf ++ [(conn, s.objs.length)] } k
          (parseConnect s conn k) = some code) :
    (connect s conn k).1.clients = s.clients ∧
    ((connect s conn k).2.filter (fun o => match o with | .wrote _ _ => true | _ => false)).length = 1 := by
  unfold connect
  simp only [h]
  unfold stopClient
  simp only []
  split <;> simp [setObj]
  all_goals (split <;> simp)

example : ((connect { init {} with auth := .none } 1 { ver := 5, id := [99] }).2.length) = 2 := by decide

end Mochi.Broker

namespace Mochi.Broker

def runOuts (s : Server) (ops : List Op) : Server × List Out :=
  ops.foldl (fun (acc : Server × List Out) op => let r := step acc.1 op; (r.1, acc.2 ++ r.2)) (s, [])

/-- what connection `conn` was written, in order: `true` for a CONNACK -/
def connStream (outs : List Out) (conn : Nat) : List Bool :=
  outs.filterMap fun o => match o with
    | .wrote c (.connack ..) => if c == conn then some true else none
    | .wrote c _ => if c == conn then some false else none
    | _ => none

/-- **F13 (schedule).** A session with a subscription to `a` is resumed on connection 3; its handler is
    parked between `Clients.Add` and `SendConnack`; another client publishes to `a`; the handler
    resumes: connection 3 is written the PUBLISH first and the CONNACK second. (Replayed on the real
    broker on every run: corpus/C13.) -/
theorem C13_connack_first_counterexample :
    connStream (runOuts (init {})
      [.connect 1 { ver := 5, clean := false, id := [99, 49], sei := some 100 },
       .recv 1 (.subscribe 5 0 [{ filter := [97] }]),
       .drop 1,
       .connect 2 { ver := 4, id := [99, 50] },
       .connectHold 3 { ver := 5, clean := false, id := [99, 49], sei := some 100 } 2,
       .recv 2 (.publish 0 false false 0 [97] [1] 0 none),
       .release 3]).2 3 = [false, true] := by decide

/-- the same history without the parked handler: CONNACK first -/
example :
    connStream (runOuts (init {})
      [.connect 1 { ver := 5, clean := false, id := [99, 49], sei := some 100 },
       .recv 1 (.subscribe 5 0 [{ filter := [97] }]),
       .drop 1,
       .connect 2 { ver := 4, id := [99, 50] },
       .connect 3 { ver := 5, clean := false, id := [99, 49], sei := some 100 },
       .recv 2 (.publish 0 false false 0 [97] [1] 0 none)]).2 3 = [true, false] := by decide

end Mochi.Broker
