import Mochi.Model.BufPool
/-!
# C41 — Pooled buffers are never shared or returned dirty

Model: `Mochi.BufPool` (mempool/bufpool.go).  For **every** op sequence and every choice `sync.Pool`
may make.  Partial: `sync.Pool` itself is trusted to be a linearizable bag (it may drop items, never
duplicate them); callers' discipline *get … defer put, no use after put* is a generated fact
(tie A) checked at every `GetBuffer` call site.
-/
namespace Mochi.BufPool

def ids (p : Pool) : List Nat := p.pooled.map (·.id) ++ p.held.map (·.2.id)

structure Inv (p : Pool) : Prop where
  empty : ∀ b ∈ p.pooled, b.len = 0
  capped : p.max > 0 → ∀ b ∈ p.pooled, b.cap ≤ p.max
  exclusive : (ids p).Nodup
  fresh : ∀ i ∈ ids p, i < p.nextId
  users : (p.held.map (·.1)).Nodup

theorem inv_init (m : Nat) : Inv { max := m } := by
  constructor <;> simp [ids]

theorem heldBy_mem (p : Pool) (u : Nat) (b : Buf) (h : heldBy p u = some b) : (u, b) ∈ p.held := by
  unfold heldBy at h
  cases hf : p.held.find? (fun ub => ub.1 == u) with
  | none => simp [hf] at h
  | some ub =>
    simp [hf] at h
    have h1 := List.mem_of_find?_eq_some hf
    have h2 := List.find?_some hf
    simp at h2
    obtain ⟨a, c⟩ := ub
    simp at h h2
    subst h h2
    exact h1

theorem heldBy_none (p : Pool) (u : Nat) (h : (heldBy p u).isSome = false) : u ∉ p.held.map (·.1) := by
  unfold heldBy at h
  simp at h
  intro hm
  simp at hm
  obtain ⟨b, hb⟩ := hm
  exact h u b hb rfl

theorem nodup_erase_map {α β} [DecidableEq α] [DecidableEq β] (f : α → β) (l : List α) (a : α)
    (h : (l.map f).Nodup) : ((l.erase a).map f).Nodup := by
  exact List.Nodup.sublist ((List.erase_sublist).map f) h

theorem eq_of_nodup_map {α β} (f : α → β) (l : List α) (h : (l.map f).Nodup) (a b : α)
    (ha : a ∈ l) (hb : b ∈ l) (hf : f a = f b) : a = b := by
  induction l with
  | nil => simp at ha
  | cons x rest ih =>
    simp only [List.map_cons, List.nodup_cons] at h
    rcases List.mem_cons.mp ha with rfl | ha' <;> rcases List.mem_cons.mp hb with rfl | hb'
    · rfl
    · exfalso; exact h.1 (List.mem_map.mpr ⟨b, hb', hf.symm⟩)
    · exfalso; exact h.1 (List.mem_map.mpr ⟨a, ha', hf⟩)
    · exact ih h.2 ha' hb'

theorem run_max (ops : List Op) (p : Pool) : (ops.foldl step p).max = p.max := by
  induction ops generalizing p with
  | nil => rfl
  | cons op rest ih =>
    simp only [List.foldl_cons]
    rw [ih]
    cases op <;> simp only [step] <;> (repeat' split) <;> rfl

theorem inv_step (p : Pool) (h : Inv p) (op : Op) : Inv (step p op) := by
  cases op with
  | get u choice =>
    simp only [step]
    split
    · exact h
    · rename_i hnh
      have hu : u ∉ p.held.map (·.1) := heldBy_none p u (by simpa using hnh)
      split
      · rename_i b hb
        have hbm : b ∈ p.pooled := by
          cases choice with
          | none => simp at hb
          | some i => simp at hb; exact List.mem_of_getElem? hb
        constructor
        · intro x hx; exact h.empty x (List.mem_of_mem_erase hx)
        · intro hm x hx; exact h.capped hm x (List.mem_of_mem_erase hx)
        · -- ids: pooled.erase b ++ b :: held  is a permutation of ids p
          have hp : (ids { p with pooled := p.pooled.erase b, held := (u, b) :: p.held }).Perm (ids p) := by
            simp only [ids, List.map_cons]
            have := (List.perm_cons_erase hbm)
            have h2 := (this.map (·.id))
            simp only [List.map_cons] at h2
            refine List.Perm.trans ?_ (List.Perm.append_right _ h2.symm)
            simp only [List.cons_append]
            exact List.perm_middle
          exact hp.nodup_iff.mpr h.exclusive
        · intro i hi
          have hp : (ids { p with pooled := p.pooled.erase b, held := (u, b) :: p.held }).Perm (ids p) := by
            simp only [ids, List.map_cons]
            have := (List.perm_cons_erase hbm)
            have h2 := (this.map (·.id))
            simp only [List.map_cons] at h2
            refine List.Perm.trans ?_ (List.Perm.append_right _ h2.symm)
            simp only [List.cons_append]
            exact List.perm_middle
          exact h.fresh i (hp.mem_iff.mp hi)
        · simp only [List.map_cons, List.nodup_cons]; exact ⟨hu, h.users⟩
      · constructor
        · exact h.empty
        · exact h.capped
        · simp only [ids, List.map_cons]
          have : (p.pooled.map (·.id) ++ p.nextId :: p.held.map (·.2.id)).Perm (p.nextId :: ids p) := by
            simp only [ids]; exact List.perm_middle
          rw [this.nodup_iff, List.nodup_cons]
          exact ⟨fun hm => Nat.lt_irrefl _ (h.fresh _ hm), h.exclusive⟩
        · intro i hi
          simp only [ids, List.map_cons, List.mem_append, List.mem_cons] at hi
          rcases hi with hi | hi | hi
          · exact Nat.lt_succ_of_lt (h.fresh i (by simp [ids, hi]))
          · show i < p.nextId + 1; omega
          · exact Nat.lt_succ_of_lt (h.fresh i (by simp only [ids, List.mem_append]; exact Or.inr hi))
        · simp only [List.map_cons, List.nodup_cons]; exact ⟨hu, h.users⟩
  | write u n grow =>
    simp only [step]
    have hids : ids { p with held := p.held.map (fun ub =>
        if ub.1 == u then (ub.1, { ub.2 with len := ub.2.len + n, cap := Nat.max ub.2.cap (Nat.max grow (ub.2.len + n)) })
        else ub) } = ids p := by
      simp only [ids, List.map_map]
      congr 1
      apply List.map_congr_left
      intro ub _
      simp only [Function.comp]
      split <;> rfl
    have husers : (p.held.map (fun ub =>
        if ub.1 == u then (ub.1, ({ ub.2 with len := ub.2.len + n, cap := Nat.max ub.2.cap (Nat.max grow (ub.2.len + n)) } : Buf))
        else ub)).map (·.1) = p.held.map (·.1) := by
      simp only [List.map_map]
      apply List.map_congr_left
      intro ub _
      simp only [Function.comp]
      split <;> rfl
    constructor
    · exact h.empty
    · exact h.capped
    · rw [hids]; exact h.exclusive
    · rw [hids]; exact h.fresh
    · rw [husers]; exact h.users
  | put u =>
    simp only [step]
    split
    · exact h
    · rename_i b hb
      have hbm := heldBy_mem p u b hb
      have hsub : (p.held.filter (fun ub => ub.1 != u)).Sublist p.held := List.filter_sublist
      have hnot : (u, b) ∉ p.held.filter (fun ub => ub.1 != u) := by simp
      -- ids of the filtered held list are a sub-multiset of the old ones not containing b.id
      have hfilt : ∀ ub ∈ p.held.filter (fun ub => ub.1 != u), ub.2.id ≠ b.id := by
        intro ub hub heq
        have hm := (List.mem_filter.mp hub).1
        have hne : ub.1 ≠ u := by simpa using (List.mem_filter.mp hub).2
        -- two different entries with the same buffer id contradict exclusivity
        have hex := h.exclusive
        simp only [ids] at hex
        have hh := (List.nodup_append.mp hex).2.1
        have : ub = (u, b) := by
          exact eq_of_nodup_map (fun x : Nat × Buf => x.2.id) p.held hh ub (u, b) hm hbm heq
        exact hne (by rw [this])
      split
      · constructor
        · exact h.empty
        · exact h.capped
        · exact List.Nodup.sublist (List.Sublist.append_left (hsub.map _) _) h.exclusive
        · intro i hi
          apply h.fresh
          simp only [ids, List.mem_append] at hi ⊢
          rcases hi with hi | hi
          · exact Or.inl hi
          · exact Or.inr ((hsub.map _).subset hi)
        · exact List.Nodup.sublist (hsub.map _) h.users
      · rename_i hcap
        constructor
        · intro x hx
          rcases List.mem_cons.mp hx with rfl | hx
          · rfl
          · exact h.empty x hx
        · intro hm x hx
          rcases List.mem_cons.mp hx with rfl | hx
          · simp only [hm, decide_true, Bool.true_and, decide_eq_true_eq] at hcap
            simp only; omega
          · exact h.capped hm x hx
        · simp only [ids, List.map_cons, List.cons_append, List.nodup_cons]
          have hex := h.exclusive
          simp only [ids] at hex
          constructor
          · intro hmem
            rcases List.mem_append.mp hmem with hm | hm
            · -- b.id among pooled ids: contradicts disjointness pooled/held
              have hdisj := (List.nodup_append.mp hex).2.2
              exact hdisj b.id hm b.id (List.mem_map.mpr ⟨(u, b), hbm, rfl⟩) rfl
            · obtain ⟨ub, hub, heq⟩ := List.mem_map.mp hm
              exact hfilt ub hub heq
          · exact List.Nodup.sublist (List.Sublist.append_left (hsub.map _) _) hex
        · intro i hi
          apply h.fresh
          simp only [ids, List.map_cons, List.cons_append, List.mem_cons, List.mem_append] at hi ⊢
          rcases hi with hi | hi | hi
          · right; exact List.mem_map.mpr ⟨(u, b), hbm, hi.symm⟩
          · exact Or.inl hi
          · exact Or.inr ((hsub.map _).subset hi)
        · exact List.Nodup.sublist (hsub.map _) h.users
  | drop i =>
    simp only [step]
    split
    · rename_i b hb
      constructor
      · intro x hx; exact h.empty x (List.mem_of_mem_erase hx)
      · intro hm x hx; exact h.capped hm x (List.mem_of_mem_erase hx)
      · exact List.Nodup.sublist (List.Sublist.append_right ((List.erase_sublist).map _) _) h.exclusive
      · intro j hj
        apply h.fresh
        simp only [ids, List.mem_append] at hj ⊢
        rcases hj with hj | hj
        · exact Or.inl (((List.erase_sublist).map _).subset hj)
        · exact Or.inr hj
      · exact h.users
    · exact h

/-- the invariant holds after every op sequence, for every choice `sync.Pool` makes -/
theorem C41_invariant (m : Nat) (ops : List Op) : Inv (run { max := m } ops) := by
  unfold run
  suffices ∀ p, Inv p → Inv (ops.foldl step p) from this _ (inv_init m)
  induction ops with
  | nil => intro p h; exact h
  | cons op rest ih => intro p h; exact ih _ (inv_step p h op)

/-- **never dirty**: a buffer handed out by `Get` is empty -/
theorem C41_empty (m : Nat) (ops : List Op) (u : Nat) (choice : Option Nat)
    (hfree : heldBy (run { max := m } ops) u = none) (b : Buf)
    (hget : heldBy (step (run { max := m } ops) (.get u choice)) u = some b) : b.len = 0 := by
  have hinv := C41_invariant m ops
  generalize run { max := m } ops = p at *
  simp only [step, hfree, Option.isSome_none, Bool.false_eq_true, if_false] at hget
  split at hget
  · rename_i b' hb'
    have hbm : b' ∈ p.pooled := by
      cases choice with
      | none => simp at hb'
      | some i => simp at hb'; exact List.mem_of_getElem? hb'
    simp [heldBy] at hget
    subst hget
    exact hinv.empty b' hbm
  · simp [heldBy] at hget
    subst hget; rfl

/-- **never shared**: no buffer is held by two users, nor held and pooled at once -/
theorem C41_exclusive (m : Nat) (ops : List Op) : (ids (run { max := m } ops)).Nodup :=
  (C41_invariant m ops).exclusive

/-- **capped**: a capped pool keeps (hence hands out from the pool) only buffers with cap ≤ max -/
theorem C41_cap (m : Nat) (hm : m > 0) (ops : List Op) : ∀ b ∈ (run { max := m } ops).pooled, b.cap ≤ m := by
  have h := C41_invariant m ops
  have hmax : (run { max := m } ops).max = m := run_max ops _
  intro b hb
  have := h.capped (by rw [hmax]; exact hm) b hb
  rw [hmax] at this; exact this

/-- non-vacuity: a dirty big buffer put into a pool capped at 8 is not kept; a small one is kept clean -/
example : (run { max := 8 } [.get 1 none, .write 1 20 64, .put 1]).pooled = [] := by decide
example : (run { max := 8 } [.get 1 none, .write 1 5 8, .put 1]).pooled = [{ id := 0, len := 0, cap := 8 }] := by decide

end Mochi.BufPool
