import Mochi.Lemmas.Access
import Mochi.Gen.Access
import Mochi.Gen.AccessKnown
/-!
# C33 — Concurrent broker operation is free of data races (lockset / happens-before abstraction) — PARTIAL

`Mochi.Gen.accessTable` is regenerated from the broker's source on every check (tie A,
`go/cmd/vextract`): one row per distinct (memory location, read/write, atomic?, role of the goroutine,
locks held on every path to the access) on the broker's shared structures.  `Mochi.Gen.accessKnown` is
regenerated from the C33 lines of `known-findings.txt` (location + role pair of every recorded race).

* `C33_roles`: the role numbering of the generated table is the one `Mochi.Access.conc` speaks about.
* `C33_lockset`: the executable checker accepts the generated table **up to the recorded findings**
  (kernel evaluation).  When the source gains an unsynchronised conflicting pair — or a recorded one gains a
  new role pair — this evaluates to `false` and the module stops building; `vextract -racereport` names
  the pair, the race detector scenarios of `go/cmd/vrace` replay it.
* `C33_no_unrecorded_race`: the semantic statement, from `locksetOkExcept_sound` (proved for every table):
  in every execution of goroutines that take and release the recorded locks, any two conflicting,
  not-both-atomic accesses of roles that can be concurrent which are enabled at the same time are one of
  the recorded (location, role pair) findings.  With an empty `known-findings` list this is
  `locksetOk_sound`: no such pair at all.

What this does **not** exhibit (DESIGN.md §7 C33): Go's memory model itself (the theorem is about the
lockset/happens-before abstraction), the completeness of the extractor's alias reasoning (objects are named
by variables and field paths; a row's role and locks are only as good as that naming), accesses made by
code in dependencies, and everything reached through dynamic dispatch (hooks, listeners, function values
the extractor cannot bind).  The happens-before edges are the role table `Mochi.Access.concList`; they are
justified in prose there, not derived.
-/
namespace Mochi.Access
open Mochi.Gen

/-- the generated table uses the role numbering of `Mochi.Access.conc` -/
theorem C33_roles : accessRoleNames = roleNames := by decide

/-- every pair of rows of the regenerated table is synchronised (not concurrent by role, not conflicting,
both atomic, or a common lock with a write hold) — except the recorded findings -/
theorem C33_lockset_grouped : groupedOkExcept accessGroups accessKnown = true := by decide +kernel

/-- the same statement about the flat table (`accessTable = rowsOf accessGroups`) -/
theorem C33_lockset : locksetOkExcept accessTable accessKnown = true :=
  groupedOkExcept_rows accessGroups accessKnown C33_lockset_grouped

/-- in every execution, a race of the abstraction is a recorded finding -/
theorem C33_no_unrecorded_race :
    ∀ role tr H, Exec accessTable role tr H →
      ∀ a b, Race conc accessTable role H a b → excused accessKnown a b = true :=
  locksetOkExcept_sound accessTable accessKnown C33_lockset

/-- … namely a recorded (location, role pair) whose location encloses both accesses -/
theorem C33_race_is_recorded :
    ∀ role tr H, Exec accessTable role tr H → ∀ a b, Race conc accessTable role H a b →
      ∃ k ∈ accessKnown, k.obj = a.obj ∧ k.path = pairPath a b ∧
        ((k.r1 = a.role ∧ k.r2 = b.role) ∨ (k.r1 = b.role ∧ k.r2 = a.role)) :=
  fun role tr H hex a b hr => excused_spec (C33_no_unrecorded_race role tr H hex a b hr)

/-! ## Non-vacuity: the checker rejects the defect patterns and accepts their repairs -/

/-- class 0, field 0 (`retainPath`), key 0 (`self` mutex) -/
private def wLocked (role : Nat) : Access := ⟨0, [0], true, false, role, [⟨0, .W⟩], false⟩
private def rUnlocked (role : Nat) : Access := ⟨0, [0], false, false, role, [], false⟩
private def rRLocked (role : Nat) : Access := ⟨0, [0], false, false, role, [⟨0, .R⟩], false⟩
private def wRLocked (role : Nat) : Access := ⟨0, [0], true, false, role, [⟨0, .R⟩], false⟩

/-- a write under the lock against a read without it (the `retainPath` pattern): rejected -/
example : locksetOk [wLocked 3, rUnlocked 3] = false := by decide
/-- the read takes the lock in read mode: accepted -/
example : locksetOk [wLocked 3, rRLocked 3] = true := by decide
/-- two *read* holds protect nothing when one side writes -/
example : locksetOk [wRLocked 3, rRLocked 3] = false := by decide
/-- a role that is concurrent with itself is checked against itself -/
example : locksetOk [⟨0, [0], true, false, 3, [], false⟩] = false := by decide
/-- … one handler per object is not -/
example : locksetOk [⟨0, [0], true, false, 2, [], false⟩] = true := by decide
/-- both atomic: accepted; atomic against plain: rejected (`Will.Flag` against `Will = Will{}`) -/
example : locksetOk [⟨0, [1, 2], true, true, 2, [], false⟩, ⟨0, [1, 2], false, true, 7, [], false⟩] = true := by decide
example : locksetOk [⟨0, [1, 2], false, true, 2, [], false⟩, ⟨0, [1], true, false, 7, [], false⟩] = false := by decide
/-- initialisation happens before publication: `init`/`preAdd` writes against any later reader -/
example : locksetOk [⟨0, [0], true, false, 0, [], false⟩, ⟨0, [0], true, false, 1, [], false⟩,
    rUnlocked 3, rUnlocked 5, rUnlocked 7] = true := by decide
/-- … but `preAdd` does run beside the write loop's idle `select` -/
example : locksetOk [⟨0, [0], true, false, 1, [], false⟩, rUnlocked 4] = false := by decide
/-- different fields, different classes: no conflict -/
example : locksetOk [⟨0, [0], true, false, 3, [], false⟩, ⟨0, [1], true, false, 3, [], false⟩,
    ⟨1, [0], true, false, 3, [⟨0, .W⟩], false⟩] = false := by decide
example : locksetOk [⟨0, [0], true, false, 2, [], false⟩, ⟨0, [1], true, false, 7, [], false⟩,
    ⟨1, [0], true, false, 7, [], false⟩] = true := by decide
/-- fail closed: an `unknown` row is rejected whatever else the table holds -/
example : locksetOk [⟨0, [], true, false, 10, [], true⟩] = false := by decide
/-- a recorded finding excuses exactly its location and role pair -/
example : locksetOkExcept [wLocked 3, rUnlocked 3] [⟨0, [0], 3, 3⟩] = true := by decide
example : locksetOkExcept [wLocked 3, rUnlocked 3, rUnlocked 7] [⟨0, [0], 3, 3⟩] = false := by decide
example : locksetOkExcept [wLocked 3, rUnlocked 3] [⟨0, [1], 3, 3⟩] = false := by decide

/-- the semantics is not empty: the rejected pair really reaches a race state — goroutine 0 takes the lock
and is about to write, goroutine 1 is about to read without it -/
example : ∃ H, Exec [wLocked 3, rUnlocked 3] (fun _ => 3) [(0, .acq 0 .W)] H ∧
    Race conc [wLocked 3, rUnlocked 3] (fun _ => 3) H (wLocked 3) (rUnlocked 3) := by
  refine ⟨[(0, 0, .W)], ?_, 0, 1, by decide, ?_, ?_, by decide, by decide, by decide⟩
  · exact Exec.acq (tr := []) Exec.nil (fun j m' h => by cases h)
  · exact ⟨by simp, rfl, fun h hh => by
      rcases List.mem_singleton.1 hh with rfl
      exact List.mem_singleton.2 rfl⟩
  · exact ⟨by simp, rfl, fun h hh => by cases hh⟩

/-- … and the accepted one does not: with the read lock listed, the reader is not enabled while the
writer holds the lock (it could not have acquired it) -/
example : ∀ tr H, Exec [wLocked 3, rRLocked 3] (fun _ => 3) tr H →
    ∀ a b, ¬ Race conc [wLocked 3, rRLocked 3] (fun _ => 3) H a b :=
  locksetOk_sound _ (by decide) _

end Mochi.Access
