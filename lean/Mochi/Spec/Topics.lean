import Mochi.Model.Topics
/-!
Reference semantics for the topic index: MQTT topic matching stated directly on levels, filter
validity stated per level, and the index as plain sets/maps of entries (no trie, no trimming).
-/
namespace Mochi.Topics

/-- MQTT matching of a filter's levels against a topic's levels: levels compared one by one, `+`
    matches exactly one level, a trailing `#` matches the parent level and any number of child levels. -/
def matchLv : Path → Path → Bool
  | [], [] => true
  | [], _ :: _ => false
  | f :: fs, [] => f == [hash] && fs.isEmpty
  | f :: fs, t :: ts =>
    if f == [hash] then fs.isEmpty
    else (f == [plus] || f == t) && matchLv fs ts

/-- a filter whose first level is a wildcard never matches a topic starting with `$` -/
def dollarRule (f : Path) (topic : Str) : Bool :=
  topic.head? == some dollar && (f.head? == some [plus] || f.head? == some [hash])

/-- `filter` (already stripped of `$share/<group>/`) matches `topic` -/
def specMatch (f : Path) (topic : Str) : Bool :=
  matchLv f (splitLevels topic) && !dollarRule f topic

/-- per-level wildcard rule: `#` only as the whole last level, `+` only as a whole level -/
def specLevelsOK (ls : Path) : Bool :=
  ls.dropLast.all (fun l => !l.contains hash) &&
  (match ls.getLast? with
   | some l => !l.contains hash || l == [hash]
   | none => true) &&
  ls.all (fun l => !l.contains plus || l == [plus])

/-- C30's filter rule -/
def specFilterOK (f : Str) : Bool :=
  let ls := splitLevels f
  !f.isEmpty && specLevelsOK ls &&
  (match ls with
   | l0 :: rest =>
     if isShare l0 then
       (match rest with
        | g :: r2 :: r3 => !g.isEmpty && !g.contains plus && !g.contains hash && !(joinLevels (r2 :: r3)).isEmpty
        | _ => false)
     else true
   | [] => false)

/-- C30's publish-topic rule (the `$SYS` prefix in any letter case, as the code compares) -/
def specTopicOK (t : Str) : Bool :=
  !t.contains plus && !t.contains hash && !(t.length ≥ 4 && (t.take 4).map upper == sysUpper)

/-! ### the index as sets and maps -/

structure Abs where
  subs : List ((Str × Path) × Sub) := []            -- (client, filter levels) ↦ subscription
  shared : List ((Str × Str × Path) × Sub) := []     -- (client, group, filter levels) ↦ subscription
  inline : List ((Nat × Path) × Sub) := []           -- (inline id, filter levels) ↦ subscription
  retained : List (Str × Retained) := []
deriving Repr

def Abs.subscribe (a : Abs) (client : Str) (s : Sub) : Abs × Bool :=
  let ls := splitLevels s.filter
  if isShare (isolate ls 0).1 then
    let k := (client, (isolate ls 1).1, pathFrom ls 2)
    ({ a with shared := assocSet a.shared k s }, (assocGet a.shared k).isNone)
  else
    let k := (client, pathFrom ls 0)
    ({ a with subs := assocSet a.subs k s }, (assocGet a.subs k).isNone)

def Abs.unsubscribe (a : Abs) (filter client : Str) : Abs × Bool :=
  let ls := splitLevels filter
  if isShare (isolate ls 0).1 then
    -- "$share" / "$share/group": no topic filter follows — no entry can be meant, nothing changes
    if !(isolate ls 1).2 then (a, false) else
    let k := (client, (isolate ls 1).1, pathFrom ls 2)
    ({ a with shared := assocDel a.shared k }, (assocGet a.shared k).isSome)
  else
    let k := (client, pathFrom ls 0)
    ({ a with subs := assocDel a.subs k }, (assocGet a.subs k).isSome)

def Abs.inlineSubscribe (a : Abs) (id : Nat) (s : Sub) : Abs × Bool :=
  let k := (id, pathFrom (splitLevels s.filter) 0)
  ({ a with inline := assocSet a.inline k s }, (assocGet a.inline k).isNone)

def Abs.inlineUnsubscribe (a : Abs) (id : Nat) (filter : Str) : Abs × Bool :=
  let k := (id, pathFrom (splitLevels filter) 0)
  ({ a with inline := assocDel a.inline k }, (assocGet a.inline k).isSome)

def Abs.retain (a : Abs) (topic payload : Str) (flag : Bool) : Abs :=
  if payload.length > 0 then
    { a with retained := assocSet a.retained topic { topic := topic, payload := payload, retain := flag } }
  else { a with retained := assocDel a.retained topic }

/-- clients selected for `topic` -/
def Abs.clientsFor (a : Abs) (topic : Str) : List Str :=
  (a.subs.filter (fun e => specMatch e.1.2 topic)).map (·.1.1) |>.eraseDups

/-- (client, group, filter-levels) of the shared subscriptions selected as candidates for `topic` -/
def Abs.sharedFor (a : Abs) (topic : Str) : List (Str × Str × Path) :=
  (a.shared.filter (fun e => specMatch e.1.2.2 topic)).map (·.1)

def Abs.inlineFor (a : Abs) (topic : Str) : List Nat :=
  (a.inline.filter (fun e => specMatch e.1.2 topic)).map (·.1.1) |>.eraseDups

/-- highest QoS among the client's matching subscriptions -/
def Abs.qosFor (a : Abs) (topic client : Str) : Nat :=
  (a.subs.filter (fun e => e.1.1 == client && specMatch e.1.2 topic)).foldl (fun m e => max m e.2.qos) 0

/-- identifiers (> 0) of the client's matching subscriptions -/
def Abs.identsFor (a : Abs) (topic client : Str) : List Nat :=
  (a.subs.filter (fun e => e.1.1 == client && specMatch e.1.2 topic && e.2.ident > 0)).map (·.2.ident)

/-- retained topics a (non-shared) filter must return -/
def Abs.messagesFor (a : Abs) (filter : Str) : List Str :=
  (a.retained.filter (fun e => specMatch (splitLevels filter) e.1)).map (·.1)

end Mochi.Topics
