import Mochi.Model.Hooks
/-!
What C19 says about a dispatcher, as predicates over what can be observed of one dispatcher call: the value
it returned and the trace of hook calls (index, method, arguments, result).  Core Lean only.
-/
namespace Mochi.Hooks

/-- the indices of a trace -/
def idxs (t : List Call) : List Nat := t.map (·.idx)

/-- the error a hook call returned, if the method returns one -/
def Out.error : Out → Option Err
  | .err e => e
  | .pktErr _ e => e
  | .stored _ e => e
  | _ => none

/-- `Chained nxt a t`: the first call of `t` receives `a`; each later call receives `nxt` of the call before -/
def Chained (nxt : Arg → Out → Arg) : Arg → List Call → Prop
  | _, [] => True
  | a, c :: rest => c.input = a ∧ Chained nxt (nxt c.input c.output) rest

instance instDecidableChained (nxt : Arg → Out → Arg) : ∀ (a : Arg) (t : List Call), Decidable (Chained nxt a t)
  | _, [] => isTrue trivial
  | a, c :: rest =>
    have := instDecidableChained nxt (nxt c.input c.output) rest
    inferInstanceAs (Decidable (c.input = a ∧ Chained nxt (nxt c.input c.output) rest))

/-- where the chain ends: `nxt` of the last call (the start value if there is no call) -/
def chainEnd (nxt : Arg → Out → Arg) : Arg → List Call → Arg
  | a, [] => a
  | _, c :: rest => chainEnd nxt (nxt c.input c.output) rest

/-- **the property's reading of a chain**: the next hook receives the previous hook's output — the packet
    (will, subscriber set) it returned, whatever else it returned -/
def nextLiteral : Arg → Out → Arg
  | _, .pkt p => .pkt p
  | _, .pktErr p _ => .pkt p
  | .subs _ pk, .subs s => .subs s pk
  | a, _ => a

/-- what `OnPacketRead` and `OnWill` do: the output of a hook that also returned an error is discarded, the next
    hook receives what that hook received -/
def nextAccepted : Arg → Out → Arg
  | a, .pktErr _ (some _) => a
  | a, o => nextLiteral a o

/-- an answer of a `Stored*` method that ends the search: an error, or something non-empty -/
def storedDecides (r : Bytes × Option Err) : Bool := r.2.isSome || r.1.length > 0

/-- does this output make `OnPacketRead` return: an error that is (wraps) `ErrRejectPacket` -/
def Out.rejects (o : Out) : Bool :=
  match o.error with
  | some e => e.isReject
  | none => false

/-- a hook said yes -/
def Out.isYes : Out → Bool
  | .bool true => true
  | _ => false

end Mochi.Hooks
