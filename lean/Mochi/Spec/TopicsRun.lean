import Mochi.Spec.Topics
import Mochi.Lemmas.Invariant
/-!
The reference semantics `Abs` run over a history of index operations, and the return value of each
operation on the trie (`opResult`) and on the plain sets/maps (`Abs.opResult`).
-/
namespace Mochi.Topics

/-- one index operation on the plain sets/maps -/
def Abs.applyOp (a : Abs) : IOp → Abs
  | .subscribe c s => (a.subscribe c s).1
  | .unsubscribe f c => (a.unsubscribe f c).1
  | .inlineSubscribe id s => (a.inlineSubscribe id s).1
  | .inlineUnsubscribe id f => (a.inlineUnsubscribe id f).1
  | .retain t p fl => a.retain t p fl

/-- the sets/maps reached from the empty index by a history of operations -/
def absRun (ops : List IOp) : Abs := ops.foldl Abs.applyOp {}

/-- Bool results as 1 / 0 -/
def b2i (b : Bool) : Int := if b then 1 else 0

/-- return value of an operation on the trie: is-new (Subscribe, InlineSubscribe), existed
    (Unsubscribe, InlineUnsubscribe) as 1/0; for retain the counter delta `RetainMessage` returns -/
def opResult (x : Index) : IOp → Int
  | .subscribe c s => b2i (subscribe x c s).2
  | .unsubscribe f c => b2i (unsubscribe x f c).2
  | .inlineSubscribe id s => b2i (inlineSubscribe x id s).2
  | .inlineUnsubscribe id f => b2i (inlineUnsubscribe x id f).2
  | .retain t p fl => (retainMessage x t p fl).2

/-- the same return value computed from the plain sets/maps.  Retain: `1` if the payload is
    non-empty; otherwise `-1` if the topic currently holds a retained record whose payload is non-empty
    and whose retain flag is set, else `0`. -/
def Abs.opResult (a : Abs) : IOp → Int
  | .subscribe c s => b2i (a.subscribe c s).2
  | .unsubscribe f c => b2i (a.unsubscribe f c).2
  | .inlineSubscribe id s => b2i (a.inlineSubscribe id s).2
  | .inlineUnsubscribe id f => b2i (a.inlineUnsubscribe id f).2
  | .retain t p _ =>
    if p.length > 0 then 1
    else match assocGet a.retained t with
      | some r => if r.payload.length > 0 && r.retain then -1 else 0
      | none => 0

end Mochi.Topics
