import Mochi.Model.Ledger
namespace Mochi.Ledger
open Mochi.Topics

/-- rule-filter matching as C18 states it: level by level; `+` exactly one level; a trailing `#` one
    or more further levels; otherwise the identical level -/
def specLedgerMatch : Path → Path → Bool
  | [], [] => true
  | [], _ :: _ => false
  | _ :: _, [] => false
  | f :: fs, t :: ts =>
    if f == [hash] && fs.isEmpty then true
    else (f == [plus] || f == t) && specLedgerMatch fs ts

/-- `#` occurs only as the last level -/
def hashOnlyLast : Path → Bool
  | [] => true
  | [_] => true
  | l :: rest => l != [hash] && hashOnlyLast rest

end Mochi.Ledger
