import Mochi.Model.Varint
/-! Reference semantics of MQTT variable byte integers (spec §1.5.5), written independently of the
Go loop: at most four bytes, little-endian base-128 digits. -/
namespace Mochi.Varint

/-- minimal number of bytes for `n` -/
def minLen (n : Nat) : Nat :=
  if n < 128 then 1 else if n < 16384 then 2 else if n < 2097152 then 3 else 4

/-- Spec decoder: read at most four bytes. -/
def specDecode : List Nat → DecRes
  | [] => .error .eof
  | [a] => if a < 128 then .ok (a, 1) else .error .eof
  | a :: b :: rest =>
    if a < 128 then .ok (a, 1)
    else if b < 128 then .ok (a % 128 + 128 * b, 2)
    else match rest with
      | [] => .error .eof
      | c :: rest2 =>
        if c < 128 then .ok (a % 128 + 128 * (b % 128) + 16384 * c, 3)
        else match rest2 with
          | [] => .error .eof
          | d :: _ =>
            if d < 128 then .ok (a % 128 + 128 * (b % 128) + 16384 * (c % 128) + 2097152 * d, 4)
            else .error .malformed

end Mochi.Varint
