def hello := "world"
