import Mochi.Driver.Util
import Mochi.Spec.Topics
namespace Mochi.Driver
open Mochi.Topics

def sortStrs (xs : List String) : List String := xs.mergeSort (fun a b => !(b < a))

def renderPath (p : Path) : String := "/".intercalate (p.map toHex)

def renderSub (s : Sub) : String :=
  s!"f={toHex s.filter},q={s.qos},nl={boolStr s.noLocal},rap={boolStr s.rap},rh={s.rh},id={s.ident}"

def renderIdents (s : Sub) : String :=
  match s.idents with
  | none => "nil"
  | some m => ",".intercalate (sortStrs (m.map fun (f, n) => s!"{toHex f}={n}"))

def renderNode (n : Node) : String :=
  let ss := ",".intercalate (sortStrs (n.subs.map fun (c, s) => s!"{toHex c}=({renderSub s})"))
  let hs := ",".intercalate (sortStrs (n.shared.map fun (g, m) =>
    s!"{toHex g}=[" ++ ",".intercalate (sortStrs (m.map fun (c, s) => s!"{toHex c}=({renderSub s})")) ++ "]"))
  let is := ",".intercalate ((n.inline.map (·.1)).mergeSort.map fun id =>
    match assocGet n.inline id with
    | some s => s!"{id}=({renderSub s})"
    | none => "")
  s!"{renderPath n.path}|S({ss})|H({hs})|I({is})|R{toHex n.retainPath}"

def renderRetained (r : List (Str × Retained)) : String :=
  ",".intercalate (sortStrs (r.map fun (t, pk) => s!"{toHex t}={toHex pk.payload}:{boolStr pk.retain}"))

def renderIndex (x : Index) : String :=
  " ".intercalate (sortStrs (x.nodes.map renderNode)) ++ " RET[" ++ renderRetained x.retained ++ "]"

def renderSubscribersFull (r : Subscribers) : String :=
  let ss := ";".intercalate (sortStrs (r.subs.map fun (c, s) => s!"{toHex c}:({renderSub s}):ids({renderIdents s})"))
  let hs := ";".intercalate (sortStrs (r.shared.flatMap fun (f, m) => m.map fun (c, s) => s!"{toHex f}:{toHex c}:({renderSub s})"))
  let is := ",".intercalate ((r.inline.map (·.1)).mergeSort.map toString)
  s!"S[{ss}] H[{hs}] I[{is}]"

/-- reduced view used for the spec verdict: per client the highest qos and the positive identifiers;
    shared candidates as client/group/path; inline ids -/
def renderReducedSpec (a : Abs) (topic : Str) : String :=
  let cs := a.clientsFor topic
  let ss := ";".intercalate (sortStrs (cs.map fun c =>
    s!"{toHex c}:q{a.qosFor topic c}:i" ++ ",".intercalate ((a.identsFor topic c).mergeSort.eraseDups.map toString)))
  let hs := ";".intercalate (sortStrs ((a.sharedFor topic).map fun (c, g, p) => s!"{toHex c}/{toHex g}/{renderPath p}"))
  let is := ",".intercalate ((a.inlineFor topic).mergeSort.map toString)
  s!"S[{ss}] H[{hs}] I[{is}]"

def renderReducedModel (r : Subscribers) : String :=
  let ss := ";".intercalate (sortStrs (r.subs.map fun (c, s) =>
    s!"{toHex c}:q{s.qos}:i" ++ ",".intercalate (((match s.idents with
      | none => []
      | some m => (m.map (fun (kv : Str × Nat) => kv.2)).filter (· > 0))).mergeSort.eraseDups.map toString)))
  let hs := ";".intercalate (sortStrs (r.shared.flatMap fun (f, m) => m.map fun (c, _) =>
    match splitLevels f with
    | _ :: g :: r2 :: r3 => s!"{toHex c}/{toHex g}/{renderPath (r2 :: r3)}"
    | _ => s!"{toHex c}/?/?"))
  let is := ",".intercalate ((r.inline.map (·.1)).mergeSort.map toString)
  s!"S[{ss}] H[{hs}] I[{is}]"

def renderMsgs (ms : List (Str × Str)) : String :=
  ";".intercalate (sortStrs (ms.map fun (t, p) => s!"{toHex t}={toHex p}"))

structure TState where
  idx : Index := {}
  abs : Abs := {}
  allValid : Bool := true    -- every filter used so far in this sequence is spec-valid

def parseBool (s : String) : Bool := s == "1"

def subValidTopic (t : Str) : Bool := !t.isEmpty && !t.contains plus && !t.contains hash

/-- topic-index ops; returns new state and (model, verdict, sig) -/
def topicsOp (st : TState) (impl : String) : List String → Option (TState × String × String × String)
  | ["t.valid", h, fp] => do
    let f ← parseHex h
    let pub := parseBool fp
    let m := boolStr (isValidFilter f pub)
    let want := boolStr (if pub then specTopicOK f else specFilterOK f)
    some (st, m, verdict (impl == want) s!"spec wants {want}", "-")
  | ["t.iso", h, d] => do
    let f ← parseHex h
    let k ← d.toNat?
    let r := isolate (splitLevels f) k
    some (st, s!"{toHex r.1} {boolStr r.2}", "ok", "-")
  | ["t.sub", c, f, q, nl, rap, rh, id] => do
    let c ← parseHex c; let f ← parseHex f
    let s : Sub := { filter := f, qos := (← q.toNat?), noLocal := parseBool nl, rap := parseBool rap,
                     rh := (← rh.toNat?), ident := (← id.toNat?) }
    let (x', isNew) := subscribe st.idx c s
    let (a', wantNew) := st.abs.subscribe c s
    let v := st.allValid && specFilterOK f
    some ({ idx := x', abs := a', allValid := v }, boolStr isNew,
          if v then verdict (impl == boolStr wantNew) s!"spec wants new={boolStr wantNew}" else "ok", "-")
  | ["t.unsub", f, c] => do
    let c ← parseHex c; let f ← parseHex f
    let (x', ex) := unsubscribe st.idx f c
    let (a', wantEx) := st.abs.unsubscribe f c
    let v := st.allValid && specFilterOK f
    some ({ idx := x', abs := a', allValid := v }, boolStr ex,
          if v then verdict (impl == boolStr wantEx) s!"spec wants existed={boolStr wantEx}" else "ok", "-")
  | ["t.isub", id, f] => do
    let f ← parseHex f; let id ← id.toNat?
    let s : Sub := { filter := f, ident := id }
    let (x', isNew) := inlineSubscribe st.idx id s
    let (a', wantNew) := st.abs.inlineSubscribe id s
    let v := st.allValid && specFilterOK f && !isSharedFilter f
    some ({ idx := x', abs := a', allValid := v }, boolStr isNew,
          if v then verdict (impl == boolStr wantNew) s!"spec wants new={boolStr wantNew}" else "ok", "-")
  | ["t.iunsub", id, f] => do
    let f ← parseHex f; let id ← id.toNat?
    let (x', ex) := inlineUnsubscribe st.idx id f
    let (a', wantEx) := st.abs.inlineUnsubscribe id f
    let v := st.allValid && specFilterOK f && !isSharedFilter f
    some ({ idx := x', abs := a', allValid := v }, boolStr ex,
          if v then verdict (impl == boolStr wantEx) s!"spec wants existed={boolStr wantEx}" else "ok", "-")
  | ["t.retain", t, p, fl] => do
    let t ← parseHex t; let p ← parseHex p
    let (x', r) := retainMessage st.idx t p (parseBool fl)
    let a' := st.abs.retain t p (parseBool fl)
    let v := st.allValid && subValidTopic t
    some ({ idx := x', abs := a', allValid := v }, toString r, "ok", "-")
  | ["t.dump"] =>
    some (st, renderIndex st.idx, "ok", "-")
  | ["t.subs", t] => do
    let t ← parseHex t
    let res := subscribers st.idx t
    let full := renderSubscribersFull res
    let want := renderReducedSpec st.abs t
    let implReduced := match impl.splitOn " @ " with
      | [_, r] => r
      | _ => "?"
    let v := st.allValid && subValidTopic t
    some (st, full ++ " @ " ++ renderReducedModel res,   -- model line = full @ reduced
          if v then verdict (implReduced == want) s!"spec wants {want}" else "ok", "-")
  | ["t.msgs", f] => do
    let f ← parseHex f
    let got := renderMsgs ((messages st.idx f).map fun pk => (pk.topic, pk.payload))
    let want := renderMsgs ((st.abs.messagesFor f).filterMap fun t =>
      (assocGet st.abs.retained t).map fun pk => (t, pk.payload))
    let v := st.allValid && specFilterOK f && !isSharedFilter f
    some (st, got, if v then verdict (impl == want) s!"spec wants {want}" else "ok", "-")
  | _ => none

/-- apply one op of a `t.conc` thread (compact form `name:arg:…`) to the model; result string -/
def concApply (st : TState) (op : String) : Option (TState × String) :=
  match op.splitOn ":" with
  | name :: args => (topicsOp st "" (("t." ++ name) :: args)).map fun r => (r.1, r.2.1)
  | [] => none

def setAt {α} (l : List α) (i : Nat) (v : α) : List α := l.set i v

/-- depth-first search for a serialisation of the threads (consistent with each thread's program
    order) under which the model returns exactly the observed per-op results and ends in the observed
    index. `want[i]` = observed results of thread `i`; pruned as soon as a result differs. -/
def searchSer (wantDump : String) : (fuel : Nat) → TState → List (List String) → List (List String) → Option TState
  | 0, st, threads, _ =>
    if threads.all (·.isEmpty) && renderIndex st.idx == wantDump then some st else none
  | fuel + 1, st, threads, want =>
    if threads.all (·.isEmpty) then (if renderIndex st.idx == wantDump then some st else none) else
    (List.range threads.length).findSome? fun i =>
      match threads[i]?, want[i]? with
      | some (op :: rest), some (w :: wrest) =>
        match concApply st op with
        | some (st', r) =>
          if r == w then searchSer wantDump fuel st' (setAt threads i rest) (setAt want i wrest) else none
        | none => none
      | _, _ => none

/-- run the threads one after the other (the fallback rendering when no serialisation explains the
    observation) -/
def runSerial (st : TState) (threads : List (List String)) : TState × List (List String) :=
  threads.foldl (fun (acc : TState × List (List String)) th =>
    let r := th.foldl (fun (a : TState × List String) op =>
      match concApply a.1 op with
      | some (st', r) => (st', a.2 ++ [r])
      | none => (a.1, a.2 ++ ["?"])) (acc.1, [])
    (r.1, acc.2 ++ [r.2])) (st, [])

def renderConc (res : List (List String)) (x : Index) : String :=
  "|".intercalate (res.map fun r => ",".intercalate r) ++ " D " ++ renderIndex x

/-- `t.conc`: a batch run concurrently on the real index must be explained by some serialisation -/
def topicsConcOp (st : TState) (impl : String) : List String → Option (TState × String × String × String)
  | ["t.conc", spec] =>
    let threads := (spec.splitOn "|").map fun th => th.splitOn ","
    let (resPart, dumpPart) := match impl.splitOn " D " with
      | [a, b] => (a, b)
      | _ => (impl, "")
    let want := (resPart.splitOn "|").map fun r => r.splitOn ","
    let total := (threads.map (·.length)).foldl (· + ·) 0
    match searchSer dumpPart (total + 1) st threads want with
    | some st' => some (st', impl, "ok", "-")
    | none =>
      let (st', res) := runSerial st threads
      some (st', renderConc res st'.idx,
        "FAIL[C31|-] no serial order of the batch (consistent with each goroutine's program order) yields the observed return values and final index", "-")
  | _ => none

end Mochi.Driver
