import Mochi.Driver.Util
import Mochi.Driver.Broker
import Mochi.Model.WriteBuf
namespace Mochi.Driver
open Mochi.WriteBuf

/-- the code as it is in /repo: `fix: the write loop flushes buffered output when it refuses the last
    queued packet` is applied -/
def wpFlushOnRefusal : Bool := true

structure WState where
  wp : WP := { wbuf := 2048 }
  last : WP := { wbuf := 2048 }   -- state at the last quiescent point (for the drop-report verdict)

/-- the real write loop takes the oldest queued packet as soon as it is idle -/
def autoDequeue (s : WP) : WP := step wpFlushOnRefusal s .dequeue

def renderWP (res : String) (s : WP) : String :=
  let ob := match s.outbuf with | none => "nil" | some b => toString b
  let q := s.queue.length + (if s.inHand.isSome then 1 else 0)
  -- queued packets are written in queue order (the buffer is appended to and flushed as a whole; a packet
  -- bypasses it only when it is empty)
  s!"{res} q={q} outbuf={ob} conn={s.conn} reported={s.reported} dropreports={s.dropReports} order=ok"

/-- spec verdicts (C34) on what the REAL code reported: at a quiescent point everything reported as sent
    is on the connection; every refused packet was reported to a hook -/
def wpVerdict (impl : String) (s : WP) : String :=
  let f (k : String) : Option Nat := (kvGet (impl.splitOn " ") k).bind (·.toNat?)
  let items : List String :=
    (match f "q", f "conn", f "reported" with
     | some 0, some c, some r =>
       if c == r then [] else [s!"FAIL[C34|F34a] quiescent, but {r} bytes were reported sent and only {c} reached the connection"]
     | _, _, _ => []) ++
    (match f "q", f "dropreports" with
     | some 0, some d =>
       if d ≥ s.dropped then [] else [s!"FAIL[C34|F34b] {s.dropped} outbound packet(s) were refused (too large for the client) but only {d} drop(s) were reported to the hooks"]
     | _, _ => [])
  let items := items ++ (match kvGet (impl.splitOn " ") "order" with
    | some o => if o == "ok" then [] else [s!"FAIL[C12|-] queued packets reached the connection out of queue order: {o}"]
    | none => [])
  if items.isEmpty then "ok" else "; ".intercalate items

/-- C23 (size clause) on the real counters: a packet larger than the client's Maximum Packet Size must
    not be reported sent / written -/
def wpSizeVerdict (impl : String) (pre : WP) (size : Nat) : List String :=
  let f (k : String) : Option Nat := (kvGet (impl.splitOn " ") k).bind (·.toNat?)
  match f "reported" with
  | some r =>
    if pre.maxSize > 0 && size > pre.maxSize && r > pre.reported then
      [s!"FAIL[C23|-] a packet of {size} bytes was written to a client whose Maximum Packet Size is {pre.maxSize}"]
    else []
  | none => []

def joinVerdicts (a : String) (extra : List String) : String :=
  if extra.isEmpty then a else if a == "ok" then "; ".intercalate extra else a ++ "; " ++ "; ".intercalate extra

def writebufOp (st : WState) (impl : String) : List String → Option (WState × String × String × String)
  | "wp.new" :: kv =>
    let s : WP := { wbuf := kvNatD kv "wbuf" 2048, maxSize := kvNatD kv "mps" 0 }
    some ({ wp := s, last := s }, "-", "ok", "-")
  | ["wp.enq", size] => do
    let s := autoDequeue (step wpFlushOnRefusal st.wp (.enqueue (← size.toNat?)))
    some ({ st with wp := s }, renderWP "ok" s, wpVerdict impl s, "-")
  | ["wp.enq", size, "expired"] => do   -- the write path does not look at a message's expiry: same step
    let s := autoDequeue (step wpFlushOnRefusal st.wp (.enqueue (← size.toNat?)))
    some ({ st with wp := s }, renderWP "ok" s, wpVerdict impl s, "-")
  | ["wp.loop"] =>
    if st.wp.inHand.isNone then some (st, renderWP "idle" st.wp, "ok", "-") else
    let s := autoDequeue (step wpFlushOnRefusal st.wp .loopWrite)
    some ({ st with wp := s }, renderWP "ok" s, joinVerdicts (wpVerdict impl s) (wpSizeVerdict impl st.wp (st.wp.inHand.getD 0)), "-")
  | ["wp.direct", size] => do
    let size ← size.toNat?
    let r := writePacket st.wp size
    let s := r.1
    some ({ st with wp := s }, renderWP (if r.2 == .sent then "sent" else "toolarge") s,
          joinVerdicts (wpVerdict impl s) (wpSizeVerdict impl st.wp size), "-")
  | _ => none

end Mochi.Driver
