import Mochi.Driver.Util
import Mochi.Spec.Ledger
namespace Mochi.Driver
open Mochi.Ledger Mochi.Topics


structure LState where
  ledger : Ledger := {}

def parseFilters (s : String) : Option (List (Str × Access)) :=
  if s == "." then some [] else
  (s.splitOn ",").mapM fun kv =>
    match kv.splitOn "=" with
    | [k, v] => do some ((← parseHex k), Access.fromNat (← v.toNat?))
    | _ => none

def nb (p : Nat × Bool) : String := s!"{p.1} {boolStr p.2}"

/-- ledger ops.
  `l.user <name> <password> <disallow> <filters>` · `l.auth <client> <user> <remote> <password> <allow>`
  `l.acl <client> <user> <remote> <filters>` · `l.nousers` (Users == nil)
  `l.authok <id> <user> <remote> <password>` · `l.aclok <id> <user> <remote> <topic> <write>`
  `l.match <filter> <topic>` · `l.rmatch <r> <a>` -/
def ledgerOp (st : LState) (impl : String) : List String → Option (LState × String × String × String)
  | ["l.user", name, pw, dis, fs] => do
    let u : UserRule := { password := (← parseHex pw), acl := (← parseFilters fs), disallow := dis == "1" }
    let us := match st.ledger.users with | some us => us | none => []
    some ({ ledger := { st.ledger with users := some (assocSet us (← parseHex name) u) } }, "-", "ok", "-")
  | ["l.auth", c, u, r, pw, al] => do
    let rule : AuthRule := { client := (← parseHex c), username := (← parseHex u), remote := (← parseHex r),
                             password := (← parseHex pw), allow := al == "1" }
    some ({ ledger := { st.ledger with auth := st.ledger.auth ++ [rule] } }, "-", "ok", "-")
  | ["l.acl", c, u, r, fs] => do
    let rule : ACLRule := { client := (← parseHex c), username := (← parseHex u), remote := (← parseHex r),
                            filters := (← parseFilters fs) }
    some ({ ledger := { st.ledger with acl := st.ledger.acl ++ [rule] } }, "-", "ok", "-")
  | ["l.authok", id, u, r, pw] => do
    let cl : Cl := { id := (← parseHex id), username := (← parseHex u), remote := (← parseHex r) }
    some (st, nb (authOk st.ledger cl (← parseHex pw)), "ok", "-")
  | ["l.aclok", id, u, r, t, w] => do
    let cl : Cl := { id := (← parseHex id), username := (← parseHex u), remote := (← parseHex r) }
    -- the harness evaluates the decision 32 times; `impl` is "n ok" if all agree, else "nondet …"
    some (st, nb (aclOk st.ledger cl (← parseHex t) (w == "1")),
          verdict (!impl.startsWith "nondet") "spec wants the same decision on every evaluation", "-")
  | ["l.match", f, t] => do
    let f ← parseHex f; let t ← parseHex t
    let want := boolStr (specLedgerMatch (splitLevels f) (splitLevels t))
    some (st, boolStr (matchTopic f t), verdict (impl == want) s!"spec wants {want}", "-")
  | ["l.rmatch", r, a] => do
    some (st, boolStr (rmatches (← parseHex r) (← parseHex a)), "ok", "-")
  | _ => none

end Mochi.Driver
