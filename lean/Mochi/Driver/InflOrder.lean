import Mochi.Driver.Util
import Mochi.Model.InflOrder
/-!
Driver for the `inflorder` suite (property C12): `mqtt.Inflight` driven directly — `Set`, `Delete`, `GetAll`,
`NextImmediate` — with creation times at the 16/31/32-bit boundaries and packet ids around the 65535 → 1 wrap.

`io.new` · `io.set <id> <created> <expiry>` → `1|0` · `io.del <id>` → `1|0` ·
`io.getall <0|1>` → `<id>@<created>,…` or `-` · `io.next` → `<id>@<created>` or `none`

Records with EQUAL creation time may come out in any order (Go map order and an unstable sort: recorded finding
F12 at the level of the broker), so the implementation's answer is not compared with ONE model order: it is
accepted — and taken as the model's answer — exactly when it is a permutation of the collected records that is
sorted by creation time (for `io.next`: a deferred record than which none is older). Anything else is answered
with the model's own order (a disagreement) and a C12 verdict naming the inverted pair.
-/
namespace Mochi.Driver
open Mochi.InflOrder

structure IoState where
  store : Store := []

def ioRender (r : Rec) : String := s!"{r.id}@{r.created}"

def ioRenderAll (l : List Rec) : String := if l.isEmpty then "-" else ",".intercalate (l.map ioRender)

def ioParse (s : String) : Option (List (Nat × Int)) :=
  if s == "-" then some [] else
  (s.splitOn ",").mapM fun e =>
    match e.splitOn "@" with
    | [a, b] => do let i ← a.toNat?; let c ← b.toInt?; some (i, c)
    | _ => none

/-- the first adjacent pair that is out of creation order -/
def ioInversion : List (Nat × Int) → Option ((Nat × Int) × (Nat × Int))
  | a :: b :: rest => if b.2 < a.2 then some (a, b) else ioInversion (b :: rest)
  | _ => none

def ioSortNat (l : List Nat) : List Nat := l.mergeSort (fun a b => decide (a ≤ b))

def inflOrderOp (st : IoState) (impl : String) : List String → Option (IoState × String × String × String)
  | ["io.new"] => some ({}, "-", "ok", "-")
  | ["io.set", id, created, expiry] =>
    match id.toNat?, created.toInt?, expiry.toInt? with
    | some i, some c, some e =>
      let (s', fresh) := set st.store { id := i, created := c, expiry := e }
      some ({ store := s' }, if fresh then "1" else "0", "ok", "-")
    | _, _, _ => none
  | ["io.del", id] =>
    match id.toNat? with
    | some i => let (s', was) := del st.store i; some ({ store := s' }, if was then "1" else "0", "ok", "-")
    | none => none
  | ["io.getall", imm] =>
    let immediate := imm == "1"
    let cands := candidates st.store immediate
    let own := ioRenderAll (getAll st.store immediate)
    match ioParse impl with
    | none => some (st, own, "ok", "-")
    | some got =>
      let samePairs := ioSortNat (got.map (·.1)) == ioSortNat (cands.map (·.id)) &&
        got.all fun (i, c) => cands.any fun r => r.id == i && r.created == c
      match ioInversion got with
      | some (a, b) =>
        some (st, own, s!"FAIL[C12|-] Inflight.GetAll({imm}) returned packet {a.1} (created {a.2}) before packet {b.1} (created {b.2}): not in creation order", "-")
      | none =>
        if samePairs then some (st, impl, "ok", "-") else some (st, own, "ok", "-")
  | ["io.next"] =>
    let cands := candidates st.store true
    let own := match nextImmediate st.store with | some r => ioRender r | none => "none"
    if impl == "none" then some (st, own, "ok", "-") else
    match ioParse impl with
    | some [(i, c)] =>
      let isCand := cands.any fun r => r.id == i && r.created == c
      match cands.find? (fun r => decide (r.created < c)) with
      | some older =>
        if isCand then
          some (st, own, s!"FAIL[C12|-] Inflight.NextImmediate returned packet {i} (created {c}) while the deferred packet {older.id} (created {older.created}) is older", "-")
        else some (st, own, "ok", "-")
      | none => if isCand then some (st, impl, "ok", "-") else some (st, own, "ok", "-")
    | _ => some (st, own, "ok", "-")
  | _ => none

end Mochi.Driver
