import Mochi.Driver.BrokerSpec
import Mochi.Driver.Reader
import Mochi.Model.Session
/-!
Driver for the `hostile` suite (C28): raw byte ops on broker connections.

  `bk.rawconn <n> <hex>`   first bytes of a new connection
  `bk.raw <n> <hex>`       more bytes on connection n

The harness (go/cmd/vharness/hostile.go) frames the connection's stream by the fixed-header rule alone,
sends the complete frames, a PINGREQ barrier, then the incomplete rest; the same framing (`specFrames`)
is applied here, the barrier PINGREQ is inserted at the same place and its PINGRESP removed from the
rendered output.  The bytes go through the reader model + M1 (`readConnection`, `readStream`) and
`Model/Session.lean` into M3 — RAW ops are fully modelled, for the hostile connection and for every
other connection.  The only exception: a CONNECT that is ACCEPTED and asks for something M3 does not
model (an empty client id — the broker invents one —, a keepalive below 30 s — the connection would
time out by itself —, a client Maximum Packet Size, Request Problem Information): from that op to the
end of the sequence the driver echoes the implementation (`echo`), counted in the evidence as
`unmodelled`.
-/
namespace Mochi.Driver
open Mochi.Broker Mochi.Topics Mochi.Codec Mochi.Reader Mochi.Session

structure HConn where
  n : Nat
  pending : List Nat := []
  started : Bool := false        -- a first complete frame has been sent
  established : Bool := false    -- the CONNECT was read (an M3 object exists)

structure HState where
  maxpkt : Nat := 0
  conns : List HConn := []
  echo : Bool := false

def HState.get (h : HState) (n : Nat) : Option HConn := h.conns.find? (·.n == n)
def HState.put (h : HState) (c : HConn) : HState :=
  { h with conns := (h.conns.filter (·.n != c.n)) ++ [c] }

/-- end offset of the last complete frame at the head of `bs`, by the harness's rule -/
def framesEnd (bs : List Nat) : Nat :=
  (completeFrames bs.length bs).foldl (· + ·) 0

/-- remove the last `wrote n PINGRESP` (the barrier's answer) -/
def dropLastPingresp (n : Nat) (outs : List Out) : List Out :=
  let isP (o : Out) : Bool := match o with | .wrote c .pingresp => c == n | _ => false
  match (outs.reverse.findIdx? isP) with
  | some k => (outs.reverse.eraseIdx k).reverse
  | none => outs

/-- handler-written packets and write-loop-written PUBLISH packets of one connection are compared as two
    ordered streams (the harness's `partitionPubs`): per `cN:[…]` token, the non-PUBLISH items in order,
    then the PUBLISH items in order -/
def partitionPubs (out : String) : String :=
  " ".intercalate ((out.splitOn " ").map fun t =>
    if t.startsWith "c" && t.endsWith "]" then
      match t.splitOn ":[" with
      | c :: rest@(_ :: _) =>
        let body := (":[".intercalate rest).dropEnd 1 |>.toString
        let items := body.splitOn ";"
        let a := items.filter (fun it => !it.startsWith "PUB:")
        let p := items.filter (fun it => it.startsWith "PUB:")
        c ++ ":[" ++ ";".intercalate (a ++ p) ++ "]"
      | _ => t
    else t)

/-- `WritePacket` buffers a write made while the client's outbound queue is not empty and flushes when
    the write loop has drained the queue; a buffer that was not flushed when the client is stopped is
    lost (flushing is C34's subject, its schedule M4's: whether the queue counts as empty depends on
    whether the write loop had already taken the queued packet).  For a connection that ENDS in this op
    the packets written before the first PUBLISH queued to it are certainly on the wire; of the
    handler-written packets after that point some prefix is: `keep` says how many (resolved against the
    implementation like the map-order seeds, for the op's own connection `n`; 0 for other connections).
    PUBLISH packets to an ending connection are not compared at all (`renderOuts`). -/
def cutAfterQueued (outs : List Out) (n keep : Nat) : List Out :=
  let closing := outs.filterMap fun o => match o with | .closed c => some c | _ => none
  -- state: output so far, connections past their first queued PUBLISH, extra packets still allowed for n
  (outs.foldl (fun (acc : List Out × List Nat × Nat) (o : Out) =>
    let (out, cut, left) := acc
    match o with
    | .wrote c (.publish ..) => if closing.contains c then (out, c :: cut, left) else (out ++ [o], cut, left)
    | .wrote c _ =>
      if cut.contains c then
        if c == n && left > 0 then (out ++ [o], cut, left - 1) else (out, cut, left)
      else (out ++ [o], cut, left)
    | _ => (out ++ [o], cut, left)) ([], [], keep)).1

/-- how many handler-written packets follow the first queued PUBLISH of an ending connection `n` -/
def extraAfterQueued (outs : List Out) (n : Nat) : Nat :=
  if !(outs.any fun o => match o with | .closed c => c == n | _ => false) then 0 else
  let after := outs.dropWhile fun o => match o with | .wrote c (.publish ..) => c != n | _ => true
  (after.filter fun o => match o with | .wrote _ (.publish ..) => false | .wrote c _ => c == n | _ => false).length

/-- an accepted CONNECT outside the region M3 models -/
def connectUnmodelled (pk : Packet) : Bool :=
  pk.connect.clientIdentifier.isEmpty || (pk.connect.keepalive > 0 && pk.connect.keepalive < 30) ||
  pk.properties.maximumPacketSize != 0 || pk.properties.requestProblemInfoFlag

/-- the model of one raw op on connection `n` whose stream so far left `hc.pending`.
    Returns (server, outputs, connection now established?, unmodelled?) -/
def rawModel (cfg : Cfg) (srv : Server) (hc : HConn) (bytes : List Nat) : Server × List Out × Bool × Bool :=
  let all := hc.pending ++ bytes
  let e := framesEnd all
  let barrier := e > 0
  let stream := if barrier then all.take e ++ [0xC0, 0] ++ all.drop e else all
  let fin (r : Server × List Out) (est unm : Bool) : Server × List Out × Bool × Bool :=
    (r.1, if barrier then dropLastPingresp hc.n r.2 else r.2, est, unm)
  if hc.established then fin (feed cfg srv hc.n stream) true false
  else
    match readConnection cfg stream with
    | .needMore => (srv, [], false, false)
    | .error _ => (srv, [.closed hc.n], false, false)
    | .connect pk rest =>
      let (s1, o1) := connectDecoded srv hc.n pk
      let accepted := match assocGet s1.connOf hc.n with
        | some i => (getObj s1 i).isOpen
        | none => false
      if accepted && connectUnmodelled pk then (srv, [], false, true)
      else
        let (s2, o2) := feed cfg s1 hc.n rest
        fin (s2, o1 ++ o2) true false

/-- resolve Go's map-order choices as `stepSearch` does, for a raw op; and the number of buffered
    handler-written packets that reached the wire before an ending connection was stopped -/
def rawSearch (st : BkState) (cfg : Cfg) (hc : HConn) (bytes : List Nat) (impl : String) (sortTail : Option Nat) :
    BkState × String × Bool × Bool :=
  let model (c : Nat × Nat × Nat × Nat) : Server × List Out × Bool × Bool :=
    let (ps, pk, os, ns) := c
    rawModel cfg { st.srv with permSeed := ps, pickSeed := pk, orderSeed := os, nextSeed := ns } hc bytes
  let render (m : Server × List Out × Bool × Bool) (keep : Nat) : BkState × String × Bool × Bool :=
    let (srv, outs, est, unm) := m
    let (st', out) := renderOuts { st with srv := { srv with permSeed := 0, pickSeed := 0, orderSeed := 0, nextSeed := 0 } }
      (cutAfterQueued outs hc.n keep) sortTail
    (st', partitionPubs out, est, unm)
  let run (c : Nat × Nat × Nat × Nat) : Option (BkState × String × Bool × Bool) :=
    let m := model c
    ((List.range (extraAfterQueued m.2.1 hc.n + 1)).map (render m)).find? (fun r => r.2.1 == impl)
  let m0 := model (0, 0, 0, 0)
  let d := render m0 0
  if d.2.2.2 then d else
  match run (0, 0, 0, 0) with
  | some r => r
  | none =>
    let cands : List (Nat × Nat × Nat × Nat) :=
      ((List.range 6).flatMap fun e => (List.range 120).map fun p => (p + permBase * e, 0, 0, 0)) ++
      ((List.range 3).flatMap fun ns => (List.range 24).map fun p => (p, 0, 0, ns + 1)) ++
      ((List.range 27).flatMap fun pk => (List.range 6).map fun os => (0, pk, os, 0))
    match cands.findSome? run with
    | some r => r
    | none => d

/-! ### C28 verdicts on the implementation's answer -/

/-- client id announced by the CONNECT at the head of a stream (for the takeover exemption) -/
def streamConnectId (cfg : Cfg) (stream : List Nat) : Option (List Nat) :=
  match readConnection cfg stream with
  | .connect pk _ => some pk.connect.clientIdentifier
  | _ => none

def c28RawVerdicts (pre : Server) (h : HState) (hc : HConn) (bytes : List Nat) (core : String) : List String :=
  let io := parseImplOut core
  let all := hc.pending ++ bytes
  let cfg : Cfg := { maxPacketSize := h.maxpkt }
  -- connections other than n that ended in this op: only a takeover of the same client id may do that
  let takeoverId : Option (List Nat) := if hc.established then none else streamConnectId cfg all
  let others := io.closed.filter fun k =>
    k != hc.n && match objOfConn pre k with
      | some c => some c.id != takeoverId
      | none => true
  let v2 := others.map fun k => fail "C28" "-" s!"bytes sent on c{hc.n} ended connection c{k}"
  -- a complete frame larger than the configured maximum: the connection must be refused
  let frames := specFrames all.length all
  let big := frames.find? (fun f => h.maxpkt > 0 && f.1 > h.maxpkt)
  let v3 := match big with
    | some f =>
      if io.closed.contains hc.n then [] else
        [fail "C28" "-"
          s!"c{hc.n}: a packet of {f.1} bytes (remaining length {f.2}) was accepted although the maximum packet size is {h.maxpkt}"]
    | none => []
  v2 ++ v3

/-- the reference client's service: a QoS 1 PUBLISH to a topic it holds an exact, plain subscription for
    must be acknowledged and come back -/
def c28RefVerdicts (pre : Server) (ws : List String) (core : String) : List String :=
  match ws with
  | "bk.send" :: n :: "PUBLISH" :: kv =>
    match n.toNat? with
    | none => []
    | some n =>
      match objOfConn pre n with
      | none => []
      | some c =>
        let q := kvNatD kv "q" 0
        let id := kvNatD kv "id" 1
        let topic := (parseHex ((kvGet kv "t").getD "-")).getD []
        let payload := (parseHex ((kvGet kv "p").getD "-")).getD []
        let sub := assocGet c.subs topic
        let entitled := match sub with | some s => !s.noLocal | none => false
        let subQ := match sub with | some s => s.qos | none => 0
        let applicable := c.isOpen && !c.inline && q == 1 && entitled && !payload.isEmpty && specTopicOK topic && !topic.isEmpty &&
          aclOk pre c.id topic true && aclOk pre c.id topic false && c.recvQuota > 0 && (assocGet pre.pubHook topic).isNone &&
          pre.caps.maximumQos ≥ 1 && (kvGet kv "d").isNone && (kvGet kv "ta").isNone && (flGet c id).isNone &&
          -- a No Local subscription of the same client that also matches suppresses the echo (the merge of
          -- overlapping subscriptions ORs No Local: C03's recorded finding F03, not a C28 matter)
          !((matchingEntries pre topic).any fun (cid, sb, _) => cid == c.id && sb.noLocal)
        if !applicable then [] else
        let io := parseImplOut core
        let pks := (io.conns.find? (·.1 == n)).map (·.2) |>.getD []
        let gotAck := pks.any fun p => p.startsWith s!"PUBACK:id{id}:"
        let gotMsg := pks.any fun p => p.startsWith "PUB:" && fieldOf p "p=" == some (toHex payload)
        -- the copy travels at the highest QoS among ALL of the client's matching subscriptions
        let subQ := ((matchingEntries pre topic).filter fun (cid, _, _) => cid == c.id).foldl (fun m (_, sb, _) => max m sb.qos) subQ
        let flow := subQ > 0 && (c.maxSend > 0 || pre.caps.maximumInflight < 8192 || pre.caps.maximumPacketID < 65535)
        (if gotAck then [] else [fail "C28" "-" s!"reference client on c{n} did not get its PUBACK {id}"]) ++
        (if gotMsg || flow then [] else [fail "C28" "-" s!"reference client on c{n} did not get its own message back"])
  | _ => []

/-- F28b: a well-behaved (non-raw) connection was sent a PUBLISH whose topic name contains a wildcard —
    only an unvalidated will topic of some CONNECT can put one into the broker -/
def c28WildcardVerdicts (h : HState) (core : String) : List String :=
  (parseImplOut core).conns.flatMap fun (n, pks) =>
    if (h.get n).isSome then [] else
    if pks.any (fun p => p.startsWith "PUB:" && (p.splitOn "!bad(publish-topic-contains-wildcard)").length > 1) then
      [fail "C28" "F28b" s!"the well-behaved client on c{n} was sent a PUBLISH whose topic name contains a wildcard"]
    else []

def timeoutVerdict (impl : String) : List String :=
  if impl.startsWith "timeout" then [fail "C28" "-" s!"the broker did not answer ({impl})"] else []

/-- every broker op, with the hostile extension and the C28 verdicts -/
def hostileOpV (st : BkState) (h : HState) (impl : String) (ws : List String) :
    Option (BkState × HState × String × String × String) :=
  let (coreH, flags) := match impl.splitOn " V[" with
    | [a, b] => (a, " V[" ++ b)
    | _ => (impl, "")
  let core := match coreH.splitOn " H[" with
    | [a, _] => a
    | _ => coreH
  let addV (base : String) (extra : List String) : String :=
    if extra.isEmpty then base else if base == "ok" then "; ".intercalate extra else base ++ "; " ++ "; ".intercalate extra
  let rawOp (n : Nat) (bytes : List Nat) (isNew : Bool) : Option (BkState × HState × String × String × String) :=
    if h.echo then some (st, h, impl, renderVerdicts (timeoutVerdict impl), "unmodelled") else
    let known := st.order.contains n
    if !isNew && (st.closedSeen.contains n || !known) then some (st, h, "no-conn", "ok", "-") else
    let hc : HConn := (h.get n).getD { n := n }
    let st0 := if known then st else { st with order := st.order ++ [n] }
    let cfg : Cfg := { maxPacketSize := h.maxpkt }
    let all := hc.pending ++ bytes
    let e := framesEnd all
    let firstFrames := !hc.started && e > 0
    let (st', out, est, unm) := rawSearch st0 cfg hc bytes coreH (if firstFrames then some n else none)
    let vs := timeoutVerdict impl ++ c28RawVerdicts st.srv h hc bytes core ++ c28WildcardVerdicts h core
    if unm then some (st, { h with echo := true }, impl, renderVerdicts (timeoutVerdict impl), "unmodelled") else
    let hc' : HConn := { hc with pending := if e > 0 then all.drop e else all, started := hc.started || e > 0,
                                 established := est }
    some (st', h.put hc', out ++ flags, renderVerdicts vs, "-")
  match ws with
  | ["bk.rawconn", n, hex] => do rawOp (← n.toNat?) (← parseHex hex) true
  | ["bk.raw", n, hex] => do rawOp (← n.toNat?) (← parseHex hex) false
  | "bk.new" :: kv =>
    match brokerOpV st impl ws with
    | some (st', m, v, g) => some (st', { maxpkt := kvNatD kv "maxpkt" 0 }, m, v, g)
    | none => none
  | _ =>
    if h.echo && ws.head?.any (·.startsWith "bk.") then some (st, h, impl, renderVerdicts (timeoutVerdict impl), "unmodelled") else
    match brokerOpV st impl ws with
    | some (st', m, v, g) => some (st', h, m, addV v (timeoutVerdict impl ++ c28RefVerdicts st.srv ws core ++ c28WildcardVerdicts h core), g)
    | none => none

end Mochi.Driver
