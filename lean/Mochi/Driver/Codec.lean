import Mochi.Driver.Util
import Mochi.Model.CodecEnc
namespace Mochi.Driver
open Mochi.Codec

def renderProps (p : Props) : String :=
  let nums (l : List Nat) := ",".intercalate (l.map toString)
  let users := "|".intercalate (p.user.map fun (k, v) => toHex k ++ ":" ++ toHex v)
  s!"cd={toHex p.correlationData} si={nums p.subscriptionIdentifier} ad={toHex p.authenticationData} user={users} " ++
  s!"ct={toHex p.contentType} rt={toHex p.responseTopic} aci={toHex p.assignedClientID} am={toHex p.authenticationMethod} " ++
  s!"ri={toHex p.responseInfo} sr={toHex p.serverReference} rs={toHex p.reasonString} " ++
  s!"me={p.messageExpiryInterval} sei={p.sessionExpiryInterval} wdi={p.willDelayInterval} mps={p.maximumPacketSize} " ++
  s!"ska={p.serverKeepAlive} rm={p.receiveMaximum} tam={p.topicAliasMaximum} ta={p.topicAlias} " ++
  s!"pf={p.payloadFormat} fpf={boolStr p.payloadFormatFlag} fsei={boolStr p.sessionExpiryIntervalFlag} " ++
  s!"fska={boolStr p.serverKeepAliveFlag} rpi={p.requestProblemInfo} frpi={boolStr p.requestProblemInfoFlag} " ++
  s!"rri={p.requestResponseInfo} fta={boolStr p.topicAliasFlag} mqos={p.maximumQos} fmqos={boolStr p.maximumQosFlag} " ++
  s!"ra={p.retainAvailable} fra={boolStr p.retainAvailableFlag} wsa={p.wildcardSubAvailable} " ++
  s!"fwsa={boolStr p.wildcardSubAvailableFlag} sida={p.subIDAvailable} fsida={boolStr p.subIDAvailableFlag} " ++
  s!"ssa={p.sharedSubAvailable} fssa={boolStr p.sharedSubAvailableFlag}"

def renderPacket (pk : Packet) : String :=
  let fh := pk.fixedHeader
  let c := pk.connect
  let fs := ";".intercalate (pk.filters.map fun s =>
    s!"{toHex s.filter}:{s.qos}:{boolStr s.noLocal}:{boolStr s.rap}:{s.rh}:{s.identifier}")
  s!"t={fh.type} q={fh.qos} d={boolStr fh.dup} r={boolStr fh.retain} v={pk.protocolVersion} id={pk.packetID} " ++
  s!"rc={pk.reasonCode} sp={boolStr pk.sessionPresent} rb={pk.reservedBit} topic={toHex pk.topicName} " ++
  s!"payload={toHex pk.payload} rcs={toHex pk.reasonCodes} filters=[{fs}] " ++
  s!"conn=(pn={toHex c.protocolName} cid={toHex c.clientIdentifier} wt={toHex c.willTopic} wp={toHex c.willPayload} " ++
  s!"un={toHex c.username} pw={toHex c.password} ka={c.keepalive} pf={boolStr c.passwordFlag} uf={boolStr c.usernameFlag} " ++
  s!"wq={c.willQos} wf={boolStr c.willFlag} wr={boolStr c.willRetain} cl={boolStr c.clean} " ++
  "wprops=(" ++ renderProps c.willProperties ++ ")) props=(" ++ renderProps pk.properties ++ ")"

/-- C26's equivalence: an omitted optional property equals its specified default; values the encoder
    never writes (zero subscription identifiers, response topics with wildcards, topic alias 0,
    maximum QoS ≥ 2, the CONNECT reserved bit) are identified with "absent". -/
def normProps (p : Props) : Props :=
  { p with
    payloadFormat := if p.payloadFormatFlag then p.payloadFormat else 0, payloadFormatFlag := false,
    sessionExpiryInterval := if p.sessionExpiryIntervalFlag then p.sessionExpiryInterval else 0, sessionExpiryIntervalFlag := false,
    requestProblemInfo := if p.requestProblemInfoFlag then p.requestProblemInfo else 1, requestProblemInfoFlag := false,
    topicAlias := if p.topicAliasFlag && p.topicAlias > 0 then p.topicAlias else 0, topicAliasFlag := false,
    maximumQos := if p.maximumQosFlag && p.maximumQos < 2 then p.maximumQos else 2, maximumQosFlag := false,
    retainAvailable := if p.retainAvailableFlag then p.retainAvailable else 1, retainAvailableFlag := false,
    wildcardSubAvailable := if p.wildcardSubAvailableFlag then p.wildcardSubAvailable else 1, wildcardSubAvailableFlag := false,
    subIDAvailable := if p.subIDAvailableFlag then p.subIDAvailable else 1, subIDAvailableFlag := false,
    sharedSubAvailable := if p.sharedSubAvailableFlag then p.sharedSubAvailable else 1, sharedSubAvailableFlag := false,
    subscriptionIdentifier := p.subscriptionIdentifier.filter (· > 0),
    responseTopic := if containsAny p.responseTopic [43, 35] then [] else p.responseTopic }

def normPacket (pk : Packet) : Packet :=
  { pk with reservedBit := 0, properties := normProps pk.properties,
            connect := { pk.connect with willProperties := normProps pk.connect.willProperties } }

def renderDecN : Dec Packet → String
  | .ok pk => "ok " ++ renderPacket (normPacket pk)
  | .error .panic => "panic"
  | .error (.code n) => "err " ++ n

def renderDec : Dec Packet → String
  | .ok pk => "ok " ++ renderPacket pk
  | .error .panic => "panic"
  | .error (.code n) => "err " ++ n

/-- decode header byte + body as `Client.ReadFixedHeader`/`ReadPacket` do -/
def decodeWire (ver hb rem : Nat) (body : List Nat) : Dec Packet :=
  match fixedHeaderDecode hb with
  | .error e => .error e
  | .ok fh => decodeBody ver { fh with remaining := rem } body

def parseMods (s : String) : Option Mods :=
  match s.splitOn "," with
  | [a, b, c] => do some { maxSize := (← a.toNat?), disallowProblemInfo := b == "1", allowResponseInfo := c == "1" }
  | _ => none

/-- codec ops:
  `c.dec <ver> <hb> <rem> <bodyhex>` — decode;
  `c.reenc <ver> <hb> <rem> <bodyhex> <maxSize,disallowProblem,allowResponse>` — decode, re-encode with the
     mods, decode the result again: `E=<hex> D=<decode of E>` -/
def codecOp (impl : String) : List String → Option (String × String × String)
  | ["c.dec", ver, hb, rem, h] => do
    let r := decodeWire (← ver.toNat?) (← hb.toNat?) (← rem.toNat?) (← parseHex h)
    some (renderDec r, verdict (impl != "panic") "spec wants a packet or an error, never a panic", "-")
  | ["c.reenc", ver, hb, rem, h, m] => do
    let ver ← ver.toNat?
    let mods ← parseMods m
    let body ← parseHex h
    let rem ← rem.toNat?
    let r := decodeWire ver (← hb.toNat?) rem body
    let out := match r with
      | .ok pk =>
        match encodePacket { pk with mods := mods } with
        | .ok bytes =>
          -- decode what we wrote: header byte, remaining length, body
          match bytes with
          | hb2 :: rest =>
            match Mochi.Varint.decodeLength rest with
            | .ok (n, bu) =>
              let d2 := decodeWire pk.protocolVersion hb2 n (rest.drop bu)
              s!"E={toHex bytes} L={boolStr (n == (rest.drop bu).length)} Q={boolStr (renderDecN d2 == renderDecN r)} D={renderDec d2}"
            | .error _ => s!"E={toHex bytes} D=badlen"
          | [] => "E=- D=empty"
        | .error (.code n) => "encerr " ++ n
      | .error .panic => "panic"
      | .error (.code n) => "err " ++ n
    let full := mods.maxSize == 0 && !mods.disallowProblemInfo && mods.allowResponseInfo
    some (out, verdict (!impl.startsWith "panic" && (rem != body.length || !(impl.splitOn " L=0").length > 1) &&
                        (!full || rem != body.length || !(impl.splitOn " Q=0").length > 1))
      "spec wants no panic, a remaining length equal to the bytes that follow and (with nothing suppressed) a re-encoding that decodes to an equivalent packet", "-")
  | ["c.ref", ver, hb, rem, h, wantHex] => do
    -- `wantHex` = hex of the rendering of the packet the sender meant (built by the reference generator)
    let r := decodeWire (← ver.toNat?) (← hb.toNat?) (← rem.toNat?) (← parseHex h)
    let want := String.ofList ((← parseHex wantHex).map Char.ofNat)
    some (renderDec r, verdict (impl == want) ("spec wants " ++ want), "-")
  | _ => none

end Mochi.Driver
