import Mochi.Driver.Storage
import Mochi.Model.Restart
/-!
Line protocol of the restart suite (go/cmd/vharness/restart.go). History ops (`sr.conn`, `sr.send`, …) drive
the real broker and answer `-`. `sr.restart` prints `<view before> ## <store> ## <view after>`: the store part is
what the `Stored*` methods returned to `readStore` (the restart model's INPUT, echoed), the model predicts the
view after from it (`Mochi.Storage.restart`), and the C20 verdict compares the implementation's two views.
The live view (`sr.view`, the `before` part) is the subject of the broker suite's model (M3) and is echoed here.
-/
namespace Mochi.Driver.St
open Mochi.Driver Mochi.Storage

/-- `created=now` / `sent=now` (a wall-clock value of this run) is carried through the model as this number -/
def nowSentinel : Nat := 999999999999

def gHex (fs : Fields) (k : String) : Option Str := parseHex (fieldOf fs k)
def gNat (fs : Fields) (k : String) : Option Nat :=
  let v := fieldOf fs k
  if v == "now" then some nowSentinel else v.toNat?
def gBool (fs : Fields) (k : String) : Option Bool := pBool (fieldOf fs k)

def fClient (fs : Fields) : Option ClientRec := do
  let will : Will := { payload := (← gHex fs "w.payload"), user := (← pUsers (fieldOf fs "w.user")), topic := (← gHex fs "w.topic"),
                       flag := (← gNat fs "w.flag"), delay := (← gNat fs "w.delay"), qos := (← gNat fs "w.qos"), retain := (← gBool fs "w.retain") }
  some { id := (← gHex fs "id"), t := (← gHex fs "t"), remote := (← gHex fs "remote"), listener := (← gHex fs "listener"),
         user := (← gHex fs "user"), pv := (← gNat fs "pv"), clean := (← gBool fs "clean"), authData := (← gHex fs "p.authdata"),
         users := (← pUsers (fieldOf fs "p.user")), authMethod := (← gHex fs "p.authmethod"), sei := (← gNat fs "p.sei"),
         maxPkt := (← gNat fs "p.maxpkt"), recvMax := (← gNat fs "p.recvmax"), taMax := (← gNat fs "p.tamax"),
         seiFlag := (← gBool fs "p.seiflag"), reqProb := (← gNat fs "p.reqprob"), reqProbFlag := (← gBool fs "p.reqprobflag"),
         reqResp := (← gNat fs "p.reqresp"), will := will }

def fSub (fs : Fields) : Option SubRec := do
  some { id := (← gHex fs "id"), t := (← gHex fs "t"), client := (← gHex fs "client"), filter := (← gHex fs "filter"),
         ident := (← gNat fs "ident"), rh := (← gNat fs "rh"), qos := (← gNat fs "qos"), rap := (← gBool fs "rap"), nl := (← gBool fs "nl") }

def fMsg (fs : Fields) : Option MsgRec := do
  some { id := (← gHex fs "id"), t := (← gHex fs "t"), client := (← gHex fs "client"), origin := (← gHex fs "origin"),
         topic := (← gHex fs "topic"), payload := (← gHex fs "payload"), remaining := (← gNat fs "fh.rem"), type := (← gNat fs "fh.type"),
         qos := (← gNat fs "fh.qos"), dup := (← gBool fs "fh.dup"), retain := (← gBool fs "fh.retain"), created := (← gNat fs "created"),
         sent := (← gNat fs "sent"), packetId := (← gNat fs "packet_id"), corr := (← gHex fs "p.corr"), subIds := (← pInts (fieldOf fs "p.subids")),
         users := (← pUsers (fieldOf fs "p.user")), ctype := (← gHex fs "p.ctype"), resp := (← gHex fs "p.resp"),
         expiry := (← gNat fs "p.expiry"), alias := (← gNat fs "p.alias"), pf := (← gNat fs "p.pf"), pfFlag := (← gBool fs "p.pfflag") }

/-- parse `C[…] S[…] R[…] I[…] Y[…] E[…]` (records in the order given) -/
def parseStore (s : String) : Option ReadBack :=
  match (s.splitOn " ").map sectionBody with
  | [c, sb, r, i, _, _] => do
    some { clients := (← (parseRecords c).mapM fClient), subs := (← (parseRecords sb).mapM fSub),
           retained := (← (parseRecords r).mapM fMsg), inflight := (← (parseRecords i).mapM fMsg), sys := {} }
  | _ => none

/-! ### rendering of a view (mirrors brokerView in restart.go) -/

def rTime (n : Nat) : String := if n == nowSentinel then "now" else toString n

def rSession (s : Session) : String :=
  s!"id={toHex s.id},pv={s.pv},clean={boolStr s.clean},sei={s.sei},seiflag={boolStr s.seiFlag},user={toHex s.user},rm={s.recvMax}," ++
  s!"tam={s.taMax},mps={s.maxPkt},rpi={s.reqProb},rpif={boolStr s.reqProbFlag},rri={s.reqResp},w.flag={s.will.flag}," ++
  s!"w.topic={toHex s.will.topic},w.payload={toHex s.will.payload},w.qos={s.will.qos},w.retain={boolStr s.will.retain},w.delay={s.will.delay}"

def rOpts (o : SubOpts) : String := s!"q={o.qos},nl={boolStr o.nl},rap={boolStr o.rap},rh={o.rh},ident={o.ident}"

def rKind : SubKind → String | .plain => "plain" | .shared => "shared" | .inline => "inline"

def rViewMsg (m : Msg) : String :=
  s!"type={m.type},qos={m.qos},dup={boolStr m.dup},retain={boolStr m.retain},topic={toHex m.topic},payload={toHex m.payload}," ++
  s!"created={rTime m.created},expiry={if m.expiry == 0 then "0" else s!"c+{m.expiry}"},origin={toHex m.origin},pv={m.pv}," ++
  s!"p.corr={toHex m.corr},p.subids={rInts m.subIds},p.user={rUsers m.users},p.ctype={toHex m.ctype},p.resp={toHex m.resp}," ++
  s!"p.expiry={m.msgExpiry},p.alias={m.alias},p.pf={m.pf},p.pfflag={boolStr m.pfFlag}"

def renderView (v : BrokerView) : String :=
  let sess := v.sessions.map rSession
  let subs := v.subs.map fun e => s!"id={toHex e.client}~{toHex e.filter}~{rKind e.kind},{rOpts e.opts}"
  let csub := v.csubs.map fun e => s!"id={toHex e.1}~{toHex e.2.1},{rOpts e.2.2}"
  let ret := v.retained.map fun e => s!"id={toHex e.1},{rViewMsg e.2}"
  let ifl := v.inflight.map fun e => s!"id={toHex e.1}~{e.2.1},{rViewMsg e.2.2}"
  s!"SESS[{sortedJoin sess}] SUBS[{sortedJoin subs}] CSUB[{sortedJoin csub}] RET[{sortedJoin ret}] IFL[{sortedJoin ifl}]"

/-! ### the C20 check: view after = view before -/

def viewSections : List String := ["SESS", "SUBS", "CSUB", "RET", "IFL"]

/-- `NAME[content]` -> content -/
def namedBody (tok : String) : String :=
  match tok.splitOn "[" with
  | _ :: rest => (("[".intercalate rest).dropEnd 1).toString
  | _ => ""

/-- (signature, text) items of the differences between two views -/
def diffViews (sigOf : String → String → Fields → Option Fields → String) (before after : String) : List (String × String) :=
  let bs := (before.splitOn " ").map namedBody
  let as := (after.splitOn " ").map namedBody
  (viewSections.zip (bs.zip as)).flatMap fun (sec, bb, ab) =>
    let brecs := parseRecords bb
    let arecs := parseRecords ab
    let lostOrChanged := brecs.flatMap fun r =>
      let id := fieldOf r "id"
      match arecs.find? (fun o => fieldOf o "id" == id) with
      | none => [(sigOf sec "lost" r none, s!"{sec} record {id} is not restored")]
      | some o => r.flatMap fun (k, v) =>
          if fieldOf o k == v then [] else
          [(sigOf sec k r (some o), s!"{sec} record {id}: {k}={v} before the shutdown, {fieldOf o k} after the restart")]
    let added := arecs.flatMap fun o =>
      let id := fieldOf o "id"
      if brecs.any (fun r => fieldOf r "id" == id) then [] else
      [(sigOf sec "new" o none, s!"{sec} record {id} exists after the restart only")]
    lostOrChanged ++ added

structure SrState where
  backend : String := ""
  /-- connection number -> client id (hex) -/
  conns : List (String × String) := []
  /-- every (client, filter) pair (hex) a SUBSCRIBE / UNSUBSCRIBE / inline subscribe of this sequence named -/
  touched : List (String × String) := []

def hexInline : String := "696e6c696e65"

def unDash (h : String) : String := if h == "-" then "" else h

/-- the storage key suffix `client:filter` in hex -/
def subKeyHex (c f : String) : String := unDash c ++ "3a" ++ unDash f

/-- another (client, filter) pair of this history has the same storage key -/
def collides (touched : List (String × String)) (c f : String) : Bool :=
  touched.any fun p => (p.1 != c || p.2 != f) && subKeyHex p.1 p.2 == subKeyHex c f

/-- the signature of one difference (`r` = the record before, or the new record; `o` = the record after when both exist) -/
def c20Sig (st : SrState) (sec what : String) (r : Fields) (o : Option Fields) : String :=
  let parts := (fieldOf r "id").splitOn "~"
  let client := parts.headD ""
  let filter := (parts.drop 1).headD ""
  let weak := st.backend == "bolt" || st.backend == "redis"
  if sec == "SESS" && what == "new" then
    -- a connected client missing from the live session table (take-over race in the live broker), present in the store
    "F20k-live-session-missing"
  else if sec == "SESS" then
    if what == "seiflag" then "F20b-seiflag"
    else if what == "rpif" then "F20b-rpif"
    else if weak then "F20i-stale-session-record"
    else s!"F20-SESS.{what}"
  else if sec == "IFL" && fieldOf r "type" == "6" && (o.map (fieldOf · "type")) == some "3" then
    "F20j-qos2-state"   -- PUBREC received: the live record is the PUBREL, the store still holds the PUBLISH
  else if sec == "RET" || sec == "IFL" then
    if what == "expiry" || what == "pv" || what == "p.pfflag" then s!"F20c-{sec}.{what}"
    else if sec == "IFL" && weak then "F20d-packetid"
    else if sec == "IFL" && what == "new" then "F20l-superseded-inflight-write"   -- everything restored under packet id 0, one record overwriting the other
    else s!"F20-{sec}.{what}"
  else
    let qAfter := ((match o with | some o => fieldOf o "q" | none => fieldOf r "q").toNat?).getD 0
    if client == hexInline || parts.getLast? == some "inline" then "F20g-inline-subscription"
    else if what != "lost" && qAfter ≥ 128 then "F20f-refused-subscription"
    else if what == "q" then "F20h-granted-qos"
    else if sec == "CSUB" && what == "new" then "F20k-live-session-missing"
    else if collides st.touched client filter then "F20a-key-collision"
    else s!"F20-{sec}.{what}"

def c20Verdict (st : SrState) (before after : String) : String :=
  let items := dedupSigs (diffViews (c20Sig st) before after)
  if items.isEmpty then "ok" else "; ".intercalate (items.map fun (sg, t) => s!"FAIL[C20|{sg}] {t}")

def historyOps : List String := ["sr.conn", "sr.send", "sr.drop", "sr.tick", "sr.ipub", "sr.isub", "sr.iunsub", "sr.acl"]

/-- `f=` argument of a SUBSCRIBE (`filter:qos:…,…`) or UNSUBSCRIBE (`filter,…`) -/
def filtersOfArgs (args : List String) : List String :=
  match args.find? (·.startsWith "f=") with
  | some a => (((a.drop 2).toString).splitOn ",").map fun t => (t.splitOn ":").headD ""
  | none => []

def noteHistory (st : SrState) : List String → SrState
  | "sr.conn" :: n :: _ :: _ :: id :: _ => { st with conns := (n, id) :: st.conns.filter (·.1 != n) }
  | "sr.send" :: n :: kind :: args =>
    if kind == "SUBSCRIBE" || kind == "UNSUBSCRIBE" then
      let id := (st.conns.lookup n).getD ""
      { st with touched := (filtersOfArgs args).map (fun f => (id, f)) ++ st.touched }
    else st
  | ["sr.isub", _, f] => { st with touched := (hexInline, f) :: st.touched }
  | _ => st

def restartOp (st : SrState) (impl : String) : List String → Option (SrState × String × String × String)
  | "sr.new" :: b :: _ => some ({ backend := b }, "-", "ok", "-")
  | ["sr.view"] => some (st, impl, "ok", "-")     -- the live view is echoed (M3's subject)
  | ["sr.restart"] =>
    match impl.splitOn " ## " with
    | [before, store, after] =>
      match parseStore store with
      | some rb =>
        let predicted := renderView (restart rb)
        some (st, before ++ " ## " ++ store ++ " ## " ++ predicted, c20Verdict st before after, "-")
      | none => some (st, "unparsable-store", "ok", "-")
    | _ => some (st, "-", "ok", "-")
  | op :: rest => if historyOps.contains op then some (noteHistory st (op :: rest), "-", "ok", "-") else none
  | _ => none

end Mochi.Driver.St
