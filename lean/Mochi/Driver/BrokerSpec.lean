import Mochi.Driver.Broker
/-!
Spec oracles evaluated on what the REAL broker did in one op (its rendered output), using only the
declarative matcher (`specMatch`) over the set of subscription entries and the abstract session
facts of the state before the op — never the handler logic of the model.

Each failing item is `FAIL[<property>|<known-finding signature or ->] reason`.
-/
namespace Mochi.Driver
open Mochi.Broker Mochi.Topics

structure ImplOut where
  conns : List (Nat × List String) := []
  closed : List Nat := []
  events : List String := []

def parseImplOut (s : String) : ImplOut :=
  (s.splitOn " ").foldl (fun (acc : ImplOut) (tok : String) =>
    if tok.startsWith "X[" then
      { acc with closed := (((tok.drop 2).dropEnd 1).toString.splitOn ",").filterMap (·.toNat?) }
    else if tok.startsWith "E[" then
      { acc with events := ((tok.drop 2).dropEnd 1).toString.splitOn "," }
    else if tok.startsWith "c" then
      match tok.splitOn ":[" with
      | [c, body] =>
        match (c.drop 1).toString.toNat? with
        | some n => { acc with conns := acc.conns ++ [(n, ((body.dropEnd 1).toString.splitOn ";").filter (· ≠ ""))] }
        | none => acc
      | _ => acc
    else acc) {}

def fieldOf (pk : String) (key : String) : Option String :=
  (pk.splitOn ":").findSome? fun f => if f.startsWith key then some (f.drop key.length).toString else none

def hexOfStr (bs : Str) : String := toHex bs

/-- all (client id, subscription, shared?) entries of the index whose filter matches `topic` under the
    declarative matcher -/
def matchingEntries (s : Server) (topic : Str) : List (Str × Sub × Option Str) :=
  s.topics.nodes.flatMap fun n =>
    if !specMatch n.path topic then [] else
    (n.subs.map fun (c, sub) => (c, sub, none)) ++
    (n.shared.flatMap fun (g, m) => m.map fun (c, sub) => (c, sub, some g))

def fail (prop sig reason : String) : String := s!"FAIL[{prop}|{sig}] {reason}"

/-- the connection number of the live (open) object of client id `cid` -/
def liveConnOf (s : Server) (cid : Str) : Option Nat :=
  match assocGet s.clients cid with
  | some i => let c := getObj s i; if c.isOpen && !c.inline && !c.peerGone then some c.conn else none
  | none => none

def objOfConn (s : Server) (conn : Nat) : Option Client :=
  (assocGet s.connOf conn).map (getObj s)

/-- verdicts about one publication (client PUBLISH, inline publish, will): who received `payload` -/
def publishVerdicts (pre : Server) (io : ImplOut) (origin topic payload : Str) (pubQos : Nat) (accepted : Bool)
    (blockedByHook : Option String) (gone : List Nat := []) (sig17 : String := "-") : List String :=
  let ph := hexOfStr payload
  let th := hexOfStr topic
  -- deliveries: connections that received a PUBLISH with this payload and (if present) this topic
  let recv : List (Nat × String) := io.conns.flatMap fun (n, pks) =>
    (pks.filter fun p => p.startsWith "PUB:" && fieldOf p "p=" == some ph &&
      (fieldOf p "t=" == some th || fieldOf p "t=" == some "-")).map fun p => (n, p)
  let ents := matchingEntries pre topic
  let entitledNonShared (cid : Str) : Bool :=
    ents.any fun (c, sub, g) => c == cid && g.isNone && aclOk pre cid topic false && !(sub.noLocal && origin == cid)
  let sharedMember (cid : Str) : Bool :=
    ents.any fun (c, _, g) => c == cid && g.isSome && aclOk pre cid topic false
  let nolocalMix (cid : Str) : Bool :=   -- F03's signature: a NoLocal and a plain matching subscription of the publisher
    origin == cid && ents.any (fun (c, sub, g) => c == cid && g.isNone && sub.noLocal) &&
      ents.any (fun (c, sub, g) => c == cid && g.isNone && !sub.noLocal)
  let dupes := recv.filterMap fun (n, _) =>
    if (recv.filter (·.1 == n)).length > 1 then some (fail "C03" "-" s!"connection c{n} received more than one copy of one publish") else none
  let perRecv := recv.flatMap fun (n, p) =>
    match objOfConn pre n with
    | none => []
    | some c =>
      let ok := entitledNonShared c.id || sharedMember c.id
      let r1 := if !accepted || blockedByHook.isSome then
          [fail (if blockedByHook.isSome then "C19" else "C17")
            (if blockedByHook == some "err" then "F19" else if blockedByHook.isNone then sig17 else "-")
            s!"a publish that was refused or blocked was forwarded to c{n}"]
        else if !ok then
          [fail (if !aclOk pre c.id topic false then "C17" else "C03") "-"
            s!"c{n} received a message it holds no matching, authorised, non-NoLocal subscription for"]
        else []
      -- C04: delivered QoS
      let subQ := (ents.filter fun (cid, _, _) => cid == c.id).foldl (fun m (_, sub, _) => max m sub.qos) 0
      let want := min (min pubQos subQ) pre.caps.maximumQos
      let r2 := match fieldOf p "q" with
        | some q => if ok && accepted && q != toString want && !sharedMember c.id then
            [fail "C04" "-" s!"c{n} was sent QoS {q}, spec wants min(published {pubQos}, subscription {subQ}, server {pre.caps.maximumQos}) = {want}"]
          else []
        | none => []
      -- C04: the subscription identifiers carried = the identifiers of the client's matching subscriptions that have
      -- one (every plain one must be there; nothing beyond the plain and shared ones may be); MQTT 5 receivers only
      let plainIds := ((ents.filter fun (cid, sub, g) => cid == c.id && g.isNone && sub.ident > 0).map fun (_, sub, _) => sub.ident).eraseDups
      let sharedIds := ((ents.filter fun (cid, sub, g) => cid == c.id && g.isSome && sub.ident > 0).map fun (_, sub, _) => sub.ident).eraseDups
      let got : List Nat := match fieldOf p "si=" with
        | some t => if t.isEmpty then [] else (t.splitOn "+").filterMap (·.toNat?)
        | none => []
      let r3 := if c.ver != 5 || !ok || !accepted || blockedByHook.isSome then [] else
        let missingIds := plainIds.filter fun i => !got.contains i
        let extraIds := got.filter fun i => !plainIds.contains i && !sharedIds.contains i
        (if missingIds.isEmpty then [] else
           [fail "C04" "-" s!"c{n}: the delivered PUBLISH carries subscription identifiers {got} and lacks {missingIds} of its matching subscriptions"]) ++
        (if extraIds.isEmpty then [] else
           [fail "C04" "-" s!"c{n}: the delivered PUBLISH carries subscription identifiers {extraIds} that none of its matching subscriptions has"])
      r1 ++ r2 ++ r3
  -- C03 completeness: every entitled connected client receives, unless a reported/flow-control excuse applies
  let missing := if !accepted || blockedByHook.isSome then [] else
    pre.clients.flatMap fun (cid, i) =>
      let c := getObj pre i
      if !c.isOpen || c.inline || c.peerGone || !entitledNonShared cid then [] else
      if recv.any (·.1 == c.conn) then [] else
      let subQ := (ents.filter fun (x, _, g) => x == cid && g.isNone).foldl (fun m (_, sub, _) => max m sub.qos) 0
      let q := min (min pubQos subQ) pre.caps.maximumQos
      -- a share-group member's selected shared subscription is merged into its plain one
      -- (`MergeSharedSelected`), so its single copy may travel at the shared subscription's QoS and
      -- is then subject to the same reported drops / flow control as any QoS>0 delivery
      let shQ := (ents.filter fun (x, _, g) => x == cid && g.isSome).foldl (fun m (_, sub, _) => max m sub.qos) 0
      let q := if sharedMember cid then max q (min (min pubQos shQ) pre.caps.maximumQos) else q
      let excused := q > 0 && ((c.maxSend > 0 && c.sendQuota == 0) || pre.caps.maximumInflight < 8192 ||
        io.events.any (·.startsWith "idexh") || pre.caps.maximumPacketID < 65535) || io.closed.contains c.conn || gone.contains c.conn
      if excused then [] else
        [fail "C03" (if nolocalMix cid then "F03" else "-")
          s!"connected client on c{c.conn} holds a matching authorised subscription but received nothing"]
  -- C06: each share group with a matching member: exactly one member receives (group = share name).
  -- Receivers that are not entitled through a non-shared subscription must be assignable to DISTINCT groups they
  -- belong to (a member of two matching groups may be the choice of either); a group all of whose members are
  -- connected, authorised and not flow-limited must have a receiver.
  let groups := (ents.filterMap fun (_, _, g) => g).eraseDups
  let c06 := if !accepted || blockedByHook.isSome then [] else
    let liveAuth (c : Str) : Bool := (liveConnOf pre c).isSome && aclOk pre c topic false
    let receivedC (c : Str) : Bool := match liveConnOf pre c with | some n => recv.any (·.1 == n) | none => false
    let groupsOf (c : Str) : List Str := (ents.filterMap fun (cid, _, g) => if cid == c then g else none).eraseDups
    let entriesOf (c : Str) : List (Str × Str) :=
      (ents.filterMap fun (cid, sub, g) => match g with | some gg => if cid == c then some (gg, sub.filter) else none | none => none).eraseDups
    let sharedRecv := ((ents.filterMap fun (cid, _, g) => if g.isSome then some cid else none).eraseDups).filter fun c =>
      liveAuth c && !entitledNonShared c && receivedC c
    -- injective assignment of receivers to the keys they may have been chosen for (at most three receivers here)
    let rec assign {α : Type} [BEq α] (opts : List (List α)) (used : List α) (fuel : Nat) : Bool :=
      match fuel, opts with
      | _, [] => true
      | 0, _ => false
      | fuel + 1, o :: rest => o.any fun k => !used.contains k && assign rest (k :: used) fuel
    let okGroups := assign (sharedRecv.map groupsOf) [] (sharedRecv.length + 1)
    let okEntries := assign (sharedRecv.map entriesOf) [] (sharedRecv.length + 1)
    let over := if okGroups then [] else
      [fail "C06" (if okEntries then "F06" else "-")
        s!"{sharedRecv.length} share-group members received one publish that matches {groups.length} group(s): some group delivered to more than one member"]
    let under := groups.flatMap fun g =>
      let members := (ents.filterMap fun (cid, _, gg) => if gg == some g then some cid else none).eraseDups
      let flowLimited := members.any fun c => match assocGet pre.clients c with
        | some i => let o := getObj pre i; o.maxSend > 0 || o.peerGone
        | none => true
      let limited := pubQos > 0 && (flowLimited || pre.caps.maximumInflight < 8192 || pre.caps.maximumPacketID < 65535)
      -- a member that is the publisher itself under No Local may be the (silent) choice
      -- (No Local is ORed over all of a client's matching subscriptions when they are merged: F03's domain)
      let selfNoLocal := members.contains origin && ents.any fun (cid, sub, _) => cid == origin && sub.noLocal
      if members.all liveAuth && !limited && !selfNoLocal && !(members.any receivedC) &&
          !(members.any fun c => match liveConnOf pre c with | some n => io.closed.contains n || gone.contains n | none => true) then
        [fail "C06" "-" s!"share group {hexOfStr g}: all {members.length} member(s) are connected and authorised but none received the publish"]
      else []
    over ++ under
  dupes.eraseDups ++ perRecv ++ missing ++ c06

/-- the spec verdicts for one broker op; `pre` = state before the op -/
def brokerVerdicts (pre : Server) (ws : List String) (core flags : String) : List String :=
  let io := parseImplOut core
  let badItems : List String := (core.splitOn "!bad(").drop 1 |>.map fun t => (t.splitOn ")").headD ""
  let c23 := badItems.map fun b =>
    fail "C23" (if b.startsWith "connack-return-code" then "F23a"
                else if b.startsWith "DISCONNECT-sent-to-an-MQTT-3" then "F23b" else "-")
      s!"malformed or version-inappropriate packet written: {b}"
  let afterDisc := io.conns.flatMap fun (n, pks) =>
    match pks.findIdx? (·.startsWith "DISCONNECT") with
    | some k => if k + 1 < pks.length then [fail "C23" "-" s!"c{n}: packets written after DISCONNECT"] else []
    | none => []
  let c24 := if (flags.splitOn "unresolvable-alias").length > 1 then
      [fail "C24" (if ws.head? == some "bk.conn" then "F24b" else "F24a") s!"PUBLISH with an alias the connection never saw bound: {flags}"]
    else []
  let aliasBound := io.conns.flatMap fun (n, pks) =>
    match objOfConn pre n with
    | none => []
    | some c => pks.flatMap fun p =>
      match (fieldOf p "ta=").bind (·.toNat?) with
      | some a => if p.startsWith "PUB:" && a > c.tam then
          -- a resumed session's stored packets are resent verbatim, alias included (F24b)
          -- (also when the stored record of a deferred copy, shaped under an earlier connection's maximum, is released)
          let stored := c.inflight.any fun m => m.alias == a && some (toHex m.payload) == fieldOf p "p="
          [fail "C24" (if ws.head? == some "bk.release" || ws.head? == some "bk.conn" || stored then "F24b" else "-")
            s!"c{n}: alias {a} above the client's Topic Alias Maximum {c.tam}"] else []
      | none => []
  let perOp : List String := match ws with
    | "bk.conn" :: n :: ver :: clean :: cid :: kv =>
      match n.toNat?, ver.toNat?, parseHex cid with
      | some n, some ver, some cid =>
        let pks := (io.conns.find? (·.1 == n)).map (·.2) |>.getD []
        let isConnack (p : String) := p.startsWith "CONNACK" || p.startsWith "!bad(connack-return-code"
        let c13a := match pks with
          | [] => if io.closed.contains n then [] else [fail "C13" "-" "no CONNACK and connection left open"]
          | p :: _ => if isConnack p then [] else [fail "C13" "-" s!"first packet on c{n} is not CONNACK: {p}"]
        let c13b := if (pks.filter isConnack).length > 1 then [fail "C13" "-" "more than one CONNACK"] else []
        let success := pks.any (·.startsWith "CONNACK:sp") && pks.any fun p => p.startsWith "CONNACK" && fieldOf p "rc" == some "00"
        let authOK := match pre.auth with | .allow => true | .none => false | .deny id => cid != id
        let c13c := if success && !authOK then [fail "C13" "-" "success CONNACK although no authentication hook allowed the client"] else []
        let c13d := if !success && !io.closed.contains n then [fail "C13" "-" "refused connection left open"] else []
        -- a CONNECT that violates the protocol never yields a session: MQTT 3.x, empty client id, Clean Session 0
        let c13e := if success && ver < 5 && cid.isEmpty && clean != "1" then
            [fail "C13" "-" "a CONNECT with a zero-length client id and Clean Session 0 was accepted"] else []
        -- C14
        let existed := match assocGet pre.clients cid with
          | some e => let o := getObj pre e; !(o.clean && o.ver < 5)
          | none => false
        let wantSP := existed && clean != "1"
        let c14 := if success then
            match pks.find? (·.startsWith "CONNACK") with
            | some p => if fieldOf p "sp" == some (boolStr wantSP) then []
                        else [fail "C14" "-" s!"session present is {fieldOf p "sp"}, spec wants {boolStr wantSP} (session existed={boolStr existed}, clean start={clean})"]
            | none => []
          else []
        -- C35
        let c35 := if success && pre.info.connected ≥ pre.caps.maximumClients && (pre.clients.filter fun (_, i) => (getObj pre i).isOpen && !(getObj pre i).inline).length ≥ pre.caps.maximumClients then
            [fail "C35" "-" "connection established although the configured maximum was reached"] else []
        let _ := ver; let _ := kv
        c13a ++ c13b ++ c13c ++ c13d ++ c13e ++ c14 ++ c35
      | _, _, _ => []
    | "bk.send" :: n :: typ :: kv =>
      match n.toNat? with
      | none => []
      | some n =>
        match objOfConn pre n with
        | none => []
        | some c =>
          if !c.isOpen then [] else
          let pks := (io.conns.find? (·.1 == n)).map (·.2) |>.getD []
          let closed := io.closed.contains n
          let id := kvNatD kv "id" 1
          let need (name : String) (sig : String := "-") : List String :=
            if closed || pks.any (fun p => p.startsWith s!"{name}:id{id}:") then []
            else [fail "C07" sig s!"{typ} with packet id {id} got neither {name} nor a closed connection"]
          if typ == "PUBLISH" then
            let q := kvNatD kv "q" 0
            let wireTopic := (parseHex ((kvGet kv "t").getD "-")).getD []
            -- C24 (inbound): an empty topic stands for the topic the client last bound to the alias on this connection
            let aliasN : Option Nat := if c.ver == 5 then kvNatO kv "ta" else none
            let bound : Option Str := aliasN.bind fun a => assocGet c.aliasIn a
            let unboundAlias := wireTopic.isEmpty && bound.isNone
            let aliasOK := (aliasN.getD 0) ≤ pre.caps.topicAliasMaximum && aliasN != some 0
            let topic := if wireTopic.isEmpty then bound.getD [] else wireTopic
            let payload := (parseHex ((kvGet kv "p").getD "-")).getD []
            let hook := assocGet pre.pubHook topic
            let pendingQ2 := match flGet c id with | some m => m.type == 5 | none => false
            let sig07 := if q > pre.caps.maximumQos then "F07c" else if q == 1 && pendingQ2 then "F07d" else "-"
            -- a hook's plain error code is answered to an MQTT 5 client with the acknowledgement of the publish's QoS
            let hookSilent := hook.isSome && !(hook == some "err" && c.ver == 5)
            let c07 := if hookSilent then [] else if q == 1 then need "PUBACK" sig07 else if q == 2 then need "PUBREC" sig07 else []
            let ackOK := if min q pre.caps.maximumQos == 0 then true else
              pks.any fun p => (p.startsWith "PUBACK:" || p.startsWith "PUBREC:") &&
                (match fieldOf p "rc" with | some rc => rc < "80" | none => false)
            let dupQ2 := q == 2 && (match flGet c id with | some m => m.type == 5 | none => false)
            let c08 := if dupQ2 then
                (if pks.any (fun p => p.startsWith s!"PUBREC:id{id}:" && (match fieldOf p "rc" with | some rc => rc < "80" | none => false)) || closed then []
                 else [fail "C08" (if c.ver == 5 then "F08" else "-") "a retransmitted QoS 2 PUBLISH was not answered with a non-failure PUBREC"])
              else []
            let valid := specTopicOK topic && !topic.isEmpty && aliasOK && !(kvGet kv "d" == some "1" && q == 0) && !(q == 0 && (kvGet kv "id").isSome && false)
            let accepted := valid && aclOk pre c.id topic true && c.recvQuota > 0 && ackOK && !closed && !dupQ2 && !(q > 0 && pendingQ2)
            let effQ := min q pre.caps.maximumQos
            let routed := io.conns.any fun (_, ps) => ps.any fun p => p.startsWith "PUB:" && fieldOf p "p=" == some (hexOfStr payload)
            let pv := if payload.isEmpty then []
              else if unboundAlias || !aliasOK then
                -- the topics it was delivered under: a topic its publisher may not write is also C17's business
                let reached := (io.conns.flatMap fun (_, ps) => ps.filterMap fun p =>
                  if p.startsWith "PUB:" && fieldOf p "p=" == some (hexOfStr payload) then (fieldOf p "t=").bind parseHex else none).eraseDups
                let c17 := reached.filterMap fun t =>
                  if !aclOk pre c.id t true || !specTopicOK t then
                    some (fail "C17" "-" s!"a publish of {toHex c.id} reached topic {toHex t}, which that client may not publish to (through an alias no accepted publish bound)")
                  else none
                (if routed then [fail "C24" "-" "a PUBLISH with an empty topic and an alias the client never bound on this connection, or with an alias above the maximum, was routed"] else []) ++ c17
              else publishVerdicts pre io c.id topic payload effQ accepted hook
            c07 ++ c08 ++ pv
          else if typ == "SUBSCRIBE" then
            let nf := ((kvGet kv "f").getD "").splitOn "," |>.length
            let c07 := if closed then [] else
              match pks.find? (·.startsWith s!"SUBACK:id{id}:") with
              | none => [fail "C07" "-" s!"SUBSCRIBE {id} got no SUBACK"]
              | some p => match fieldOf p "rcs=" with
                | some h => if h.length == 2 * nf then [] else [fail "C07" "-" s!"SUBACK carries {h.length / 2} reason codes for {nf} filters"]
                | none => []
            -- C30/C17: invalid / denied filters are refused
            let rcs := (pks.find? (·.startsWith s!"SUBACK:id{id}:")).bind (fieldOf · "rcs=") |>.getD ""
            let fs := (parseSubs ((kvGet kv "f").getD "")).getD []
            let perFilter := (List.range fs.length).flatMap fun k =>
              match fs[k]? with
              | none => []
              | some f =>
                let rc := ((rcs.drop (2 * k)).take 2).toString
                if rc.length < 2 || (flGet c id).isSome then [] else
                (if !specFilterOK f.filter && rc < "80" then [fail "C30" "-" s!"invalid filter {toHex f.filter} was granted ({rc})"] else []) ++
                (if specFilterOK f.filter && !aclOk pre c.id f.filter false && rc < "80" then
                   [fail "C17" "-" s!"filter {toHex f.filter} is denied to the client but was granted ({rc})"] else []) ++
                (if specFilterOK f.filter && aclOk pre c.id f.filter false && !(f.noLocal && isSharedFilter f.filter) && c.ver == 5 &&
                    rc != hex2 (min f.qos pre.caps.maximumQos) then
                   [fail "C04" "-" s!"SUBACK grants {rc} for requested QoS {f.qos} (server maximum {pre.caps.maximumQos})"] else [])
            -- C05/C02: retained messages sent for the accepted filters
            let fsV := if c.ver == 5 then fs else fs.map fun s => { s with noLocal := false, rap := false, rh := 0 }
            let expect : List String := (List.range fsV.length).flatMap fun k =>
              match fsV[k]? with
              | none => []
              | some f =>
                let rc := ((rcs.drop (2 * k)).take 2).toString
                if rc.length < 2 || rc ≥ "80" || isSharedFilter f.filter then [] else
                let existedBefore := (assocGet c.subs f.filter).isSome ||
                  (fsV.take k).any (fun g => g.filter == f.filter)
                if f.rh == 2 || (f.rh == 1 && existedBefore) then [] else
                (pre.rmsgs.filter fun (t, m) => specMatch (splitLevels f.filter) t && aclOk pre c.id t false &&
                    !(f.noLocal && m.origin == c.id)).map fun (t, m) =>
                  s!"{toHex t}={toHex m.payload}"
            let gotR : List String := (pks.filter fun p => p.startsWith "PUB:" && (p.splitOn ":r1:").length > 1).map fun p =>
              s!"{(fieldOf p "t=").getD "?"}={(fieldOf p "p=").getD "?"}"
            let flowLimited := c.maxSend > 0 || pre.caps.maximumInflight < 8192 || pre.caps.maximumPacketID < 65535 || c.tam > 0
            let c05 := if closed || (flGet c id).isSome then [] else
              let extra := gotR.filter (fun g => !expect.contains g)
              let miss := expect.filter (fun e => !gotR.contains e)
              let extraDenied := extra.filter fun g =>
                match parseHex ((g.splitOn "=").headD "") with
                | some t => !aclOk pre c.id t false
                | none => false
              (if !extra.isEmpty && c.tam == 0 then [fail "C05" "-" s!"retained messages sent that the spec does not select: {extra}"] else []) ++
              (if !extraDenied.isEmpty && c.tam == 0 then
                 [fail "C17" "-" s!"retained messages on topics the client is not authorised to read were sent on SUBSCRIBE: {extraDenied}"] else []) ++
              (if !miss.isEmpty && !flowLimited then [fail "C05" "-" s!"retained messages not sent: {miss}"] else [])
            -- C04: retained deliveries carry the subscription identifier of the SUBSCRIBE
            let si := if c.ver == 5 then kvNatD kv "si" 0 else 0
            let c04r := if si == 0 then [] else
              (pks.filter fun p => p.startsWith "PUB:" && (p.splitOn ":r1:").length > 1).flatMap fun p =>
                if fieldOf p "si=" == some (toString si) then [] else
                  [fail "C04" "-" s!"retained delivery carries subscription identifiers '{(fieldOf p "si=").getD ""}', spec wants {si}"]
            c07 ++ perFilter ++ c05 ++ c04r
          else if typ == "UNSUBSCRIBE" then need "UNSUBACK"
          else if typ == "PUBREL" then (if kvNatD kv "rc" 0 ≥ 128 then [] else need "PUBCOMP")
          else if typ == "DISCONNECT" then
            let rc := if c.ver == 5 then kvNatD kv "rc" 0 else 0
            let wantWill := c.will.flag && rc == 4 && c.will.delay == 0
            let gotWill := io.events.any (· == s!"will({toHex c.id})")
            (if wantWill && !gotWill then [fail "C16" "-" "DISCONNECT 0x04 did not publish the will"] else []) ++
            let rejected := c.ver == 5 && (kvNatD kv "sei" 0) > 0 && c.sei == 0
            (if rc != 4 && !rejected && gotWill then [fail "C16" "-" "a normal DISCONNECT published the will"] else [])
          else []
    | ["bk.drop", n] =>
      match n.toNat? with
      | none => []
      | some n =>
        match objOfConn pre n with
        | none => []
        | some c =>
          if c.stopped then [] else
          let gotWill := io.events.any (· == s!"will({toHex c.id})")
          let c16 := if c.will.flag && c.will.delay == 0 && !gotWill then [fail "C16" "-" "connection lost without DISCONNECT but the will was not published"]
                     else if !c.will.flag && gotWill then [fail "C16" "-" "a will was published for a client that has none"] else []
          -- C17: a will is a publish by its client: it needs that client's write permission on the will topic
          let pv := if c.will.flag && c.will.delay == 0 && gotWill then
              publishVerdicts pre io c.id c.will.topic c.will.payload (min c.will.qos pre.caps.maximumQos)
                (aclOk pre c.id c.will.topic true) none [n] "F17a"
            else []
          c16 ++ pv
    | ["bk.release", n] =>
      match n.toNat? with
      | none => []
      | some n =>
        match pre.pending.find? (·.conn == n) with
        | none => []
        | some pd =>
          let pks := (io.conns.find? (·.1 == n)).map (·.2) |>.getD []
          let isConnack (p : String) := p.startsWith "CONNACK" || p.startsWith "!bad(connack-return-code"
          -- (a parked handler whose object was taken over meanwhile was closed by that takeover)
          let c13a := match pks with
            | [] => if io.closed.contains n || (getObj pre pd.obj).stopped then [] else [fail "C13" "-" "no CONNACK and connection left open"]
            | p :: _ => if isConnack p then [] else [fail "C13" "-" s!"first packet on c{n} is not CONNACK: {p}"]
          let success := pks.any fun p => p.startsWith "CONNACK" && fieldOf p "rc" == some "00"
          -- C35: the limit counts established connections; this one was admitted by a check made
          -- before the connections that filled the limit were counted (check and increment are separate)
          let live := (pre.clients.filter fun (_, i) => (getObj pre i).isOpen && !(getObj pre i).inline).length
          let c35 := if success && pd.stage == 1 && live ≥ pre.caps.maximumClients then
              [fail "C35" "F35" s!"connection established although {live} clients are connected and the maximum is {pre.caps.maximumClients}"] else []
          c13a ++ c35
    | ["bk.tick", "wills", d] =>
      -- C16: a delayed will whose delay has elapsed is published — whether or not the session still exists
      let dt : Int := NOW + ((d.toNat?.getD 0 : Nat) : Int)   -- the tick's virtual time, as the model step gets it
      let due := pre.willDelayed.flatMap fun (cid, m) =>
        if dt > m.expiry && !m.payload.isEmpty then
          (publishVerdicts pre io cid m.topic m.payload (min m.qos pre.caps.maximumQos) (aclOk pre cid m.topic true) none [] "F17a").map
            fun v => if v.startsWith "FAIL[C03|-]" then
              fail "C16" "-" s!"the delayed will of {toHex cid} fell due but an entitled subscriber did not receive it ({v})" else v
        else []
      due ++ io.events.flatMap fun e =>
        if e.startsWith "will(" then
          match parseHex ((e.drop 5).dropEnd 1).toString with
          | some cid =>
            match assocGet pre.clients cid with
            | some i =>
              let c := getObj pre i
              if c.isOpen && !c.clean && !c.inline then
                [fail "C16" "F16a" s!"the delayed will of {toHex cid} was published although its session had been resumed by a new connection before the delay elapsed"]
              else []
            | none => []
          | none => []
        else []
    | ["bk.ipub", t, p, _r, q] =>
      match parseHex t, parseHex p, q.toNat? with
      | some t, some p, some q => if p.isEmpty then [] else publishVerdicts pre io inlineID t p q true (assocGet pre.pubHook t)
      | _, _, _ => []
    | ["bk.dump"] =>
      -- C38: reported counters = actual counts, none negative
      let num (s : String) (key : String) : Option Int :=
        (s.splitOn " ").findSome? fun w => if w.startsWith (key ++ "=") then (w.drop (key.length + 1)).toString.toInt? else none
      let act := ((flags.splitOn "V[actual ").getD 1 "").replace "]" ""
      -- a handler parked in the middle of its teardown (bk.drophold) is not a quiescent state: its
      -- connection is gone but its deferred counter decrement has not run yet
      (if pre.parked.isEmpty && pre.parkedEarly.isEmpty && pre.pending.isEmpty then ["connected", "subs", "retained", "inflight"]
       else ["subs", "retained", "inflight"]).flatMap fun k =>
        -- F15c (recorded under C15): a served connection whose session a late teardown deleted from the Clients
        -- map is counted by the counters and missed by the count taken over the Clients map
        let orphan := (List.range pre.objs.length).any fun i =>
          let c := getObj pre i
          c.isOpen && !c.inline && !c.stopped && pre.connOf.any (·.2 == i) && assocGet pre.clients c.id != some i
        match num core k, num act k with
        | some r, some a =>
          (if r < 0 then [fail "C38" "-" s!"counter {k} is negative ({r})"] else []) ++
          (if r != a then [fail "C38" (if orphan && r > a && (k == "connected" || k == "inflight") then "F15c" else "-")
            s!"counter {k} reports {r}, actual {a}"] else [])
        | _, _ => []
    | _ => []
  let early := if ws.head? == some "bk.release" || ws.head? == some "bk.connhold" then [] else
    io.conns.flatMap fun (n, pks) =>
      if pre.pending.any (·.conn == n) && !pks.isEmpty then
        [fail "C13" "F13" s!"c{n} was written {pks.length} packet(s) before its CONNACK: {pks.headD ""}"]
      else []
  c23 ++ afterDisc ++ c24 ++ aliasBound ++ early ++ perOp

/-- C12: per (receiver session, publisher, topic, delivered QoS) the FIRST transmissions must arrive in
    publish order. Works on the real broker's output only: payloads are unique per publish op, the
    true order of a resumed session's resends comes from the harness's `order(c<n>:…)` flag. -/
def c12Update (st : BkState) (pre post : Server) (ws : List String) (io : ImplOut) (flags : String) : BkState × List String :=
  -- 1. register the publish of this op
  let reg : Option (String × Str × Str) := match ws with
    | "bk.send" :: n :: "PUBLISH" :: kv =>
      match n.toNat?.bind (objOfConn pre), kvGet kv "t", kvGet kv "p" with
      | some c, some t, some p => if p == "-" then none else (parseHex t).map fun tb => (p, c.id, tb)
      | _, _, _ => none
    | ["bk.ipub", t, p, _, _] => if p == "-" then none else (parseHex t).map fun tb => (p, inlineID, tb)
    | _ => none
  let st := match reg with
    | some (p, o, t) =>
      if st.pubs.any (·.1 == p) then st else { st with pubs := st.pubs ++ [(p, o, t, st.pubSeq)], pubSeq := st.pubSeq + 1 }
    | none => st
  -- 2. the deliveries of this op, per connection, in their true order: (payload, qos, retain flag)
  let orderFlag : Option (Nat × List (String × String × String)) :=
    match (flags.splitOn "order(c").drop 1 with
    | tok :: _ =>
      match ((tok.splitOn ")").headD "").splitOn ":" with
      | [c, body] => c.toNat?.map fun n => (n, (body.splitOn ".").filterMap fun e =>
          match e.splitOn "q" with
          | [pl, rest] => some (pl, (rest.take 1).toString, ((rest.drop 4).take 1).toString)   -- "<q>d<d>r<r>"
          | _ => none)
      | _ => none
    | [] => none
  let isConn := ws.head? == some "bk.conn"
  let perConn : List (Nat × List (String × String × String)) := io.conns.map fun (n, pks) =>
    match orderFlag with
    | some (m, ord) => if m == n then (n, ord) else (n, pks.filterMap fun p =>
        if p.startsWith "PUB:" then some ((fieldOf p "p=").getD "?", ((fieldOf p "q").getD "?"), ((fieldOf p "r").getD "?")) else none)
    | none => (n, pks.filterMap fun p =>
        if p.startsWith "PUB:" then some ((fieldOf p "p=").getD "?", ((fieldOf p "q").getD "?"), ((fieldOf p "r").getD "?")) else none)
  perConn.foldl (fun (acc : BkState × List String) (nd : Nat × List (String × String × String)) =>
    match objOfConn post nd.1 with
    | none => acc
    | some rc =>
      nd.2.foldl (fun (acc : BkState × List String) (d : String × String × String) =>
        let (st, vs) := acc
        let (pl, q, r) := d
        if r != "0" then acc else      -- retained replays are not live deliveries
        match st.pubs.find? (·.1 == pl) with
        | none => acc
        | some (_, origin, topic, seq) =>
          if (matchingEntries pre topic).any (fun (c, _, g) => c == rc.id && g.isSome) then acc else
          if st.firstSeen.contains (rc.id, pl) then acc else
          let key := (rc.id, origin, topic, q)
          let st := { st with firstSeen := st.firstSeen ++ [(rc.id, pl)] }
          match st.lastFirst.find? (·.1 == key) with
          | some (_, s0, p0) =>
            if s0 > seq then
              (st, vs ++ [fail "C12" (if isConn || rc.maxSend > 0 then "F12" else "-")
                s!"c{nd.1} received the first transmission of {pl} (publish #{seq}) after that of {p0} (publish #{s0}) from the same publisher on the same topic at QoS {q}"])
            else ({ st with lastFirst := (st.lastFirst.filter (·.1 != key)) ++ [(key, seq, pl)] }, vs)
          | none => ({ st with lastFirst := st.lastFirst ++ [(key, seq, pl)] }, vs)) acc) (st, [])

/-- C11 (send bound) on the real broker's streams: the number of QoS>0 PUBLISH packets written to a
    connection and not yet acknowledged by the client never exceeds the Receive Maximum the client
    declared. Acknowledgements of this op are taken into account first. -/
def c11Update (st : BkState) (pre post : Server) (ws : List String) (io : ImplOut) : BkState × List String :=
  let get (n : Nat) : List Nat := (st.unacked.find? (·.1 == n)).map (·.2) |>.getD []
  -- 1. the client's acknowledgement in this op
  let (st, ackConn) : BkState × Option Nat := match ws with
    | "bk.send" :: n :: typ :: kv =>
      match n.toNat? with
      | some n =>
        let id := kvNatD kv "id" 1
        let rc := kvNatD kv "rc" 0
        let q2 := typ == "PUBREC" || typ == "PUBCOMP" || typ == "PUBREL" || (typ == "PUBLISH" && kvNatD kv "q" 0 == 2)
        let st := if q2 && !st.sawQos2.contains n then { st with sawQos2 := st.sawQos2 ++ [n] } else st
        -- an acknowledgement for an id that is not in transit (e.g. of a message the broker still holds
        -- back) is the client's misbehaviour: the send bound is no longer judged on that connection
        let st := if (typ == "PUBACK" || typ == "PUBREC" || typ == "PUBCOMP") && !(get n).contains id && !st.c11skip.contains n
          then { st with c11skip := st.c11skip ++ [n] } else st
        if typ == "PUBACK" || typ == "PUBCOMP" || (typ == "PUBREC" && rc ≥ 128) then
          ({ st with unacked := (st.unacked.filter (·.1 != n)) ++ [(n, (get n).filter (· != id))] }, some n)
        else (st, none)
      | none => (st, none)
    | _ => (st, none)
  let _ := ackConn
  -- 2. what was written in this op
  let isConn := ws.head? == some "bk.conn" || ws.head? == some "bk.release"
  io.conns.foldl (fun (acc : BkState × List String) (nd : Nat × List String) =>
    let (st, vs) := acc
    let n := nd.1
    let cur := (st.unacked.find? (·.1 == n)).map (·.2) |>.getD []
    let ids := nd.2.filterMap fun p =>
      if p.startsWith "PUB:" && fieldOf p "q" != some "0" then (fieldOf p "id").bind (·.toNat?) else none
    let cur' := ids.foldl (fun l id => if l.contains id then l else l ++ [id]) cur
    let st := { st with unacked := (st.unacked.filter (·.1 != n)) ++ [(n, cur')] }
    -- a connection that resumed a session holding in-flight messages starts with full quotas (F11)
    let st := if isConn && !ids.isEmpty && !st.sawQos2.contains n then { st with sawQos2 := st.sawQos2 ++ [n] } else st
    match objOfConn post n with
    | none => (st, vs)
    | some c =>
      let rm := if c.recvMaxProp == 0 then 65535 else c.recvMaxProp
      if c.ver == 5 && cur'.length > rm && cur'.length > cur.length && !st.c11skip.contains n then
        -- F11 (recorded): resumed sessions get full quotas and are resent everything at once; QoS 2
        -- acknowledgements move both quotas
        (st, vs ++ [fail "C11" (if isConn || st.sawQos2.contains n then "F11" else "-")
          s!"c{n} has {cur'.length} unacknowledged QoS>0 PUBLISH packets in transit (ids {cur'}), the client declared Receive Maximum {rm}"])
      else (st, vs)) (st, [])

/-- C11 (inbound direction) on the real broker's streams: the broker may end a connection with 0x93 (Receive
    Maximum exceeded) only when the client really has as many QoS>0 publishes open as the broker's Receive Maximum.
    Open = QoS 2 publishes accepted with a PUBREC below 0x80 and not yet completed by PUBCOMP (a QoS 1 publish is
    complete with its PUBACK, within the op). F11 (recorded): acknowledgements of the outbound direction move the
    inbound quota — connections that took part in an outbound QoS 2 exchange carry that signature. -/
def c11InUpdate (st : BkState) (pre : Server) (ws : List String) (io : ImplOut) (core : String := "") : BkState × List String :=
  match ws with
  | ["bk.dump"] =>
    -- "without leaking quota": a connected client's receive quota is its maximum minus its open inbound exchanges
    let vs := (core.splitOn " | ").flatMap fun part =>
      let kv := part.splitOn " "
      match kvGet kv "id", kvGet kv "rq", kvGet kv "closed" with
      | some idh, some rq, some "0" =>
        match parseHex idh, rq.splitOn "/" with
        | some cid, [a, b] =>
          match a.toNat?, b.toNat?, liveConnOf pre cid with
          | some a, some b, some n =>
            -- open inbound exchanges: the PUBREC records (type 5) the real broker itself lists for this client
            let opn := (((kvGet kv "fl").getD "").splitOn ":t5:").length - 1
            if a + opn < b then
              [fail "C11" (if st.sawQos2.contains n then "F11" else "-")
                s!"client {idh} on c{n}: receive quota {a} of {b} with {opn} inbound exchange(s) open — {b - a - opn} unit(s) leaked"]
            else []
          | _, _, _ => []
        | _, _ => []
      | _, _, _ => []
    (st, vs)
  | "bk.send" :: n :: typ :: kv =>
    match n.toNat? with
    | none => (st, [])
    | some n =>
      let pks := (io.conns.find? (·.1 == n)).map (·.2) |>.getD []
      let cur := (st.inOpen.find? (·.1 == n)).map (·.2) |>.getD []
      let id := kvNatD kv "id" 1
      let ok (pfx : String) := pks.any fun p => p.startsWith s!"{pfx}:id{id}:" && (match fieldOf p "rc" with | some rc => rc < "80" | none => true)
      let cur' := if typ == "PUBLISH" && kvNatD kv "q" 0 == 2 && ok "PUBREC" && !cur.contains id then cur ++ [id]
                  else if typ == "PUBREL" && pks.any (fun p => p.startsWith s!"PUBCOMP:id{id}:") then cur.filter (· != id)
                  else cur
      let st := { st with inOpen := (st.inOpen.filter (·.1 != n)) ++ [(n, cur')] }
      let cut := pks.any fun p => p.startsWith "DISCONNECT:rc93"
      if cut && typ == "PUBLISH" && cur.length < pre.caps.receiveMaximum then
        (st, [fail "C11" (if st.sawQos2.contains n then "F11" else "-")
          s!"c{n} was disconnected with 0x93 (Receive Maximum exceeded) while it had {cur.length} publish(es) open; the broker's Receive Maximum is {pre.caps.receiveMaximum}"])
      else (st, [])
  | _ => (st, [])

/-- C09 (after PUBREC the broker resends PUBREL, not PUBLISH) on the real broker's streams -/
def c09Update (st : BkState) (pre post : Server) (ws : List String) (io : ImplOut) : BkState × List String :=
  -- 1. the client's PUBREC / PUBCOMP of this op (also when the client vanished right after sending it)
  let st := match ws with
    | op :: n :: typ :: kv =>
      if op == "bk.send" || op == "bk.sendcut" then
        match n.toNat?.bind (objOfConn pre) with
        | some c =>
          let id := kvNatD kv "id" 1
          let inTransit := match n.toNat? with
            | some nn => ((st.unacked.find? (·.1 == nn)).map (·.2) |>.getD []).contains id
            | none => false
          if typ == "PUBREC" && kvNatD kv "rc" 0 < 128 && (inTransit || (flGet c id).isSome) && (match flGet c id with | some m => m.type == 3 && m.qos == 2 | none => false) then
            { st with pubrecd := st.pubrecd ++ [(c.id, id)] }
          else if typ == "PUBCOMP" then { st with pubrecd := st.pubrecd.filter (· != (c.id, id)) }
          else st
        | none => st
      else st
    | _ => st
  -- 2. a resumed session must not be resent the PUBLISH of an exchange that reached PUBREC
  let vs := if ws.head? == some "bk.conn" || ws.head? == some "bk.release" then
      io.conns.flatMap fun (n, pks) =>
        match objOfConn post n with
        | none => []
        | some c => pks.flatMap fun p =>
          if p.startsWith "PUB:q2:d1" then
            match (fieldOf p "id").bind (·.toNat?) with
            | some id => if st.pubrecd.contains (c.id, id) then
                [fail "C09" "-" s!"c{n}: the broker resent PUBLISH (DUP) for packet id {id} although it had already received PUBREC for it; it must resend PUBREL"] else []
            | none => []
          else []
    else []
  -- a session that ended (clean start, expiry) forgets its exchanges
  let st := match ws with
    | "bk.conn" :: _ :: _ :: clean :: cid :: _ =>
      if clean == "1" then match parseHex cid with
        | some id => { st with pubrecd := st.pubrecd.filter (·.1 != id) }
        | none => st
      else st
    | _ => st
  (st, vs)

/-- the session of client `cid` holds a copy of payload `p` that flow control deferred (stored with Expiry = -1) -/
def deferredCopy (srv : Server) (cid : Str) (p : String) : Bool :=
  match assocGet srv.clients cid with
  | some i => (getObj srv i).inflight.any fun m => toHex m.payload == p && m.expiry < 0
  | none => false

/-- C25 on the real broker's streams. A client PUBLISH takes effect at (virtual) time 0 with the effective
    interval `eff` = the smaller non-zero of the publisher's Message Expiry Interval and the server maximum;
    `bk.tick retained T` / `bk.tick inflight T` is the broker's housekeeping of that store at time `T`. Once the
    housekeeping of a store has run at `T > eff`, no copy from that store that has not yet been sent may be
    delivered: not a retained replay on SUBSCRIBE, not a first transmission from a session's queue. A delivered
    message carries a Message Expiry Interval no larger than the time remaining (harness flag `expiry-exceeds`). -/
def c25Update (st : BkState) (pre post : Server) (ws : List String) (io : ImplOut) (flags : String) : BkState × List String :=
  -- 1. housekeeping
  let st := match ws with
    | ["bk.tick", kind, t] =>
      match t.toNat? with
      | some t =>
        { st with msgs25 := st.msgs25.map fun (p, eff, r, i) =>
            (p, eff, r || (kind == "retained" && eff > 0 && t > eff), i || (kind == "inflight" && eff > 0 && t > eff)) }
      | none => st
    | _ => st
  -- 2. a client PUBLISH: its effective interval; copies written to open connections count as sent
  let st := match ws with
    | "bk.send" :: n :: "PUBLISH" :: kv =>
      match n.toNat?.bind (objOfConn pre), kvGet kv "p" with
      | some c, some p =>
        if p.isEmpty || p == "-" || st.msgs25.any (·.1 == p) then st else
        let me := if c.ver == 5 then kvNatD kv "me" 0 else 0
        let mx := pre.caps.maxMessageExpiry
        let eff := if me == 0 then mx else if mx == 0 then me else min me mx
        let sentNow := post.clients.filterMap fun (cid, i) =>
          let o := getObj post i
          if o.isOpen && o.inflight.any (fun m => toHex m.payload == p && m.expiry ≥ 0) then some (cid, p) else none
        { st with msgs25 := st.msgs25 ++ [(p, eff, false, false)], sent25 := st.sent25 ++ sentNow }
      | _, _ => st
    | _ => st
  -- 3. deliveries of this op
  let isSubscribe := match ws with | "bk.send" :: _ :: "SUBSCRIBE" :: _ => true | _ => false
  let isAck := match ws with
    | "bk.send" :: _ :: t :: _ => t == "PUBACK" || t == "PUBREC" || t == "PUBCOMP" || t == "PUBREL"
    | "bk.ack" :: _ => true
    | _ => false
  let (st, vs) := io.conns.foldl (fun (acc : BkState × List String) (nd : Nat × List String) =>
    nd.2.foldl (fun (acc : BkState × List String) (pk : String) =>
      let (st, vs) := acc
      if !pk.startsWith "PUB:" then acc else
      match fieldOf pk "p=", objOfConn post nd.1 with
      | some p, some c =>
        match st.msgs25.find? (·.1 == p) with
        | none => acc
        | some (_, eff, expR, expI) =>
          if isSubscribe then
            -- (the copy a replay creates in the session has been sent with it)
            ({ st with sent25 := if st.sent25.contains (c.id, p) then st.sent25 else st.sent25 ++ [(c.id, p)] }, if expR then vs ++ [fail "C25" "-" s!"c{nd.1}: the retained message {p} (effective expiry {eff} s) was delivered on SUBSCRIBE after the retained store's housekeeping ran later than its expiry"] else vs)
          else
            let already := st.sent25.contains (c.id, p)
            let v := if !already && expI then
                [fail "C25" (if isAck || deferredCopy pre c.id p then "F25a" else if c.ver < 5 then "F25b" else "-")
                  s!"c{nd.1}: a copy of message {p} (effective expiry {eff} s) that had not been sent before was delivered after the in-flight housekeeping ran later than its expiry"]
              else []
            ({ st with sent25 := if already then st.sent25 else st.sent25 ++ [(c.id, p)] }, vs ++ v)
      | _, _ => acc) acc) (st, [])
  -- `expiry-exceeds(c<n>,<payload>,<carried>><effective>)`; a copy that was deferred by flow control (stored with
  -- Expiry = -1) keeps the publisher's own interval: the second face of known finding F25a
  let fl := ((flags.splitOn "expiry-exceeds(c").drop 1).map fun seg =>
    let body := (seg.splitOn ")").headD ""
    let parts := body.splitOn ","
    let n := (parts.headD "").toNat?.getD 0
    let p := parts.getD 1 ""
    let deferred := match objOfConn post n with
      | some c =>
        deferredCopy pre c.id p || deferredCopy post c.id p
      | none => false
    fail "C25" (if deferred then "F25a" else "-")
      s!"c{n}: message {p} was delivered with a Message Expiry Interval larger than the time remaining ({parts.getD 2 ""})"
  (st, vs ++ fl)

def renderVerdicts (vs : List String) : String :=
  if vs.isEmpty then "ok" else "; ".intercalate vs

/-- C15/C14: every connection that is being served belongs to a session the broker knows: the client id of an open,
    established connection is in the real broker's Clients map (ids of its hidden-state token). F15c (recorded): the
    teardown of an older connection with the same client id, running late, deletes the entry of the new session. -/
def liveKnownVerdicts (post : Server) (ws : List String) (hiddenIds : Option (List String)) (reported : List Str) :
    List (Str × String) :=
  match hiddenIds with
  | none => []
  | some ids =>
    ((List.range post.objs.length).filter fun i =>
      !reported.contains (getObj post i).id &&
      let c := getObj post i
      c.isOpen && !c.inline && !c.stopped && !c.peerGone && !post.parked.contains i && !post.parkedEarly.contains i &&
        !(post.pending.any (·.obj == i)) && (post.connOf.any (·.2 == i)) && !ids.contains (toHex c.id)).map fun i =>
      ((getObj post i).id, fail "C15" (if ws.head? == some "bk.release" then "F15c" else "-")
        s!"the connection of client {toHex (getObj post i).id} is being served but the broker's Clients map does not know that client: its subscriptions outlive the session and deliver to the next client with this id")

/-- (client id, filter) of every plain and shared entry of the topic index -/
def allIndexEntries (s : Server) : List (Str × Str) :=
  s.topics.nodes.flatMap fun n =>
    (n.subs.map fun (c, sub) => (c, sub.filter)) ++ (n.shared.flatMap fun (_, m) => m.map fun (c, sub) => (c, sub.filter))

/-- subscriptions a registered session lists (acknowledged, never unsubscribed) that the topic index does not hold:
    nothing is delivered because of them -/
def sessionOnlySubs (s : Server) : List (Str × Str) :=
  let ents := allIndexEntries s
  s.clients.flatMap fun (cid, i) =>
    let c := getObj s i
    if c.inline then [] else (c.subs.map (·.1)).filterMap fun f => if ents.contains (cid, f) then none else some (cid, f)

/-- C03/C06: an op must not make a session and the topic index disagree. Recorded: F06c (`$share` is matched without
    regard to case, so `$share/g/a` and `$SHARE/g/a` are one index entry but two session entries: unsubscribing one
    spelling silences the other), F06d (UNSUBSCRIBE of `$share/<group>` — no topic filter — is not validated and
    removes the entry of `$share/<group>/<group>`). -/
def sessionIndexVerdicts (pre post : Server) (ws : List String) : List String :=
  let before := sessionOnlySubs pre
  let fresh := (sessionOnlySubs post).filter fun e => !before.contains e
  if fresh.isEmpty then [] else
  let unsubFilters : List Str := match ws with
    | "bk.send" :: _ :: "UNSUBSCRIBE" :: kv => (((kvGet kv "f").getD "").splitOn ",").filterMap parseHex
    | "bk.send" :: _ :: "SUBSCRIBE" :: kv =>   -- the other spelling takes the index entry over
      (((kvGet kv "f").getD "").splitOn ",").filterMap fun x => parseHex ((x.splitOn ":").headD "")
    | _ => []
  let lower (f : Str) : Str := f.map fun b => if 65 ≤ b && b ≤ 90 then b + 32 else b
  let slashes (f : Str) : Nat := (f.filter (· == 47)).length
  let sig := if unsubFilters.any (fun f => isSharedFilter f && slashes f < 2) then "F06d"
    else if fresh.any (fun (_, f) => unsubFilters.any fun u => u != f && lower u == lower f) then "F06c" else "-"
  fresh.map fun (cid, f) =>
    fail "C03" sig s!"after this op the session of {toHex cid} still lists the subscription {toHex f} but the topic index no longer holds it: matching publishes are silently not delivered"

/-- broker op with spec verdicts -/
def brokerOpV (st : BkState) (impl : String) (ws : List String) : Option (BkState × String × String × String) :=
  let (core, flags) := match impl.splitOn " V[" with
    | [a, b] => (a, " V[" ++ b)
    | _ => (impl, "")
  -- the hidden-state token is part of the model/implementation comparison, not of the spec verdicts — except
  -- for C15: the client ids it lists are the sessions the REAL broker still knows
  let hiddenIds : Option (List String) := match core.splitOn " H[" with
    | [_, h] => some ((((h.splitOn "]").headD "").splitOn "|").drop 1 |>.map fun e => (e.splitOn "=").headD "")
    | _ => none
  let core := match core.splitOn " H[" with
    | [a, _] => a
    | _ => core
  -- C15: a session with expiry 0 (MQTT 5) or an MQTT 3 clean session is discarded when its connection ends
  let c15end : List String :=
    let judge (n : Nat) (newSei : Option Nat) : List String :=
      match assocGet st.srv.connOf n, hiddenIds with
      | some i, some ids =>
        let c := getObj st.srv i
        let registered := assocGet st.srv.clients c.id == some i
        let sei := match newSei with | some v => if c.sei == 0 then 0 else v | none => c.sei
        let ends := (c.ver == 5 && sei == 0) || (c.ver < 5 && c.clean)
        if registered && c.isOpen && !c.inline && !c.peerGone && ends && st.srv.parked.isEmpty && st.srv.parkedEarly.isEmpty &&
            st.srv.pending.isEmpty && ids.contains (toHex c.id) then
          [fail "C15" "-" s!"the session of {toHex c.id} ends with its connection (expiry 0 / clean session) but the broker still holds it after c{n} ended"]
        else []
      | _, _ => []
    match ws with
    | ["bk.drop", n] => (n.toNat?.map fun n => judge n none).getD []
    | "bk.send" :: n :: "DISCONNECT" :: kv => (n.toNat?.map fun n => judge n (kvNatO kv "sei")).getD []
    | _ => []
  -- `bk.ack n` is the acknowledgement the bookkeeping says is due: judge it as that `bk.send`
  let wsJ : List String := match ws with
    | ["bk.ack", n] =>
      match n.toNat? with
      | some nn =>
        match pendMin ((st.pend.find? (·.1 == nn)).map (·.2) |>.getD []) with
        | some ((id, q, stage), _) =>
          ["bk.send", n, (if q == 2 && stage == 0 then "PUBREC" else if q == 2 then "PUBCOMP" else "PUBACK"), s!"id={id}"]
        | none => ws
      | none => ws
    | _ => ws
  match brokerOp st impl ws with
  | some (st', m, _, g) =>
    let ws := wsJ
    if impl.startsWith "panic" then
      -- the real code panicked while serving this op (recovered by the harness when it ran in the harness's
      -- own goroutine; in a connection goroutine the process dies and bin/check reports the crash)
      some (st', m, fail "C28" "-" "the broker panicked while serving this op", g) else
    -- the op addressed a connection that no longer exists: nothing was sent, nothing to judge or to book
    if core.startsWith "no-conn" then some (st', m, "ok", g) else
    let (st'', c12) := c12Update st' st.srv st'.srv ws (parseImplOut core) flags
    let (st2b, c09) := c09Update st'' st.srv st'.srv ws (parseImplOut core)
    let (st3, c11) := c11Update st2b st.srv st'.srv ws (parseImplOut core)
    let (st4, c25) := c25Update st3 st.srv st'.srv ws (parseImplOut core) flags
    let (st5, c11i) := c11InUpdate st4 st.srv ws (parseImplOut core) core
    let lk := if ws.head? == some "bk.dump" then [] else liveKnownVerdicts st'.srv ws hiddenIds st5.unknownLive
    let st5 := { st5 with unknownLive := st5.unknownLive ++ lk.map (·.1) }
    let c15live := lk.map (·.2) ++ sessionIndexVerdicts st.srv st'.srv ws
    some (st5, m, renderVerdicts (brokerVerdicts st.srv ws core flags ++ c12 ++ c09 ++ c11 ++ c25 ++ c11i ++ c15end ++ c15live), g)
  | none => none

end Mochi.Driver
