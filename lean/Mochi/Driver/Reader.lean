import Mochi.Driver.Codec
import Mochi.Model.Reader
import Mochi.Spec.Varint
namespace Mochi.Driver
open Mochi.Codec Mochi.Reader

def renderReadErr : ReadErr → String
  | .header .panic => "panic"
  | .header (.code n) => "err " ++ n
  | .varint => "err ErrMalformedVariableByteInteger"
  | .tooLarge => "err ErrPacketTooLarge"
  | .body .panic => "panic"
  | .body (.code n) => "err " ++ n
  | .notConnect => "err ErrProtocolViolationRequireFirstConnect"

def renderReadEvent : ReadEvent → String
  | .packet pk => "pk " ++ renderPacket pk
  | .needMore => "needMore"
  | .error e => renderReadErr e

/-- SPEC framing of a byte stream, independent of the reader model: `(total size, remaining)` of every
    complete-header frame in order, by the reference variable byte integer decoder (`specDecode`); stops
    at the first frame whose header is incomplete or malformed. `fuel` = stream length. -/
def specFrames : Nat → List Nat → List (Nat × Nat)
  | 0, _ => []
  | _, [] => []
  | fuel + 1, _ :: rest =>
    match Mochi.Varint.specDecode rest with
    | .ok (n, bu) => (1 + bu + n, n) :: specFrames fuel (rest.drop (bu + n))
    | .error _ => []

/-- total sizes of the COMPLETE frames at the head of the stream (header and all `remaining` bytes present):
    the framing rule of the hostile harness (`rdFrames`) -/
def completeFrames : Nat → List Nat → List Nat
  | 0, _ => []
  | _, [] => []
  | fuel + 1, _ :: rest =>
    match Mochi.Varint.specDecode rest with
    | .ok (n, bu) =>
      if rest.length < bu + n then [] else (1 + bu + n) :: completeFrames fuel (rest.drop (bu + n))
    | .error _ => []

/-- number of `pk` events in a rendered event list -/
def countPk (s : String) : Nat :=
  ((s.splitOn " ;; ").filter (·.startsWith "pk ")).length

/-- reader ops: `rd.stream <ver> <maxpkt> <hex>` — the events of `Client.Read` on the byte stream.
    Spec verdict on the implementation's answer: no panic; no packet whose total size exceeds the
    configured maximum is delivered (total size by the SPEC framing: header byte + length bytes +
    remaining length; a plain violation, also when only the length bytes make it oversized — the former
    finding F28 is repaired in the code). -/
def readerOp (impl : String) : List String → Option (String × String × String)
  | ["rd.stream", ver, maxpkt, h] => do
    let ver ← ver.toNat?
    let maxpkt ← maxpkt.toNat?
    let bs ← parseHex h
    let (evs, _) := readStream { maxPacketSize := maxpkt } ver bs
    let out := " ;; ".intercalate (evs.map renderReadEvent)
    let frames := specFrames bs.length bs
    -- index of the first frame that is larger than the maximum
    let firstBig := frames.findIdx? (fun f => maxpkt > 0 && f.1 > maxpkt)
    let delivered := countPk impl
    let vPanic := if (impl.splitOn "panic").length > 1 then ["FAIL[C28|-] Client.Read panicked on this byte stream"] else []
    let vSize := match firstBig with
      | some k =>
        if delivered > k then
          let f := frames.getD k (0, 0)
          [s!"FAIL[C28|-] a packet of {f.1} bytes (remaining length {f.2}) was read and delivered although the maximum packet size is {maxpkt}"]
        else []
      | none => []
    let vs := vPanic ++ vSize
    some (out, if vs.isEmpty then "ok" else "; ".intercalate vs, "-")
  | _ => none

end Mochi.Driver
