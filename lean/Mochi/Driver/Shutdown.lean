import Mochi.Driver.Util
import Mochi.Driver.Broker
import Mochi.Model.Shutdown
/-!
Driver for the `shutdown` suite (C36): the op lines induce a schedule of the small-step model
`Model/Shutdown.lean` — `sd.accept` is the listener's `end` test, `sd.start`/`sd.release` let one handler
run to the point where the harness parks it (inside the authentication hook = before the model's `auth`
step; at `attach.afterClientsAdd` = before `connack`) or to where it blocks, `sd.close` lets the closer run
(optionally parked at `disconnect.beforeStop` = before `discStop`), and after every op every thread the
harness does not hold runs until nothing moves. The order in which `CloseAll` visits the listeners is a
Go map iteration: it is read from the implementation's answer (`ord=`), and so is the client a parked
`Close` reached first in its walk over the snapshot (`park=`, also map order).
-/
namespace Mochi.Driver
open Mochi.Shutdown

structure SdState where
  sys : Sys := {}
  nl : Nat := 1
  idx : List (Nat × Nat) := []        -- connection number ↦ handler index
  started : List Nat := []            -- handler indices whose goroutine has been let run
  held : List (Nat × String) := []    -- handler index ↦ "auth" | "added"
  closeStarted : Bool := false
  closerHeld : Bool := false
  inited : Bool := false              -- `sd.new` has run

def sdPc (s : Sys) (i : Nat) : Option HPc := (s.hs[i]?).map (·.pc)

/-- handler `i` runs until `stop` holds of its program counter or it cannot move -/
def sdRunHandler (s : Sys) (i : Nat) (stop : HPc → Bool) : Nat → Sys
  | 0 => s
  | fuel + 1 =>
    match sdPc s i with
    | none => s
    | some pc =>
      if stop pc then s else
      let s' := stepHandler s i
      if sdPc s' i == some pc then s' else sdRunHandler s' i stop fuel

def isDiscStop : CPc → Bool
  | .discStop _ _ _ => true
  | _ => false

/-- the closer runs until it cannot move (or, with `hold`, until it is about to stop a client: `pick` is
    the client the real loop reached first — the snapshot comes out of a Go map) -/
def sdRunCloser (s : Sys) (hold : Bool) (pick : Option Nat) : Nat → Sys × Bool
  | 0 => (s, false)
  | fuel + 1 =>
    if hold && isDiscStop s.cpc then (s, true) else
    let s := match hold, pick with
      | true, some c => closerNext s c
      | _, _ => s
    let s' := stepCloser s
    if s'.cpc == s.cpc then (s', false) else sdRunCloser s' hold pick fuel

/-- everything the harness does not hold runs until nothing moves -/
def sdQuiesce (st : SdState) : Nat → SdState
  | 0 => st
  | fuel + 1 =>
    let s0 := st.sys
    let s1 := if st.closeStarted && !st.closerHeld then (sdRunCloser s0 false none 200).1 else s0
    let s2 := st.started.foldl (fun s i => if (st.held.lookup i).isSome then s else sdRunHandler s i (fun _ => false) 20) s1
    if s2 == s0 then st else sdQuiesce { st with sys := s2 } fuel

def sdRenderConn (st : SdState) (n i : Nat) : String :=
  match st.sys.hs[i]? with
  | none => s!"c{n}=?"
  | some h =>
    let hs := match h.pc with
      | .dropped => "d"
      | .finished => "f"
      | .wgAdd => if st.started.contains i then "r" else "a"
      | .endTest => "t"
      | _ => "r"
    let ack := if h.out.contains .connack then "1" else "0"
    let disc := if h.out.contains (.disconnect 0x8B) then "8b" else if h.out.contains (.disconnect 0) then "00" else "-"
    let closed := if h.peerClosed then "p" else if h.stopped then "s" else "0"
    s!"c{n}=v{h.ver}/l{h.lis}/h={hs}/ack={ack}/disc={disc}/closed={closed}"

def insertSorted (x : Nat × Nat) : List (Nat × Nat) → List (Nat × Nat)
  | [] => [x]
  | y :: r => if x.1 ≤ y.1 then x :: y :: r else y :: insertSorted x r

def sdRender (st : SdState) (ord : String) : String :=
  let s := st.sys
  let cl := match s.cpc with
    | .closeDone => "n"
    | .returned => "r"
    | .wgWait | .wgBlocked => "w"
    | .panicked => "x"
    | _ => "p"
  let ls := (List.range st.nl).map fun l =>
    s!"l{l}=e{boolStr (s.ended.contains l)}n{boolStr (s.netClosed.contains l)}"
  let cs := st.idx.map fun (n, i) => sdRenderConn st n i
  let park := match st.closerHeld, s.cpc with
    | true, .discStop _ c _ => match st.idx.find? (fun (e : Nat × Nat) => e.2 == c) with
      | some e => toString e.1
      | none => "?"
    | _, _ => "-"
  " ".intercalate ([s!"close={cl}", s!"ord={ord}", s!"park={park}"] ++ ls ++ cs)

/-- the listeners in the order the closer has visited them so far (model side of `ord=`) -/
def sdOrdOf (impl : String) : String := (kvGet (impl.splitOn " ") "ord").getD "-"

def sdParseOrd (nl : Nat) (ord : String) : List Nat :=
  let seen := ord.toList.filterMap fun c => if '0' ≤ c ∧ c ≤ '9' then some (c.toNat - '0'.toNat) else none
  seen ++ (List.range nl).filter fun l => !seen.contains l

/-- what the closer has visited, as the harness writes it -/
def sdModelOrd (st : SdState) : String :=
  let v := st.sys.ended.reverse
  if v.isEmpty then "-" else String.join (v.map toString)

/-- the model's handler for connection `c<n>` (for the finding signatures, which are predicates over the
    schedule: *when* did this handler count itself / register, relative to the closer) -/
def sdHandlerOf (st : SdState) (name : String) : Option H :=
  ((name.drop 1).toString.toNat?).bind fun n => (st.idx.lookup n).bind fun i => st.sys.hs[i]?

/-- C36 on what the REAL broker reported at a `sd.status`. A failure is attributed to a recorded finding
    only when the schedule is the finding's: F36b = the unfinished handler had not executed
    `ClientsWg.Add(1)` when `Wait` returned; F36a = the client still served registered after its
    listener's clients were enumerated. Any other failure carries no signature. -/
def sdVerdict (st : SdState) (impl : String) : String :=
  let toks := impl.splitOn " "
  let cl := (kvGet toks "close").getD "?"
  let connToks := toks.filter fun t => t.startsWith "c" && !t.startsWith "close="
  let conns : List (String × List String) := connToks.map fun t =>
    match t.splitOn "=" with
    | name :: _ => (name, ((t.drop (name.length + 1)).toString.splitOn "/"))
    | [] => (t, [])
  let fld (fs : List String) (k : String) : String := (kvGet fs k).getD "?"
  let lsBad := toks.filter fun t => t.startsWith "l" && (t.splitOn "=").length == 2 && !t.endsWith "=e1n1"
  let items : List String :=
    if cl == "r" then
      (conns.flatMap fun (name, fs) =>
        let h := fld fs "h"
        let v5 := fs.contains "v5"
        let sigB := match sdHandlerOf st name with
          | some m => if m.addBeforeWait then "-" else "F36b"
          | none => "-"
        (if h == "a" then [s!"FAIL[C36|{sigB}] Close has returned and the handler spawned for connection {name} has not started: it will run against the closed server"] else []) ++
        (if h == "r" then [s!"FAIL[C36|{sigB}] Close has returned while the handler of connection {name} is running (closed={fld fs "closed"}, CONNACK={fld fs "ack"})"] else []) ++
        (if h == "f" && fld fs "closed" == "0" then [s!"FAIL[C36|-] handler of {name} finished and its connection is open"] else []) ++
        (if v5 && fld fs "ack" == "1" && fld fs "closed" == "s" && fld fs "disc" != "8b" then
           [s!"FAIL[C36|-] MQTT 5 client {name} was closed by the broker without DISCONNECT 0x8B (disc={fld fs "disc"})"] else [])) ++
      (lsBad.map fun t => s!"FAIL[C36|-] Close has returned and listener {t} has not stopped")
    else if cl == "w" then
      conns.flatMap fun (name, fs) =>
        if fld fs "h" == "r" && fld fs "ack" == "1" && fld fs "closed" == "0" then
          let sigA := match sdHandlerOf st name with
            | some m => if m.registered && !m.regBeforeSnap then "F36a" else "-"
            | none => "-"
          [s!"FAIL[C36|{sigA}] Close is blocked in ClientsWg.Wait: connection {name} holds a CONNACK, was never disconnected and is being served by a broker that is shutting down (F36a: it registered after its listener's clients were enumerated)"]
        else []
    else []
  if items.isEmpty then "ok" else "; ".intercalate items

def sdFinish (st : SdState) (impl : String) (isStatus : Bool) : SdState × String × String × String :=
  let st := sdQuiesce st 12
  (st, sdRender st (sdModelOrd st), if isStatus then sdVerdict st impl else "ok", "-")

def shutdownOp' (st : SdState) (impl : String) : List String → Option (SdState × String × String × String)
  | "sd.new" :: kv =>
    let nl := kvNatD kv "nl" 1
    let st : SdState := { nl := nl, sys := start (List.range nl) [], inited := true }
    some (sdFinish st impl false)
  | ["sd.accept", n, ver, l] => do
    let n ← n.toNat?; let ver ← ver.toNat?; let l ← l.toNat?
    if (st.idx.lookup n).isSome then some (st, "dup", "ok", "-") else
    if st.sys.netClosed.contains l then some (st, "refused", "ok", "-") else
    let i := st.sys.hs.length
    let s := { st.sys with hs := st.sys.hs ++ [{ lis := l, ver := ver }] }
    let s := stepHandler s i      -- the listener's `end` test
    some (sdFinish { st with sys := s, idx := insertSorted (n, i) st.idx } impl false)
  | "sd.start" :: n :: rest => do
    let n ← n.toNat?
    match st.idx.lookup n with
    | none => some (st, "bad-state", "ok", "-")
    | some i =>
      if sdPc st.sys i != some .wgAdd || st.started.contains i then some (st, "bad-state", "ok", "-") else
      let stop : HPc → Bool := match rest with
        | ["auth"] => fun pc => pc == .auth
        | ["added"] => fun pc => pc == .connack
        | _ => fun _ => false
      let s := sdRunHandler st.sys i stop 20
      let held := match rest, sdPc s i with
        | ["auth"], some .auth => (i, "auth") :: st.held
        | ["added"], some .connack => (i, "added") :: st.held
        | _, _ => st.held
      some (sdFinish { st with sys := s, started := st.started ++ [i], held := held } impl false)
  | "sd.release" :: n :: rest => do
    let n ← n.toNat?
    match st.idx.lookup n with
    | none => some (st, "not-held", "ok", "-")
    | some i =>
      match st.held.lookup i with
      | none => some (st, "not-held", "ok", "-")
      | some stage =>
        let held := st.held.filter fun e => e.1 != i
        if rest == ["added"] && stage == "auth" then
          let s := sdRunHandler st.sys i (fun pc => pc == .connack) 20
          let held := if sdPc s i == some .connack then (i, "added") :: held else held
          some (sdFinish { st with sys := s, held := held } impl false)
        else
          some (sdFinish { st with held := held } impl false)
  | ["sd.peerclose", n] => do
    let n ← n.toNat?
    match st.idx.lookup n with
    | none => some (st, "no-conn", "ok", "-")
    | some i => some (sdFinish { st with sys := peerClose st.sys i } impl false)
  | "sd.close" :: rest =>
    if st.closeStarted then some (st, "dup", "ok", "-") else
    -- the order of `CloseAll`'s map iteration is the implementation's choice
    let order := sdParseOrd st.nl (sdOrdOf impl)
    let s0 := { st.sys with todoL := order }
    let pick := ((kvGet (impl.splitOn " ") "park").bind (·.toNat?)).bind fun n => st.idx.lookup n
    let (s, parked) := sdRunCloser s0 (rest == ["hold"]) pick 200
    some (sdFinish { st with sys := s, closeStarted := true, closerHeld := parked } impl false)
  | ["sd.closego"] =>
    if !st.closerHeld then some (st, "not-held", "ok", "-") else
    some (sdFinish { st with closerHeld := false } impl false)
  | ["sd.status"] => some (sdFinish st impl true)
  | _ => none

/-- `sd.race`: a race on the real broker, not a schedule the harness can force (the window is inside
    `sync.WaitGroup`); the model has both outcomes (`C36_wait_reuse_panic_counterexample` and the runs in
    which `Wait` wakes first), so the answer is taken as it comes and judged -/
def sdRace (impl : String) : String × String × String :=
  if (impl.splitOn " ").contains "panic=1" then
    (impl, "FAIL[C36|F36c] Server.Close panicked in ClientsWg.Wait: a handler spawned by the listener executed ClientsWg.Add(1) between the Done that released Wait and Wait waking up (" ++ impl ++ ")", "-")
  else (impl, "ok", "-")

def shutdownOp (st : SdState) (impl : String) (ws : List String) : Option (SdState × String × String × String) :=
  match ws with
  | "sd.race" :: _ => let r := sdRace impl; some (st, r.1, r.2.1, r.2.2)
  | op :: _ =>
    if op.startsWith "sd." && op != "sd.new" && !st.inited then some (st, "no-server", "ok", "-")
    else shutdownOp' st impl ws
  | [] => none

end Mochi.Driver
