import Mochi.Driver.Util
import Mochi.Model.WsConn
namespace Mochi.Driver
open Mochi.WsConn

def parseMsgs (s : String) : Option (List (Bool × List Nat)) :=
  if s == "." then some [] else
  (s.splitOn ",").mapM fun m =>
    let kind := (m.take 1).toString
    let body := (m.drop 1).toString
    do some (kind == "b", (← parseHex body))

def parseNats (s : String) : Option (List Nat) :=
  if s == "." then some [] else (s.splitOn ",").mapM (·.toNat?)

/-- run the model's `Read` for each requested size; stop at the first error -/
def modelReads (ws : WS) : List Nat → List String
  | [] => []
  | w :: rest =>
    match read ws w [] with
    | (ws', .ok out) => toHex out :: modelReads ws' rest
    | (_, .error .invalid) => ["!invalid"]
    | (_, .error .closed) => ["!closed"]

def joinHexItems (items : List String) : Option (List Nat) :=
  items.foldlM (fun acc it => if it.startsWith "!" then some acc else do some (acc ++ (← parseHex it))) []

/-- `ws.session <msgs> <reads> <writes>` -/
def wsOp (impl : String) : List String → Option (String × String × String)
  | ["ws.session", ms, rs, wr] => do
    let msgs ← parseMsgs ms
    let sizes ← parseNats rs
    let writes ← parseMsgs wr
    let rOut := ",".intercalate (modelReads { msgs := msgs } sizes)
    let wOut := ",".intercalate (writes.map fun (_, p) => let m := write p; (if m.1 then "b" else "t") ++ toHex m.2)
    let model := s!"R:{rOut} W:{wOut}"
    -- spec verdict on the implementation's answer: delivered bytes are a prefix of the binary stream,
    -- complete when the stream ended or a text message was reached; writes arrive as single binary messages
    let total := pendingMsgs msgs
    let okSpec := match impl.splitOn " " with
      | [r, w] =>
        let items := ((r.drop 2).toString.splitOn ",").filter (· ≠ "")
        match joinHexItems items with
        | some got =>
          let isPrefix := got == total.take got.length
          let ended := items.any (·.startsWith "!")
          isPrefix && (!ended || got == total) && (w.drop 2).toString == wOut
        | none => false
      | _ => false
    some (model, verdict okSpec "spec wants the binary payload bytes in order, nothing lost or duplicated, replies as single binary messages", "-")
  | _ => none

end Mochi.Driver
