import Mochi.Driver.Util
import Mochi.Spec.Hooks
/-!
Driver for suite `hooks` (C19): the model `Model/Hooks.lean` on the op lines of go/cmd/vharness/hooks.go, and
the spec oracle — C19's clauses about a dispatcher, evaluated on what the REAL `mqtt.Hooks` returned and on
the calls the scripted hooks really received (parsed from the implementation's answer).
-/
namespace Mochi.Driver
open Mochi.Hooks

def methodNames : List (String × Method) :=
  [("SetOptions", .setOptions), ("OnSysInfoTick", .onSysInfoTick), ("OnStarted", .onStarted), ("OnStopped", .onStopped),
   ("OnConnectAuthenticate", .onConnectAuthenticate), ("OnACLCheck", .onACLCheck), ("OnConnect", .onConnect),
   ("OnSessionEstablish", .onSessionEstablish), ("OnSessionEstablished", .onSessionEstablished),
   ("OnDisconnect", .onDisconnect), ("OnAuthPacket", .onAuthPacket), ("OnPacketRead", .onPacketRead),
   ("OnPacketEncode", .onPacketEncode), ("OnPacketSent", .onPacketSent), ("OnPacketProcessed", .onPacketProcessed),
   ("OnSubscribe", .onSubscribe), ("OnSubscribed", .onSubscribed), ("OnSelectSubscribers", .onSelectSubscribers),
   ("OnUnsubscribe", .onUnsubscribe), ("OnUnsubscribed", .onUnsubscribed), ("OnPublish", .onPublish),
   ("OnPublished", .onPublished), ("OnPublishDropped", .onPublishDropped), ("OnRetainMessage", .onRetainMessage),
   ("OnRetainPublished", .onRetainPublished), ("OnQosPublish", .onQosPublish), ("OnQosComplete", .onQosComplete),
   ("OnQosDropped", .onQosDropped), ("OnPacketIDExhausted", .onPacketIDExhausted), ("OnWill", .onWill),
   ("OnWillSent", .onWillSent), ("OnClientExpired", .onClientExpired), ("OnRetainedExpired", .onRetainedExpired),
   ("StoredClients", .storedClients), ("StoredSubscriptions", .storedSubscriptions),
   ("StoredInflightMessages", .storedInflightMessages), ("StoredRetainedMessages", .storedRetainedMessages),
   ("StoredSysInfo", .storedSysInfo)]

def methodName (m : Method) : String := ((methodNames.find? (·.2 == m)).map (·.1)).getD "?"
def parseMethod (s : String) : Option Method := (methodNames.find? (·.1 == s)).map (·.2)

/-! ### scripted hooks (the semantics of go/cmd/vharness/hooks.go `hkHook`) -/

structure HSpec where
  mask : Nat
  b : Bool
  e : Nat
  m : Nat
  c : Nat
  t : Nat
  k : Nat
  v : List Nat
  i : Nat

def mkErr (cls tag : Nat) : Option Err :=
  match cls with
  | 1 => some .reject
  | 2 => some .ignore
  | 3 => some (.wrapReject tag)
  | 4 => some (.wrapIgnore tag)
  | 5 => some (.other tag)
  | _ => none

def HSpec.cond (h : HSpec) (x : List Nat) : Bool :=
  match h.c with
  | 0 => true
  | 1 => x.getLast? == some h.t
  | 2 => x.length % 2 == 1
  | _ => false

def HSpec.mod (h : HSpec) (x : List Nat) : List Nat :=
  match h.m with
  | 1 => x ++ [h.k]
  | 2 => [h.k]
  | 3 => x.dropLast
  | _ => x

def HSpec.err (h : HSpec) (x : List Nat) : Option Err := if h.cond x then mkErr h.e h.k else none

def HSpec.pkErr (h : HSpec) (p : Pkt) : Pkt × Option Err := ({ p with payload := h.mod p.payload }, h.err p.payload)
def HSpec.pkPure (h : HSpec) (p : Pkt) : Pkt := { p with payload := h.mod p.payload }

def HSpec.toHook (h : HSpec) : Hook :=
  { provides := fun m => h.mask.testBit m.code
    initErr := mkErr h.i h.k
    stopErr := mkErr h.e h.k
    onConnectAuthenticate := fun p => h.cond p.payload && h.b
    onACLCheck := fun t w => h.cond t && (h.b != w)
    onConnect := fun p => h.err p.payload
    onAuthPacket := h.pkErr
    onPacketRead := h.pkErr
    onPublish := h.pkErr
    onWill := h.pkErr
    onPacketEncode := h.pkPure
    onSubscribe := h.pkPure
    onUnsubscribe := h.pkPure
    onSelectSubscribers := fun s _ => h.mod s
    storedClients := (h.v, h.err [])
    storedSubscriptions := (h.v, h.err [])
    storedInflightMessages := (h.v, h.err [])
    storedRetainedMessages := (h.v, h.err [])
    storedSysInfo := (h.v, h.err []) }

def parseHexNat (s : String) : Option Nat :=
  s.toList.foldl (fun acc c => do let a ← acc; let d ← hexDigit c; some (a * 16 + d)) (some 0)

def parseByte (s : String) : Option Nat := do
  match (← parseHex s) with
  | [b] => some b
  | _ => none

def parseHSpec (s : String) : Option HSpec :=
  match s.splitOn ":" with
  | [mask, b, e, m, c, t, k, v, i] => do
    some { mask := (← parseHexNat mask), b := b == "1", e := (← e.toNat?), m := (← m.toNat?), c := (← c.toNat?),
           t := (← parseByte t), k := (← parseByte k), v := (← parseHex v), i := (← i.toNat?) }
  | _ => none

def parseStack (s : String) : Option (List HSpec) :=
  if s == "-" then some [] else (s.splitOn ",").mapM parseHSpec

/-- the real `Hooks.Add` for each scripted hook in turn: the registered hooks and the errors `Add` returned -/
def addAll (specs : List HSpec) : List Hook × List (Option Err) :=
  specs.foldl (fun acc sp =>
    let r := add acc.1 sp.toHook
    (r.1, acc.2 ++ [r.2])) ([], [])

/-! ### rendering -/

def errStr : Option Err → String
  | none => "-"
  | some e => go e
where go : Err → String
  | .reject => "rej"
  | .ignore => "ign"
  | .wrapReject t => s!"wrej{t}"
  | .wrapIgnore t => s!"wign{t}"
  | .other t => s!"oth{t}"
  | .initWrap e => "init(" ++ go e ++ ")"

def pktStr (p : Pkt) : String := s!"{p.kind}:{toHex p.payload}"

def argStr : Arg → String
  | .unit => "u"
  | .pkt p => "p:" ++ pktStr p
  | .pktErr p e => "pe:" ++ pktStr p ++ ":" ++ errStr e
  | .pktBytes p b => "pb:" ++ pktStr p ++ ":" ++ toHex b
  | .pktNums p ns => "pn:" ++ pktStr p ++ ":" ++ ",".intercalate (ns.map toString)
  | .disc e x => "d:" ++ errStr e ++ ":" ++ boolStr x
  | .acl t w => "a:" ++ toHex t ++ ":" ++ boolStr w
  | .str s => "s:" ++ toHex s
  | .subs s p => "ss:" ++ toHex s ++ ":" ++ pktStr p

def outStr : Out → String
  | .unit => "u"
  | .bool b => "b:" ++ boolStr b
  | .err e => "e:" ++ errStr e
  | .pkt p => "p:" ++ pktStr p
  | .pktErr p e => "pe:" ++ pktStr p ++ ":" ++ errStr e
  | .subs s => "ss:" ++ toHex s
  | .stored v e => "st:" ++ toHex v ++ ":" ++ errStr e

def callStr (c : Call) : String := s!"{c.idx}/{methodName c.method}/{argStr c.input}/{outStr c.output}"

def headStr (hs : List Hook) (adds : List (Option Err)) : String :=
  s!"L{len hs} A" ++ (if adds.isEmpty then "-" else ",".intercalate (adds.map errStr))

def finish (head ret : String) (t : List Call) : String :=
  s!"{head} R{ret} T{t.length}" ++ (if t.isEmpty then "" else " " ++ " ".intercalate (t.map callStr))

/-! ### parsing the implementation's answer -/

def dropPrefix (s : String) (n : Nat) : String := String.ofList (s.toList.drop n)

partial def parseErrTok (s : String) : Option (Option Err) :=
  if s == "-" then some none
  else if s == "rej" then some (some .reject)
  else if s == "ign" then some (some .ignore)
  else if s.startsWith "wrej" then (dropPrefix s 4).toNat?.map fun t => some (.wrapReject t)
  else if s.startsWith "wign" then (dropPrefix s 4).toNat?.map fun t => some (.wrapIgnore t)
  else if s.startsWith "oth" then (dropPrefix s 3).toNat?.map fun t => some (.other t)
  else if s.startsWith "init(" && s.endsWith ")" then
    match parseErrTok (String.ofList ((s.toList.drop 5).dropLast)) with
    | some (some e) => some (some (.initWrap e))
    | _ => none
  else none

def parsePkt (k p : String) : Option Pkt := do some { kind := (← k.toNat?), payload := (← parseHex p) }

def parseArgTok (s : String) : Option Arg :=
  match s.splitOn ":" with
  | ["u"] => some .unit
  | ["p", k, p] => do some (.pkt (← parsePkt k p))
  | ["pe", k, p, e] => do some (.pktErr (← parsePkt k p) (← parseErrTok e))
  | ["pb", k, p, b] => do some (.pktBytes (← parsePkt k p) (← parseHex b))
  | ["pn", k, p, ns] => do some (.pktNums (← parsePkt k p) (← (ns.splitOn ",").mapM (·.toNat?)))
  | ["d", e, x] => do some (.disc (← parseErrTok e) (x == "1"))
  | ["a", t, w] => do some (.acl (← parseHex t) (w == "1"))
  | ["s", x] => do some (.str (← parseHex x))
  | ["ss", x, k, p] => do some (.subs (← parseHex x) (← parsePkt k p))
  | _ => none

def parseOutTok (s : String) : Option Out :=
  match s.splitOn ":" with
  | ["u"] => some .unit
  | ["b", x] => some (.bool (x == "1"))
  | ["e", e] => do some (.err (← parseErrTok e))
  | ["p", k, p] => do some (.pkt (← parsePkt k p))
  | ["pe", k, p, e] => do some (.pktErr (← parsePkt k p) (← parseErrTok e))
  | ["ss", x] => do some (.subs (← parseHex x))
  | ["st", v, e] => do some (.stored (← parseHex v) (← parseErrTok e))
  | _ => none

def parseCallTok (s : String) : Option Call :=
  match s.splitOn "/" with
  | [i, m, a, o] => do some { idx := (← i.toNat?), method := (← parseMethod m), input := (← parseArgTok a), output := (← parseOutTok o) }
  | _ => none

/-- `L<n> A<…> R<ret> T<n> calls…` ↦ (the `R` token without its letter, the calls) -/
def parseAnswer (impl : String) : Option (String × List Call) :=
  match words impl with
  | l :: a :: r :: t :: calls =>
    if l.startsWith "L" && a.startsWith "A" && r.startsWith "R" && t.startsWith "T" then do
      let cs ← calls.mapM parseCallTok
      if (dropPrefix t 1).toNat? == some cs.length then some (dropPrefix r 1, cs) else none
    else none
  | _ => none

/-! ### the spec oracle: C19's clauses on one observed dispatcher call -/

def fail19 (sig reason : String) : String := s!"FAIL[C19|{sig}] {reason}"

/-- strictly increasing -/
def increasing : List Nat → Bool
  | a :: b :: rest => a < b && increasing (b :: rest)
  | _ => true

/-- the registered hooks that provide `m`, by position -/
def providerIdxs (m : Method) (hs : List Hook) : List Nat :=
  ((List.range hs.length).zip hs).filterMap fun (i, h) => if h.provides m then some i else none

/-- "hooks run in registration order": the calls go to hooks that provide the method, by increasing position -/
def oracleOrder (m : Method) (hs : List Hook) (t : List Call) : List String :=
  (if increasing (idxs t) then [] else [fail19 "-" s!"hooks were not called in registration order: positions {idxs t}"]) ++
  (if t.all (fun c => c.method == m) then [] else [fail19 "-" s!"a method other than {methodName m} was called"]) ++
  (if t.all (fun c => match hs[c.idx]? with | some h => h.provides m | none => false) then []
   else [fail19 "-" s!"a hook that does not provide {methodName m} (or is not registered) was called"])

/-- is the recorded result what the hook at that position returns for the recorded arguments -/
def callFaithful (hs : List Hook) (c : Call) : Bool :=
  match hs[c.idx]? with
  | none => false
  | some h =>
    match c.method, c.input with
    | .onConnectAuthenticate, .pkt p => c.output == .bool (h.onConnectAuthenticate p)
    | .onACLCheck, .acl t w => c.output == .bool (h.onACLCheck t w)
    | .onConnect, .pkt p => c.output == .err (h.onConnect p)
    | .onAuthPacket, .pkt p => c.output == .pktErr (h.onAuthPacket p).1 (h.onAuthPacket p).2
    | .onPacketRead, .pkt p => c.output == .pktErr (h.onPacketRead p).1 (h.onPacketRead p).2
    | .onPublish, .pkt p => c.output == .pktErr (h.onPublish p).1 (h.onPublish p).2
    | .onWill, .pkt p => c.output == .pktErr (h.onWill p).1 (h.onWill p).2
    | .onPacketEncode, .pkt p => c.output == .pkt (h.onPacketEncode p)
    | .onSubscribe, .pkt p => c.output == .pkt (h.onSubscribe p)
    | .onUnsubscribe, .pkt p => c.output == .pkt (h.onUnsubscribe p)
    | .onSelectSubscribers, .subs s p => c.output == .subs (h.onSelectSubscribers s p)
    | .storedClients, .unit => c.output == .stored h.storedClients.1 h.storedClients.2
    | .storedSubscriptions, .unit => c.output == .stored h.storedSubscriptions.1 h.storedSubscriptions.2
    | .storedInflightMessages, .unit => c.output == .stored h.storedInflightMessages.1 h.storedInflightMessages.2
    | .storedRetainedMessages, .unit => c.output == .stored h.storedRetainedMessages.1 h.storedRetainedMessages.2
    | .storedSysInfo, .unit => c.output == .stored h.storedSysInfo.1 h.storedSysInfo.2
    | _, _ => c.output == .unit

def isChainMethod (m : Method) : Bool :=
  m == .onPacketEncode || m == .onSubscribe || m == .onUnsubscribe || m == .onSelectSubscribers ||
  m == .onPublish || m == .onAuthPacket || m == .onPacketRead || m == .onWill

/-- the dispatchers that have no reason to stop early: every providing hook must have been called -/
def consultsAll (m : Method) : Bool :=
  !(m == .onPublish || m == .onAuthPacket || m == .onPacketRead || m == .onConnect ||
    m == .onConnectAuthenticate || m == .onACLCheck || m == .storedClients || m == .storedSubscriptions ||
    m == .storedInflightMessages || m == .storedRetainedMessages || m == .storedSysInfo)

/-- "each packet-modifying hook sees the previous hook's output": literal chain; a failure in which a hook that
    returned an error had its output discarded (and nothing else is wrong) carries the signature F19c -/
def oracleChain (m : Method) (start : Arg) (t : List Call) : List String :=
  if !isChainMethod m then []
  else if decide (Chained nextLiteral start t) then []
  else if (m == .onPacketRead || m == .onWill) && decide (Chained nextAccepted start t) &&
          t.dropLast.any (fun c => c.output.error.isSome) then
    [fail19 "F19c" s!"{methodName m}: a hook returned a modified value together with an error that is not ErrRejectPacket; the next hook did not receive that output but the value before it, and the error was dropped"]
  else [fail19 "-" s!"{methodName m}: a hook did not receive the previous hook's output"]

/-- the clauses about the returned value -/
def oracleRet (m : Method) (hs : List Hook) (start : Arg) (ret : Out) (t : List Call) : List String :=
  match m with
  | .onConnectAuthenticate | .onACLCheck =>
    let want := hs.any fun h => h.provides m &&
      (match start with
       | .pkt p => h.onConnectAuthenticate p
       | .acl tp w => h.onACLCheck tp w
       | _ => false)
    if ret == .bool want then [] else [fail19 "-" s!"{methodName m} returned {outStr ret}; allowed iff some providing hook allows: {boolStr want}"]
  | .onPublish | .onAuthPacket =>
    let errs := t.filterMap (·.output.error)
    (match ret with
     | .pktErr p none =>
       (if errs.isEmpty then [] else [fail19 "-" s!"a {methodName m} hook returned an error and the dispatcher reports success"]) ++
       (if Arg.pkt p == chainEnd nextLiteral start t then [] else [fail19 "-" s!"{methodName m} did not return the last hook's output"])
     | .pktErr _ (some e) => if errs.contains e then [] else [fail19 "-" s!"{methodName m} reports an error no hook returned"]
     | _ => [fail19 "-" "unexpected result shape"])
  | .onPacketRead =>
    let rej := t.filterMap (fun c => if c.output.rejects then c.output.error else none)
    (match ret with
     | .pktErr p none =>
       (if rej.isEmpty then [] else [fail19 "-" "a read hook rejected the packet and OnPacketRead reports success"]) ++
       (if Arg.pkt p == chainEnd nextAccepted start t then [] else [fail19 "-" "OnPacketRead did not return the last accepted output"])
     | .pktErr _ (some e) => if rej.contains e then [] else [fail19 "-" "OnPacketRead reports an error that is not a hook's reject error"]
     | _ => [fail19 "-" "unexpected result shape"])
  | .onPacketEncode | .onSubscribe | .onUnsubscribe =>
    (match ret with
     | .pkt p => if Arg.pkt p == chainEnd nextLiteral start t then [] else [fail19 "-" s!"{methodName m} did not return the last hook's output"]
     | _ => [fail19 "-" "unexpected result shape"])
  | .onWill =>
    (match ret with
     | .pkt p => if Arg.pkt p == chainEnd nextAccepted start t then [] else [fail19 "-" "OnWill did not return the last accepted output"]
     | _ => [fail19 "-" "unexpected result shape"])
  | .onSelectSubscribers =>
    (match ret, start with
     | .subs s, .subs _ pk => if Arg.subs s pk == chainEnd nextLiteral start t then [] else [fail19 "-" "OnSelectSubscribers did not return the last hook's output"]
     | _, _ => [fail19 "-" "unexpected result shape"])
  | _ => []

def oracleCall (m : Method) (hs : List Hook) (start : Arg) (ret : Out) (t : List Call) : List String :=
  oracleOrder m hs t ++
  (if t.all (callFaithful hs) then [] else [fail19 "-" "a recorded call is not what the scripted hook at that position returns for those arguments"]) ++
  (if consultsAll m && idxs t != providerIdxs m hs then [fail19 "-" s!"{methodName m}: providing hooks {providerIdxs m hs}, called {idxs t}"] else []) ++
  (if isChainMethod m then [] else
     if t.all (fun c => c.input == start) then [] else [fail19 "-" s!"{methodName m}: a hook was not given the dispatcher's arguments"]) ++
  oracleChain m start t ++ oracleRet m hs start ret t

def verdictOf (items : List String) : String := if items.isEmpty then "ok" else "; ".intercalate items

/-- split the calls of `hk.read` into one group per packet: a new packet starts where the position does not increase -/
def groupCalls : List Call → List (List Call)
  | [] => []
  | c :: rest =>
    match groupCalls rest with
    | [] => [[c]]
    | g :: gs =>
      match g with
      | d :: _ => if c.idx < d.idx then (c :: g) :: gs else [c] :: g :: gs
      | [] => [c] :: gs

/-- "a packet rejected on read is not processed": handled packets vs the calls the read hooks received -/
def oracleRead (hs : List Hook) (pkts : List Pkt) (handled : List (List Nat)) (err : String) (t : List Call) : List String :=
  let provs := providerIdxs .onPacketRead hs
  let order := (groupCalls t).flatMap (oracleOrder .onPacketRead hs)
  if provs.isEmpty then
    order ++ (if handled == pkts.map (·.payload) && err == "eof" && t.isEmpty then [] else
      [fail19 "-" "no hook provides OnPacketRead, yet not every packet was handled unchanged"])
  else
    let gs := groupCalls t
    let rec go (k : Nat) : List (List Call) → List Pkt → List String
      | [], [] => if handled.length == k && err == "eof" then [] else [fail19 "-" s!"{k} packets passed the read hooks, {handled.length} were handled, Read ended with {err}"]
      | [], _ :: _ => [fail19 "-" s!"packet {k} was not shown to the read hooks"]
      | _ :: _, [] => [fail19 "-" "the read hooks were called more often than there are packets"]
      | g :: gs, p :: ps =>
        let chain := oracleChain .onPacketRead (.pkt p) g
        if g.any (fun c => c.output.rejects) then
          chain ++
          (if handled.length == k then [] else [fail19 "-" s!"packet {k} was rejected by a read hook; {handled.length} packets reached the handler (expected {k})"]) ++
          (if (parseErrTok err).map (fun e => match e with | some e => e.isReject | none => false) == some true then []
           else [fail19 "-" s!"packet {k} was rejected by a read hook; Read ended with {err}"]) ++
          (if gs.isEmpty then [] else [fail19 "-" "read hooks were called after a packet was rejected"])
        else
          chain ++
          (if handled[k]? == some (match chainEnd nextAccepted (.pkt p) g with | .pkt q => q.payload | _ => []) then []
           else [fail19 "-" s!"packet {k} passed the read hooks but the handler did not receive their output"]) ++
          go (k + 1) gs ps
    order ++ go 0 gs pkts

/-! ### the ops -/

def startArg (m : Method) (pk : Pkt) (payload x1 : List Nat) (x2 : Nat) : Arg :=
  match m with
  | .onSysInfoTick | .onStarted | .onStopped | .onClientExpired => .unit
  | .storedClients | .storedSubscriptions | .storedInflightMessages | .storedRetainedMessages | .storedSysInfo => .unit
  | .onDisconnect => .disc (mkErr (x2 % 6) (x2 / 16)) (x2 / 8 % 2 == 1)
  | .onPacketProcessed => .pktErr pk (mkErr (x2 % 6) (x2 / 16))
  | .onPacketSent | .onSubscribed => .pktBytes pk x1
  | .onRetainMessage => .pktNums pk [x2]
  | .onQosPublish => .pktNums pk [x2, x1.length]
  | .onRetainedExpired => .str payload
  | .onACLCheck => .acl payload (x2 % 2 == 1)
  | .onSelectSubscribers => .subs x1 pk
  | _ => .pkt pk

/-- the model's dispatcher for one `hk.call` -/
def runCall (m : Method) (hs : List Hook) (pk : Pkt) (payload x1 : List Nat) (x2 : Nat) : Option (Out × List Call) :=
  match m with
  | .setOptions => none
  | .onSysInfoTick => some (.unit, onSysInfoTick hs)
  | .onStarted => some (.unit, onStarted hs)
  | .onStopped => some (.unit, onStopped hs)
  | .onSessionEstablish => some (.unit, onSessionEstablish hs pk)
  | .onSessionEstablished => some (.unit, onSessionEstablished hs pk)
  | .onDisconnect => some (.unit, onDisconnect hs (mkErr (x2 % 6) (x2 / 16)) (x2 / 8 % 2 == 1))
  | .onPacketProcessed => some (.unit, onPacketProcessed hs pk (mkErr (x2 % 6) (x2 / 16)))
  | .onPacketSent => some (.unit, onPacketSent hs pk x1)
  | .onSubscribed => some (.unit, onSubscribed hs pk x1)
  | .onUnsubscribed => some (.unit, onUnsubscribed hs pk)
  | .onPublished => some (.unit, onPublished hs pk)
  | .onPublishDropped => some (.unit, onPublishDropped hs pk)
  | .onRetainMessage => some (.unit, onRetainMessage hs pk x2)
  | .onRetainPublished => some (.unit, onRetainPublished hs pk)
  | .onQosPublish => some (.unit, onQosPublish hs pk x2 x1.length)
  | .onQosComplete => some (.unit, onQosComplete hs pk)
  | .onQosDropped => some (.unit, onQosDropped hs pk)
  | .onPacketIDExhausted => some (.unit, onPacketIDExhausted hs pk)
  | .onWillSent => some (.unit, onWillSent hs pk)
  | .onClientExpired => some (.unit, onClientExpired hs)
  | .onRetainedExpired => some (.unit, onRetainedExpired hs payload)
  | .onConnect => let r := onConnect hs pk; some (.err r.1, r.2)
  | .onConnectAuthenticate => let r := onConnectAuthenticate hs pk; some (.bool r.1, r.2)
  | .onACLCheck => let r := onACLCheck hs payload (x2 % 2 == 1); some (.bool r.1, r.2)
  | .onPacketRead => let r := onPacketRead hs pk; some (.pktErr r.1.1 r.1.2, r.2)
  | .onAuthPacket => let r := onAuthPacket hs pk; some (.pktErr r.1.1 r.1.2, r.2)
  | .onPublish => let r := onPublish hs pk; some (.pktErr r.1.1 r.1.2, r.2)
  | .onPacketEncode => let r := onPacketEncode hs pk; some (.pkt r.1, r.2)
  | .onSubscribe => let r := onSubscribe hs pk; some (.pkt r.1, r.2)
  | .onUnsubscribe => let r := onUnsubscribe hs pk; some (.pkt r.1, r.2)
  | .onSelectSubscribers => let r := onSelectSubscribers hs x1 pk; some (.subs r.1, r.2)
  | .onWill => let r := onWill hs pk; some (.pkt r.1, r.2)
  | .storedClients => let r := storedClients hs; some (.stored r.1.1 r.1.2, r.2)
  | .storedSubscriptions => let r := storedSubscriptions hs; some (.stored r.1.1 r.1.2, r.2)
  | .storedInflightMessages => let r := storedInflightMessages hs; some (.stored r.1.1 r.1.2, r.2)
  | .storedRetainedMessages => let r := storedRetainedMessages hs; some (.stored r.1.1 r.1.2, r.2)
  | .storedSysInfo => let r := storedSysInfo hs; some (.stored r.1.1 r.1.2, r.2)

/-- hooks ops (stateless): `hk.call`, `hk.provides`, `hk.stop`, `hk.read`, `hk.const` -/
def hooksOp (impl : String) : List String → Option (String × String × String)
  | ["hk.const"] =>
    some (",".intercalate (methodNames.map fun (n, m) => s!"{n}={m.code}"), "ok", "-")
  | ["hk.call", method, stack, kind, payload, x1, x2] => do
    let m ← parseMethod method
    let specs ← parseStack stack
    let payload ← parseHex payload
    let x1 ← parseHex x1
    let x2 ← x2.toNat?
    let pk : Pkt := { kind := (← kind.toNat?), payload := payload }
    let (hs, adds) := addAll specs
    let (ret, t) ← runCall m hs pk payload x1 x2
    let out := finish (headStr hs adds) (outStr ret) t
    -- the oracle looks at the implementation's answer only; the registered hooks are the ones whose Init succeeds
    let reg := (specs.filter (fun sp => (mkErr sp.i sp.k).isNone)).map (·.toHook)
    let v := match parseAnswer impl with
      | some (r, calls) =>
        (match parseOutTok r with
         | some ro => verdictOf (oracleCall m reg (startArg m pk payload x1 x2) ro calls)
         | none => fail19 "-" ("the returned value cannot be read: " ++ r))
      | none => fail19 "-" "the implementation's answer cannot be read (panic?)"
    some (out, v, "-")
  | ["hk.provides", stack, ms] => do
    let specs ← parseStack stack
    let bs ← if ms == "-" then some [] else (ms.splitOn ",").mapM parseMethod
    let (hs, adds) := addAll specs
    some (headStr hs adds ++ " Rb:" ++ boolStr (providesAny hs bs), "ok", "-")
  | ["hk.stop", stack] => do
    let specs ← parseStack stack
    let (hs, adds) := addAll specs
    let xs := stop hs
    some (headStr hs adds ++ " Rstops:" ++ (if xs.isEmpty then "-" else ",".intercalate (xs.map toString)), "ok", "-")
  | ["hk.read", stack, ps] => do
    let specs ← parseStack stack
    let payloads ← if ps == "-" then some [] else (ps.splitOn ",").mapM parseHex
    let pkts : List Pkt := payloads.map fun p => { kind := 3, payload := p }
    let (hs, adds) := addAll specs
    let r := readLoop hs pkts
    let hd := if r.1.1.isEmpty then "-" else ",".intercalate (r.1.1.map fun p => toHex p.payload)
    let e := match r.1.2 with | none => "eof" | some e => errStr (some e)
    let out := finish (headStr hs adds) s!"rd:{r.1.1.length}:{hd}:{e}" r.2
    let reg := (specs.filter (fun sp => (mkErr sp.i sp.k).isNone)).map (·.toHook)
    let v := match parseAnswer impl with
      | some (rt, calls) =>
        (match rt.splitOn ":" with
         | ["rd", n, hdl, er] =>
           (match n.toNat?, (if n == "0" then some [] else (hdl.splitOn ",").mapM parseHex) with
            | some n, some hl =>
              if hl.length == n then verdictOf (oracleRead reg pkts hl er calls)
              else fail19 "-" "the handled packets cannot be read"
            | _, _ => fail19 "-" "the handled packets cannot be read")
         | _ => fail19 "-" ("the returned value cannot be read: " ++ rt))
      | none => fail19 "-" "the implementation's answer cannot be read (panic?)"
    some (out, v, "-")
  | _ => none

end Mochi.Driver
