import Mochi.Driver.Util
import Mochi.Model.AckFit
/-!
Driver for the `ackfit` suite (property C07): `af.sub <mps> <n>` / `af.unsub <mps> <n>` — whole scenarios on a fresh
real broker; the answer (`ack <codes>` | `closed` | `silent`) is compared with M15, and the C07 verdict is given on
the implementation's answer alone: `silent` is an unanswered request on a served connection, `ack k` with `k ≠ n`
is not one reason code per filter.
-/
namespace Mochi.Driver
open Mochi.AckFit

def ackFitOp (impl : String) : List String → Option (String × String × String)
  | [op, mps, n] =>
    if op != "af.sub" && op != "af.unsub" then none else
    match mps.toNat?, n.toNat? with
    | some m, some k =>
      let what := if op == "af.sub" then "SUBSCRIBE" else "UNSUBSCRIBE"
      let verdict :=
        if impl == "silent" then
          s!"FAIL[C07|-] {what} with {k} filter(s) from a client with Maximum Packet Size {m} got neither its acknowledgement nor a closed connection (the PINGREQ after it was answered)"
        else if impl.startsWith "ack " && impl != s!"ack {k}" then
          s!"FAIL[C07|-] {what} with {k} filter(s) was acknowledged with '{impl}': not one reason code per filter"
        else "ok"
      some ((answer m k).render, verdict, "-")
    | _, _ => none
  | _ => none

end Mochi.Driver
