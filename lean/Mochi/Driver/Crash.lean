import Mochi.Driver.Restart
/-!
`sr.crashsweep` (go/cmd/vharness/crash.go): the harness prints the storage-event log of the history (in `st.ev`
token form, interleaved with the acknowledgements written to clients), the live ids after every history op, the
view `W n` of a REAL broker restarted on the first `n` storage events for every `n`, and the resurrection probes
that delivered. The model recomputes every `W n` from the event log (`restart ∘ readback ∘ run` on the prefix);
the C21 verdict is computed from the implementation's data:
 (a) an item (subscription, retained, in-flight message) that is live before and after the history op during
     which the next storage event occurs must be in `W n`;
 (b) no resurrection probe may deliver;
 (c) a delete issued for a superseded client object must not remove an item the live session still holds;
 (d) after a PUBACK/PUBREC was written to a publisher, the in-flight records of that publish must be in `W n`;
 (e) after a SUBACK was written to a subscriber, the subscriptions it grants must be in `W n`.
-/
namespace Mochi.Driver.St
open Mochi.Driver Mochi.Storage

structure LogEntry where
  isEvent : Bool
  op : Nat
  sup : Bool := false
  ev : Option Event := none
  kind : String := ""
  /-- hex client id (events with a client, acknowledgements) -/
  client : String := ""
  ptype : Nat := 0

def clientOfEvent : Event → String
  | .established c | .willSent c | .clientExpired c | .disconnect c _ | .subscribed c _ _ | .unsubscribed c _
  | .retain c _ _ | .qosPublish c _ _ _ | .qosComplete c _ | .qosDropped c _ => toHex c.id
  | _ => ""

def parseEntry (s : String) : Option LogEntry :=
  match words s with
  | "E" :: op :: sup :: kind :: args => do
    let e ← pEvent (kind :: args)
    some { isEvent := true, op := (← op.toNat?), sup := sup == "1", ev := some e, kind := kind, client := clientOfEvent e }
  | ["A", op, c, t, _] => do some { isEvent := false, op := (← op.toNat?), client := c, ptype := (← t.toNat?) }
  | _ => none

structure IdSets where
  s : List String := []
  r : List String := []
  i : List String := []
  /-- clients whose session does not end with its connection -/
  p : List String := []

def splitIds (s : String) : List String := if s.isEmpty then [] else s.splitOn ","

/-- `S:a,b;R:c;I:d;P:e` -/
def parseIdSets (s : String) : IdSets :=
  match s.splitOn ";" with
  | [a, b, c, d] => { s := splitIds (a.drop 2).toString, r := splitIds (b.drop 2).toString, i := splitIds (c.drop 2).toString,
                      p := splitIds (d.drop 2).toString }
  | _ => {}

def parseLive (s : String) : List IdSets :=
  (((s.drop 5).toString).splitOn "|").map fun kv =>
    match kv.splitOn "=" with
    | _ :: rest => parseIdSets ("=".intercalate rest)
    | _ => {}

/-- ids of the SUBS (not inline), RET and IFL sections of a rendered view -/
def viewIds (v : String) : IdSets :=
  match (v.splitOn " ").map namedBody with
  | [_, subs, _, ret, ifl] =>
    let ids (b : String) := (parseRecords b).map (fieldOf · "id")
    { s := (ids subs).filter (fun id => !id.endsWith "~inline"), r := ids ret, i := ids ifl }
  | _ => {}

def viewSubsOf (v : String) (client : String) : List Fields :=
  match (v.splitOn " ").map namedBody with
  | [_, subs, _, _, _] => (parseRecords subs).filter fun r => ((fieldOf r "id").splitOn "~").headD "" == client
  | _ => []

def rTimeAt (now : Nat) (n : Nat) : String :=
  if n == nowSentinel || (n + 3600 > now && n < now + 3600 && n != 0) then "now" else toString n

def rViewMsgAt (now : Nat) (m : Msg) : String :=
  s!"type={m.type},qos={m.qos},dup={boolStr m.dup},retain={boolStr m.retain},topic={toHex m.topic},payload={toHex m.payload}," ++
  s!"created={rTimeAt now m.created},expiry={if m.expiry == 0 then "0" else s!"c+{m.expiry}"},origin={toHex m.origin},pv={m.pv}," ++
  s!"p.corr={toHex m.corr},p.subids={rInts m.subIds},p.user={rUsers m.users},p.ctype={toHex m.ctype},p.resp={toHex m.resp}," ++
  s!"p.expiry={m.msgExpiry},p.alias={m.alias},p.pf={m.pf},p.pfflag={boolStr m.pfFlag}"

/-- the view of a restarted broker as the harness renders it in a crash sweep (`weak`: bolt/redis, in-flight ids only) -/
def renderViewAt (now : Nat) (weak : Bool) (v : BrokerView) : String :=
  let sess := v.sessions.map rSession
  let subs := v.subs.map fun e => s!"id={toHex e.client}~{toHex e.filter}~{rKind e.kind},{rOpts e.opts}"
  let csub := v.csubs.map fun e => s!"id={toHex e.1}~{toHex e.2.1},{rOpts e.2.2}"
  let ret := v.retained.map fun e => s!"id={toHex e.1},{rViewMsgAt now e.2}"
  let ifl := if weak then (v.inflight.map fun e => s!"id={toHex e.1}~{e.2.1}").eraseDups
             else v.inflight.map fun e => s!"id={toHex e.1}~{e.2.1},{rViewMsgAt now e.2.2}"
  s!"SESS[{sortedJoin sess}] SUBS[{sortedJoin subs}] CSUB[{sortedJoin csub}] RET[{sortedJoin ret}] IFL[{sortedJoin ifl}]"

def backendOf (name : String) : Backend := (backends.find? (·.name == name)).getD badger

def isWeak (name : String) : Bool := name == "bolt" || name == "redis"

/-- model: the view after a crash at every prefix of the storage-event log -/
def crashViews (backend : String) (now : Nat) (evs : List Event) : List String :=
  let b := backendOf backend
  (List.range (evs.length + 1)).map fun n => renderViewAt now (isWeak backend) (restart (readback b (run b (evs.take n))))

def diffIds (req have_ : List String) : List String := req.filter (!have_.contains ·)
def interIds (a b : List String) : List String := a.filter (b.contains ·)

/-- the items of `ids` whose client has a persistent session in both id sets -/
def persistentOnly (a b : IdSets) (ids : List String) : List String :=
  ids.filter fun id => let c := (id.splitOn "~").headD ""; a.p.contains c && b.p.contains c

def deleteKinds : List String := ["qosdropped", "qoscomplete", "unsubscribed", "disconnect", "clientexpired"]

/-- the C21 verdict items of one sweep -/
def c21Items (st : SrState) (entries : List LogEntry) (live : List IdSets) (ws : List String) (deliveries : List String) :
    List (String × String) :=
  let weak := isWeak st.backend
  let events := entries.filter (·.isEvent)
  let nEv := events.length
  let liveAt (k : Nat) : IdSets := live.getD k {}
  let wAt (n : Nat) : IdSets := viewIds (ws.getD n "")
  let subItem (n : Nat) (id : String) : String × String :=
    let parts := id.splitOn "~"
    if collides st.touched (parts.headD "") ((parts.drop 1).headD "") then
      ("C20:F20a-key-collision", s!"crash point {n}: subscription {id} is lost through a key collision")
    else ("F21-lost-SUBS", s!"crash point {n}: subscription {id}, acknowledged and not removed, is missing after the restart")
  -- (a) and (d): crash point n lies just before storage event n+1
  let perPoint := (List.range (nEv + 1)).flatMap fun n =>
    let w := wAt n
    if n == nEv then
      let last := liveAt (live.length - 1)
      let req : IdSets := { last with s := persistentOnly last last last.s, i := persistentOnly last last last.i }
      (diffIds req.s w.s).map (subItem n) ++
      (diffIds req.r w.r).map (fun id => ("F21-lost-RET", s!"crash point {n} (end of the log): retained message {id} is missing after the restart")) ++
      (if weak then [] else (diffIds req.i w.i).map fun id =>
        ("F21-lost-IFL", s!"crash point {n} (end of the log): in-flight message {id} is missing after the restart"))
    else
      match events[n]? with
      | none => []
      | some next =>
        let k := next.op
        let before := liveAt (k - 1)
        let after := liveAt k
        let takeover := events.any fun e => e.op == k && e.sup
        let a := (diffIds (persistentOnly before after (interIds before.s after.s)) w.s).map (subItem n) ++
          (diffIds (interIds before.r after.r) w.r).map (fun id =>
            ("F21-lost-RET", s!"crash point {n}: retained message {id}, acknowledged and not removed, is missing after the restart")) ++
          (if weak then [] else (diffIds (persistentOnly before after (interIds before.i after.i)) w.i).map fun id =>
            (if takeover then "F21a-superseded-delete" else "F21-lost-IFL",
             s!"crash point {n}: in-flight message {id}, unacknowledged by its receiver and not removed, is missing after the restart"))
        -- (d) acknowledgements of op k written before the next storage event
        let pos := (entries.zipIdx.filter (fun p => p.1.isEvent)).getD n ({ isEvent := true, op := 0 }, 0)
        let acked := (entries.take pos.2).filter fun e => !e.isEvent && e.op == k && (e.ptype == 4 || e.ptype == 5)
        let d := if weak || acked.isEmpty then [] else
          ((diffIds (persistentOnly after after (diffIds after.i before.i)) w.i).filter fun id => !acked.any (fun e => (id.splitOn "~").headD "" == e.client)).map fun id =>
            ("F21d-ack-before-inflight-stored",
             s!"crash point {n}: the publisher already holds its PUBACK/PUBREC but the in-flight record {id} of that publish is not stored yet")
        -- (e) a SUBACK of op k written before the next storage event: the subscriptions it grants are stored
        let sacked := (entries.take pos.2).filter fun e => !e.isEvent && e.op == k && e.ptype == 9
        let e5 := if sacked.isEmpty then [] else
          ((diffIds (persistentOnly after after (diffIds after.s before.s)) w.s).filter fun id =>
              sacked.any (fun e => (id.splitOn "~").headD "" == e.client)).map fun id =>
            let parts := id.splitOn "~"
            if collides st.touched (parts.headD "") ((parts.drop 1).headD "") then subItem n id else
            ("F21e-suback-before-subscription-stored",
             s!"crash point {n}: the client already holds the SUBACK but the subscription {id} it grants is not stored yet")
        a ++ d ++ e5
  -- (b) resurrection probes
  let b := deliveries.map fun d =>
    match d.splitOn ":" with
    | [n, c, t] =>
      let subs := viewSubsOf (ws.getD (n.toNat?.getD 0) "") c
      let real := subs.any fun r => ((fieldOf r "q").toNat?.getD 0) < 128
      (if real then "F21b-resurrected-subscription" else "F21c-refused-subscription-delivers",
       s!"crash point {n}: a Clean Start 1 connection of client {c} receives the publish to {t}")
    | _ => ("F21-format", "unparsable delivery " ++ d)
  -- (c) deletes issued for a superseded object
  let c := (List.range nEv).flatMap fun j =>
    match events[j]? with
    | none => []
    | some e =>
      if !(e.sup && deleteKinds.contains e.kind) || weak then [] else
      let w0 := wAt j
      let w1 := wAt (j + 1)
      let after := liveAt e.op
      let gone := persistentOnly after after ((diffIds w0.i w1.i).filter (after.i.contains ·) ++ (diffIds w0.s w1.s).filter (after.s.contains ·))
      gone.map fun id => ("F21a-superseded-delete",
        s!"storage event {j + 1} ({e.kind}) was issued for the superseded object of client {e.client} and removes {id}, which the live session holds")
  perPoint ++ b ++ c

def c21Verdict (items : List (String × String)) : String :=
  let items := dedupSigs items
  if items.isEmpty then "ok" else
  "; ".intercalate (items.map fun (sg, t) =>
    if sg.startsWith "C20:" then s!"FAIL[C20|{(sg.drop 4).toString}] {t}" else s!"FAIL[C21|{sg}] {t}")

def crashOp (st : SrState) (impl : String) : List String → Option (SrState × String × String × String)
  | ["sr.crashsweep"] =>
    match impl.splitOn " ## " with
    | [evs, live, w, b] =>
      let es := ((evs.drop 4).toString).splitOn "|"
      let now := (((es.headD "").drop 4).toString.toNat?).getD 0
      match (es.drop 1).filter (· != "") |>.mapM parseEntry with
      | none => some (st, "unparsable-events", "ok", "-")
      | some entries =>
        let events := entries.filterMap (·.ev)
        let views := crashViews st.backend now events
        let ws := ((w.drop 2).toString).splitOn "|"
        let deliveries := if b == "B -" then [] else ((b.drop 2).toString).splitOn ","
        let model := evs ++ " ## " ++ live ++ " ## W " ++ "|".intercalate views ++ " ## " ++ b
        some (st, model, c21Verdict (c21Items st entries (parseLive live) ws deliveries), "-")
    | _ => some (st, "-", "ok", "-")
  | _ => none

end Mochi.Driver.St
