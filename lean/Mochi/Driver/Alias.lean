import Mochi.Driver.Util
import Mochi.Model.Alias
/-!
Driver for the `alias` suite: the width-faithful alias tables of Model/Alias.lean against
`mqtt.OutboundTopicAliases` / `mqtt.InboundTopicAliases` (core Lean only).

`al.new <max>` · `al.set <topichex>` → `<alias> <existed>` · `al.fill <n>` → `nz= zeros= min= max= dups=`
`al.in.new <max>` · `al.in.set <id> <topichex>` → `<returned topic hex>`

**Freshness by construction.** `al.fill n` calls `Set` with the `n` topics `f<counter>`, `f<counter+1>`, …
where `counter` is a per-table count kept here and, in the same way, by the harness. The model answers it with
the one-pass `Out.fillFresh`, which is `n` calls of `Out.set` when the names are pairwise different and no
keys of the table (`Alias.fillFresh_eq_run`). They are: decimal numerals of different numbers are different,
the names of earlier fills have smaller numbers, and `al.set` REFUSES (bad-op) a topic of the form
`f<digits>` whose number is not below `counter` — so no key of the table is a name a later fill will use.

The spec verdicts judge the IMPLEMENTATION's answers against the receiver's view of the connection
(`recv`: which topic each alias was last sent with), not against the model:
an alias above the maximum; an alias handed to a topic while another topic holds it (`dups > 0` for a
fill); `existed` for a topic never set before; an alias-only answer (`existed`) for a topic whose alias the
receiver has bound to another topic or to none. The per-topic answers of a fill are not on the wire protocol,
so for the fresh names of a fill `recv` is updated from the model's bindings (the fill's own summary is
compared with the model's, and its `dups`/`max` are judged directly).
-/
namespace Mochi.Driver
open Mochi.Alias Mochi.Topics

structure AlState where
  out : Out := Out.new 0
  held : Array Bool := #[]            -- model side: the aliases the model has handed out (index = alias)
  recv : Array (Option Str) := #[]    -- receiver's view: alias ↦ the topic it was last sent with
  counter : Nat := 0                  -- fresh-name counter of `al.fill`
  seen : List Str := []               -- topics given to `al.set` so far
  inn : In := In.new 0
  inLast : List (Nat × Str) := []     -- spec side: id ↦ the last non-empty topic sent with it

/-- the topic `f<k>` -/
def fillName (k : Nat) : Str := 102 :: (toString k).toList.map Char.toNat

/-- the number of a topic of the form `f<digits>` -/
def fillIndex : Str → Option Nat
  | 102 :: ds =>
    if !ds.isEmpty && ds.all (fun d => 48 ≤ d && d ≤ 57) then some (ds.foldl (fun n d => n * 10 + (d - 48)) 0)
    else none
  | _ => none

def c24fail (reason : String) : String := s!"FAIL[C24|-] {reason}"

def alVerdict (items : List String) : String := if items.isEmpty then "ok" else "; ".intercalate items

/-- `k=<n>` field of a summary line -/
def alFld (s : String) (k : String) : Option Nat :=
  (s.splitOn " ").findSome? fun kv =>
    match kv.splitOn "=" with
    | [k', v] => if k' == k then v.toNat? else none
    | _ => none

def alSetAt {α} (a : Array α) (i : Nat) (v : α) : Array α := if i < a.size then a.set! i v else a

structure FillAcc where
  nz : Nat := 0
  zeros : Nat := 0
  mn : Nat := 0
  mx : Nat := 0
  dups : Nat := 0
  held : Array Bool
  recv : Array (Option Str)

def fillStep (acc : FillAcc) (na : Str × Nat) : FillAcc :=
  let al := na.2
  if al == 0 then { acc with zeros := acc.zeros + 1 } else
  let dup := acc.held.getD al false
  { acc with nz := acc.nz + 1,
             mn := if acc.mn == 0 || al < acc.mn then al else acc.mn,
             mx := if al > acc.mx then al else acc.mx,
             dups := if dup then acc.dups + 1 else acc.dups,
             held := alSetAt acc.held al true,
             recv := alSetAt acc.recv al (some na.1) }

def aliasOp (st : AlState) (impl : String) : List String → Option (AlState × String × String × String)
  | ["al.new", ms] => do
    let m ← ms.toNat?
    let o := Out.new m
    some ({ st with out := o, held := Array.replicate (o.maximum + 1) false,
                    recv := Array.replicate (o.maximum + 1) none, counter := 0, seen := [] }, "-", "ok", "-")
  | ["al.set", th] => do
    let t ← parseHex th
    let future : Bool := match fillIndex t with | some k => decide (k ≥ st.counter) | none => false
    if future then none else
    let (out', al, ex) := st.out.set t
    let held' := if al != 0 && !ex then alSetAt st.held al true else st.held
    let model := s!"{al} {boolStr ex}"
    let known := st.seen.contains t || (match fillIndex t with | some k => fillName k == t | none => false)
    let (items, recv') : List String × Array (Option Str) :=
      match impl.splitOn " " with
      | [x, y] =>
        match x.toNat? with
        | some ia =>
          let ie := y == "1"
          let bound := if ia < st.recv.size then st.recv.getD ia none else none
          let v1 := if ia > st.out.maximum then
            [c24fail s!"alias {ia} is above the Topic Alias Maximum {st.out.maximum}"] else []
          let v2 := if ie && !known then
            [c24fail "existed is reported for a topic that was never set on this table"] else []
          let v3 := if ia != 0 && !ie then
              match bound with
              | some t' => if t' != t then
                  [c24fail s!"alias {ia} is handed to topic {toHex t} while topic {toHex t'} holds it"] else []
              | none => []
            else []
          let v4 := if ia != 0 && ie then
              match bound with
              | some t' => if t' != t then
                  [c24fail s!"alias-only answer {ia} for topic {toHex t}: the receiver has that alias bound to topic {toHex t'}"] else []
              | none => [c24fail s!"alias-only answer {ia} for topic {toHex t}: no earlier answer bound that alias"]
            else []
          (v1 ++ v2 ++ v3 ++ v4, if ia != 0 && !ie then alSetAt st.recv ia (some t) else st.recv)
        | none => ([c24fail s!"OutboundTopicAliases.Set did not answer ({impl})"], st.recv)
      | _ => ([c24fail s!"OutboundTopicAliases.Set did not answer ({impl})"], st.recv)
    some ({ st with out := out', held := held', recv := recv', seen := if st.seen.contains t then st.seen else t :: st.seen },
          model, alVerdict items, "-")
  | ["al.fill", ns] => do
    let n ← ns.toNat?
    let names := (List.range' st.counter n).map fillName
    -- `names` are fresh (header comment), so this is `n` calls of `Out.set` (Alias.fillFresh_eq_run)
    let (out', aliases) := st.out.fillFresh names
    let acc := (names.zip aliases).foldl fillStep { held := st.held, recv := st.recv }
    let model := s!"nz={acc.nz} zeros={acc.zeros} min={acc.mn} max={acc.mx} dups={acc.dups}"
    let items :=
      match alFld impl "dups", alFld impl "max" with
      | some d, some mx =>
        (if d > 0 then
          [c24fail s!"{d} alias(es) were handed to a new topic while another topic held them (Topic Alias Maximum {st.out.maximum})"]
         else []) ++
        (if mx > st.out.maximum then [c24fail s!"alias {mx} is above the Topic Alias Maximum {st.out.maximum}"] else [])
      | _, _ => [c24fail s!"OutboundTopicAliases.Set did not answer ({impl})"]
    some ({ st with out := out', held := acc.held, recv := acc.recv, counter := st.counter + n },
          model, alVerdict items, "-")
  | ["al.in.new", ms] => do
    let m ← ms.toNat?
    some ({ st with inn := In.new m, inLast := [] }, "-", "ok", "-")
  | ["al.in.set", ids, th] => do
    let id := u16 (← ids.toNat?)
    let t ← parseHex th
    let (inn', r) := st.inn.set id t
    -- spec: a non-empty topic is the topic; an empty one resolves to the topic last sent with this alias
    -- (to the empty topic, which processPublish rejects, when there was none)
    let want := if !t.isEmpty || st.inn.maximum == 0 then t else (assocGet st.inLast id).getD []
    let v := if impl == toHex want then "ok"
      else c24fail s!"alias {id} resolves to {impl}, the topic last bound to it on this table is {toHex want}"
    some ({ st with inn := inn', inLast := if t.isEmpty then st.inLast else assocSet st.inLast id t },
          toHex r, v, "-")
  | _ => none

end Mochi.Driver
