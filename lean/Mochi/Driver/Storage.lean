import Mochi.Driver.Util
import Mochi.Driver.Topics
import Mochi.Model.Storage
/-!
Line protocol of the storage suite (go/cmd/vharness/storage.go): the model runs every hook event on the
four backend descriptions; `st.read` renders the four read-backs in the harness's canonical form; the
C22 verdict is computed on the IMPLEMENTATION's line: the four renderings must be equal (the `id` field
of subscriptions and messages is compared modulo the key-namespace encoding: the single-keyspace engines
store the kind-prefixed key, redis the bare hash field).
-/
namespace Mochi.Driver.St
open Mochi.Driver Mochi.Storage

structure StState where
  kvs : List KV := [[], [], [], []]
  readSinceOpen : Bool := false
  /-- hex client ids that received an `OnDisconnect` since `st.new` -/
  disc : List String := []

/-! ### token parsers -/

def pBool (s : String) : Option Bool := if s == "1" then some true else if s == "0" then some false else none

def pUsers (s : String) : Option (List UserProp) :=
  if s == "." then some [] else
  (s.splitOn "+").mapM fun kv =>
    match kv.splitOn ":" with
    | [k, v] => do some { k := (← parseHex k), v := (← parseHex v) }
    | _ => none

def pInts (s : String) : Option (List Nat) :=
  if s == "." then some [] else (s.splitOn "+").mapM (·.toNat?)

def pStop : String → Option StopCause
  | "0" => some .none | "1" => some .takenOver | "2" => some .other | "3" => some .wrappedTakenOver | _ => none

def pClient (tok : String) : Option Client :=
  match tok.splitOn "," with
  | [id, user, listener, remote, pv, clean, inline, stop, sei, seiFlag, authMethod, authData, reqProb, reqProbFlag,
     reqResp, recvMax, taMax, maxPkt, users, wTopic, wPayload, wFlag, wDelay, wQos, wRetain, wUsers] => do
    let will : Will := { payload := (← parseHex wPayload), user := (← pUsers wUsers), topic := (← parseHex wTopic),
                         flag := (← wFlag.toNat?), delay := (← wDelay.toNat?), qos := (← wQos.toNat?), retain := (← pBool wRetain) }
    some { id := (← parseHex id), user := (← parseHex user), listener := (← parseHex listener), remote := (← parseHex remote),
           pv := (← pv.toNat?), clean := (← pBool clean), inline := (← pBool inline), stop := (← pStop stop),
           sei := (← sei.toNat?), seiFlag := (← pBool seiFlag), authMethod := (← parseHex authMethod),
           authData := (← parseHex authData), reqProb := (← reqProb.toNat?), reqProbFlag := (← pBool reqProbFlag),
           reqResp := (← reqResp.toNat?), recvMax := (← recvMax.toNat?), taMax := (← taMax.toNat?), maxPkt := (← maxPkt.toNat?),
           users := (← pUsers users), will := will }
  | _ => none

def pPacket (tok : String) : Option Packet :=
  match tok.splitOn "," with
  | [topic, payload, qos, retain, dup, type, remaining, pid, created, expiry, origin, pv, pf, pfFlag, msgExpiry, ctype, resp,
     corr, subIds, alias, taFlag, users] => do
    some { topic := (← parseHex topic), payload := (← parseHex payload), qos := (← qos.toNat?), retain := (← pBool retain),
           dup := (← pBool dup), type := (← type.toNat?), remaining := (← remaining.toNat?), pid := (← pid.toNat?),
           created := (← created.toNat?), expiry := (← expiry.toNat?), origin := (← parseHex origin), pv := (← pv.toNat?),
           payloadFormat := (← pf.toNat?), pfFlag := (← pBool pfFlag), msgExpiry := (← msgExpiry.toNat?),
           contentType := (← parseHex ctype), respTopic := (← parseHex resp), corrData := (← parseHex corr),
           subIds := (← pInts subIds), topicAlias := (← alias.toNat?), taFlag := (← pBool taFlag), users := (← pUsers users) }
  | _ => none

def pFilters (s : String) : Option (List Filter) :=
  if s == "." then some [] else
  (s.splitOn "+").mapM fun x =>
    match x.splitOn ":" with
    | [f, q, nl, rap, rh, ident] => do
      some { filter := (← parseHex f), qos := (← q.toNat?), nl := (← pBool nl), rap := (← pBool rap), rh := (← rh.toNat?),
             ident := (← ident.toNat?) }
    | _ => none

def pEvent : List String → Option Event
  | ["established", c] => do some (.established (← pClient c))
  | ["willsent", c] => do some (.willSent (← pClient c))
  | ["clientexpired", c] => do some (.clientExpired (← pClient c))
  | ["disconnect", c, e] => do some (.disconnect (← pClient c) (← pBool e))
  | ["subscribed", c, fs, codes] => do some (.subscribed (← pClient c) (← pFilters fs) (← pInts codes))
  | ["unsubscribed", c, fs] => do some (.unsubscribed (← pClient c) (← pFilters fs))
  | ["retain", c, p, r] => do some (.retain (← pClient c) (← pPacket p) (r == "-1"))
  | ["retainedexpired", t] => do some (.retainedExpired (← parseHex t))
  | ["qospublish", c, p, sent, resends] => do some (.qosPublish (← pClient c) (← pPacket p) (← sent.toNat?) (← resends.toNat?))
  | ["qoscomplete", c, p] => do some (.qosComplete (← pClient c) (← pPacket p))
  | ["qosdropped", c, p] => do some (.qosDropped (← pClient c) (← pPacket p))
  | ["sysinfo", ver, nums] => do some (.sysInfo { version := (← parseHex ver), nums := (← (nums.splitOn ",").mapM (·.toNat?)) })
  | _ => none

/-! ### canonical rendering (mirrors renderStore in storage.go) -/

def rUsers (us : List UserProp) : String :=
  if us.isEmpty then "." else "+".intercalate (us.map fun u => toHex u.k ++ ":" ++ toHex u.v)

def rInts (xs : List Nat) (sep : String := "+") : String :=
  if xs.isEmpty then "." else sep.intercalate (xs.map toString)

def rClient (c : ClientRec) : String :=
  s!"id={toHex c.id},t={toHex c.t},remote={toHex c.remote},listener={toHex c.listener},user={toHex c.user},pv={c.pv},clean={boolStr c.clean}," ++
  s!"p.authdata={toHex c.authData},p.user={rUsers c.users},p.authmethod={toHex c.authMethod},p.sei={c.sei},p.maxpkt={c.maxPkt}," ++
  s!"p.recvmax={c.recvMax},p.tamax={c.taMax},p.seiflag={boolStr c.seiFlag},p.reqprob={c.reqProb},p.reqprobflag={boolStr c.reqProbFlag}," ++
  s!"p.reqresp={c.reqResp},w.payload={toHex c.will.payload},w.user={rUsers c.will.user},w.topic={toHex c.will.topic},w.flag={c.will.flag}," ++
  s!"w.delay={c.will.delay},w.qos={c.will.qos},w.retain={boolStr c.will.retain}"

def rSub (s : SubRec) : String :=
  s!"id={toHex s.id},t={toHex s.t},client={toHex s.client},filter={toHex s.filter},ident={s.ident},rh={s.rh},qos={s.qos}," ++
  s!"rap={boolStr s.rap},nl={boolStr s.nl}"

def rMsg (m : MsgRec) : String :=
  s!"id={toHex m.id},t={toHex m.t},client={toHex m.client},origin={toHex m.origin},topic={toHex m.topic},payload={toHex m.payload}," ++
  s!"fh.rem={m.remaining},fh.type={m.type},fh.qos={m.qos},fh.dup={boolStr m.dup},fh.retain={boolStr m.retain}," ++
  s!"created={m.created},sent={m.sent},packet_id={m.packetId},p.corr={toHex m.corr},p.subids={rInts m.subIds},p.user={rUsers m.users}," ++
  s!"p.ctype={toHex m.ctype},p.resp={toHex m.resp},p.expiry={m.expiry},p.alias={m.alias},p.pf={m.pf},p.pfflag={boolStr m.pfFlag}"

def rSys (y : SysRec) : String :=
  let nums := if y.info.nums.isEmpty then List.replicate 20 0 else y.info.nums
  s!"id={toHex y.id},t={toHex y.t},version={toHex y.info.version},nums=" ++ "/".intercalate (nums.map toString)

def sortedJoin (xs : List String) : String := ";".intercalate (sortStrs xs)

def renderReadBack (r : ReadBack) : String :=
  s!"C[{sortedJoin (r.clients.map rClient)}] S[{sortedJoin (r.subs.map rSub)}] R[{sortedJoin (r.retained.map rMsg)}] " ++
  s!"I[{sortedJoin (r.inflight.map rMsg)}] Y[{rSys r.sys}] E[-]"

/-! ### the C22 check on the implementation's line -/

abbrev Fields := List (String × String)

def parseFields (rec : String) : Fields :=
  (rec.splitOn ",").map fun f =>
    match f.splitOn "=" with
    | [k, v] => (k, v)
    | _ => (f, "")

/-- `X[content]` -> content -/
def sectionBody (tok : String) : String := ((tok.drop 2).dropEnd 1).toString

def parseRecords (body : String) : List Fields :=
  if body.isEmpty then [] else (body.splitOn ";").map parseFields

def fieldOf (fs : Fields) (k : String) : String := (fs.lookup k).getD ""

/-- the `id` of a subscription / message modulo the key namespace: the single-keyspace engines store
    `SUB_`/`RET_`/`IFM_` + field, redis stores the field -/
def normId (hashed : Bool) (sec : String) (fs : Fields) : Fields :=
  if hashed || sec == "C" then fs else
  let pre := if sec == "S" then "5355425f" else if sec == "R" then "5245545f" else "49464d5f"
  fs.map fun kv =>
    if kv.1 == "id" && kv.2.startsWith pre then
      let rest := (kv.2.drop pre.length).toString
      (kv.1, if rest.isEmpty then "-" else rest)
    else kv

def sigOf (disc : List String) (name sec id what : String) : String :=
  if sec == "C" && disc.contains id then s!"F22-disconnect-{name}" else s!"F22-{what}-{name}"

/-- failing items (signature, text) of backend `name` against the reference rendering -/
def diffBackend (disc : List String) (name : String) (hashed : Bool) (ref oth : String) : List (String × String) :=
  let rs := (ref.splitOn " ").map sectionBody
  let os := (oth.splitOn " ").map sectionBody
  let secs := ["C", "S", "R", "I"]
  let recItems := (secs.zip (rs.zip os)).flatMap fun (sec, rb, ob) =>
    let rrecs := (parseRecords rb).map (normId false sec)
    let orecs := (parseRecords ob).map (normId hashed sec)
    let missing := rrecs.flatMap fun r =>
      let id := fieldOf r "id"
      match orecs.find? (fun o => fieldOf o "id" == id) with
      | none => [(sigOf disc name sec id s!"{sec}presence", s!"{name} lacks the {sec} record {id} that badger returns")]
      | some o => r.flatMap fun (k, v) =>
          if fieldOf o k == v then [] else
          [(sigOf disc name sec id k, s!"{name} returns {sec} record {id} with {k}={fieldOf o k} where badger returns {v}")]
    let extra := orecs.flatMap fun o =>
      let id := fieldOf o "id"
      if rrecs.any (fun r => fieldOf r "id" == id) then [] else
      [(sigOf disc name sec id s!"{sec}presence", s!"{name} returns the {sec} record {id} that badger does not")]
    missing ++ extra
  let sysItem := if rs.getD 4 "" == os.getD 4 "" then [] else [(s!"F22-sys-{name}", s!"{name} returns another system info than badger")]
  let errItem := if rs.getD 5 "" == os.getD 5 "" then [] else [(s!"F22-err-{name}", s!"{name}: Stored* errors {os.getD 5 ""} where badger has {rs.getD 5 ""}")]
  recItems ++ sysItem ++ errItem

def dedupSigs (xs : List (String × String)) : List (String × String) :=
  (xs.foldl (fun acc x => if acc.any (·.1 == x.1) then acc else x :: acc) []).reverse

/-- verdict of C22 on one `st.read` line of the implementation -/
def c22Verdict (disc : List String) (impl : String) : String :=
  if impl.startsWith "err" then "ok" else   -- a harness error (no engines) is not a behaviour of the code
  match impl.splitOn " || " with
  | [b, p, o, r] =>
    let items := dedupSigs (diffBackend disc "pebble" false b p ++ diffBackend disc "bolt" false b o ++ diffBackend disc "redis" true b r)
    if items.isEmpty then "ok" else "; ".intercalate (items.map fun (sg, t) => s!"FAIL[C22|{sg}] {t}")
  | _ => "FAIL[C22|F22-format] the implementation line does not hold four renderings"

/-! ### ops -/

def storageOp (st : StState) (impl : String) : List String → Option (StState × String × String × String)
  | ["st.new"] => some ({}, "-", "ok", "-")
  | "st.ev" :: rest => do
    let e ← pEvent rest
    let kvs := (backends.zip st.kvs).map fun (b, kv) => step b kv e
    let disc := match e with
      | .disconnect cl _ => if st.disc.contains (toHex cl.id) then st.disc else toHex cl.id :: st.disc
      | _ => st.disc
    some ({ st with kvs := kvs, disc := disc }, "-", "ok", "-")
  | ["st.read"] =>
    let out := " || ".intercalate ((backends.zip st.kvs).map fun (b, kv) => renderReadBack (readback b kv))
    some ({ st with readSinceOpen := true }, out, c22Verdict st.disc impl, "-")
  | ["st.reopen"] =>
    let errs := backends.filterMap fun b => if b.leaksIterators && st.readSinceOpen then some (b.name ++ ":leaked_iterators") else none
    some ({ st with readSinceOpen := false }, if errs.isEmpty then "-" else ",".intercalate errs, "ok", "-")
  | _ => none

end Mochi.Driver.St
