import Mochi.Driver.Util
import Mochi.Driver.Topics
import Mochi.Model.Broker
namespace Mochi.Driver
open Mochi.Broker Mochi.Topics

structure BkState where
  srv : Server := init {}
  order : List Nat := []        -- connection numbers in creation order
  closedSeen : List Nat := []   -- connections already reported closed
  -- per connection: QoS>0 PUBLISH packets the MODEL has written and `bk.ack` has not yet completed,
  -- oldest first: (id, qos, stage)
  pend : List (Nat × List (Nat × Nat × Nat)) := []
  -- C12 oracle bookkeeping (history of the REAL broker's deliveries; never used by the model)
  pubs : List (String × Str × Str × Nat) := []            -- payload hex ↦ (origin id, topic, publish number)
  pubSeq : Nat := 0
  firstSeen : List (Str × String) := []                   -- (receiver id, payload hex): already transmitted once
  lastFirst : List ((Str × Str × Str × String) × Nat × String) := []  -- (receiver, origin, topic, qos) ↦ latest first transmission
  -- C11 oracle bookkeeping: per connection the packet ids of outbound QoS>0 PUBLISHes not yet acknowledged
  -- by the client, and whether the connection ever took part in a QoS 2 exchange
  unacked : List (Nat × List Nat) := []
  sawQos2 : List Nat := []
  c11skip : List Nat := []      -- connections whose client acknowledged a packet id that was not in transit
  -- C09 oracle bookkeeping: (client id, packet id) of outbound QoS 2 messages for which the client has sent PUBREC
  pubrecd : List (Str × Nat) := []
  -- C25 oracle bookkeeping: payload (hex) of each client PUBLISH -> (effective expiry interval, a retained-store
  -- housekeeping ran strictly after its expiry, an in-flight housekeeping ran strictly after its expiry);
  -- (client id, payload) pairs of copies that have been sent
  -- C11 (inbound) oracle bookkeeping: connection -> packet ids of the client's own QoS 2 publishes that the broker
  -- accepted (PUBREC below 0x80) and has not completed (PUBCOMP) yet
  inOpen : List (Nat × List Nat) := []
  -- C15: client ids of served connections already reported as unknown to the broker's Clients map
  unknownLive : List Str := []
  msgs25 : List (String × Nat × Bool × Bool) := []
  sent25 : List (Str × String) := []

def kvGet (args : List String) (k : String) : Option String :=
  args.findSome? fun a =>
    if a.startsWith (k ++ "=") then some (a.drop (k.length + 1)).toString else none

def kvNatD (args : List String) (k : String) (d : Nat) : Nat :=
  match kvGet args k with
  | some v => v.toNat?.getD d
  | none => d

def kvNatO (args : List String) (k : String) : Option Nat := (kvGet args k).bind (·.toNat?)

def pad5 (n : Nat) : String :=
  let s := toString n
  String.ofList (List.replicate (5 - s.length) '0') ++ s

/-- the harness's `hidden()` token: in-flight counters and every client's in-flight records — state
    an op changes without writing a byte, compared at every op -/
def renderHidden (s : Server) : String :=
  let cs := sortStrs (s.clients.map fun (_, i) =>
    let c := getObj s i
    toHex c.id ++ "=" ++ ",".intercalate (sortStrs (c.inflight.map fun m =>
      s!"{pad5 m.id}.t{m.type}.q{m.qos}" ++ (if m.type == 3 then "." ++ toHex m.payload ++ ".si" ++ "+".intercalate ((m.subIds.filter (· > 0)).map toString) else "")))
      -- the outbound alias table (handed out even when the message is then dropped)
      ++ (if c.aliasOut.isEmpty then "" else ";al=" ++ ",".intercalate (sortStrs (c.aliasOut.map fun (t, a) => s!"{a}:{toHex t}"))))
  s!"H[{s.info.inflight}/{s.info.inflightDropped}/{s.info.msgsDropped}|{"|".intercalate cs}]"

/-- render the outputs of one op in the harness's format -/
def renderOuts (st : BkState) (outs : List Out) (sortTailOf : Option Nat) : BkState × String :=
  let conns := st.order
  let parts := conns.filterMap fun n =>
    let ps := outs.filterMap fun o => match o with
      | .wrote c p => if c == n then some p.render else none
      | _ => none
    -- PUBLISH packets racing with the close of their connection are not compared
    let closing := outs.any (fun o => match o with | .closed c => c == n | _ => false)
    let ps := if closing then ps.filter (fun p => !p.startsWith "PUB:") else ps
    let ps := if sortTailOf == some n then
        match ps with
        | [] => []
        | h :: t => h :: sortStrs t
      else ps
    if ps.isEmpty then none else some s!"c{n}:[{";".intercalate ps}]"
  let closedNow := conns.filter fun n =>
    !st.closedSeen.contains n && outs.any (fun o => match o with | .closed c => c == n | _ => false)
  let evs := sortStrs (outs.filterMap fun o => match o with
    | .event e => some e
    | .inline id t p => some s!"inline({id},{toHex t},{toHex p})"
    | _ => none)
  let pend := outs.foldl (fun (pd : List (Nat × List (Nat × Nat × Nat))) o =>
    match o with
    | .wrote c (.publish _ m _) =>
      if m.qos == 0 then pd else
      let cur := (pd.find? (·.1 == c)).map (·.2) |>.getD []
      if cur.any (·.1 == m.id) then pd else (pd.filter (·.1 != c)) ++ [(c, cur ++ [(m.id, m.qos, 0)])]
    | _ => pd) st.pend
  let st := { st with pend := pend }
  let out := " ".intercalate parts
  let out := if closedNow.isEmpty then out else out ++ " X[" ++ ",".intercalate (closedNow.map toString) ++ "]"
  let out := if evs.isEmpty then out else out ++ " E[" ++ ",".intercalate evs ++ "]"
  let out := out.trimAscii.toString
  ({ st with closedSeen := st.closedSeen ++ closedNow }, (if out.isEmpty then "-" else out) ++ " " ++ renderHidden st.srv)

def renderClientDump (c : Client) : String :=
  let fl := ",".intercalate (sortStrs (c.inflight.map fun m =>
    s!"{pad5 m.id}:t{m.type}:q{m.qos}:d{boolStr m.dup}:e{if m.expiry < 0 then "-" else if m.expiry > 0 then "+" else "0"}"))
  let subs := ",".intercalate (sortStrs (c.subs.map fun (f, s) => s!"{toHex f}=({renderSub s})"))
  s!"id={toHex c.id} v={c.ver} clean={boolStr c.clean} closed={boolStr (!c.isOpen)} taken={boolStr c.takenOver} stopped={boolStr c.stopped} fl=[{fl}] rq={c.recvQuota}/{c.maxRecv} sq={c.sendQuota}/{c.maxSend} pid={c.packetID} subs=[{subs}] sei={c.sei} fsei={boolStr c.fsei} will={boolStr c.will.flag}"

def renderDump (s : Server) : String :=
  let cs := sortStrs (s.clients.map fun (_, i) => renderClientDump (getObj s i))
  let wills := ",".intercalate (sortStrs (s.willDelayed.map fun (id, _) => toHex id))
  s!"connected={s.info.connected} subs={s.info.subs} retained={s.info.retained} inflight={s.info.inflight} inflightDropped={s.info.inflightDropped} msgsDropped={s.info.msgsDropped} wills=[{wills}] " ++ " | ".intercalate cs

def parseSubs (s : String) : Option (List Sub) :=
  (s.splitOn ",").mapM fun f =>
    match f.splitOn ":" with
    | [h, q] => do some { filter := (← parseHex h), qos := (← q.toNat?) }
    | [h, q, nl, rap, rh] => do
      some { filter := (← parseHex h), qos := (← q.toNat?), noLocal := nl == "1", rap := rap == "1", rh := (← rh.toNat?) }
    | _ => none

def parseInPk (ver : Nat) (a : List String) : Option InPk :=
  match a with
  | "PUBLISH" :: kv => do
    let q := kvNatD kv "q" 0
    some (.publish q (kvGet kv "d" == some "1") (kvGet kv "r" == some "1") (if q > 0 then kvNatD kv "id" 1 else 0)
      (← parseHex ((kvGet kv "t").getD "-")) (← parseHex ((kvGet kv "p").getD "-"))
      (if ver == 5 then kvNatD kv "me" 0 else 0) (if ver == 5 then kvNatO kv "ta" else none))
  | "SUBSCRIBE" :: kv => do
    let fs ← parseSubs (← kvGet kv "f")
    let fs := if ver == 5 then fs else fs.map fun s => { s with noLocal := false, rap := false, rh := 0 }
    some (.subscribe (kvNatD kv "id" 1) (if ver == 5 then kvNatD kv "si" 0 else 0) fs)
  | "UNSUBSCRIBE" :: kv => do
    let fs ← ((← kvGet kv "f").splitOn ",").mapM parseHex
    some (.unsubscribe (kvNatD kv "id" 1) fs)
  | "PUBACK" :: kv => some (.puback (kvNatD kv "id" 1) (if ver == 5 then kvNatD kv "rc" 0 else 0))
  | "PUBREC" :: kv => some (.pubrec (kvNatD kv "id" 1) (if ver == 5 then kvNatD kv "rc" 0 else 0))
  | "PUBREL" :: kv => some (.pubrel (kvNatD kv "id" 1) (if ver == 5 then kvNatD kv "rc" 0 else 0))
  | "PUBCOMP" :: kv => some (.pubcomp (kvNatD kv "id" 1) (if ver == 5 then kvNatD kv "rc" 0 else 0))
  | "PINGREQ" :: _ => some .pingreq
  | "DISCONNECT" :: kv => some (.disconnect (if ver == 5 then kvNatD kv "rc" 0 else 0) (if ver == 5 then kvNatO kv "sei" else none))
  | _ => none

def factorial : Nat → Nat
  | 0 => 1
  | n + 1 => (n + 1) * factorial n

/-- all seeds `Σ dₖ · permBase^k` with `dₖ < radices[k]` -/
def mixedSeeds : List Nat → List Nat
  | [] => [0]
  | r :: rs => (mixedSeeds rs).flatMap fun hi => (List.range r).map fun d => d + permBase * hi

/-- the `permSeed` values that can matter for an op: for a SUBSCRIBE, one independent order per
    filter that receives retained messages (capped); otherwise only the default -/
def permCandidates (st : BkState) (op : Op) : List Nat :=
  match op with
  | .recv _ (.subscribe _ _ fs) =>
    let radices := fs.map fun f =>
      if isSharedFilter f.filter || f.rh == 2 then 1 else factorial (min 7 (messages st.srv.topics f.filter).length)
    -- the subscriptions are made before the scan, but subscribing never changes what is retained
    if radices.foldl (· * ·) 1 ≤ 20000 then mixedSeeds radices else (List.range 5040)
  | _ => [0]

/-- run one model step; Go's map-iteration choices (delivery order of retained matches per filter,
    share-group member selection and visiting order, the deferred message released next) are resolved
    to the choice the implementation made: the default resolution first, otherwise the first candidate
    resolution whose rendered output — packets written and hidden session state — equals the
    implementation's (the theorems hold for every resolution). -/
def stepSearch (st : BkState) (op : Op) (impl : String) (sortTail : Option Nat) (extraClosed : List Nat := []) :
    BkState × String :=
  let run (c : Nat × Nat × Nat × Nat) : BkState × String :=
    let (ps, pk, os, ns) := c
    let (srv, outs) := step { st.srv with permSeed := ps, pickSeed := pk, orderSeed := os, nextSeed := ns } op
    renderOuts { st with srv := { srv with permSeed := 0, pickSeed := 0, orderSeed := 0, nextSeed := 0 }, closedSeen := st.closedSeen ++ extraClosed } outs sortTail
  let d := run (0, 0, 0, 0)
  if d.2 == impl then d else
  let perms := permCandidates st op
  -- `nextSeed` picks which deferred message is released: one candidate per deferred message of the
  -- client with the most of them (at least the five of the original search)
  let nDef := st.srv.objs.foldl (fun m c => max m (c.inflight.filter (fun x => x.expiry < 0)).length) 0
  let nsN := max 5 nDef
  let cands : List (Nat × Nat × Nat × Nat) :=
    if perms.length > 1 then
      (perms.map fun ps => (ps, 0, 0, 0)) ++
      (if perms.length ≤ 720 then (List.range nsN).flatMap fun ns => perms.map fun ps => (ps, 0, 0, ns + 1) else [])
    else
      -- deferred releases first (cheap, and the only choice in histories without share groups):
      -- one pick, then two independent picks (the packet and the barrier PINGREQ)
      ((List.range nsN).map fun ns => (0, 0, 0, ns + 1)) ++
      ((List.range nsN).flatMap fun b => (List.range nsN).map fun a => (0, 0, 0, a + 64 * b)) ++
      ((List.range 27).flatMap fun pk => (List.range 6).map fun os => (0, pk, os, 0)) ++
      ((List.range nsN).flatMap fun ns => (List.range 27).flatMap fun pk => (List.range 6).map fun os => (0, pk, os, ns + 1))
  match cands.find? (fun c => (run c).2 == impl) with
  | some c => run c
  | none => d

def connVer (st : BkState) (conn : Nat) : Nat :=
  match assocGet st.srv.connOf conn with
  | some i => (getObj st.srv i).ver
  | none => 4

/-- the pending entry with the smallest packet id, and the others -/
def pendMin (l : List (Nat × Nat × Nat)) : Option ((Nat × Nat × Nat) × List (Nat × Nat × Nat)) :=
  match l with
  | [] => none
  | x :: xs =>
    let m := xs.foldl (fun a b => if b.1 < a.1 then b else a) x
    some (m, l.filter (·.1 != m.1))

/-- the CONNECT a `bk.conn` / `bk.connhold` line describes -/
def parseConnect (ver clean cid : String) (kv : List String) : Option Connect := do
  let ver ← ver.toNat?
  let will : Option Will := match kvGet kv "will" with
    | some w => match w.splitOn ":" with
      | [t, p, q, r, d] => (do
          let tb ← parseHex t; let pb ← parseHex p; let qn ← q.toNat?; let dn ← d.toNat?
          let rb : Bool := r == "1"
          let dl : Nat := if ver == 5 then dn else 0
          some { topic := tb, payload := pb, qos := qn, retain := rb, delay := dl } : Option Will)
      | _ => none
    | none => none
  let cidB ← parseHex cid
  let isClean : Bool := clean == "1"
  let seiO : Option Nat := if ver == 5 then kvNatO kv "sei" else none
  let rmO : Option Nat := if ver == 5 then kvNatO kv "rm" else none
  let tamO : Option Nat := if ver == 5 then kvNatO kv "tam" else none
  some { ver := ver, clean := isClean, id := cidB, sei := seiO, rm := rmO, tam := tamO, will := will }

/-- broker ops (see go/cmd/vharness/broker.go for the op vocabulary) -/
def brokerOpCore (st : BkState) (impl : String) : List String → Option (BkState × String × String × String)
  | "bk.new" :: kv =>
    let caps : Caps := {
      maximumClients := kvNatD kv "maxclients" 1000000, maxSessionExpiry := kvNatD kv "sessexp" 4294967295,
      maxMessageExpiry := kvNatD kv "msgexp" 86400, receiveMaximum := kvNatD kv "recvmax" 1024,
      maximumInflight := kvNatD kv "maxinflight" 8192, topicAliasMaximum := kvNatD kv "aliasmax" 65535,
      maximumQos := kvNatD kv "maxqos" 2, retainAvailable := kvNatD kv "retain" 1,
      minimumProtocolVersion := kvNatD kv "minver" 3, maximumPacketID := kvNatD kv "maxpid" 65535,
      obscureNotAuthorized := kvGet kv "obscure" == some "1" }
    let auth : AuthMode := match kvGet kv "auth" with
      | some "none" => .none
      | some v => if v.startsWith "deny:" then .deny ((v.drop 5).toString.toList.map Char.toNat) else .allow
      | none => .allow
    some ({ srv := { init caps with auth := auth } }, "-", "ok", "-")
  | ["bk.acl", cid, topic, rw] => do
    let e := ((← parseHex cid), (← parseHex topic), rw == "w")
    some ({ st with srv := { st.srv with aclDeny := st.srv.aclDeny ++ [e] } }, "-", "ok", "-")
  | ["bk.pubhook", topic, mode] => do
    -- a wrapped verdict (`fmt.Errorf("…: %w", ErrRejectPacket)`) is the same verdict
    let mode := if mode == "wreject" then "reject" else if mode == "wignore" then "ignore" else mode
    some ({ st with srv := { st.srv with pubHook := assocSet st.srv.pubHook (← parseHex topic) mode } }, "-", "ok", "-")
  | "bk.conn" :: n :: ver :: clean :: cid :: kv => do
    let n ← n.toNat?
    let k ← parseConnect ver clean cid kv
    let (st, out) := stepSearch { st with order := st.order ++ [n] } (.connect n k) impl (some n)
    some (st, out, "ok", "-")
  | "bk.connhold" :: stage :: n :: ver :: clean :: cid :: kv => do
    let n ← n.toNat?
    let k ← parseConnect ver clean cid kv
    let (st, out) := stepSearch { st with order := st.order ++ [n] } (.connectHold n k (if stage == "auth" then 1 else 2)) impl (some n)
    some (st, out, "ok", "-")
  | "bk.send" :: n :: rest => do
    let n ← n.toNat?
    if st.closedSeen.contains n || !(st.order.contains n) then some (st, "no-conn", "ok", "-") else
    let pk ← parseInPk (connVer st n) rest
    let (st, out) := stepSearch st (.recv n pk) impl none
    some (st, out, "ok", "-")
  | "bk.sendcut" :: n :: rest => do
    let n ← n.toNat?
    if st.closedSeen.contains n || !(st.order.contains n) then some (st, "no-conn", "ok", "-") else
    let pk ← parseInPk (connVer st n) rest
    let (st, out) := stepSearch st (.recvCut n pk) impl none [n]
    some (st, out, "ok", "-")
  | ["bk.ack", n] => do
    let n ← n.toNat?
    if st.closedSeen.contains n || !(st.order.contains n) then some (st, "no-conn", "ok", "-") else
    match pendMin ((st.pend.find? (·.1 == n)).map (·.2) |>.getD []) with
    | none => some (st, "nothing-to-ack", "ok", "-")
    | some ((id, q, stage), rest) =>
      let (pk, rest') : InPk × List (Nat × Nat × Nat) :=
        if q == 2 && stage == 0 then (.pubrec id 0, (id, q, 1) :: rest)
        else if q == 2 then (.pubcomp id 0, rest) else (.puback id 0, rest)
      let st := { st with pend := (st.pend.filter (·.1 != n)) ++ [(n, rest')] }
      let (st, out) := stepSearch st (.recv n pk) impl none
      some (st, out, "ok", "-")
  | ["bk.drop", n] => do
    let n ← n.toNat?
    if st.closedSeen.contains n || !(st.order.contains n) then some (st, "no-conn", "ok", "-") else
    let (st, out) := stepSearch st (.drop n) impl none [n]
    some (st, out, "ok", "-")
  | ["bk.drophold", n] => do
    let n ← n.toNat?
    if st.closedSeen.contains n || !(st.order.contains n) then some (st, "no-conn", "ok", "-") else
    let (st, out) := stepSearch st (.dropHold n) impl none [n]
    some (st, out, "ok", "-")
  | ["bk.release", n] => do
    let n ← n.toNat?
    let isPending := st.srv.pending.any (·.conn == n)
    let (st, out) := stepSearch st (.release n) impl (if isPending then some n else none) (if isPending then [] else [n])
    some (st, out, "ok", "-")
  | ["bk.dropholdearly", n] => do
    let n ← n.toNat?
    if st.closedSeen.contains n || !(st.order.contains n) then some (st, "no-conn", "ok", "-") else
    let (st, out) := stepSearch st (.dropHoldEarly n) impl none [n]
    some (st, out, "ok", "-")
  | ["bk.tick", kind, d] => do
    let (st, out) := stepSearch st (.tick kind (NOW + (← d.toInt?))) impl none
    some (st, out, "ok", "-")
  | ["bk.ipub", t, p, r, q] => do
    let (st, out) := stepSearch st (.inlinePublish (← parseHex t) (← parseHex p) (r == "1") (← q.toNat?)) impl none
    some (st, out, "ok", "-")
  | ["bk.isub", id, f] => do
    let f ← parseHex f
    let (srv, outs) := step st.srv (.inlineSubscribe (← id.toNat?) f)
    let (st, out) := renderOuts { st with srv := srv } outs none
    some (st, if isValidFilter f false then out else out ++ " err", "ok", "-")
  | ["bk.iunsub", id, f] => do
    let f ← parseHex f
    let (srv, outs) := step st.srv (.inlineUnsubscribe (← id.toNat?) f)
    let (st, out) := renderOuts { st with srv := srv } outs none
    some (st, if isValidFilter f false then out else out ++ " err", "ok", "-")
  | ["bk.dump"] => some (st, renderDump st.srv, "ok", "-")
  | _ => none

/-- the harness appends ` V[flag,…]` (violations its independent decoder saw: unresolvable topic
    alias, …) to what it rendered; the flags are not part of the model/implementation comparison -/
def brokerOp (st : BkState) (impl : String) (ws : List String) : Option (BkState × String × String × String) :=
  let (core, flags) := match impl.splitOn " V[" with
    | [a, b] => (a, " V[" ++ b)
    | _ => (impl, "")
  match brokerOpCore st core ws with
  | some (st', m, v, g) => some (st', m ++ flags, v, g)
  | none => none

end Mochi.Driver
