import Mochi.Driver.Util
import Mochi.Model.BufPool
namespace Mochi.Driver
open Mochi.BufPool

structure BState where
  pool : Pool := {}

def kvNat (s : String) (key : String) : Option Nat :=
  (s.splitOn " ").findSome? fun w =>
    if w.startsWith (key ++ "=") then (w.drop (key.length + 1)).toString.toNat? else none

/-- buffer-pool ops; the implementation's nondeterministic choices (which pooled buffer `Get`
    returned, how far `bytes.Buffer` grew) are read from its answer and fed to the model -/
def bufpoolOp (st : BState) (impl : String) : List String → Option (BState × String × String × String)
  | ["bp.new", m] => do
    some ({ pool := { max := (← m.toNat?) } }, "-", "ok", "-")
  | ["bp.get", u] => do
    let u ← u.toNat?
    let p := st.pool
    if (heldBy p u).isSome then some (st, "none", "ok", "-") else
    match impl.splitOn " " with
    | kind :: idS :: _ =>
      let id ← idS.toNat?
      let choice : Option Nat := if kind == "old" then p.pooled.findIdx? (fun b => b.id == id) else none
      let p' := step p (.get u choice)
      let out := match heldBy p' u with
        | some b => s!"{if choice.isSome then "old" else "new"} {b.id} len={b.len} cap={b.cap}"
        | none => "none"
      let implLen := (kvNat impl "len").getD 1
      let implCap := (kvNat impl "cap").getD 0
      let heldElsewhere := p.held.any (fun ub => ub.2.id == id)
      let okSpec := implLen == 0 && !heldElsewhere && (kind != "old" || p.max == 0 || implCap ≤ p.max)
      some ({ pool := p' }, out,
            verdict okSpec "spec wants an empty buffer that nobody else holds (and cap ≤ max from a capped pool)", "-")
    | _ => none
  | ["bp.write", u, n] => do
    let u ← u.toNat?; let n ← n.toNat?
    let grow := (kvNat impl "cap").getD 0
    let p' := step st.pool (.write u n grow)
    let out := match heldBy p' u with
      | some b => s!"len={b.len} cap={b.cap}"
      | none => "none"
    some ({ pool := p' }, out, "ok", "-")
  | ["bp.put", u] => do
    some ({ pool := step st.pool (.put (← u.toNat?)) }, "-", "ok", "-")
  | ["bp.stress", _, _, _] => some (st, "ok", verdict (impl == "ok") "spec wants exclusive, empty buffers", "-")
  | _ => none

end Mochi.Driver
