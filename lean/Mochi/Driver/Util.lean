/-! Line-protocol utilities for the driver (core Lean only). -/
namespace Mochi.Driver

def hexDigit (c : Char) : Option Nat :=
  if '0' ≤ c ∧ c ≤ '9' then some (c.toNat - '0'.toNat)
  else if 'a' ≤ c ∧ c ≤ 'f' then some (c.toNat - 'a'.toNat + 10)
  else if 'A' ≤ c ∧ c ≤ 'F' then some (c.toNat - 'A'.toNat + 10)
  else none

/-- parse "0a1bff" to bytes; "-" is the empty string -/
def parseHex (s : String) : Option (List Nat) :=
  if s = "-" then some [] else
  let rec go : List Char → List Nat → Option (List Nat)
    | [], acc => some acc.reverse
    | [_], _ => none
    | a :: b :: rest, acc =>
      match hexDigit a, hexDigit b with
      | some x, some y => go rest ((x * 16 + y) :: acc)
      | _, _ => none
  go s.toList []

def hexChar (n : Nat) : Char :=
  if n < 10 then Char.ofNat (n + '0'.toNat) else Char.ofNat (n - 10 + 'a'.toNat)

def toHex (bs : List Nat) : String :=
  if bs.isEmpty then "-" else
  String.ofList (bs.flatMap fun b => [hexChar (b / 16 % 16), hexChar (b % 16)])

def words (s : String) : List String :=
  (s.splitOn " ").filter (· ≠ "")

def verdict (ok : Bool) (why : String) : String := if ok then "ok" else "FAIL " ++ why

def boolStr (b : Bool) : String := if b then "1" else "0"

end Mochi.Driver
