import Mochi.Driver.Util
import Mochi.Model.Keepalive
namespace Mochi.Driver
open Mochi.Keepalive

def keepaliveOp (impl : String) : List String → Option (String × String × String)
  | ["ka.dl", k] => do
    let k ← k.toNat?
    let want := if k = 0 then "off" else toString (1500 * k)
    some (deadlineMs k, verdict (impl == want) s!"spec wants {want} ms", "-")
  | ["ka.loop", _k, n] => do
    let n ← n.toNat?
    let want := toString (refreshCount n)
    some (want, verdict (impl == want) s!"spec wants the deadline refreshed {want} times", "-")
  -- `ka.write k n`: the broker writes n queued packets to a client that sends nothing. C37: the deadline is moved only
  -- by packets that ARRIVE from the client — what the broker sends never postpones it.
  | ["ka.write", _k, _n] =>
    some ("0", verdict (impl == "0") "spec wants no deadline refresh caused by packets the broker writes", "-")
  | _ => none

end Mochi.Driver
