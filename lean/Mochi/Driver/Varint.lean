import Mochi.Driver.Util
import Mochi.Spec.Varint
namespace Mochi.Driver
open Mochi.Varint

def showDec : DecRes → String
  | .ok (n, bu) => s!"ok {n} {bu}"
  | .error .eof => "err eof"
  | .error .malformed => "err malformed"

/-- ops: `vbi.dec <hex>` · `vbi.enc <n>`; `impl` is what the Go code answered.
    answer = (model output, spec verdict on the implementation's answer, known-finding signature) -/
def varintOp (impl : String) : List String → Option (String × String × String)
  | ["vbi.dec", h] => do
    let bs ← parseHex h
    let want := showDec (specDecode bs)
    some (showDec (decodeLength bs), verdict (impl == want) s!"spec wants {want}",
          "-")
  | ["vbi.enc", n] => do
    let k ← n.toNat?
    let ok := match parseHex impl with
      | some e => e.length == minLen k && (showDec (specDecode e) == showDec (.ok (k, e.length)))
      | none => false
    some (toHex (encodeLength k), verdict ok s!"spec wants {minLen k} byte(s) decoding to {k}", "-")
  | _ => none

end Mochi.Driver
