import Mochi.Model.Broker
import Mochi.Lemmas.AckRes
/-!
# Frame lemmas for the sequential broker model (`Mochi/Model/Broker.lean`)

"Who can change what": one inbound packet handled for client object `i`
* leaves every other object `j ≠ i` unchanged except for the five fields a delivery to `j` may change
  (`inflight`, `sendQuota`, `packetID`, `aliasOut`, `aliasCursor`)                      — `SessEq`,
* creates / removes no object, keeps `connOf`, keeps the `Clients` entry of every other client id,
* keeps `id`, `conn`, `inline` of object `i` itself, and either keeps `isOpen` / `stopped` of `i` or
  emits `closed conn`.

All of this is packaged in the relation `Frame i s s' o`; the delivery family
(`publishToClient`, `publishToSubscribers`, …) satisfies the stronger, index-free `Deliv s s'`.
-/
namespace Mochi.Broker
open Mochi.Topics

/-! ### association lists -/

theorem assocGet_assocDel_ne {α β} [DecidableEq α] (m : List (α × β)) (k k' : α) (h : k' ≠ k) :
    assocGet (assocDel m k) k' = assocGet m k' := by
  induction m with
  | nil => rfl
  | cons x xs ih =>
    obtain ⟨a, b⟩ := x
    unfold assocDel at ih ⊢
    by_cases hak : a = k
    · subst hak
      have hne : ¬ a = k' := fun e => h e.symm
      simp only [List.filter_cons, ne_eq, not_true_eq_false, decide_false, Bool.false_eq_true, if_false]
      rw [ih]; simp only [assocGet, hne, if_false]
    · simp only [List.filter_cons, ne_eq, hak, not_false_eq_true, decide_true, if_true]
      by_cases hk' : a = k'
      · simp only [assocGet, hk', if_true]
      · simp only [assocGet, hk', if_false]; exact ih

/-! ### `getObj` / `setObj` -/

theorem getObj_setObj_ne (s : Server) (i k : Nat) (c : Client) (h : k ≠ i) :
    getObj (setObj s i c) k = getObj s k := by
  simp only [getObj, setObj, List.getD_eq_getElem?_getD]
  rw [List.getElem?_set_ne (fun e => h e.symm)]

theorem getObj_setObj_eq (s : Server) (i : Nat) (c : Client) (h : i < s.objs.length) :
    getObj (setObj s i c) i = c := by
  simp only [getObj, setObj, List.getD_eq_getElem?_getD]
  rw [List.getElem?_set_self h]; rfl

theorem getObj_setObj_ge (s : Server) (i : Nat) (c : Client) (h : ¬ i < s.objs.length) :
    getObj (setObj s i c) i = getObj s i := by
  have h1 : s.objs.length ≤ i := Nat.le_of_not_lt h
  have h2 : (s.objs.set i c).length ≤ i := by rw [List.length_set]; exact h1
  simp only [getObj, setObj, List.getD_eq_getElem?_getD]
  rw [List.getElem?_eq_none h1, List.getElem?_eq_none h2]

/-- writing `c` at `i` and reading `i` back gives `c` — or, out of range, what was there -/
theorem getObj_setObj_self_cases (s : Server) (i : Nat) (c : Client) :
    getObj (setObj s i c) i = c ∨ getObj (setObj s i c) i = getObj s i := by
  by_cases h : i < s.objs.length
  · exact Or.inl (getObj_setObj_eq s i c h)
  · exact Or.inr (getObj_setObj_ge s i c h)

theorem setObj_length (s : Server) (i : Nat) (c : Client) : (setObj s i c).objs.length = s.objs.length := by
  simp only [setObj, List.length_set]

theorem getObj_of_objs_eq {s s' : Server} (h : s'.objs = s.objs) (k : Nat) : getObj s' k = getObj s k := by
  simp only [getObj, h]

/-! ### `SessEq`: equality of client objects up to the five delivery fields -/

/-- everything of a client object except the five fields a publish delivered TO this client may change
    (`inflight`, `sendQuota`, `packetID`, `aliasOut`, `aliasCursor`) -/
structure SessEq (a b : Client) : Prop where
  conn : a.conn = b.conn
  id : a.id = b.id
  ver : a.ver = b.ver
  clean : a.clean = b.clean
  sei : a.sei = b.sei
  fsei : a.fsei = b.fsei
  recvMaxProp : a.recvMaxProp = b.recvMaxProp
  tam : a.tam = b.tam
  will : a.will = b.will
  subs : a.subs = b.subs
  recvQuota : a.recvQuota = b.recvQuota
  maxRecv : a.maxRecv = b.maxRecv
  maxSend : a.maxSend = b.maxSend
  aliasIn : a.aliasIn = b.aliasIn
  isOpen : a.isOpen = b.isOpen
  stopped : a.stopped = b.stopped
  takenOver : a.takenOver = b.takenOver
  inline : a.inline = b.inline
  peerGone : a.peerGone = b.peerGone

/-- closes `SessEq a b` when every one of the 19 fields agrees by `rfl` -/
macro "sess_rfl" : tactic =>
  `(tactic| exact ⟨rfl, rfl, rfl, rfl, rfl, rfl, rfl, rfl, rfl, rfl, rfl, rfl, rfl, rfl, rfl, rfl, rfl, rfl, rfl⟩)

theorem SessEq.refl (a : Client) : SessEq a a := by sess_rfl

theorem SessEq.of_eq {a b : Client} (h : a = b) : SessEq a b := h ▸ SessEq.refl a

theorem SessEq.symm {a b : Client} (h : SessEq a b) : SessEq b a :=
  ⟨h.conn.symm, h.id.symm, h.ver.symm, h.clean.symm, h.sei.symm, h.fsei.symm, h.recvMaxProp.symm, h.tam.symm,
   h.will.symm, h.subs.symm, h.recvQuota.symm, h.maxRecv.symm, h.maxSend.symm, h.aliasIn.symm, h.isOpen.symm,
   h.stopped.symm, h.takenOver.symm, h.inline.symm, h.peerGone.symm⟩

theorem SessEq.trans {a b c : Client} (h : SessEq a b) (g : SessEq b c) : SessEq a c :=
  ⟨h.conn.trans g.conn, h.id.trans g.id, h.ver.trans g.ver, h.clean.trans g.clean, h.sei.trans g.sei,
   h.fsei.trans g.fsei, h.recvMaxProp.trans g.recvMaxProp, h.tam.trans g.tam, h.will.trans g.will,
   h.subs.trans g.subs, h.recvQuota.trans g.recvQuota, h.maxRecv.trans g.maxRecv, h.maxSend.trans g.maxSend,
   h.aliasIn.trans g.aliasIn, h.isOpen.trans g.isOpen, h.stopped.trans g.stopped, h.takenOver.trans g.takenOver,
   h.inline.trans g.inline, h.peerGone.trans g.peerGone⟩

/-- the conjunction form of `SessEq` -/
theorem SessEq_iff (a b : Client) : SessEq a b ↔
    (a.conn = b.conn ∧ a.id = b.id ∧ a.ver = b.ver ∧ a.clean = b.clean ∧ a.sei = b.sei ∧ a.fsei = b.fsei ∧
     a.recvMaxProp = b.recvMaxProp ∧ a.tam = b.tam ∧ a.will = b.will ∧ a.subs = b.subs ∧
     a.recvQuota = b.recvQuota ∧ a.maxRecv = b.maxRecv ∧ a.maxSend = b.maxSend ∧ a.aliasIn = b.aliasIn ∧
     a.isOpen = b.isOpen ∧ a.stopped = b.stopped ∧ a.takenOver = b.takenOver ∧ a.inline = b.inline ∧
     a.peerGone = b.peerGone) :=
  ⟨fun h => ⟨h.conn, h.id, h.ver, h.clean, h.sei, h.fsei, h.recvMaxProp, h.tam, h.will, h.subs, h.recvQuota,
             h.maxRecv, h.maxSend, h.aliasIn, h.isOpen, h.stopped, h.takenOver, h.inline, h.peerGone⟩,
   fun ⟨h1, h2, h3, h4, h5, h6, h7, h8, h9, h10, h11, h12, h13, h14, h15, h16, h17, h18, h19⟩ =>
     ⟨h1, h2, h3, h4, h5, h6, h7, h8, h9, h10, h11, h12, h13, h14, h15, h16, h17, h18, h19⟩⟩

/-! the client-level delivery operations -/

theorem SessEq.aliasOutSet (c : Client) (t : Str) : SessEq c (aliasOutSet c t).1 := by
  unfold Mochi.Broker.aliasOutSet
  split
  · sess_rfl
  · split
    · sess_rfl
    · split <;> sess_rfl

theorem SessEq.flSet (c : Client) (m : Msg) : SessEq c (flSet c m).1 := by
  unfold Mochi.Broker.flSet
  split <;> sess_rfl

theorem SessEq.decSend (c : Client) : SessEq c (decSend c) := by
  unfold Mochi.Broker.decSend
  split <;> sess_rfl

/-! ### `OwnEq`: what the acting client's own bookkeeping never changes -/

/-- the fields of the ACTING object that no handler writes except `stopClient` (`isOpen`, `stopped`)
    or nothing at all (`id`, `conn`, `inline`) -/
structure OwnEq (a b : Client) : Prop where
  id : a.id = b.id
  conn : a.conn = b.conn
  inline : a.inline = b.inline
  isOpen : a.isOpen = b.isOpen
  stopped : a.stopped = b.stopped

macro "own_rfl" : tactic => `(tactic| exact ⟨rfl, rfl, rfl, rfl, rfl⟩)

theorem OwnEq.refl (a : Client) : OwnEq a a := by own_rfl
theorem OwnEq.symm {a b : Client} (h : OwnEq a b) : OwnEq b a :=
  ⟨h.id.symm, h.conn.symm, h.inline.symm, h.isOpen.symm, h.stopped.symm⟩
theorem OwnEq.trans {a b c : Client} (h : OwnEq a b) (g : OwnEq b c) : OwnEq a c :=
  ⟨h.id.trans g.id, h.conn.trans g.conn, h.inline.trans g.inline, h.isOpen.trans g.isOpen, h.stopped.trans g.stopped⟩
theorem SessEq.own {a b : Client} (h : SessEq a b) : OwnEq a b := ⟨h.id, h.conn, h.inline, h.isOpen, h.stopped⟩

theorem OwnEq.flSet' (c : Client) (m : Msg) : OwnEq c (flSet c m).1 := (SessEq.flSet c m).own
theorem OwnEq.decSend' (c : Client) : OwnEq c (decSend c) := (SessEq.decSend c).own
theorem OwnEq.flDelete' (c : Client) (id : Nat) : OwnEq c (flDelete c id).1 := by
  unfold Mochi.Broker.flDelete; own_rfl
theorem OwnEq.incSend' (c : Client) : OwnEq c (incSend c) := by
  unfold Mochi.Broker.incSend; split <;> own_rfl
theorem OwnEq.incRecv' (c : Client) : OwnEq c (incRecv c) := by
  unfold Mochi.Broker.incRecv; split <;> own_rfl
theorem OwnEq.decRecv' (c : Client) : OwnEq c (decRecv c) := by
  unfold Mochi.Broker.decRecv; split <;> own_rfl

theorem OwnEq.flSet {a b : Client} (h : OwnEq a b) (m : Msg) : OwnEq a (flSet b m).1 := h.trans (OwnEq.flSet' b m)
theorem OwnEq.decSend {a b : Client} (h : OwnEq a b) : OwnEq a (decSend b) := h.trans (OwnEq.decSend' b)
theorem OwnEq.flDelete {a b : Client} (h : OwnEq a b) (id : Nat) : OwnEq a (flDelete b id).1 := h.trans (OwnEq.flDelete' b id)
theorem OwnEq.incSend {a b : Client} (h : OwnEq a b) : OwnEq a (incSend b) := h.trans (OwnEq.incSend' b)
theorem OwnEq.incRecv {a b : Client} (h : OwnEq a b) : OwnEq a (incRecv b) := h.trans (OwnEq.incRecv' b)
theorem OwnEq.decRecv {a b : Client} (h : OwnEq a b) : OwnEq a (decRecv b) := h.trans (OwnEq.decRecv' b)

/-- reading object `i` back after writing `c` there: still related to anything `c` and the old object
    are both related to (covers the out-of-range index, where the write is a no-op) -/
theorem OwnEq.get_set {s : Server} {i : Nat} {c d : Client} (h1 : OwnEq (getObj s i) c) (h2 : OwnEq c d) :
    OwnEq (getObj (setObj s i c) i) d := by
  rcases getObj_setObj_self_cases s i c with e | e
  · rw [e]; exact h2
  · rw [e]; exact h1.trans h2

theorem SessEq.get_set {s : Server} {i : Nat} {c d : Client} (h1 : SessEq (getObj s i) c) (h2 : SessEq c d) :
    SessEq (getObj (setObj s i c) i) d := by
  rcases getObj_setObj_self_cases s i c with e | e
  · rw [e]; exact h2
  · rw [e]; exact h1.trans h2

/-! ### `Deliv`: what the delivery family does to the server -/

/-- `s'` differs from `s` at most in the five delivery fields of its objects (and in server fields
    other than `objs`, `clients`, `connOf`) -/
structure Deliv (s s' : Server) : Prop where
  len : s'.objs.length = s.objs.length
  connOf : s'.connOf = s.connOf
  clients : s'.clients = s.clients
  all : ∀ k, SessEq (getObj s k) (getObj s' k)

theorem Deliv.refl (s : Server) : Deliv s s := ⟨rfl, rfl, rfl, fun _ => SessEq.refl _⟩

theorem Deliv.trans {s s1 s2 : Server} (h : Deliv s s1) (g : Deliv s1 s2) : Deliv s s2 :=
  ⟨g.len.trans h.len, g.connOf.trans h.connOf, g.clients.trans h.clients, fun k => (h.all k).trans (g.all k)⟩

/-- a change to server fields other than `objs`, `clients`, `connOf` -/
theorem Deliv.upd {s0 s s' : Server} (h : Deliv s0 s) (ho : s'.objs = s.objs) (hc : s'.clients = s.clients)
    (hn : s'.connOf = s.connOf) : Deliv s0 s' :=
  ⟨by rw [ho]; exact h.len, hn.trans h.connOf, hc.trans h.clients,
   fun k => by rw [getObj_of_objs_eq ho k]; exact h.all k⟩

/-- writing an object that is `SessEq` to what was there -/
theorem Deliv.set {s0 s : Server} (h : Deliv s0 s) (k : Nat) (c : Client) (hc : SessEq (getObj s0 k) c) :
    Deliv s0 (setObj s k c) := by
  refine ⟨(setObj_length s k c).trans h.len, h.connOf, h.clients, fun k' => ?_⟩
  by_cases hk : k' = k
  · subst hk
    rcases getObj_setObj_self_cases s k' c with e | e
    · rw [e]; exact hc
    · rw [e]; exact h.all k'
  · rw [getObj_setObj_ne s k k' c hk]; exact h.all k'

/-! ### `Frame`: what handling something for object `i` does to the server -/

/-- `s'` results from `s` by work done on behalf of client object `i`, having emitted `o` -/
structure Frame (i : Nat) (s s' : Server) (o : List Out) : Prop where
  /-- no object is created or removed -/
  len : s'.objs.length = s.objs.length
  connOf : s'.connOf = s.connOf
  /-- the Clients-map entry of every other client id is untouched -/
  clients : ∀ cid, cid ≠ (getObj s i).id → assocGet s'.clients cid = assocGet s.clients cid
  /-- every other object changes at most in its five delivery fields -/
  other : ∀ k, k ≠ i → SessEq (getObj s k) (getObj s' k)
  id : (getObj s' i).id = (getObj s i).id
  conn : (getObj s' i).conn = (getObj s i).conn
  inline : (getObj s' i).inline = (getObj s i).inline
  /-- `isOpen` / `stopped` of the acting object are kept, or `closed conn` was emitted -/
  stop : ((getObj s' i).isOpen = (getObj s i).isOpen ∧ (getObj s' i).stopped = (getObj s i).stopped) ∨
         ((getObj s i).inline = false → Out.closed (getObj s i).conn ∈ o)

theorem Frame.refl (i : Nat) (s : Server) (o : List Out) : Frame i s s o :=
  ⟨rfl, rfl, fun _ _ => rfl, fun _ _ => SessEq.refl _, rfl, rfl, rfl, Or.inl ⟨rfl, rfl⟩⟩

/-- the identity of every object (the acting one included) is kept -/
theorem Frame.id_all {i : Nat} {s s' : Server} {o : List Out} (h : Frame i s s' o) (k : Nat) :
    (getObj s' k).id = (getObj s k).id := by
  by_cases hk : k = i
  · subst hk; exact h.id
  · exact (h.other k hk).id.symm

theorem Frame.trans {i : Nat} {s s1 s2 : Server} {o1 o2 : List Out} (h : Frame i s s1 o1) (g : Frame i s1 s2 o2) :
    Frame i s s2 (o1 ++ o2) := by
  refine ⟨g.len.trans h.len, g.connOf.trans h.connOf, ?_, fun k hk => (h.other k hk).trans (g.other k hk),
    g.id.trans h.id, g.conn.trans h.conn, g.inline.trans h.inline, ?_⟩
  · intro cid hcid
    rw [g.clients cid (by rw [h.id]; exact hcid), h.clients cid hcid]
  · rcases h.stop with ⟨h1, h2⟩ | h1
    · rcases g.stop with ⟨g1, g2⟩ | g1
      · exact Or.inl ⟨g1.trans h1, g2.trans h2⟩
      · refine Or.inr fun hin => List.mem_append_right _ ?_
        have := g1 (h.inline.trans hin)
        rw [h.conn] at this; exact this
    · exact Or.inr fun hin => List.mem_append_left _ (h1 hin)

/-- only the `closed` outputs matter -/
theorem Frame.mono {i : Nat} {s s' : Server} {o o' : List Out} (h : Frame i s s' o)
    (ho : ∀ c, Out.closed c ∈ o → Out.closed c ∈ o') : Frame i s s' o' :=
  ⟨h.len, h.connOf, h.clients, h.other, h.id, h.conn, h.inline,
   h.stop.imp (fun x => x) (fun g hin => ho _ (g hin))⟩

theorem Frame.nil {i : Nat} {s s' : Server} (h : Frame i s s' []) (o : List Out) : Frame i s s' o :=
  h.mono (fun _ hc => by cases hc)

/-- followed by a step that emits nothing relevant -/
theorem Frame.stepQ {i : Nat} {s s1 s2 : Server} {o : List Out} (h : Frame i s s1 o) (g : Frame i s1 s2 []) :
    Frame i s s2 o := by
  have := h.trans g
  rw [List.append_nil] at this; exact this

theorem Deliv.frame {s s' : Server} (h : Deliv s s') (i : Nat) (o : List Out) : Frame i s s' o :=
  ⟨h.len, h.connOf, fun cid _ => by rw [h.clients], fun k _ => h.all k, (h.all i).id.symm, (h.all i).conn.symm,
   (h.all i).inline.symm, Or.inl ⟨(h.all i).isOpen.symm, (h.all i).stopped.symm⟩⟩

theorem Frame.deliv {i : Nat} {s0 s s' : Server} {o : List Out} (h : Frame i s0 s o) (g : Deliv s s') :
    Frame i s0 s' o := h.stepQ (g.frame i [])

/-- a change to server fields other than `objs`, `clients`, `connOf` -/
theorem Frame.upd {i : Nat} {s0 s s' : Server} {o : List Out} (h : Frame i s0 s o) (ho : s'.objs = s.objs)
    (hc : s'.clients = s.clients) (hn : s'.connOf = s.connOf) : Frame i s0 s' o :=
  h.deliv ((Deliv.refl s).upd ho hc hn)

/-- the acting object is rewritten, keeping `id`, `conn`, `inline`, `isOpen`, `stopped` -/
theorem Frame.setOwn {i : Nat} {s0 s : Server} {o : List Out} (h : Frame i s0 s o) (c : Client)
    (hc : OwnEq (getObj s i) c) : Frame i s0 (setObj s i c) o := by
  refine h.stepQ ⟨setObj_length s i c, rfl, fun _ _ => rfl, fun k hk => ?_, ?_, ?_, ?_, Or.inl ⟨?_, ?_⟩⟩
  · rw [getObj_setObj_ne s i k c hk]; exact SessEq.refl _
  all_goals
    have := (OwnEq.get_set hc (OwnEq.refl c)).trans hc.symm
    first | exact this.id | exact this.conn | exact this.inline | exact this.isOpen | exact this.stopped

/-- the Clients-map entry of the acting client's own id is removed -/
theorem Frame.delClient {i : Nat} {s0 s : Server} {o : List Out} (h : Frame i s0 s o) (cid : Str)
    (hcid : cid = (getObj s i).id) : Frame i s0 { s with clients := assocDel s.clients cid } o := by
  refine h.stepQ ⟨rfl, rfl, fun cid' hne => ?_, fun _ _ => SessEq.refl _, rfl, rfl, rfl, Or.inl ⟨rfl, rfl⟩⟩
  exact assocGet_assocDel_ne _ _ _ (by rw [hcid]; exact hne)

/-! ### the delivery family -/

theorem foldl_inv {α β} (P : β → Prop) (f : β → α → β) (l : List α) (b : β) (h0 : P b)
    (hs : ∀ b a, P b → P (f b a)) : P (l.foldl f b) := by
  induction l generalizing b with
  | nil => exact h0
  | cons x xs ih => exact ih _ (hs _ _ h0)

theorem publishToClientCore_deliv (s : Server) (i : Nat) (sub : Sub) (f : Bool) (pk : Msg) :
    Deliv s (publishToClientCore s i sub f pk).1 := by
  unfold publishToClientCore
  extract_lets c out
  split
  rename_i c1 out1 heq
  have hc1 : SessEq c c1 := by
    split at heq
    · split at heq
      rename_i c' a ex h2
      have h3 := SessEq.aliasOutSet c pk.topic
      rw [h2] at h3
      split at heq <;> (cases heq; exact h3)
    · cases heq; exact SessEq.refl _
  clear heq
  extract_lets s1
  have hs1 : Deliv s s1 := (Deliv.refl s).set i c1 hc1
  split
  · split
    · exact hs1.upd rfl rfl rfl
    · split
      · exact hs1.upd rfl rfl rfl
      · rename_i pid _
        extract_lets c2 out2 sentQuota
        have hc2 : SessEq c c2 := hc1.trans (by sess_rfl)
        split
        rename_i c3 isNew hfl
        have hc3 : SessEq c c3 := by
          have := SessEq.flSet c2 out2
          rw [hfl] at this
          exact hc2.trans this
        extract_lets c4 s2 src s3
        have hc4 : SessEq c c4 := by
          show SessEq c (if isNew = true then decSend c3 else c3)
          split
          · exact hc3.trans (SessEq.decSend c3)
          · exact hc3
        have hs2 : Deliv s s2 := hs1.set i c4 hc4
        have hs3 : Deliv s s3 := by
          show Deliv s (if isNew = true then _ else _)
          split
          · exact hs2.upd rfl rfl rfl
          · exact hs2
        split
        · exact hs3.set i _ (hc4.trans (SessEq.flSet c4 _))
        · split <;> exact hs3
  · split <;> exact hs1

theorem publishToClient_deliv (s : Server) (i : Nat) (sub : Sub) (f : Bool) (pk : Msg) :
    Deliv s (publishToClient s i sub f pk).1 := by
  unfold publishToClient
  split
  · exact Deliv.refl s
  · split
    · exact Deliv.refl s
    · exact publishToClientCore_deliv s i sub f pk

theorem publishToSubscribers_deliv (s : Server) (pk : Msg) : Deliv s (publishToSubscribers s pk).1 := by
  unfold publishToSubscribers
  split
  · exact Deliv.refl s
  · extract_lets e pk' r subsMap inl
    refine foldl_inv (fun (acc : Server × List Out) => Deliv s acc.1) _ _ _ (Deliv.refl s) ?_
    intro acc cs h
    split
    · exact h
    · rename_i k _
      split
      rename_i s' o heq
      have := publishToClient_deliv acc.1 k cs.2 false pk'
      rw [heq] at this
      exact h.trans this

theorem publishRetainedToClient_deliv (s : Server) (i : Nat) (sub : Sub) (ex : Bool) (k : Nat) :
    Deliv s (publishRetainedToClient s i sub ex k).1 := by
  unfold publishRetainedToClient
  split
  · exact Deliv.refl s
  · split
    · exact Deliv.refl s
    · extract_lets sub'
      refine foldl_inv (fun (acc : Server × List Out) => Deliv s acc.1) _ _ _ (Deliv.refl s) ?_
      intro acc r h
      split
      · exact h
      · rename_i m _
        split
        rename_i s' o heq
        have := publishToClient_deliv acc.1 i sub' true m
        rw [heq] at this
        exact h.trans this

theorem retainMsg_deliv (s : Server) (pk : Msg) : Deliv s (retainMsg s pk) := by
  unfold retainMsg
  split
  · exact Deliv.refl s
  · exact (Deliv.refl s).upd rfl rfl rfl

/-! ### work on the acting object -/

/-- the acting object is rewritten keeping `id`, `conn`, `inline`; `closed conn` is emitted -/
theorem Frame.setStop {i : Nat} {s : Server} {o : List Out} (c : Client)
    (hid : c.id = (getObj s i).id) (hconn : c.conn = (getObj s i).conn) (hinl : c.inline = (getObj s i).inline)
    (ho : (getObj s i).inline = false → Out.closed (getObj s i).conn ∈ o) : Frame i s (setObj s i c) o := by
  refine ⟨setObj_length s i c, rfl, fun _ _ => rfl, fun k hk => ?_, ?_, ?_, ?_, Or.inr ho⟩
  · rw [getObj_setObj_ne s i k c hk]; exact SessEq.refl _
  all_goals
    rcases getObj_setObj_self_cases s i c with e | e <;> rw [e]
    all_goals first | rfl | assumption

theorem Frame.modOwn {i : Nat} {s0 s : Server} {o : List Out} (h : Frame i s0 s o) (f : Client → Client)
    (hf : OwnEq (getObj s i) (f (getObj s i))) : Frame i s0 (modObj s i f) o := h.setOwn _ hf

theorem stopClient_frame (s : Server) (i : Nat) : Frame i s (stopClient s i).1 (stopClient s i).2 := by
  unfold stopClient
  extract_lets +onlyGivenNames c
  split
  · exact Frame.refl i s _
  · refine Frame.setStop _ rfl rfl rfl (fun hin => ?_)
    show Out.closed c.conn ∈ (if c.inline = true then [] else [Out.closed c.conn])
    rw [show c.inline = false from hin]
    exact List.mem_singleton.mpr rfl

/-- `stopClient` on a live network client emits `closed` -/
theorem stopClient_closed (s : Server) (i : Nat) (hst : (getObj s i).stopped = false)
    (hin : (getObj s i).inline = false) : Out.closed (getObj s i).conn ∈ (stopClient s i).2 := by
  unfold stopClient
  simp only [hst, hin, Bool.false_eq_true, if_false]
  exact List.mem_singleton.mpr rfl

theorem disconnectClient_frame (s : Server) (i : Nat) (code : Nat) :
    Frame i s (disconnectClient s i code).1 (disconnectClient s i code).2 := by
  unfold disconnectClient
  extract_lets +onlyGivenNames c w
  split
  rename_i s' o heq
  have := stopClient_frame s i
  rw [heq] at this
  exact this.mono (fun _ h => List.mem_append_right _ h)

theorem unsubscribeClient_frame (s : Server) (i : Nat) : Frame i s (unsubscribeClient s i) [] := by
  unfold unsubscribeClient
  extract_lets +onlyGivenNames c s1
  have h1 : Frame i s s1 [] := (Frame.refl i s []).setOwn _ (by own_rfl)
  split
  · exact h1
  · refine foldl_inv (fun (x : Server) => Frame i s x []) _ _ _ h1 ?_
    intro b a h
    exact h.upd rfl rfl rfl

theorem clearInflights_frame (s : Server) (i : Nat) : Frame i s (clearInflights s i) [] := by
  unfold clearInflights
  extract_lets +onlyGivenNames c n
  exact ((Frame.refl i s []).setOwn _ (by own_rfl)).upd rfl rfl rfl

theorem processPuback_frame (s : Server) (i id : Nat) : Frame i s (processPuback s i id).1 [] := by
  unfold processPuback
  extract_lets +onlyGivenNames c
  split
  · exact Frame.refl i s []
  · extract_lets +onlyGivenNames c'
    exact ((Frame.refl i s []).setOwn c' ((OwnEq.flDelete' c id).incSend)).upd rfl rfl rfl

theorem processPubrec_frame (s : Server) (i id rc : Nat) : Frame i s (processPubrec s i id rc).1 [] := by
  unfold processPubrec
  extract_lets +onlyGivenNames c
  split
  · rw [ackRes_fst]; exact Frame.refl i s []
  · split
    · extract_lets +onlyGivenNames c'
      exact ((Frame.refl i s []).setOwn c' (OwnEq.flDelete' c id)).upd rfl rfl rfl
    · extract_lets +onlyGivenNames ack c' s1
      have hs1 : Frame i s s1 [] := (Frame.refl i s []).setOwn c' ((OwnEq.decRecv' c).flSet ack)
      split <;> exact hs1

theorem processPubrel_frame (s : Server) (i id rc : Nat) : Frame i s (processPubrel s i id rc).1 [] := by
  unfold processPubrel
  extract_lets +onlyGivenNames c
  split
  · rw [ackRes_fst]; exact Frame.refl i s []
  · split
    · extract_lets +onlyGivenNames c'
      exact ((Frame.refl i s []).setOwn c' (OwnEq.flDelete' c id)).upd rfl rfl rfl
    · extract_lets +onlyGivenNames ack c1 s1
      have hc1 : OwnEq c c1 := OwnEq.flSet' c ack
      have hs1 : Frame i s s1 [] := (Frame.refl i s []).setOwn c1 hc1
      split
      · exact hs1
      · extract_lets +onlyGivenNames o c2
        split
        rename_i c3 ok heq
        extract_lets +onlyGivenNames s2
        have hc3 : OwnEq c1 c3 := by
          have := OwnEq.flDelete' c2 id
          rw [heq] at this
          exact ((OwnEq.incRecv' c1).incSend).trans this
        have hs2 : Frame i s s2 [] := hs1.setOwn c3 (OwnEq.get_set hc1 hc3)
        split
        · exact hs2.upd rfl rfl rfl
        · exact hs2

theorem processPubcomp_frame (s : Server) (i id : Nat) : Frame i s (processPubcomp s i id).1 [] := by
  unfold processPubcomp
  extract_lets +onlyGivenNames c
  split
  rename_i c1 ok heq
  extract_lets +onlyGivenNames s1
  have hc1 : OwnEq (getObj s i) c1 := by
    have := OwnEq.flDelete' c id
    rw [heq] at this
    exact ((OwnEq.incRecv' (getObj s i)).incSend).trans this
  have hs1 : Frame i s s1 [] := (Frame.refl i s []).setOwn c1 hc1
  split
  · exact hs1.upd rfl rfl rfl
  · exact hs1

theorem nextImmediate_frame (s : Server) (i : Nat) : Frame i s (nextImmediate s i).1 [] := by
  unfold nextImmediate
  extract_lets +onlyGivenNames c
  split
  · split
    · rename_i m _
      extract_lets +onlyGivenNames o
      split
      rename_i c1 ok heq
      extract_lets +onlyGivenNames s1
      have hc1 : OwnEq c c1 := by
        have := OwnEq.flDelete' c m.id
        rw [heq] at this
        exact this
      -- the release also consumes one base-64 digit of `nextSeed` (a server field outside the frame)
      have hs0 : Frame i s { s with nextSeed := s.nextSeed / 64 } [] := (Frame.refl i s []).upd rfl rfl rfl
      have hs1 : Frame i s s1 [] := hs0.setOwn _ hc1.decSend
      split
      · exact hs1.upd rfl rfl rfl
      · exact hs1
    · exact Frame.refl i s []
  · exact Frame.refl i s []

theorem processDisconnect_frame (s : Server) (i rc : Nat) (sei : Option Nat) :
    Frame i s (processDisconnect s i rc sei).1 (processDisconnect s i rc sei).2.1 := by
  unfold processDisconnect
  extract_lets +onlyGivenNames c r
  have hr : ∀ s' c', r = some (s', c') → s' = s ∧ OwnEq c c' := by
    intro s' c' h
    simp only [r] at h
    split at h
    · split at h
      · cases h
      · cases h; exact ⟨rfl, by own_rfl⟩
    · cases h; exact ⟨rfl, OwnEq.refl _⟩
  generalize r = r' at hr
  split
  · exact Frame.refl i s _
  · rename_i s' c'
    obtain ⟨rfl, hc'⟩ := hr s' c' rfl
    extract_lets +onlyGivenNames s1
    have hs1 : Frame i s' s1 [] := (Frame.refl i s' []).setOwn c' hc'
    split
    · exact hs1.nil _
    · extract_lets +onlyGivenNames s2
      have hs2 : Frame i s' s2 [] := hs1.upd rfl rfl rfl
      split
      rename_i s3 o hst
      have := stopClient_frame s2 i
      rw [hst] at this
      have h3 := hs2.trans this
      rw [List.nil_append] at h3
      exact h3

theorem processUnsubscribe_frame (s : Server) (i id : Nat) (filters : List Str) :
    Frame i s (processUnsubscribe s i id filters).1 [] := by
  unfold processUnsubscribe
  extract_lets +onlyGivenNames c inUse r
  have hr : Frame i s r.1 [] := by
    refine foldl_inv (fun (acc : Server × List Nat) => Frame i s acc.1 []) _ _ _ (Frame.refl i s []) ?_
    intro acc f h
    split
    rename_i s' rcs
    split
    · exact h
    · extract_lets rr src s1 s2
      show Frame i s s2 []
      refine (h.upd (s' := s1) rfl rfl rfl).modOwn _ ?_
      own_rfl
  generalize r = r' at hr
  split
  rename_i s' rcs
  extract_lets c'
  split <;> exact hr

theorem processSubscribe_frame (s : Server) (i id subId : Nat) (filters : List Sub) :
    Frame i s (processSubscribe s i id subId filters).1 [] := by
  unfold processSubscribe
  extract_lets +onlyGivenNames c inUse fin r
  have hr : Frame i s r.1 [] := by
    refine foldl_inv (fun (acc : Server × List Nat × List Bool) => Frame i s acc.1 []) _ _ _ (Frame.refl i s []) ?_
    intro acc sub h
    split
    rename_i s' rcs exs
    extract_lets +onlyGivenNames sub'
    split
    · exact h
    · split
      · exact h
      · split
        · exact h
        · split
          · exact h
          · extract_lets +onlyGivenNames rr src s1 s2
            show Frame i s s2 []
            refine (h.upd (s' := s1) rfl rfl rfl).modOwn _ ?_
            own_rfl
  generalize r = r' at hr
  split
  rename_i s' rcs exs
  extract_lets +onlyGivenNames c'
  split
  · exact hr
  · extract_lets +onlyGivenNames o1 z
    show Frame i s z.1 []
    refine foldl_inv (fun (acc : Server × List Out) => Frame i s acc.1 []) _ _ _ hr ?_
    intro acc xk h
    extract_lets +onlyGivenNames x
    split
    · exact h
    · extract_lets +onlyGivenNames src sub'
      split
      rename_i s2 o heq
      have := publishRetainedToClient_deliv acc.1 i sub' x.2.2 xk.2
      rw [heq] at this
      exact h.deliv this

theorem Frame.fst_mk {α} {i : Nat} {s0 x : Server} {y : α} {o : List Out} (h : Frame i s0 x o) :
    Frame i s0 (x, y).1 o := h

theorem sendLWT_frame (s : Server) (i : Nat) : Frame i s (sendLWT s i).1 [] := by
  unfold sendLWT
  extract_lets +onlyGivenNames c
  split
  · exact Frame.refl i s []
  · extract_lets +onlyGivenNames pk
    split
    · exact (Frame.refl i s []).upd rfl rfl rfl
    · extract_lets +onlyGivenNames s1
      have hs1 : Frame i s s1 [] := by
        show Frame i s (if pk.retain = true then retainMsg s pk else s) []
        split
        · exact (retainMsg_deliv s pk).frame i []
        · exact Frame.refl i s []
      split
      rename_i s2 o heq
      have := publishToSubscribers_deliv s1 pk
      rw [heq] at this
      have h2 : Frame i s s2 [] := hs1.deliv this
      refine Frame.fst_mk ?_
      refine h2.modOwn _ ?_
      own_rfl

/-- `sendLWT` for object `i` leaves every other object unchanged up to the delivery fields -/
theorem sendLWT_isolation (s : Server) (i j : Nat) (h : j ≠ i) : SessEq (getObj s j) (getObj (sendLWT s i).1 j) :=
  (sendLWT_frame s i).other j h

/-- the first half of `detach`: `sendLWT` + `stopClient` (error exit) or clearing the will (normal exit) -/
theorem detachA_frame (s : Server) (i : Nat) (withErr : Bool) :
    Frame i s (detachA s i withErr).1 (detachA s i withErr).2 := by
  unfold detachA
  split
  · split
    rename_i s2 o2 h2
    split
    rename_i s3 o3 h3
    have a := sendLWT_frame s i
    rw [h2] at a
    have b := stopClient_frame s2 i
    rw [h3] at b
    exact (a.nil o2).trans b
  · exact (Frame.refl i s []).modOwn (fun c => { c with will := {} }) (by own_rfl)

/-- the second half of `detach`: the session clean-up and the counter decrement -/
theorem detachB_frame (s : Server) (i : Nat) : Frame i s (detachB s i) [] := by
  unfold detachB
  extract_lets +onlyGivenNames c expire s3 s4 s2
  refine Frame.upd (s := s2) ?_ rfl rfl rfl
  show Frame i s (if (expire && !c.takenOver) = true then _ else s) []
  split
  · have h3 : Frame i s s3 [] := clearInflights_frame s i
    have h4 : Frame i s s4 [] := h3.stepQ (unsubscribeClient_frame s3 i)
    refine h4.delClient _ ?_
    exact h4.id.symm
  · exact Frame.refl i s []

theorem detach_frame (s : Server) (i : Nat) (withErr : Bool) :
    Frame i s (detach s i withErr).1 (detach s i withErr).2 := by
  unfold detach
  split
  rename_i s1 o1 heq
  have hs1 : Frame i s s1 o1 := by
    have := detachA_frame s i withErr
    rw [heq] at this
    exact this
  exact hs1.stepQ (detachB_frame s1 i)

/-- `detach` for object `i` leaves every other object unchanged up to the delivery fields -/
theorem detach_isolation (s : Server) (i j : Nat) (b : Bool) (h : j ≠ i) :
    SessEq (getObj s j) (getObj (detach s i b).1 j) :=
  (detach_frame s i b).other j h

/-- case split on an `if` producing a handler result, without `split` (whose `simp` pass runs out of steps on the
whole `processPublish` body) -/
theorem Frame.ite_res {i : Nat} {s : Server} {p : Prop} [Decidable p] {a b : HRes}
    (ha : p → Frame i s a.1 a.2.1) (hb : ¬ p → Frame i s b.1 b.2.1) :
    Frame i s (if p then a else b).1 (if p then a else b).2.1 := by
  by_cases h : p
  · rw [if_pos h]; exact ha h
  · rw [if_neg h]; exact hb h

theorem processPublish_frame (s : Server) (i : Nat) (qos : Nat) (dup retain : Bool) (id : Nat) (topic payload : Str)
    (msgExpiry : Nat) (alias : Option Nat) :
    Frame i s (processPublish s i qos dup retain id topic payload msgExpiry alias).1
      (processPublish s i qos dup retain id topic payload msgExpiry alias).2.1 := by
  unfold processPublish
  extract_lets +onlyGivenNames c
  -- the three early exits share one shape
  have early : ∀ code, Frame i s
      (if (qos == 0) = true then ((s, [], none) : HRes)
        else if (c.ver != 5) = true then
          match disconnectClient s i code with
          | (s, o) => (s, o, some code)
        else ackRes s i (if (qos == 2) = true then 5 else 4) id code).1
      (if (qos == 0) = true then ((s, [], none) : HRes)
        else if (c.ver != 5) = true then
          match disconnectClient s i code with
          | (s, o) => (s, o, some code)
        else ackRes s i (if (qos == 2) = true then 5 else 4) id code).2.1 := by
    intro code
    split
    · exact Frame.refl i s _
    · split
      · split
        rename_i s' o heq
        have := disconnectClient_frame s i code
        rw [heq] at this
        exact this
      · rw [ackRes_fst]; exact Frame.refl i s _
  refine Frame.ite_res (fun _ => early _) (fun _ => ?_)
  · refine Frame.ite_res (fun _ => ?_) (fun _ => ?_)
    · split
      rename_i s' o heq
      have := disconnectClient_frame s i 0x93
      rw [heq] at this
      exact this
    · refine Frame.ite_res (fun _ => early _) (fun _ => ?_)
      · extract_lets +onlyGivenNames e pk pre
        have hpre : ∀ r, pre = some r → r.1 = s := by
          intro r h
          simp only [pre] at h
          split at h
          · cases h
          · split at h
            · split at h
              · cases h; exact ackRes_fst s i 5 id 0x91
              · cases h
            · cases h
        generalize pre = pre' at hpre
        split
        · rename_i r
          rw [hpre r rfl]
          exact Frame.refl i s _
        · clear hpre
          split
          rename_i s1 c1 heq
          have h1 : Frame i s s1 [] ∧ OwnEq (getObj s1 i) c1 := by
            split at heq
            · cases heq
              exact ⟨((Frame.refl i s []).setOwn _ (OwnEq.flDelete' c id)).upd rfl rfl rfl,
                     OwnEq.get_set (OwnEq.flDelete' c id) (OwnEq.refl _)⟩
            · cases heq
              exact ⟨Frame.refl i s [], OwnEq.refl _⟩
          clear heq
          obtain ⟨hs1, ho1⟩ := h1
          split
          rename_i c2 pk2 heq
          have hc2 : OwnEq c1 c2 := by
            split at heq
            · split at heq
              · split at heq
                · cases heq; exact OwnEq.refl _
                · split at heq
                  · split at heq
                    · cases heq; exact OwnEq.refl _
                    · cases heq; own_rfl
                  · cases heq; own_rfl
              · cases heq; exact OwnEq.refl _
            · cases heq; exact OwnEq.refl _
          clear heq
          extract_lets +onlyGivenNames s2
          have hs2 : Frame i s s2 [] := hs1.setOwn c2 (ho1.trans hc2)
          split
          · split
            rename_i s' o heq
            have := disconnectClient_frame s2 i 0x82
            rw [heq] at this
            have h3 := hs2.trans this
            rw [List.nil_append] at h3
            exact h3
          extract_lets +onlyGivenNames pk3 mode
          split
          · exact hs2.nil _
          · split
            · rw [ackRes_fst]; exact hs2.nil _
            · extract_lets +onlyGivenNames pk4 s3
              have hs3 : Frame i s s3 [] := by
                show Frame i s (if pk4.retain = true then retainMsg s2 pk4 else s2) []
                split
                · exact hs2.deliv (retainMsg_deliv s2 pk4)
                · exact hs2
              split
              · split
                rename_i s4 o heq
                have := publishToSubscribers_deliv s3 pk4
                rw [heq] at this
                exact (hs3.deliv this).nil _
              · extract_lets +onlyGivenNames s4 ackT ackRC ack
                have hs4 : Frame i s s4 [] := hs3.modOwn decRecv (OwnEq.decRecv' _)
                split
                rename_i c5 isNew heq
                have hc5 : OwnEq (getObj s4 i) c5 := by
                  have := OwnEq.flSet' (getObj s4 i) ack
                  rw [heq] at this
                  exact this
                clear heq
                extract_lets +onlyGivenNames s5 src s6
                have hs5 : Frame i s s5 [] := hs4.setOwn c5 hc5
                have hs6 : Frame i s s6 [] := by
                  show Frame i s (if isNew = true then _ else s5) []
                  split
                  · exact hs5.upd rfl rfl rfl
                  · exact hs5
                split
                · exact hs6.nil _
                · extract_lets +onlyGivenNames o1 s7
                  have hs7 : Frame i s s7 [] := by
                    show Frame i s (if (pk4.qos == 1) = true then _ else s6) []
                    split
                    · split
                      rename_i c6 ok heq
                      have hc6 : OwnEq (getObj s6 i) c6 := by
                        have := OwnEq.flDelete' (getObj s6 i) id
                        rw [heq] at this
                        exact this
                      extract_lets +onlyGivenNames s8
                      have hs8 : Frame i s s8 [] := hs6.setOwn _ hc6.incRecv
                      split
                      · exact hs8.upd rfl rfl rfl
                      · exact hs8
                    · exact hs6
                  split
                  rename_i s9 o2 heq
                  have := publishToSubscribers_deliv s7 pk4
                  rw [heq] at this
                  exact (hs7.deliv this).nil _

/-! ### one inbound packet -/

theorem receivePacket_frame (s : Server) (i : Nat) (pk : InPk) :
    Frame i s (receivePacket s i pk).1 (receivePacket s i pk).2.1 := by
  unfold receivePacket
  extract_lets +onlyGivenNames c r
  have hr : Frame i s r.1 r.2.1 := by
    simp only [r]
    split
    · split
      · exact Frame.refl i s _
      · exact processPublish_frame ..
    · split
      · exact Frame.refl i s _
      · exact (processSubscribe_frame ..).nil _
    · split
      · exact Frame.refl i s _
      · exact (processUnsubscribe_frame ..).nil _
    · exact (processPuback_frame ..).nil _
    · exact (processPubrec_frame ..).nil _
    · exact (processPubrel_frame ..).nil _
    · exact (processPubcomp_frame ..).nil _
    · split <;> exact Frame.refl i s _
    · exact processDisconnect_frame ..
  generalize r = r' at hr
  split
  · rename_i s1 o
    split
    rename_i s2 o2 heq
    have := nextImmediate_frame s1 i
    rw [heq] at this
    exact hr.trans (this.nil o2)
  · rename_i s1 o code
    split
    · split
      rename_i s2 o2 heq
      have := disconnectClient_frame s1 i code
      rw [heq] at this
      exact hr.trans this
    · exact hr

theorem Frame.live_or_closed {i : Nat} {s s' : Server} {o : List Out} (h : Frame i s s' o)
    (hin : (getObj s i).inline = false) :
    ((getObj s' i).isOpen = (getObj s i).isOpen ∧ (getObj s' i).stopped = (getObj s i).stopped) ∨
      Out.closed (getObj s i).conn ∈ o :=
  h.stop.imp (fun x => x) (fun g => g hin)

/-- the PINGREQ barrier's output filter keeps every `closed` -/
theorem closed_mem_filter_pingresp (c : Nat) (o : List Out) (h : Out.closed c ∈ o) :
    Out.closed c ∈ o.filter (fun x => match x with | .wrote _ .pingresp => false | _ => true) :=
  List.mem_filter.mpr ⟨h, rfl⟩

theorem recvOn_frame (s : Server) (c : Nat) (pk : InPk) (b : Bool) (i : Nat) (hc : assocGet s.connOf c = some i) :
    Frame i s (recvOn s c pk b).1 (recvOn s c pk b).2 := by
  unfold recvOn
  split
  · exact Frame.refl i s _
  · rename_i i' hc'
    rw [hc] at hc'
    cases hc'
    split
    · exact Frame.refl i s _
    · split
      rename_i s1 o e heq
      have h1 := receivePacket_frame s i pk
      rw [heq] at h1
      split
      · split
        rename_i s2 o2 hd
        have := detach_frame s1 i true
        rw [hd] at this
        exact h1.trans this
      · split
        · split
          rename_i s2 o2 hd
          have := detach_frame s1 i false
          rw [hd] at this
          exact h1.trans this
        · split
          · split
            rename_i s2 o2 e2 heq2
            have h2 := receivePacket_frame s1 i .pingreq
            rw [heq2] at h2
            extract_lets +onlyGivenNames o2f
            have h12 : Frame i s s2 (o ++ o2f) :=
              h1.trans (h2.mono (fun cc hcc => closed_mem_filter_pingresp cc o2 hcc))
            split
            · split
              rename_i s3 o3 hd
              have := detach_frame s2 i true
              rw [hd] at this
              exact h12.trans this
            · exact h12
          · exact h1

/-! the delivery family, through the equations `split` produces -/

theorem publishToSubscribers_frame {s s' : Server} {pk : Msg} {o : List Out}
    (h : publishToSubscribers s pk = (s', o)) :
    s'.objs.length = s.objs.length ∧ ∀ k, SessEq (getObj s k) (getObj s' k) := by
  have := publishToSubscribers_deliv s pk
  rw [h] at this
  exact ⟨this.len, this.all⟩

theorem publishToClient_frame {s s' : Server} {i : Nat} {sub : Sub} {f : Bool} {pk : Msg} {o : List Out}
    (h : publishToClient s i sub f pk = (s', o)) :
    s'.objs.length = s.objs.length ∧ ∀ k, SessEq (getObj s k) (getObj s' k) := by
  have := publishToClient_deliv s i sub f pk
  rw [h] at this
  exact ⟨this.len, this.all⟩

theorem publishRetainedToClient_frame {s s' : Server} {i : Nat} {sub : Sub} {ex : Bool} {n : Nat} {o : List Out}
    (h : publishRetainedToClient s i sub ex n = (s', o)) :
    s'.objs.length = s.objs.length ∧ ∀ k, SessEq (getObj s k) (getObj s' k) := by
  have := publishRetainedToClient_deliv s i sub ex n
  rw [h] at this
  exact ⟨this.len, this.all⟩

/-! ### the main theorems -/

/-- one inbound packet handled for client OBJECT `i` leaves every other object `j` unchanged up to the
    five delivery fields -/
theorem receivePacket_isolation (s : Server) (i j : Nat) (pk : InPk) (h : j ≠ i) :
    SessEq (getObj s j) (getObj (receivePacket s i pk).1 j) :=
  (receivePacket_frame s i pk).other j h

/-- no object is created or removed -/
theorem receivePacket_objs_length (s : Server) (i : Nat) (pk : InPk) :
    (receivePacket s i pk).1.objs.length = s.objs.length :=
  (receivePacket_frame s i pk).len

/-- the id of every object (the acting one included) is kept -/
theorem receivePacket_id (s : Server) (i k : Nat) (pk : InPk) :
    (getObj (receivePacket s i pk).1 k).id = (getObj s k).id :=
  (receivePacket_frame s i pk).id_all k

theorem detach_id (s : Server) (i k : Nat) (b : Bool) : (getObj (detach s i b).1 k).id = (getObj s k).id :=
  (detach_frame s i b).id_all k

theorem detach_objs_length (s : Server) (i : Nat) (b : Bool) : (detach s i b).1.objs.length = s.objs.length :=
  (detach_frame s i b).len

/-- `receivePacket` never touches the Clients map and the connection table (`detach` does) -/
theorem receivePacket_clients_other (s : Server) (i : Nat) (pk : InPk) (cid : Str) (h : (getObj s i).id ≠ cid) :
    assocGet (receivePacket s i pk).1.clients cid = assocGet s.clients cid :=
  (receivePacket_frame s i pk).clients cid (Ne.symm h)

theorem receivePacket_connOf (s : Server) (i : Nat) (pk : InPk) : (receivePacket s i pk).1.connOf = s.connOf :=
  (receivePacket_frame s i pk).connOf

/-- one inbound packet on connection `c` (object `i`), with `detach` and the PINGREQ barrier, leaves every
    other object `j` unchanged up to the five delivery fields -/
theorem recvOn_isolation (s : Server) (c : Nat) (pk : InPk) (b : Bool) (i j : Nat)
    (hc : assocGet s.connOf c = some i) (h : j ≠ i) : SessEq (getObj s j) (getObj (recvOn s c pk b).1 j) :=
  (recvOn_frame s c pk b i hc).other j h

/-- no object is created or removed (no hypothesis on `c` needed) -/
theorem recvOn_objs_length (s : Server) (c : Nat) (pk : InPk) (b : Bool) :
    (recvOn s c pk b).1.objs.length = s.objs.length := by
  cases hc : assocGet s.connOf c with
  | none => unfold recvOn; rw [hc]
  | some i => exact (recvOn_frame s c pk b i hc).len

theorem recvOn_connOf (s : Server) (c : Nat) (pk : InPk) (b : Bool) : (recvOn s c pk b).1.connOf = s.connOf := by
  cases hc : assocGet s.connOf c with
  | none => unfold recvOn; rw [hc]
  | some i => exact (recvOn_frame s c pk b i hc).connOf

/-- the id of every object (the acting one included) is kept -/
theorem recvOn_id (s : Server) (c : Nat) (pk : InPk) (b : Bool) (k : Nat) :
    (getObj (recvOn s c pk b).1 k).id = (getObj s k).id := by
  cases hc : assocGet s.connOf c with
  | none => unfold recvOn; rw [hc]
  | some i => exact (recvOn_frame s c pk b i hc).id_all k

/-- the Clients-map entry of any OTHER client id is untouched by a packet on connection `c` whose object is `i` -/
theorem recvOn_clients_other (s : Server) (c : Nat) (pk : InPk) (b : Bool) (i : Nat) (cid : Str)
    (hc : assocGet s.connOf c = some i) (hid : (getObj s i).id ≠ cid) :
    assocGet (recvOn s c pk b).1.clients cid = assocGet s.clients cid :=
  (recvOn_frame s c pk b i hc).clients cid (Ne.symm hid)

/-- after one inbound packet the connection is still open, or `closed c` was emitted
    (`stopped = false` is not needed; neither is `i < s.objs.length`) -/
theorem recvOn_served_or_closed' (s : Server) (c : Nat) (pk : InPk) (b : Bool) (i : Nat)
    (hc : assocGet s.connOf c = some i) (hconn : (getObj s i).conn = c) (hin : (getObj s i).inline = false)
    (hopen : (getObj s i).isOpen = true) :
    (getObj (recvOn s c pk b).1 i).isOpen = true ∨ Out.closed c ∈ (recvOn s c pk b).2 := by
  rcases (recvOn_frame s c pk b i hc).live_or_closed hin with ⟨h1, _⟩ | h
  · exact Or.inl (h1.trans hopen)
  · rw [hconn] at h; exact Or.inr h

theorem recvOn_served_or_closed (s : Server) (c : Nat) (pk : InPk) (b : Bool) (i : Nat)
    (hc : assocGet s.connOf c = some i) (hconn : (getObj s i).conn = c) (hin : (getObj s i).inline = false)
    (hopen : (getObj s i).isOpen = true) (hst : (getObj s i).stopped = false) :
    (getObj (recvOn s c pk b).1 i).isOpen = true ∨ Out.closed c ∈ (recvOn s c pk b).2 :=
  have _ := hst
  recvOn_served_or_closed' s c pk b i hc hconn hin hopen

/-- leaving the read loop with an error closes a live network connection -/
theorem detach_true_closes (s : Server) (i : Nat) (hin : (getObj s i).inline = false)
    (hst : (getObj s i).stopped = false) : Out.closed (getObj s i).conn ∈ (detach s i true).2 := by
  unfold detach detachA
  simp only [if_true]
  have a := sendLWT_frame s i
  have hst2 : (getObj (sendLWT s i).1 i).stopped = false := by
    rcases a.live_or_closed hin with ⟨_, h⟩ | h
    · exact h.trans hst
    · cases h
  have := stopClient_closed (sendLWT s i).1 i hst2 (a.inline.trans hin)
  rw [a.conn] at this
  exact List.mem_append_right _ this

/-- the error path: the handler returned an error, so `closed c` is emitted -/
theorem recvOn_error_closes (s : Server) (c : Nat) (pk : InPk) (b : Bool) (i : Nat) (code : Nat)
    (hc : assocGet s.connOf c = some i) (hconn : (getObj s i).conn = c) (hin : (getObj s i).inline = false)
    (hopen : (getObj s i).isOpen = true) (hst : (getObj s i).stopped = false)
    (herr : (receivePacket s i pk).2.2 = some code) : Out.closed c ∈ (recvOn s c pk b).2 := by
  unfold recvOn
  simp only [hc, hopen, Bool.not_true, Bool.false_eq_true, if_false, herr]
  have h1 := receivePacket_frame s i pk
  show Out.closed c ∈ (receivePacket s i pk).2.1 ++ (detach (receivePacket s i pk).1 i true).2
  rcases h1.live_or_closed hin with ⟨_, h⟩ | h
  · have := detach_true_closes (receivePacket s i pk).1 i (h1.inline.trans hin) (h.trans hst)
    rw [h1.conn, hconn] at this
    exact List.mem_append_right _ this
  · rw [hconn] at h
    exact List.mem_append_left _ h


end Mochi.Broker
