import Mochi.Lemmas.BrokerInv
import Mochi.Lemmas.IndexEntries
/-!
# Handlers that leave the registration of sessions and the subscription entries alone

`Quiet s s'`: the Clients map, the lists of parked handlers, every object's `id`, `subs`, `takenOver` are the
same, `stopped` only goes from false to true (together with `isOpen`), and every plain / shared lookup of the
topic index gives the same answer.  Reflexive and transitive; one `X_quiet` lemma per handler, in the style of
`Mochi/Lemmas/BrokerInv.lean` (`Good`).  Everything except SUBSCRIBE, UNSUBSCRIBE, the session clean-up
(`unsubscribeClient`, `detachB`, `tickClients`) and the takeover (`admitA`) is quiet.
-/
namespace Mochi.Broker
open Mochi.Topics

/-! ### client level -/

structure QC (a b : Client) : Prop where
  id : b.id = a.id
  subs : b.subs = a.subs
  takenOver : b.takenOver = a.takenOver
  /-- a stopped client stays stopped -/
  stop : a.stopped = true → b.stopped = true
  /-- `isOpen` is the negation of `stopped`, if it was -/
  os : a.isOpen = !a.stopped → b.isOpen = !b.stopped

macro "qc_rfl" : tactic => `(tactic| exact ⟨rfl, rfl, rfl, fun h => h, fun h => h⟩)

theorem QC.refl (a : Client) : QC a a := by qc_rfl
theorem QC.trans {a b c : Client} (h : QC a b) (g : QC b c) : QC a c :=
  ⟨g.id.trans h.id, g.subs.trans h.subs, g.takenOver.trans h.takenOver, fun x => g.stop (h.stop x),
   fun x => g.os (h.os x)⟩
theorem QC.of_eq {a b : Client} (h : a = b) : QC a b := h ▸ QC.refl a

theorem QC.of_sess {a b : Client} (h : SessEq a b) : QC a b :=
  ⟨h.id.symm, h.subs.symm, h.takenOver.symm, fun x => h.stopped ▸ x, fun x => by rw [← h.isOpen, ← h.stopped]; exact x⟩

theorem QC.flSet' (c : Client) (m : Msg) : QC c (flSet c m).1 := QC.of_sess (SessEq.flSet c m)
theorem QC.decSend' (c : Client) : QC c (decSend c) := QC.of_sess (SessEq.decSend c)
theorem QC.aliasOutSet' (c : Client) (t : Str) : QC c (aliasOutSet c t).1 := QC.of_sess (SessEq.aliasOutSet c t)
theorem QC.flDelete' (c : Client) (id : Nat) : QC c (flDelete c id).1 := by
  unfold Mochi.Broker.flDelete; qc_rfl
theorem QC.incSend' (c : Client) : QC c (incSend c) := by
  unfold Mochi.Broker.incSend; split
  · qc_rfl
  · exact QC.refl c
theorem QC.incRecv' (c : Client) : QC c (incRecv c) := by
  unfold Mochi.Broker.incRecv; split
  · qc_rfl
  · exact QC.refl c
theorem QC.decRecv' (c : Client) : QC c (decRecv c) := by
  unfold Mochi.Broker.decRecv; split
  · qc_rfl
  · exact QC.refl c

theorem QC.flSet {a b : Client} (h : QC a b) (m : Msg) : QC a (flSet b m).1 := h.trans (QC.flSet' b m)
theorem QC.flDelete {a b : Client} (h : QC a b) (id : Nat) : QC a (flDelete b id).1 := h.trans (QC.flDelete' b id)
theorem QC.decSend {a b : Client} (h : QC a b) : QC a (decSend b) := h.trans (QC.decSend' b)
theorem QC.decRecv {a b : Client} (h : QC a b) : QC a (decRecv b) := h.trans (QC.decRecv' b)
theorem QC.incSend {a b : Client} (h : QC a b) : QC a (incSend b) := h.trans (QC.incSend' b)
theorem QC.incRecv {a b : Client} (h : QC a b) : QC a (incRecv b) := h.trans (QC.incRecv' b)

theorem QC.get_set {s : Server} {i : Nat} {c d : Client} (h1 : QC (getObj s i) c) (h2 : QC c d) :
    QC (getObj (setObj s i c) i) d := by
  rcases getObj_setObj_self_cases s i c with e | e
  · rw [e]; exact h2
  · rw [e]; exact h1.trans h2

/-! ### server level -/

theorem plainAt_of_nodes {x y : Index} (h : y.nodes = x.nodes) (q : Path) (c : Str) : plainAt y q c = plainAt x q c := by
  unfold plainAt; rw [h]
theorem sharedAt_of_nodes {x y : Index} (h : y.nodes = x.nodes) (q : Path) (g c : Str) :
    sharedAt y q g c = sharedAt x q g c := by
  unfold sharedAt; rw [h]
theorem idxOK_of_nodes {x y : Index} (h : y.nodes = x.nodes) (hx : IdxOK x) : IdxOK y :=
  ⟨by rw [h]; exact hx.pc,
   ⟨fun q c sub hq => hx.pos.plain q c sub (by rw [← plainAt_of_nodes h]; exact hq),
    fun q g c sub hq => hx.pos.shared q g c sub (by rw [← sharedAt_of_nodes h]; exact hq)⟩,
   by rw [h]; exact hx.paths, by rw [h]; exact hx.keys⟩

structure Quiet (s s' : Server) : Prop where
  len : s'.objs.length = s.objs.length
  caps : s'.caps = s.caps
  connOf : s'.connOf = s.connOf
  clients : s'.clients = s.clients
  pending : s'.pending = s.pending
  parked : s'.parked = s.parked
  parkedEarly : s'.parkedEarly = s.parkedEarly
  obj : ∀ k, QC (getObj s k) (getObj s' k)
  idx : IdxOK s.topics → IdxOK s'.topics
  plain : ∀ q c, plainAt s'.topics q c = plainAt s.topics q c
  shared : ∀ q g c, sharedAt s'.topics q g c = sharedAt s.topics q g c

theorem Quiet.refl (s : Server) : Quiet s s :=
  ⟨rfl, rfl, rfl, rfl, rfl, rfl, rfl, fun _ => QC.refl _, fun h => h, fun _ _ => rfl, fun _ _ _ => rfl⟩

theorem Quiet.trans {s s1 s2 : Server} (h : Quiet s s1) (g : Quiet s1 s2) : Quiet s s2 :=
  ⟨g.len.trans h.len, g.caps.trans h.caps, g.connOf.trans h.connOf, g.clients.trans h.clients,
   g.pending.trans h.pending, g.parked.trans h.parked,
   g.parkedEarly.trans h.parkedEarly, fun k => (h.obj k).trans (g.obj k), fun x => g.idx (h.idx x),
   fun q c => (g.plain q c).trans (h.plain q c), fun q gr c => (g.shared q gr c).trans (h.shared q gr c)⟩

/-- a change to server fields other than `objs`, `caps`, `connOf`, `clients`, `pending`, `parked`, `parkedEarly` and the
    particles of the topic index -/
theorem Quiet.upd8 {s0 s s' : Server} (h : Quiet s0 s) (ho : s'.objs = s.objs := by rfl)
    (hcp : s'.caps = s.caps := by rfl) (hn : s'.connOf = s.connOf := by rfl) (hc : s'.clients = s.clients := by rfl)
    (hp : s'.pending = s.pending := by rfl) (hpk : s'.parked = s.parked := by rfl)
    (hpe : s'.parkedEarly = s.parkedEarly := by rfl) (ht : s'.topics.nodes = s.topics.nodes := by rfl) :
    Quiet s0 s' :=
  h.trans ⟨by rw [ho], hcp, hn, hc, hp, hpk, hpe, fun k => by rw [getObj_of_objs_eq ho k]; exact QC.refl _,
    idxOK_of_nodes ht, plainAt_of_nodes ht, sharedAt_of_nodes ht⟩

/-- writing an object `QC`-related to what was there -/
theorem Quiet.set {s0 s : Server} (h : Quiet s0 s) (i : Nat) (c : Client) (hc : QC (getObj s i) c) :
    Quiet s0 (setObj s i c) := by
  refine h.trans ⟨setObj_length s i c, rfl, rfl, rfl, rfl, rfl, rfl, fun k => ?_, fun x => x, fun _ _ => rfl,
    fun _ _ _ => rfl⟩
  by_cases hk : k = i
  · subst hk
    rcases getObj_setObj_self_cases s k c with e | e <;> rw [e]
    · exact hc
    · exact QC.refl _
  · rw [getObj_setObj_ne s i k c hk]; exact QC.refl _

theorem Quiet.mod {s0 s : Server} (h : Quiet s0 s) (i : Nat) (f : Client → Client)
    (hf : QC (getObj s i) (f (getObj s i))) : Quiet s0 (modObj s i f) := h.set i _ hf

theorem Quiet.fst_mk {α} {s0 x : Server} {y : α} (h : Quiet s0 x) : Quiet s0 (x, y).1 := h

theorem Quiet.ite_res {s : Server} {p : Prop} [Decidable p] {a b : HRes}
    (ha : p → Quiet s a.1) (hb : ¬ p → Quiet s b.1) : Quiet s (if p then a else b).1 := by
  by_cases h : p
  · rw [if_pos h]; exact ha h
  · rw [if_neg h]; exact hb h

/-- `retainMessage` changes particles, but no plain or shared lookup -/
theorem retainMsg_quiet (s : Server) (pk : Msg) : Quiet s (retainMsg s pk) := by
  unfold retainMsg
  split
  · exact Quiet.refl s
  · exact ⟨rfl, rfl, rfl, rfl, rfl, rfl, rfl, fun _ => QC.refl _, fun h => idxOK_retainMessage _ h _ _ _,
      fun q c => plainAt_retainMessage _ _ _ _ q c, fun q g c => sharedAt_retainMessage _ _ _ _ q g c⟩

theorem publishToClientCore_quiet (s : Server) (i : Nat) (sub : Sub) (f : Bool) (pk : Msg) :
    Quiet s (publishToClientCore s i sub f pk).1 := by
  unfold publishToClientCore
  extract_lets c out
  split
  rename_i c1 out1 heq
  have hc1 : QC c c1 := by
    split at heq
    · split at heq
      rename_i c' a ex h2
      have h3 := QC.aliasOutSet' c pk.topic
      rw [h2] at h3
      split at heq <;> (cases heq; exact h3)
    · cases heq; exact QC.refl _
  clear heq
  extract_lets s1
  have hs1 : Quiet s s1 := (Quiet.refl s).set i c1 hc1
  have hg1 : QC (getObj s1 i) c1 := QC.get_set hc1 (QC.refl _)
  split
  · split
    · exact hs1.upd8
    · split
      · exact hs1.upd8
      · rename_i pid _
        extract_lets c2 out2 sentQuota
        have hc2 : QC c1 c2 := by qc_rfl
        split
        rename_i c3 isNew hfl
        have hc3 : QC c1 c3 := by
          have := QC.flSet' c2 out2
          rw [hfl] at this
          exact hc2.trans this
        extract_lets c4 s2 src s3
        have hc4 : QC c1 c4 := by
          show QC c1 (if isNew = true then decSend c3 else c3)
          split
          · exact hc3.decSend
          · exact hc3
        have hs2 : Quiet s s2 := hs1.set i c4 (hg1.trans hc4)
        have hg2 : QC (getObj s2 i) c4 := QC.get_set (hg1.trans hc4) (QC.refl _)
        have hs3 : Quiet s s3 := by
          show Quiet s (if isNew = true then _ else _)
          split
          · exact hs2.upd8
          · exact hs2
        have hg3 : QC (getObj s3 i) c4 := by
          show QC (getObj (if isNew = true then _ else _) i) c4
          split
          · exact hg2
          · exact hg2
        split
        · exact hs3.set i _ (hg3.flSet _)
        · split <;> exact hs3
  · split <;> exact hs1


theorem publishToClient_quiet (s : Server) (i : Nat) (sub : Sub) (f : Bool) (pk : Msg) :
    Quiet s (publishToClient s i sub f pk).1 := by
  unfold publishToClient
  split
  · exact Quiet.refl s
  · split
    · exact Quiet.refl s
    · exact publishToClientCore_quiet s i sub f pk


theorem publishToSubscribers_quiet (s : Server) (pk : Msg) : Quiet s (publishToSubscribers s pk).1 := by
  unfold publishToSubscribers
  split
  · exact Quiet.refl s
  · extract_lets e pk' r subsMap inl
    refine foldl_inv (fun (acc : Server × List Out) => Quiet s acc.1) _ _ _ (Quiet.refl s) ?_
    intro acc cs h
    split
    · exact h
    · rename_i k _
      split
      rename_i s' o heq
      have := publishToClient_quiet acc.1 k cs.2 false pk'
      rw [heq] at this
      exact h.trans this


theorem publishRetainedToClient_quiet (s : Server) (i : Nat) (sub : Sub) (ex : Bool) (k : Nat) :
    Quiet s (publishRetainedToClient s i sub ex k).1 := by
  unfold publishRetainedToClient
  split
  · exact Quiet.refl s
  · split
    · exact Quiet.refl s
    · extract_lets sub'
      refine foldl_inv (fun (acc : Server × List Out) => Quiet s acc.1) _ _ _ (Quiet.refl s) ?_
      intro acc r h
      split
      · exact h
      · rename_i m _
        split
        rename_i s' o heq
        have := publishToClient_quiet acc.1 i sub' true m
        rw [heq] at this
        exact h.trans this


theorem stopClient_quiet (s : Server) (i : Nat) : Quiet s (stopClient s i).1 := by
  unfold stopClient
  extract_lets +onlyGivenNames c
  split
  · exact Quiet.refl s
  · exact (Quiet.refl s).set i _ ⟨rfl, rfl, rfl, fun _ => rfl, fun _ => rfl⟩


theorem disconnectClient_quiet (s : Server) (i : Nat) (code : Nat) : Quiet s (disconnectClient s i code).1 := by
  unfold disconnectClient
  extract_lets +onlyGivenNames c w
  split
  rename_i s' o heq
  have := stopClient_quiet s i
  rw [heq] at this
  exact this


theorem clearInflights_quiet (s : Server) (i : Nat) : Quiet s (clearInflights s i) := by
  unfold clearInflights
  extract_lets +onlyGivenNames c n
  have hc : QC c { c with inflight := [] } := by qc_rfl
  exact ((Quiet.refl s).set i _ hc).upd8


theorem processPuback_quiet (s : Server) (i id : Nat) : Quiet s (processPuback s i id).1 := by
  unfold processPuback
  extract_lets +onlyGivenNames c
  split
  · exact Quiet.refl s
  · extract_lets +onlyGivenNames c'
    exact ((Quiet.refl s).set i c' ((QC.flDelete' c id).incSend)).upd8


theorem processPubrec_quiet (s : Server) (i id rc : Nat) : Quiet s (processPubrec s i id rc).1 := by
  unfold processPubrec
  extract_lets +onlyGivenNames c
  split
  · rw [ackRes_fst]; exact Quiet.refl s
  · split
    · extract_lets +onlyGivenNames c'
      exact ((Quiet.refl s).set i c' (QC.flDelete' c id)).upd8
    · extract_lets +onlyGivenNames ack c' s1
      have hs1 : Quiet s s1 := (Quiet.refl s).set i c' ((QC.decRecv' c).flSet ack)
      split <;> exact hs1


theorem processPubrel_quiet (s : Server) (i id rc : Nat) : Quiet s (processPubrel s i id rc).1 := by
  unfold processPubrel
  extract_lets +onlyGivenNames c
  split
  · rw [ackRes_fst]; exact Quiet.refl s
  · split
    · extract_lets +onlyGivenNames c'
      exact ((Quiet.refl s).set i c' (QC.flDelete' c id)).upd8
    · extract_lets +onlyGivenNames ack c1 s1
      have hc1 : QC c c1 := QC.flSet' c ack
      have hs1 : Quiet s s1 := (Quiet.refl s).set i c1 hc1
      split
      · exact hs1
      · extract_lets +onlyGivenNames o c2
        split
        rename_i c3 ok heq
        extract_lets +onlyGivenNames s2
        have hc3 : QC c1 c3 := by
          have := QC.flDelete' c2 id
          rw [heq] at this
          exact ((QC.incRecv' c1).incSend).trans this
        have hs2 : Quiet s s2 := hs1.set i c3 (QC.get_set hc1 hc3)
        split
        · exact hs2.upd8
        · exact hs2


theorem processPubcomp_quiet (s : Server) (i id : Nat) : Quiet s (processPubcomp s i id).1 := by
  unfold processPubcomp
  extract_lets +onlyGivenNames c
  split
  rename_i c1 ok heq
  extract_lets +onlyGivenNames s1
  have hc1 : QC (getObj s i) c1 := by
    have := QC.flDelete' c id
    rw [heq] at this
    exact ((QC.incRecv' (getObj s i)).incSend).trans this
  have hs1 : Quiet s s1 := (Quiet.refl s).set i c1 hc1
  split
  · exact hs1.upd8
  · exact hs1


theorem nextImmediate_quiet (s : Server) (i : Nat) : Quiet s (nextImmediate s i).1 := by
  unfold nextImmediate
  extract_lets +onlyGivenNames c
  split
  · split
    · rename_i m _
      extract_lets +onlyGivenNames o
      split
      rename_i c1 ok heq
      extract_lets +onlyGivenNames s1
      have hc1 : QC c c1 := by
        have := QC.flDelete' c m.id
        rw [heq] at this
        exact this
      have hs0 : Quiet s { s with nextSeed := s.nextSeed / 64 } := (Quiet.refl s).upd8
      have hs1 : Quiet s s1 := hs0.set i _ hc1.decSend
      split
      · exact hs1.upd8
      · exact hs1
    · exact Quiet.refl s
  · exact Quiet.refl s


theorem processDisconnect_quiet (s : Server) (i rc : Nat) (sei : Option Nat) :
    Quiet s (processDisconnect s i rc sei).1 := by
  unfold processDisconnect
  extract_lets +onlyGivenNames c r
  have hr : ∀ s' c', r = some (s', c') → s' = s ∧ QC c c' := by
    intro s' c' h
    simp only [r] at h
    split at h
    · split at h
      · cases h
      · cases h; exact ⟨rfl, by qc_rfl⟩
    · cases h; exact ⟨rfl, QC.refl _⟩
  generalize r = r' at hr
  split
  · exact Quiet.refl s
  · rename_i s' c'
    obtain ⟨rfl, hc'⟩ := hr s' c' rfl
    extract_lets +onlyGivenNames s1
    have hs1 : Quiet s' s1 := (Quiet.refl s').set i c' hc'
    split
    · exact hs1
    · extract_lets +onlyGivenNames s2
      have hs2 : Quiet s' s2 := hs1.upd8
      split
      rename_i s3 o hst
      have := stopClient_quiet s2 i
      rw [hst] at this
      exact hs2.trans this


theorem sendLWT_quiet (s : Server) (i : Nat) : Quiet s (sendLWT s i).1 := by
  unfold sendLWT
  extract_lets +onlyGivenNames c
  split
  · exact Quiet.refl s
  · extract_lets +onlyGivenNames pk
    split
    · exact (Quiet.refl s).upd8
    · extract_lets +onlyGivenNames s1
      have hs1 : Quiet s s1 := by
        show Quiet s (if pk.retain = true then retainMsg s pk else s)
        split
        · exact retainMsg_quiet s pk
        · exact Quiet.refl s
      split
      rename_i s2 o heq
      have := publishToSubscribers_quiet s1 pk
      rw [heq] at this
      have h2 : Quiet s s2 := hs1.trans this
      refine Quiet.fst_mk ?_
      refine h2.mod _ _ ?_
      qc_rfl


theorem detachA_quiet (s : Server) (i : Nat) (withErr : Bool) : Quiet s (detachA s i withErr).1 := by
  unfold detachA
  split
  · split
    rename_i s2 o2 h2
    split
    rename_i s3 o3 h3
    have a := sendLWT_quiet s i
    rw [h2] at a
    have b := stopClient_quiet s2 i
    rw [h3] at b
    exact a.trans b
  · exact (Quiet.refl s).mod i (fun c => { c with will := {} }) (by qc_rfl)


theorem processPublish_quiet (s : Server) (i : Nat) (qos : Nat) (dup retain : Bool) (id : Nat) (topic payload : Str)
    (msgExpiry : Nat) (alias : Option Nat) :
    Quiet s (processPublish s i qos dup retain id topic payload msgExpiry alias).1 := by
  unfold processPublish
  extract_lets +onlyGivenNames c
  -- the three early exits share one shape
  have early : ∀ code, Quiet s
      (if (qos == 0) = true then ((s, [], none) : HRes)
        else if (c.ver != 5) = true then
          match disconnectClient s i code with
          | (s, o) => (s, o, some code)
        else ackRes s i (if (qos == 2) = true then 5 else 4) id code).1 := by
    intro code
    split
    · exact Quiet.refl s
    · split
      · split
        rename_i s' o heq
        have := disconnectClient_quiet s i code
        rw [heq] at this
        exact this
      · rw [ackRes_fst]; exact Quiet.refl s
  refine Quiet.ite_res (fun _ => early _) (fun _ => ?_)
  · refine Quiet.ite_res (fun _ => ?_) (fun _ => ?_)
    · split
      rename_i s' o heq
      have := disconnectClient_quiet s i 0x93
      rw [heq] at this
      exact this
    · refine Quiet.ite_res (fun _ => early _) (fun _ => ?_)
      · extract_lets +onlyGivenNames e pk pre
        have hpre : ∀ r, pre = some r → r.1 = s := by
          intro r h
          simp only [pre] at h
          split at h
          · cases h
          · split at h
            · split at h
              · cases h; exact ackRes_fst s i 5 id 0x91
              · cases h
            · cases h
        generalize pre = pre' at hpre
        split
        · rename_i r
          rw [hpre r rfl]
          exact Quiet.refl s
        · clear hpre
          split
          rename_i s1 c1 heq
          have h1 : Quiet s s1 ∧ QC (getObj s1 i) c1 := by
            split at heq
            · cases heq
              exact ⟨((Quiet.refl s).set i _ (QC.flDelete' c id)).upd8,
                     QC.get_set (QC.flDelete' c id) (QC.refl _)⟩
            · cases heq
              exact ⟨Quiet.refl s, QC.refl _⟩
          clear heq
          obtain ⟨hs1, ho1⟩ := h1
          split
          rename_i c2 pk2 heq
          have hc2 : QC c1 c2 := by
            split at heq
            · split at heq
              · split at heq
                · cases heq; exact QC.refl _
                · split at heq
                  · split at heq
                    · cases heq; exact QC.refl _
                    · cases heq; qc_rfl
                  · cases heq; qc_rfl
              · cases heq; exact QC.refl _
            · cases heq; exact QC.refl _
          clear heq
          extract_lets +onlyGivenNames s2
          have hs2 : Quiet s s2 := hs1.set i c2 (ho1.trans hc2)
          split
          · split
            rename_i s' o heq
            have := disconnectClient_quiet s2 i 0x82
            rw [heq] at this
            exact hs2.trans this
          extract_lets +onlyGivenNames pk3 mode
          split
          · exact hs2
          · split
            · rw [ackRes_fst]; exact hs2
            · extract_lets +onlyGivenNames pk4 s3
              have hs3 : Quiet s s3 := by
                show Quiet s (if pk4.retain = true then retainMsg s2 pk4 else s2)
                split
                · exact hs2.trans (retainMsg_quiet s2 pk4)
                · exact hs2
              split
              · split
                rename_i s4 o heq
                have := publishToSubscribers_quiet s3 pk4
                rw [heq] at this
                exact hs3.trans this
              · extract_lets +onlyGivenNames s4 ackT ackRC ack
                have hs4 : Quiet s s4 := hs3.mod i decRecv (QC.decRecv' _)
                split
                rename_i c5 isNew heq
                have hc5 : QC (getObj s4 i) c5 := by
                  have := QC.flSet' (getObj s4 i) ack
                  rw [heq] at this
                  exact this
                clear heq
                extract_lets +onlyGivenNames s5 src s6
                have hs5 : Quiet s s5 := hs4.set i c5 hc5
                have hs6 : Quiet s s6 := by
                  show Quiet s (if isNew = true then _ else s5)
                  split
                  · exact hs5.upd8
                  · exact hs5
                split
                · exact hs6
                · extract_lets +onlyGivenNames o1 s7
                  have hs7 : Quiet s s7 := by
                    show Quiet s (if (pk4.qos == 1) = true then _ else s6)
                    split
                    · split
                      rename_i c6 ok heq
                      have hc6 : QC (getObj s6 i) c6 := by
                        have := QC.flDelete' (getObj s6 i) id
                        rw [heq] at this
                        exact this
                      extract_lets +onlyGivenNames s8
                      have hs8 : Quiet s s8 := hs6.set i _ hc6.incRecv
                      split
                      · exact hs8.upd8
                      · exact hs8
                    · exact hs6
                  split
                  rename_i s9 o2 heq
                  have := publishToSubscribers_quiet s7 pk4
                  rw [heq] at this
                  exact hs7.trans this


theorem admitConnack_quiet (s : Server) (i conn : Nat) (present : Bool) : Quiet s (admitConnack s i conn present).1 := by
  unfold admitConnack
  extract_lets +onlyGivenNames cl
  split
  rename_i s' seiOut heq
  show Quiet s s'
  split at heq
  · cases heq
    exact (Quiet.refl s).mod i _ (by qc_rfl)
  · cases heq
    exact Quiet.refl s


theorem admitC_quiet (s : Server) (i : Nat) (k : Connect) (present : Bool) : Quiet s (admitC s i k present).1 := by
  unfold admitC
  extract_lets +onlyGivenNames s1
  have hs1 : Quiet s s1 := (Quiet.refl s).upd8
  split
  · refine foldl_inv (fun (acc : Server × List Out) => Quiet s acc.1) _ _ _ hs1 ?_
    intro acc m h
    extract_lets +onlyGivenNames m' o s'
    show Quiet s s'
    show Quiet s (if (m.type == 4 || m.type == 7) = true then _ else acc.1)
    split
    · split
      rename_i c' ok heq
      extract_lets +onlyGivenNames s''
      have hc' : QC (getObj acc.1 i) c' := by
        have := QC.flDelete' (getObj acc.1 i) m.id
        rw [heq] at this
        exact this
      have h2 : Quiet s s'' := h.set i c' hc'
      split
      · exact h2.upd8
      · exact h2
    · exact h
  · exact hs1


theorem tickRetained_quiet (s : Server) (now : Int) : Quiet s (tickRetained s now) := by
  unfold tickRetained
  extract_lets +onlyGivenNames s1
  refine Quiet.upd8 (s := s1) ?_
  show Quiet s (tickRetained.tickRetainedLoop s now)
  unfold tickRetained.tickRetainedLoop
  refine foldl_inv (fun (x : Server) => Quiet s x) _ _ _ (Quiet.refl s) ?_
  intro b e h
  extract_lets +onlyGivenNames pk expired enforced
  split
  · exact h.upd8
  · exact h


theorem tickInflight_quiet (s : Server) (now : Int) : Quiet s (tickInflight s now) := by
  unfold tickInflight
  refine foldl_inv (fun (x : Server) => Quiet s x) _ _ _ (Quiet.refl s) ?_
  intro b e h
  extract_lets +onlyGivenNames c
  refine foldl_inv (fun (x : Server) => Quiet s x) _ _ _ h ?_
  intro b2 m h2
  extract_lets +onlyGivenNames expired enforced
  split
  · split
    rename_i c' ok heq
    extract_lets +onlyGivenNames s1
    have hc' : QC (getObj b2 e.2) c' := by
      have := QC.flDelete' (getObj b2 e.2) m.id
      rw [heq] at this
      exact this
    have h3 : Quiet s s1 := h2.set e.2 c' hc'
    split
    · exact h3.upd8
    · exact h3
  · exact h2


theorem tickWills_quiet (s : Server) (dt : Int) : Quiet s (tickWills s dt).1 := by
  unfold tickWills
  refine foldl_inv (fun (acc : Server × List Out) => Quiet s acc.1) _ _ _ (Quiet.refl s) ?_
  intro acc e h
  split
  · split
    rename_i s1 o h1
    have g1 : Quiet s s1 := by
      have := publishToSubscribers_quiet acc.1 e.2
      rw [h1] at this
      exact h.trans this
    split
    rename_i s2 o2 h2
    have g2 : Quiet s s2 := by
      split at h2
      · rename_i i _
        extract_lets +onlyGivenNames s3 at h2
        rw [← (Prod.mk.inj h2).1]
        have g3 : Quiet s s3 := by
          show Quiet s (if e.2.retain = true then retainMsg s1 e.2 else s1)
          split
          · exact g1.trans (retainMsg_quiet s1 e.2)
          · exact g1
        exact g3.mod i _ (by qc_rfl)
      · cases h2; exact g1
    exact g2.upd8
  · exact h

end Mochi.Broker
