import Mochi.Spec.TopicsRun
import Mochi.Lemmas.Topics
/-!
# The flattened topic trie refines the plain set/map index

For every history of index operations the trie `runOps ops` and the reference `absRun ops` agree on
every lookup, and every operation returns the same value on both.
-/
namespace Mochi.Topics

/-! ### association lists -/

theorem assocGet_assocSet {α β} [DecidableEq α] (m : List (α × β)) (k k' : α) (v : β) :
    assocGet (assocSet m k v) k' = if k' = k then some v else assocGet m k' := by
  induction m with
  | nil =>
    simp only [assocSet, assocGet]
    by_cases h : k = k'
    · subst h; simp
    · have : ¬ k' = k := fun e => h e.symm
      simp [h, this]
  | cons kv rest ih =>
    obtain ⟨k0, v0⟩ := kv
    simp only [assocSet]
    by_cases h0 : k0 = k
    · subst h0
      simp only [if_true, assocGet]
      by_cases h : k0 = k'
      · subst h; simp
      · have : ¬ k' = k0 := fun e => h e.symm
        simp [h, this]
    · simp only [h0, if_false, assocGet, ih]
      by_cases h : k0 = k'
      · subst h; simp [h0]
      · simp [h]

theorem assocGet_assocDel {α β} [DecidableEq α] (m : List (α × β)) (k k' : α) :
    assocGet (assocDel m k) k' = if k' = k then none else assocGet m k' := by
  induction m with
  | nil => simp [assocDel, assocGet]
  | cons kv rest ih =>
    obtain ⟨k0, v0⟩ := kv
    unfold assocDel at ih ⊢
    by_cases h0 : k0 = k
    · subst h0
      simp only [List.filter_cons, ne_eq, not_true_eq_false, decide_false, Bool.false_eq_true,
        if_false, ih, assocGet]
      by_cases h : k' = k0
      · simp [h]
      · have : ¬ k0 = k' := fun e => h e.symm
        simp [h, this]
    · simp only [List.filter_cons, ne_eq, h0, not_false_eq_true, decide_true, if_true, assocGet, ih]
      by_cases h : k0 = k'
      · subst h; simp [h0]
      · simp [h]

theorem assocGet_append {α β} [DecidableEq α] (m m' : List (α × β)) (k : α) :
    assocGet (m ++ m') k = (assocGet m k).or (assocGet m' k) := by
  induction m with
  | nil => simp [assocGet]
  | cons kv rest ih =>
    obtain ⟨k0, v0⟩ := kv
    simp only [List.cons_append, assocGet, ih]
    split <;> simp

theorem assocGet_nil {α β} [DecidableEq α] (k : α) : assocGet ([] : List (α × β)) k = none := rfl

theorem assocGet_mem {α β} [DecidableEq α] (m : List (α × β)) (k : α) (v : β)
    (h : assocGet m k = some v) : (k, v) ∈ m := by
  induction m with
  | nil => simp [assocGet] at h
  | cons kv rest ih =>
    obtain ⟨k0, v0⟩ := kv
    simp only [assocGet] at h
    split at h
    · rename_i hk
      simp only [Option.some.injEq] at h
      simp [hk, h]
    · exact List.mem_cons_of_mem _ (ih h)

/-! ### shared subscriptions -/

theorem sharedGet_sharedAdd (sh : List (Str × List (Str × Sub))) (g c g' c' : Str) (s : Sub) :
    sharedGet (sharedAdd sh g c s) g' c' = if g' = g ∧ c' = c then some s else sharedGet sh g' c' := by
  unfold sharedAdd
  cases hg : assocGet sh g with
  | none =>
    simp only [sharedGet, assocGet_append]
    by_cases hgg : g' = g
    · subst hgg
      simp only [hg, Option.none_or, assocGet, if_true, true_and]
      by_cases hc : c = c'
      · subst hc; simp
      · have : ¬ c' = c := fun e => hc e.symm
        simp [hc, this]
    · have : ¬ g = g' := fun e => hgg e.symm
      simp only [assocGet, this, if_false, Option.or_none, hgg, false_and]
  | some m =>
    simp only [sharedGet, assocGet_assocSet]
    by_cases hgg : g' = g
    · subst hgg
      simp only [if_true, true_and, assocGet_assocSet, hg]
    · simp [hgg]

theorem sharedGet_sharedDel (sh : List (Str × List (Str × Sub))) (g c g' c' : Str) :
    sharedGet (sharedDel sh g c) g' c' = if g' = g ∧ c' = c then none else sharedGet sh g' c' := by
  unfold sharedDel
  cases hg : assocGet sh g with
  | none =>
    simp only [sharedGet]
    by_cases hgg : g' = g
    · subst hgg; simp [hg]
    · simp [hgg]
  | some m =>
    simp only
    split
    · rename_i he
      have he' : assocDel m c = [] := by simpa using he
      simp only [sharedGet, assocGet_assocDel]
      by_cases hgg : g' = g
      · subst hgg
        simp only [if_true, true_and, hg]
        by_cases hc : c' = c
        · simp [hc]
        · have := assocGet_assocDel m c c'
          rw [he'] at this
          simp only [hc, if_false, assocGet_nil] at this
          simp [hc, this]
      · simp [hgg]
    · simp only [sharedGet, assocGet_assocSet]
      by_cases hgg : g' = g
      · subst hgg
        simp only [if_true, true_and, assocGet_assocDel, hg]
      · simp [hgg]

theorem sharedLen_mem (sh : List (Str × List (Str × Sub))) (h : sharedLen sh = 0) (gm : Str × List (Str × Sub))
    (hm : gm ∈ sh) : gm.2 = [] := by
  induction sh with
  | nil => simp at hm
  | cons x rest ih =>
    simp only [sharedLen, List.map_cons, List.sum_cons] at h ih
    rcases List.mem_cons.mp hm with rfl | hm
    · exact List.eq_nil_of_length_eq_zero (by omega)
    · exact ih (by omega) hm

theorem sharedGet_of_sharedLen (sh : List (Str × List (Str × Sub))) (h : sharedLen sh = 0) (g c : Str) :
    sharedGet sh g c = none := by
  unfold sharedGet
  cases hg : assocGet sh g with
  | none => rfl
  | some m =>
    have : m = [] := sharedLen_mem sh h (g, m) (assocGet_mem sh g m hg)
    subst this
    rfl

/-! ### node lookups -/

theorem getNode_path {ns : List Node} {q : Path} {n : Node} (h : getNode ns q = some n) : n.path = q := by
  unfold getNode at h
  simpa using List.find?_some h

theorem getNode_mem {ns : List Node} {q : Path} {n : Node} (h : getNode ns q = some n) : n ∈ ns := by
  unfold getNode at h
  exact List.mem_of_find?_eq_some h

theorem getNode_cons (m : Node) (rest : List Node) (q : Path) :
    getNode (m :: rest) q = if m.path = q then some m else getNode rest q := by
  unfold getNode
  rw [List.find?_cons]
  by_cases h : m.path = q
  · have : (m.path == q) = true := by simp [h]
    rw [this]; simp [h]
  · have : (m.path == q) = false := by simp [h]
    rw [this]; simp [h]

theorem getNode_nil (q : Path) : getNode [] q = none := rfl

theorem putNode_cons (m : Node) (rest : List Node) (n : Node) :
    putNode (m :: rest) n = (if m.path = n.path then n else m) :: putNode rest n := by
  unfold putNode
  by_cases h : m.path = n.path <;> simp [h]

theorem hasNode_eq_isSome (ns : List Node) (q : Path) : hasNode ns q = (getNode ns q).isSome := by
  induction ns with
  | nil => rfl
  | cons m rest ih =>
    rw [getNode_cons]
    unfold hasNode at ih ⊢
    rw [List.any_cons, ih]
    by_cases h : m.path = q <;> simp [h]

theorem getNode_append (ns ms : List Node) (q : Path) :
    getNode (ns ++ ms) q = (getNode ns q).or (getNode ms q) := by
  unfold getNode; exact List.find?_append

theorem getNode_putNode_ne (ns : List Node) (n : Node) (q : Path) (h : q ≠ n.path) :
    getNode (putNode ns n) q = getNode ns q := by
  induction ns with
  | nil => rfl
  | cons m rest ih =>
    rw [putNode_cons, getNode_cons, getNode_cons, ih]
    by_cases hm : m.path = n.path
    · have hq : ¬ n.path = q := fun e => h e.symm
      have hq' : ¬ m.path = q := by rw [hm]; exact hq
      simp [hm, hq]
    · simp [hm]

theorem getNode_putNode_eq (ns : List Node) (n m : Node) (h : getNode ns n.path = some m) :
    getNode (putNode ns n) n.path = some n := by
  induction ns with
  | nil => simp [getNode_nil] at h
  | cons m' rest ih =>
    rw [putNode_cons, getNode_cons]
    rw [getNode_cons] at h
    by_cases hm : m'.path = n.path
    · simp [hm]
    · simp only [hm, if_false] at h ⊢
      exact ih h

theorem getNode_putNode_none (ns : List Node) (n : Node) (q : Path) (h : getNode ns q = none) :
    getNode (putNode ns n) q = none := by
  induction ns with
  | nil => rfl
  | cons m' rest ih =>
    rw [putNode_cons, getNode_cons]
    rw [getNode_cons] at h
    by_cases hq : m'.path = q
    · simp [hq] at h
    · simp only [hq, if_false] at h
      have : ¬ (if m'.path = n.path then n else m').path = q := by
        split
        · rename_i he
          rw [← he]; exact hq
        · exact hq
      simp only [this, if_false]
      exact ih h

theorem prefixes_ne_nil (p q : Path) (h : q ∈ prefixes p) : q ≠ [] := by
  rw [mem_prefixes] at h
  obtain ⟨k, hk1, hk2, rfl⟩ := h
  intro he
  have := congrArg List.length he
  rw [List.length_take] at this
  simp only [List.length_nil] at this
  omega

theorem self_mem_prefixes (p : Path) (h : p ≠ []) : p ∈ prefixes p := by
  rw [mem_prefixes]
  exact ⟨p.length, by cases p <;> simp_all, Nat.le_refl _, by simp⟩

theorem getNode_foldl_set (qs : List Path) (ns : List Node) (q : Path) :
    getNode (qs.foldl (fun acc q => if hasNode acc q then acc else acc ++ [{ path := q }]) ns) q =
      (getNode ns q).or (if q ∈ qs then some { path := q } else none) := by
  induction qs generalizing ns with
  | nil => simp
  | cons q0 rest ih =>
    simp only [List.foldl_cons, ih, List.mem_cons]
    by_cases h : hasNode ns q0 = true
    · simp only [h, if_true]
      by_cases hq : q = q0
      · subst hq
        rw [hasNode_eq_isSome] at h
        cases hg : getNode ns q with
        | none => simp [hg] at h
        | some n => simp
      · simp [hq]
    · have h' : hasNode ns q0 = false := by simpa using h
      simp only [h', Bool.false_eq_true, if_false, getNode_append]
      by_cases hq : q = q0
      · subst hq
        simp [getNode]
      · have : ¬ q0 = q := fun e => hq e.symm
        simp [getNode, hq, this]

theorem getNode_setPath (ns : List Node) (p q : Path) :
    getNode (setPath ns p) q = (getNode ns q).or (if q ∈ prefixes p then some { path := q } else none) := by
  unfold setPath; exact getNode_foldl_set _ _ _

theorem getNode_setPath_self (ns : List Node) (p : Path) (h : p ≠ []) :
    ∃ n, getNode (setPath ns p) p = some n := by
  rw [getNode_setPath]
  simp only [self_mem_prefixes p h, if_true]
  cases getNode ns p <;> simp

theorem seek_eq_getNode (ns : List Node) (hpc : PrefixClosed ns) (p : Path) : seek ns p = getNode ns p := by
  unfold seek
  split
  · rfl
  · rename_i hall
    cases hg : getNode ns p with
    | none => rfl
    | some n =>
      exfalso; apply hall
      rw [List.all_eq_true]
      intro q hq
      rw [mem_prefixes] at hq
      obtain ⟨k, hk1, hk2, rfl⟩ := hq
      apply hpc p _ k hk1 hk2
      rw [hasNode_eq_isSome, hg]; rfl

theorem pathFrom_ne_nil (ls : Path) (d : Nat) : pathFrom ls d ≠ [] := by
  unfold pathFrom
  split
  · rename_i h
    intro he
    have := congrArg List.length he
    simp at this
    omega
  · simp

theorem pathFrom_zero (ls : Path) (h : ls ≠ []) : pathFrom ls 0 = ls := by
  unfold pathFrom
  have : 0 < ls.length := by cases ls <;> simp_all
  simp [this]

/-! ### particles that hold nothing -/

/-- a particle that holds no subscription of any kind and no retained path -/
def dead (n : Node) : Prop :=
  n.retainPath = [] ∧ n.subs = [] ∧ sharedLen n.shared = 0 ∧ n.inline = []

/-- a projection of a particle that sees nothing in a particle that holds nothing -/
def DeadNone {β : Type} (π : Node → Option β) : Prop := ∀ n, dead n → π n = none

/-- the retained path of a particle, `none` when unset -/
def pRet (n : Node) : Option Str := if n.retainPath = [] then none else some n.retainPath

theorem dead_fresh (q : Path) : dead { path := q } := ⟨rfl, rfl, rfl, rfl⟩

theorem dead_of_nodeEmpty (ns : List Node) (n : Node) (h : nodeEmpty ns n = true) : dead n := by
  unfold nodeEmpty at h
  simp only [Bool.and_eq_true, beq_iff_eq, List.isEmpty_iff] at h
  obtain ⟨h1, h2⟩ := h
  exact ⟨h1, List.eq_nil_of_length_eq_zero (by omega), by omega, List.eq_nil_of_length_eq_zero (by omega)⟩

theorem live_of_not_dead (n : Node) (h : ¬ dead n) : live n := by
  unfold dead at h
  unfold live
  by_cases h1 : n.retainPath = []
  · by_cases h2 : n.subs = []
    · by_cases h3 : sharedLen n.shared = 0
      · by_cases h4 : n.inline = []
        · exact absurd ⟨h1, h2, h3, h4⟩ h
        · exact Or.inr (Or.inr (Or.inr h4))
      · exact Or.inr (Or.inr (Or.inl h3))
    · exact Or.inr (Or.inl h2)
  · exact Or.inl h1

theorem deadNone_subs (c : Str) : DeadNone (fun n => assocGet n.subs c) := by
  intro n h; simp only [h.2.1]; rfl

theorem deadNone_shared (g c : Str) : DeadNone (fun n => sharedGet n.shared g c) := by
  intro n h; exact sharedGet_of_sharedLen _ h.2.2.1 g c

theorem deadNone_inline (i : Nat) : DeadNone (fun n => assocGet n.inline i) := by
  intro n h; simp only [h.2.2.2]; rfl

theorem deadNone_pRet : DeadNone pRet := by
  intro n h; simp [pRet, h.1]

theorem getNode_filter_self (ns : List Node) (p : Path) :
    getNode (ns.filter (fun m => m.path != p)) p = none := by
  induction ns with
  | nil => rfl
  | cons m rest ih =>
    rw [List.filter_cons]
    by_cases h : m.path = p
    · simp [h, ih]
    · have : (m.path != p) = true := by simp [h]
      simp only [this, if_true]
      rw [getNode_cons]; simp [h, ih]

/-- what `trim` does to a lookup: nothing, or it removed a particle that held nothing -/
theorem getNode_trim (ns : List Node) (p : Path) (fuel : Nat) (q : Path) :
    getNode (trim ns p fuel) q = getNode ns q ∨
      (getNode (trim ns p fuel) q = none ∧ ∃ n, getNode ns q = some n ∧ dead n) := by
  induction fuel generalizing ns p with
  | zero => unfold trim; exact Or.inl rfl
  | succ fuel ih =>
    unfold trim
    split
    · exact Or.inl rfl
    · split
      · exact Or.inl rfl
      · rename_i n hn
        split
        · rename_i he
          by_cases hqp : q = p
          · subst hqp
            right
            refine ⟨?_, n, hn, dead_of_nodeEmpty ns n he⟩
            rcases ih (ns.filter (fun m => m.path != q)) q.dropLast with h | ⟨h, _⟩
            · rw [h]; exact getNode_filter_self ns q
            · exact h
          · have := ih (ns.filter (fun m => m.path != p)) p.dropLast
            rw [getNode_filter_ne _ _ _ hqp] at this
            exact this
        · exact Or.inl rfl

theorem look_trim {β : Type} (π : Node → Option β) (hπ : DeadNone π) (ns : List Node) (p : Path)
    (fuel : Nat) (q : Path) : (getNode (trim ns p fuel) q).bind π = (getNode ns q).bind π := by
  rcases getNode_trim ns p fuel q with h | ⟨h, n, hn, hd⟩
  · rw [h]
  · rw [h, hn]; simp [hπ n hd]

theorem look_setPath {β : Type} (π : Node → Option β) (hπ : DeadNone π) (ns : List Node) (p q : Path) :
    (getNode (setPath ns p) q).bind π = (getNode ns q).bind π := by
  rw [getNode_setPath]
  cases hg : getNode ns q with
  | some n => simp
  | none =>
    split
    · simp [hπ _ (dead_fresh q)]
    · simp

/-- the lookups of `ns'` are those of `ns`, except that the particle at `p` is `n'` -/
def PointUpd (ns ns' : List Node) (p : Path) (n' : Node) : Prop :=
  ∀ (β : Type) (π : Node → Option β), DeadNone π → ∀ q,
    (getNode ns' q).bind π = if q = p then π n' else (getNode ns q).bind π

theorem pointUpd_put (ns : List Node) (p : Path) (n n' : Node) (hn : getNode ns p = some n)
    (hp : n'.path = p) : PointUpd ns (putNode ns n') p n' := by
  intro β π _ q
  subst hp
  by_cases hq : q = n'.path
  · subst hq
    rw [getNode_putNode_eq ns n' n hn]; simp
  · rw [getNode_putNode_ne ns n' q hq]; simp [hq]

theorem pointUpd_setput (ns : List Node) (p : Path) (n n' : Node)
    (hn : getNode (setPath ns p) p = some n) (hp : n'.path = p) :
    PointUpd ns (putNode (setPath ns p) n') p n' := by
  intro β π hπ q
  rw [pointUpd_put (setPath ns p) p n n' hn hp _ π hπ q, look_setPath π hπ]

theorem pointUpd_trim (ns ns' : List Node) (p : Path) (n' : Node) (h : PointUpd ns ns' p n')
    (p' : Path) (fuel : Nat) : PointUpd ns (trim ns' p' fuel) p n' := by
  intro β π hπ q
  rw [look_trim π hπ, h _ π hπ q]

theorem old_setPath {β : Type} (π : Node → Option β) (hπ : DeadNone π) (ns : List Node) (p : Path) (n : Node)
    (hn : getNode (setPath ns p) p = some n) : π n = (getNode ns p).bind π := by
  rw [← look_setPath π hπ ns p p, hn]; rfl

theorem old_get {β : Type} (π : Node → Option β) (ns : List Node) (p : Path) (n : Node)
    (hn : getNode ns p = some n) : π n = (getNode ns p).bind π := by
  rw [hn]; rfl

theorem look_unchanged {β : Type} (π : Node → Option β) (hπ : DeadNone π) {ns ns' : List Node} {p : Path}
    {n n' : Node} (hu : PointUpd ns ns' p n') (hold : π n = (getNode ns p).bind π) (hsame : π n' = π n)
    (q : Path) : (getNode ns' q).bind π = (getNode ns q).bind π := by
  rw [hu _ π hπ q]
  split
  · rename_i hq; subst hq; rw [hsame, hold]
  · rfl

/-! ### the simulation relation, through lookups only -/

structure Sim (ns : List Node) (ret : List (Str × Retained)) (a : Abs) : Prop where
  subs : ∀ (q : Path) (c : Str), (getNode ns q).bind (fun n => assocGet n.subs c) = assocGet a.subs (c, q)
  shared : ∀ (q : Path) (g c : Str),
    (getNode ns q).bind (fun n => sharedGet n.shared g c) = assocGet a.shared (c, g, q)
  inline : ∀ (q : Path) (i : Nat), (getNode ns q).bind (fun n => assocGet n.inline i) = assocGet a.inline (i, q)
  retained : ret = a.retained
  rsound : ∀ (q : Path) (r : Str), (getNode ns q).bind pRet = some r →
    splitLevels r = q ∧ (assocGet ret r).isSome
  rhas : ∀ t, t ≠ [] → (assocGet ret t).isSome → (getNode ns (splitLevels t)).bind pRet = some t

theorem sim_empty : Sim [] [] {} :=
  ⟨fun _ _ => rfl, fun _ _ _ => rfl, fun _ _ => rfl, rfl, fun _ _ h => by simp [getNode_nil] at h,
   fun _ _ h => by simp [assocGet_nil] at h⟩

/-- an operation that leaves the retained map and every retained path alone keeps the retain clauses -/
theorem sim_of_ret_unchanged {ns ns' : List Node} {ret : List (Str × Retained)} {a a' : Abs}
    (h : Sim ns ret a) (hret : a'.retained = a.retained)
    (hr : ∀ q, (getNode ns' q).bind pRet = (getNode ns q).bind pRet)
    (hsubs : ∀ (q : Path) (c : Str), (getNode ns' q).bind (fun n => assocGet n.subs c) = assocGet a'.subs (c, q))
    (hshared : ∀ (q : Path) (g c : Str),
      (getNode ns' q).bind (fun n => sharedGet n.shared g c) = assocGet a'.shared (c, g, q))
    (hinline : ∀ (q : Path) (i : Nat),
      (getNode ns' q).bind (fun n => assocGet n.inline i) = assocGet a'.inline (i, q)) :
    Sim ns' ret a' :=
  ⟨hsubs, hshared, hinline, h.retained.trans hret.symm,
   fun q r hq => h.rsound q r (by rw [← hr]; exact hq),
   fun t ht hs => by rw [hr]; exact h.rhas t ht hs⟩

theorem sim_subscribe (x : Index) (a : Abs) (h : Sim x.nodes x.retained a) (c : Str) (s : Sub) :
    Sim (subscribe x c s).1.nodes (subscribe x c s).1.retained (a.subscribe c s).1 := by
  unfold subscribe Abs.subscribe
  simp only
  split
  · obtain ⟨n, hn⟩ := getNode_setPath_self x.nodes (pathFrom (splitLevels s.filter) 2) (pathFrom_ne_nil _ _)
    simp only [hn]
    have hu := pointUpd_setput x.nodes _ n { n with shared := sharedAdd n.shared (isolate (splitLevels s.filter) 1).1 c s }
      hn (getNode_path hn : n.path = _)
    have hold : ∀ {β : Type} (π : Node → Option β), DeadNone π → π n = (getNode x.nodes _).bind π :=
      fun π hπ => old_setPath π hπ _ _ _ hn
    refine sim_of_ret_unchanged h rfl ?_ ?_ ?_ ?_
    · exact look_unchanged _ deadNone_pRet hu (hold _ deadNone_pRet) rfl
    · intro q c'
      rw [look_unchanged _ (deadNone_subs c') hu (hold _ (deadNone_subs c')) rfl]
      exact h.subs q c'
    · intro q g c'
      rw [hu _ _ (deadNone_shared g c') q]
      simp only [sharedGet_sharedAdd, assocGet_assocSet, Prod.mk.injEq]
      have := hold _ (deadNone_shared g c')
      by_cases hq : q = pathFrom (splitLevels s.filter) 2
      · subst hq
        simp only [if_true, and_true, this, h.shared]
        by_cases hc : c' = c <;> by_cases hg : g = (isolate (splitLevels s.filter) 1).1 <;> simp [hc, hg]
      · simp [hq, h.shared]
    · intro q i
      rw [look_unchanged _ (deadNone_inline i) hu (hold _ (deadNone_inline i)) rfl]
      exact h.inline q i
  · obtain ⟨n, hn⟩ := getNode_setPath_self x.nodes (pathFrom (splitLevels s.filter) 0) (pathFrom_ne_nil _ _)
    simp only [hn]
    have hu := pointUpd_setput x.nodes _ n { n with subs := assocSet n.subs c s } hn (getNode_path hn : n.path = _)
    have hold : ∀ {β : Type} (π : Node → Option β), DeadNone π → π n = (getNode x.nodes _).bind π :=
      fun π hπ => old_setPath π hπ _ _ _ hn
    refine sim_of_ret_unchanged h rfl ?_ ?_ ?_ ?_
    · exact look_unchanged _ deadNone_pRet hu (hold _ deadNone_pRet) rfl
    · intro q c'
      rw [hu _ _ (deadNone_subs c') q]
      simp only [assocGet_assocSet, Prod.mk.injEq]
      have := hold _ (deadNone_subs c')
      by_cases hq : q = pathFrom (splitLevels s.filter) 0
      · subst hq
        simp only [if_true, and_true, this, h.subs]
      · simp [hq, h.subs]
    · intro q g c'
      rw [look_unchanged _ (deadNone_shared g c') hu (hold _ (deadNone_shared g c')) rfl]
      exact h.shared q g c'
    · intro q i
      rw [look_unchanged _ (deadNone_inline i) hu (hold _ (deadNone_inline i)) rfl]
      exact h.inline q i

theorem sim_unsubscribe (x : Index) (a : Abs) (hpc : PrefixClosed x.nodes) (h : Sim x.nodes x.retained a)
    (f c : Str) :
    Sim (unsubscribe x f c).1.nodes (unsubscribe x f c).1.retained (a.unsubscribe f c).1 := by
  unfold unsubscribe Abs.unsubscribe
  simp only [seek_eq_getNode _ hpc]
  by_cases hs : isShare (isolate (splitLevels f) 0).1 = true
  · by_cases h1 : (isolate (splitLevels f) 1).2 = true
    case neg =>
      have h1' : (isolate (splitLevels f) 1).2 = false := by simpa using h1
      simp only [hs, h1', Bool.not_false, Bool.and_self, if_true]
      exact h
    simp only [hs, h1, Bool.not_true, Bool.and_false, Bool.false_eq_true, if_false, if_true]
    cases hg : getNode x.nodes (pathFrom (splitLevels f) 2) with
    | none =>
      simp only
      refine sim_of_ret_unchanged h rfl (fun _ => rfl) h.subs ?_ h.inline
      intro q g c'
      simp only [assocGet_assocDel, Prod.mk.injEq]
      split
      · rename_i he
        obtain ⟨rfl, rfl, rfl⟩ := he
        rw [hg]; rfl
      · exact h.shared q g c'
    | some n =>
      simp only
      have hu := pointUpd_trim _ _ _ _ (pointUpd_put x.nodes _ n
        { n with shared := sharedDel n.shared (isolate (splitLevels f) 1).1 c } hg (getNode_path hg : n.path = _))
        (pathFrom (splitLevels f) 2) (pathFrom (splitLevels f) 2).length
      have hold : ∀ {β : Type} (π : Node → Option β), π n = (getNode x.nodes _).bind π :=
        fun π => old_get π _ _ _ hg
      refine sim_of_ret_unchanged h rfl ?_ ?_ ?_ ?_
      · exact look_unchanged _ deadNone_pRet hu (hold pRet) rfl
      · intro q c'
        rw [look_unchanged _ (deadNone_subs c') hu (hold (fun n => assocGet n.subs c')) rfl]
        exact h.subs q c'
      · intro q g c'
        rw [hu _ _ (deadNone_shared g c') q]
        simp only [sharedGet_sharedDel, assocGet_assocDel, Prod.mk.injEq]
        have := hold (fun n => sharedGet n.shared g c')
        by_cases hq : q = pathFrom (splitLevels f) 2
        · subst hq
          simp only [if_true, and_true, this, h.shared]
          by_cases hc : c' = c <;> by_cases hg : g = (isolate (splitLevels f) 1).1 <;> simp [hc, hg]
        · simp [hq, h.shared]
      · intro q i
        rw [look_unchanged _ (deadNone_inline i) hu (hold (fun n => assocGet n.inline i)) rfl]
        exact h.inline q i
  · simp only [hs, Bool.false_eq_true, Bool.false_and, if_false]
    cases hg : getNode x.nodes (pathFrom (splitLevels f) 0) with
    | none =>
      refine sim_of_ret_unchanged h rfl (fun _ => rfl) ?_ h.shared h.inline
      intro q c'
      simp only [assocGet_assocDel, Prod.mk.injEq]
      split
      · rename_i he
        obtain ⟨rfl, rfl⟩ := he
        rw [hg]; rfl
      · exact h.subs q c'
    | some n =>
      have hu := pointUpd_trim _ _ _ _ (pointUpd_put x.nodes _ n
        { n with subs := assocDel n.subs c } hg (getNode_path hg : n.path = _))
        (pathFrom (splitLevels f) 0) (pathFrom (splitLevels f) 0).length
      have hold : ∀ {β : Type} (π : Node → Option β), π n = (getNode x.nodes _).bind π :=
        fun π => old_get π _ _ _ hg
      refine sim_of_ret_unchanged h rfl ?_ ?_ ?_ ?_
      · exact look_unchanged _ deadNone_pRet hu (hold pRet) rfl
      · intro q c'
        rw [hu _ _ (deadNone_subs c') q]
        simp only [assocGet_assocDel, Prod.mk.injEq]
        have := hold (fun n => assocGet n.subs c')
        by_cases hq : q = pathFrom (splitLevels f) 0
        · subst hq
          simp only [if_true, and_true, this, h.subs]
        · simp [hq, h.subs]
      · intro q g c'
        rw [look_unchanged _ (deadNone_shared g c') hu (hold (fun n => sharedGet n.shared g c')) rfl]
        exact h.shared q g c'
      · intro q i
        rw [look_unchanged _ (deadNone_inline i) hu (hold (fun n => assocGet n.inline i)) rfl]
        exact h.inline q i

theorem sim_inlineSubscribe (x : Index) (a : Abs) (h : Sim x.nodes x.retained a) (id : Nat) (s : Sub) :
    Sim (inlineSubscribe x id s).1.nodes (inlineSubscribe x id s).1.retained (a.inlineSubscribe id s).1 := by
  unfold inlineSubscribe Abs.inlineSubscribe
  simp only
  obtain ⟨n, hn⟩ := getNode_setPath_self x.nodes (pathFrom (splitLevels s.filter) 0) (pathFrom_ne_nil _ _)
  simp only [hn]
  have hu := pointUpd_setput x.nodes _ n { n with inline := assocSet n.inline id s } hn
    (getNode_path hn : n.path = _)
  have hold : ∀ {β : Type} (π : Node → Option β), DeadNone π → π n = (getNode x.nodes _).bind π :=
    fun π hπ => old_setPath π hπ _ _ _ hn
  refine sim_of_ret_unchanged h rfl ?_ ?_ ?_ ?_
  · exact look_unchanged _ deadNone_pRet hu (hold _ deadNone_pRet) rfl
  · intro q c'
    rw [look_unchanged _ (deadNone_subs c') hu (hold _ (deadNone_subs c')) rfl]
    exact h.subs q c'
  · intro q g c'
    rw [look_unchanged _ (deadNone_shared g c') hu (hold _ (deadNone_shared g c')) rfl]
    exact h.shared q g c'
  · intro q i
    rw [hu _ _ (deadNone_inline i) q]
    simp only [assocGet_assocSet, Prod.mk.injEq]
    have := hold _ (deadNone_inline i)
    by_cases hq : q = pathFrom (splitLevels s.filter) 0
    · subst hq
      simp only [if_true, and_true, this, h.inline]
    · simp [hq, h.inline]

theorem sim_inlineUnsubscribe (x : Index) (a : Abs) (hpc : PrefixClosed x.nodes)
    (h : Sim x.nodes x.retained a) (id : Nat) (f : Str) :
    Sim (inlineUnsubscribe x id f).1.nodes (inlineUnsubscribe x id f).1.retained
      (a.inlineUnsubscribe id f).1 := by
  unfold inlineUnsubscribe Abs.inlineUnsubscribe
  simp only [seek_eq_getNode _ hpc]
  cases hg : getNode x.nodes (pathFrom (splitLevels f) 0) with
  | none =>
    refine sim_of_ret_unchanged h rfl (fun _ => rfl) h.subs h.shared ?_
    intro q i
    simp only [assocGet_assocDel, Prod.mk.injEq]
    split
    · rename_i he
      obtain ⟨rfl, rfl⟩ := he
      rw [hg]; rfl
    · exact h.inline q i
  | some n =>
    have hu0 := pointUpd_put x.nodes _ n { n with inline := assocDel n.inline id } hg
      (getNode_path hg : n.path = _)
    have hu : PointUpd x.nodes
        (if (assocDel n.inline id).isEmpty = true then
          trim (putNode x.nodes { n with inline := assocDel n.inline id }) (pathFrom (splitLevels f) 0)
            (pathFrom (splitLevels f) 0).length
         else putNode x.nodes { n with inline := assocDel n.inline id })
        (pathFrom (splitLevels f) 0) { n with inline := assocDel n.inline id } := by
      split
      · exact pointUpd_trim _ _ _ _ hu0 _ _
      · exact hu0
    have hold : ∀ {β : Type} (π : Node → Option β), π n = (getNode x.nodes _).bind π :=
      fun π => old_get π _ _ _ hg
    refine sim_of_ret_unchanged h rfl ?_ ?_ ?_ ?_
    · exact look_unchanged _ deadNone_pRet hu (hold pRet) rfl
    · intro q c'
      exact (look_unchanged _ (deadNone_subs c') hu (hold (fun n => assocGet n.subs c')) rfl q).trans (h.subs q c')
    · intro q g c'
      exact (look_unchanged _ (deadNone_shared g c') hu (hold (fun n => sharedGet n.shared g c')) rfl q).trans
        (h.shared q g c')
    · intro q i
      refine (hu _ _ (deadNone_inline i) q).trans ?_
      simp only [assocGet_assocDel, Prod.mk.injEq]
      have := hold (fun n => assocGet n.inline i)
      by_cases hq : q = pathFrom (splitLevels f) 0
      · subst hq
        simp only [if_true, and_true, this, h.inline]
      · simp [hq, h.inline]

theorem splitLevels_inj {a b : Str} (h : splitLevels a = splitLevels b) : a = b := by
  rw [← join_split a, ← join_split b, h]

theorem pRet_set (n : Node) (t : Str) : pRet { n with retainPath := t } = if t = [] then none else some t := rfl

theorem sim_retain (x : Index) (a : Abs) (h : Sim x.nodes x.retained a) (t p : Str) (fl : Bool) :
    Sim (retainMessage x t p fl).1.nodes (retainMessage x t p fl).1.retained (a.retain t p fl) := by
  unfold retainMessage Abs.retain
  simp only [pathFrom_zero _ (splitLevels_ne_nil t)]
  obtain ⟨n, hn⟩ := getNode_setPath_self x.nodes (splitLevels t) (splitLevels_ne_nil t)
  simp only [hn]
  have hold : ∀ {β : Type} (π : Node → Option β), DeadNone π → π n = (getNode x.nodes _).bind π :=
    fun π hπ => old_setPath π hπ _ _ _ hn
  by_cases hp : p.length > 0
  · simp only [hp, if_true]
    have hu := pointUpd_setput x.nodes _ n { n with retainPath := t } hn (getNode_path hn : n.path = _)
    refine ⟨?_, ?_, ?_, ?_, ?_, ?_⟩
    · intro q c'
      exact (look_unchanged _ (deadNone_subs c') hu (hold _ (deadNone_subs c')) rfl q).trans (h.subs q c')
    · intro q g c'
      exact (look_unchanged _ (deadNone_shared g c') hu (hold _ (deadNone_shared g c')) rfl q).trans
        (h.shared q g c')
    · intro q i
      exact (look_unchanged _ (deadNone_inline i) hu (hold _ (deadNone_inline i)) rfl q).trans (h.inline q i)
    · simp only [h.retained]
    · intro q r hr
      rw [hu _ _ deadNone_pRet q, pRet_set] at hr
      simp only [assocGet_assocSet]
      by_cases hq : q = splitLevels t
      · subst hq
        simp only [if_true] at hr
        split at hr
        · simp at hr
        · simp only [Option.some.injEq] at hr
          subst hr
          simp
      · simp only [hq, if_false] at hr
        obtain ⟨h1, h2⟩ := h.rsound q r hr
        refine ⟨h1, ?_⟩
        split
        · rfl
        · exact h2
    · intro t' ht' hs
      rw [hu _ _ deadNone_pRet, pRet_set]
      simp only [assocGet_assocSet] at hs
      by_cases hq : splitLevels t' = splitLevels t
      · have := splitLevels_inj hq
        subst this
        simp [ht']
      · have hne : ¬ t' = t := fun e => hq (by rw [e])
        simp only [hne, if_false] at hs
        simp only [hq, if_false]
        exact h.rhas t' ht' hs
  · simp only [hp, if_false]
    have hu := pointUpd_trim _ _ _ _
      (pointUpd_setput x.nodes _ n { n with retainPath := [] } hn (getNode_path hn : n.path = _))
      (splitLevels t) (splitLevels t).length
    refine ⟨?_, ?_, ?_, ?_, ?_, ?_⟩
    · intro q c'
      exact (look_unchanged _ (deadNone_subs c') hu (hold _ (deadNone_subs c')) rfl q).trans (h.subs q c')
    · intro q g c'
      exact (look_unchanged _ (deadNone_shared g c') hu (hold _ (deadNone_shared g c')) rfl q).trans
        (h.shared q g c')
    · intro q i
      exact (look_unchanged _ (deadNone_inline i) hu (hold _ (deadNone_inline i)) rfl q).trans (h.inline q i)
    · simp only [h.retained]
    · intro q r hr
      rw [hu _ _ deadNone_pRet q, pRet_set] at hr
      simp only [assocGet_assocDel]
      by_cases hq : q = splitLevels t
      · subst hq
        simp at hr
      · simp only [hq, if_false] at hr
        obtain ⟨h1, h2⟩ := h.rsound q r hr
        refine ⟨h1, ?_⟩
        have hne : ¬ r = t := fun e => hq (by rw [← h1, e])
        simp only [hne, if_false]
        exact h2
    · intro t' ht' hs
      rw [hu _ _ deadNone_pRet, pRet_set]
      simp only [assocGet_assocDel] at hs
      by_cases hne : t' = t
      · simp [hne] at hs
      · simp only [hne, if_false] at hs
        have hq : ¬ splitLevels t' = splitLevels t := fun e => hne (splitLevels_inj e)
        simp only [hq, if_false]
        exact h.rhas t' ht' hs

/-! ### the structural invariants: particle addresses are distinct and non-empty -/

def PathsOK (ps : List Path) : Prop := ps.Nodup ∧ ∀ p ∈ ps, p ≠ []

theorem pathsOK_sublist {l₁ l₂ : List Path} (hs : List.Sublist l₁ l₂) (h : PathsOK l₂) : PathsOK l₁ :=
  ⟨h.1.sublist hs, fun p hp => h.2 p (hs.subset hp)⟩

theorem map_path_putNode (ns : List Node) (n : Node) : (putNode ns n).map (·.path) = ns.map (·.path) := by
  induction ns with
  | nil => rfl
  | cons m rest ih =>
    rw [putNode_cons, List.map_cons, List.map_cons, ih]
    by_cases h : m.path = n.path <;> simp [h]

theorem trim_sublist (ns : List Node) (p : Path) (fuel : Nat) : List.Sublist (trim ns p fuel) ns := by
  induction fuel generalizing ns p with
  | zero => unfold trim; exact List.Sublist.refl _
  | succ fuel ih =>
    unfold trim
    split
    · exact List.Sublist.refl _
    · split
      · exact List.Sublist.refl _
      · split
        · exact (ih _ _).trans List.filter_sublist
        · exact List.Sublist.refl _

theorem pathsOK_putNode (ns : List Node) (n : Node) (h : PathsOK (ns.map (·.path))) :
    PathsOK ((putNode ns n).map (·.path)) := by
  rw [map_path_putNode]; exact h

theorem pathsOK_trim (ns : List Node) (p : Path) (fuel : Nat) (h : PathsOK (ns.map (·.path))) :
    PathsOK ((trim ns p fuel).map (·.path)) :=
  pathsOK_sublist ((trim_sublist ns p fuel).map _) h

theorem pathsOK_foldl_set (qs : List Path) (hq : ∀ q ∈ qs, q ≠ []) (ns : List Node)
    (h : PathsOK (ns.map (·.path))) :
    PathsOK ((qs.foldl (fun acc q => if hasNode acc q then acc else acc ++ [{ path := q }]) ns).map (·.path)) := by
  induction qs generalizing ns with
  | nil => exact h
  | cons q rest ih =>
    rw [List.foldl_cons]
    apply ih (fun q' hq' => hq q' (List.mem_cons_of_mem _ hq'))
    by_cases hn : hasNode ns q = true
    · simp only [hn, if_true]; exact h
    · have hn' : hasNode ns q = false := by simpa using hn
      simp only [hn', Bool.false_eq_true, if_false, List.map_append, List.map_cons, List.map_nil]
      refine ⟨List.nodup_append.mpr ⟨h.1, by simp, ?_⟩, ?_⟩
      · intro a ha b hb
        simp only [List.mem_singleton] at hb
        subst hb
        intro he
        subst he
        apply hn
        rw [hasNode_iff]
        obtain ⟨m, hm, hmp⟩ := List.mem_map.mp ha
        exact ⟨m, hm, hmp⟩
      · intro p hp
        rcases List.mem_append.mp hp with hp | hp
        · exact h.2 p hp
        · simp only [List.mem_singleton] at hp
          subst hp
          exact hq _ (List.mem_cons_self)

theorem pathsOK_setPath (ns : List Node) (p : Path) (h : PathsOK (ns.map (·.path))) :
    PathsOK ((setPath ns p).map (·.path)) := by
  unfold setPath
  exact pathsOK_foldl_set _ (fun q hq => prefixes_ne_nil p q hq) ns h

theorem pathsOK_applyOp (x : Index) (h : PathsOK (x.nodes.map (·.path))) (op : IOp) :
    PathsOK ((applyOp x op).nodes.map (·.path)) := by
  cases op with
  | subscribe c s =>
    simp only [applyOp, subscribe]
    split
    · split
      · exact h
      · exact pathsOK_putNode _ _ (pathsOK_setPath _ _ h)
    · split
      · exact h
      · exact pathsOK_putNode _ _ (pathsOK_setPath _ _ h)
  | unsubscribe f c =>
    simp only [applyOp, unsubscribe]
    split
    · exact h
    · split
      · exact h
      · split
        · exact pathsOK_trim _ _ _ (pathsOK_putNode _ _ h)
        · exact pathsOK_trim _ _ _ (pathsOK_putNode _ _ h)
  | inlineSubscribe id s =>
    simp only [applyOp, inlineSubscribe]
    split
    · exact h
    · exact pathsOK_putNode _ _ (pathsOK_setPath _ _ h)
  | inlineUnsubscribe id f =>
    simp only [applyOp, inlineUnsubscribe]
    split
    · exact h
    · simp only
      split
      · exact pathsOK_trim _ _ _ (pathsOK_putNode _ _ h)
      · exact pathsOK_putNode _ _ h
  | retain t p fl =>
    simp only [applyOp, retainMessage]
    split
    · exact h
    · split
      · exact pathsOK_putNode _ _ (pathsOK_setPath _ _ h)
      · exact pathsOK_trim _ _ _ (pathsOK_putNode _ _ (pathsOK_setPath _ _ h))

theorem pathsOK_foldl (ops : List IOp) (x : Index) (h : PathsOK (x.nodes.map (·.path))) :
    PathsOK ((ops.foldl applyOp x).nodes.map (·.path)) := by
  induction ops generalizing x with
  | nil => exact h
  | cons op rest ih => exact ih _ (pathsOK_applyOp x h op)

theorem pathsOK_runOps (ops : List IOp) : PathsOK ((runOps ops).nodes.map (·.path)) :=
  pathsOK_foldl ops {} ⟨List.nodup_nil, fun _ h => by simp at h⟩

/-- particle addresses are pairwise distinct in every reachable index -/
theorem nodupPaths_runOps (ops : List IOp) : ((runOps ops).nodes.map (·.path)).Nodup :=
  (pathsOK_runOps ops).1

/-- no reachable particle has the empty address (the root is not a particle) -/
theorem pathsNonempty_runOps (ops : List IOp) : ∀ n ∈ (runOps ops).nodes, n.path ≠ [] :=
  fun n hn => (pathsOK_runOps ops).2 n.path (List.mem_map.mpr ⟨n, hn, rfl⟩)

/-- with distinct addresses, membership is lookup by address -/
theorem getNode_of_mem (ns : List Node) (hnd : (ns.map (·.path)).Nodup) (n : Node) (hn : n ∈ ns) :
    getNode ns n.path = some n := by
  induction ns with
  | nil => simp at hn
  | cons m rest ih =>
    rw [getNode_cons]
    rw [List.map_cons, List.nodup_cons] at hnd
    rcases List.mem_cons.mp hn with rfl | hn
    · simp
    · have : ¬ m.path = n.path := fun e => hnd.1 (List.mem_map.mpr ⟨n, hn, e.symm⟩)
      simp only [this, if_false]
      exact ih hnd.2 hn

/-! ### every operation preserves the simulation; every history does -/

theorem sim_applyOp (x : Index) (a : Abs) (hpc : PrefixClosed x.nodes) (h : Sim x.nodes x.retained a) (op : IOp) :
    Sim (applyOp x op).nodes (applyOp x op).retained (a.applyOp op) := by
  cases op with
  | subscribe c s => exact sim_subscribe x a h c s
  | unsubscribe f c => exact sim_unsubscribe x a hpc h f c
  | inlineSubscribe id s => exact sim_inlineSubscribe x a h id s
  | inlineUnsubscribe id f => exact sim_inlineUnsubscribe x a hpc h id f
  | retain t p fl => exact sim_retain x a h t p fl

theorem sim_foldl (ops : List IOp) (x : Index) (a : Abs) (hpc : PrefixClosed x.nodes)
    (h : Sim x.nodes x.retained a) :
    Sim (ops.foldl applyOp x).nodes (ops.foldl applyOp x).retained (ops.foldl Abs.applyOp a) := by
  induction ops generalizing x a with
  | nil => exact h
  | cons op rest ih => exact ih _ _ (prefixClosed_applyOp x hpc op) (sim_applyOp x a hpc h op)

theorem sim_runOps (ops : List IOp) : Sim (runOps ops).nodes (runOps ops).retained (absRun ops) :=
  sim_foldl ops {} {} (by intro p hp; simp [hasNode] at hp) sim_empty

/-! ### the refinement relation of the brief -/

/-- the trie `x` and the plain sets/maps `a` hold the same entries: every subscription, shared
    subscription and inline subscription is found in the particle at its filter's path and nowhere
    else, the retained maps are equal, and retained paths and retained records correspond. -/
structure Refines (x : Index) (a : Abs) : Prop where
  subs : ∀ (q : Path) (c : Str),
    (getNode x.nodes q).bind (fun n => assocGet n.subs c) = assocGet a.subs (c, q)
  shared : ∀ (q : Path) (g c : Str),
    (getNode x.nodes q).bind (fun n => sharedGet n.shared g c) = assocGet a.shared (c, g, q)
  inline : ∀ (q : Path) (i : Nat),
    (getNode x.nodes q).bind (fun n => assocGet n.inline i) = assocGet a.inline (i, q)
  retained : x.retained = a.retained
  retainPath_sound : ∀ n ∈ x.nodes, n.retainPath ≠ [] →
    splitLevels n.retainPath = n.path ∧ (assocGet x.retained n.retainPath).isSome
  retained_has_node : ∀ t, t ≠ [] → (assocGet x.retained t).isSome →
    ∃ n, getNode x.nodes (splitLevels t) = some n ∧ n.retainPath = t

theorem refines_of_sim (x : Index) (a : Abs) (hnd : (x.nodes.map (·.path)).Nodup)
    (h : Sim x.nodes x.retained a) : Refines x a := by
  refine ⟨h.subs, h.shared, h.inline, h.retained, ?_, ?_⟩
  · intro n hn hr
    have hg := getNode_of_mem x.nodes hnd n hn
    have : (getNode x.nodes n.path).bind pRet = some n.retainPath := by
      rw [hg]; simp [pRet, hr]
    exact h.rsound n.path n.retainPath this
  · intro t ht hs
    have := h.rhas t ht hs
    cases hg : getNode x.nodes (splitLevels t) with
    | none => rw [hg] at this; simp at this
    | some n =>
      refine ⟨n, rfl, ?_⟩
      rw [hg] at this
      simp only [Option.bind_some, pRet] at this
      split at this
      · simp at this
      · simpa using this

/-- **The trie refines the plain sets/maps — subscription clauses and the retained map, for every
    history, with no hypothesis.** -/
theorem refines_runOps_subs (ops : List IOp) :
    (∀ q c, (getNode (runOps ops).nodes q).bind (fun n => assocGet n.subs c) = assocGet (absRun ops).subs (c, q)) ∧
    (∀ q g c, (getNode (runOps ops).nodes q).bind (fun n => sharedGet n.shared g c) =
      assocGet (absRun ops).shared (c, g, q)) ∧
    (∀ q i, (getNode (runOps ops).nodes q).bind (fun n => assocGet n.inline i) =
      assocGet (absRun ops).inline (i, q)) ∧
    (runOps ops).retained = (absRun ops).retained :=
  have h := sim_runOps ops
  ⟨h.subs, h.shared, h.inline, h.retained⟩

/-- the full refinement holds for every history, even one that retains under the empty topic (the
    clause `retained_has_node` already excludes the key `[]`) -/
theorem refines_runOps_all (ops : List IOp) : Refines (runOps ops) (absRun ops) :=
  refines_of_sim _ _ (nodupPaths_runOps ops) (sim_runOps ops)

/-- **The trie refines the plain sets/maps** (the hypothesis of the brief is not needed; see
    `refines_runOps_all`) -/
theorem refines_runOps (ops : List IOp) (_hret : ∀ t p fl, IOp.retain t p fl ∈ ops → t ≠ []) :
    Refines (runOps ops) (absRun ops) :=
  refines_runOps_all ops

/-! ### return values -/

theorem subscribe_result (x : Index) (a : Abs) (h : Sim x.nodes x.retained a) (c : Str) (s : Sub) :
    (subscribe x c s).2 = (a.subscribe c s).2 := by
  unfold subscribe Abs.subscribe
  simp only
  split
  · obtain ⟨n, hn⟩ := getNode_setPath_self x.nodes (pathFrom (splitLevels s.filter) 2) (pathFrom_ne_nil _ _)
    simp only [hn]
    have := old_setPath _ (deadNone_shared (isolate (splitLevels s.filter) 1).1 c) _ _ _ hn
    rw [this, h.shared]
    cases assocGet a.shared (c, (isolate (splitLevels s.filter) 1).1, pathFrom (splitLevels s.filter) 2) <;> rfl
  · obtain ⟨n, hn⟩ := getNode_setPath_self x.nodes (pathFrom (splitLevels s.filter) 0) (pathFrom_ne_nil _ _)
    simp only [hn]
    have := old_setPath _ (deadNone_subs c) _ _ _ hn
    rw [this, h.subs]
    cases assocGet a.subs (c, pathFrom (splitLevels s.filter) 0) <;> rfl

theorem unsubscribe_result (x : Index) (a : Abs) (hpc : PrefixClosed x.nodes) (h : Sim x.nodes x.retained a)
    (f c : Str) : (unsubscribe x f c).2 = (a.unsubscribe f c).2 := by
  unfold unsubscribe Abs.unsubscribe
  simp only [seek_eq_getNode _ hpc]
  by_cases hs : isShare (isolate (splitLevels f) 0).1 = true
  · by_cases h1 : (isolate (splitLevels f) 1).2 = true
    case neg =>
      have h1' : (isolate (splitLevels f) 1).2 = false := by simpa using h1
      simp only [hs, h1', Bool.not_false, Bool.and_self, if_true]
    simp only [hs, h1, Bool.not_true, Bool.and_false, Bool.false_eq_true, if_false, if_true]
    rw [← h.shared]
    cases hg : getNode x.nodes (pathFrom (splitLevels f) 2) <;> rfl
  · simp only [hs, Bool.false_eq_true, Bool.false_and, if_false]
    rw [← h.subs]
    cases hg : getNode x.nodes (pathFrom (splitLevels f) 0) <;> rfl

theorem inlineSubscribe_result (x : Index) (a : Abs) (h : Sim x.nodes x.retained a) (id : Nat) (s : Sub) :
    (inlineSubscribe x id s).2 = (a.inlineSubscribe id s).2 := by
  unfold inlineSubscribe Abs.inlineSubscribe
  simp only
  obtain ⟨n, hn⟩ := getNode_setPath_self x.nodes (pathFrom (splitLevels s.filter) 0) (pathFrom_ne_nil _ _)
  simp only [hn]
  have := old_setPath _ (deadNone_inline id) _ _ _ hn
  rw [this, h.inline]
  cases assocGet a.inline (id, pathFrom (splitLevels s.filter) 0) <;> rfl

theorem inlineUnsubscribe_result (x : Index) (a : Abs) (hpc : PrefixClosed x.nodes)
    (h : Sim x.nodes x.retained a) (id : Nat) (f : Str) :
    (inlineUnsubscribe x id f).2 = (a.inlineUnsubscribe id f).2 := by
  unfold inlineUnsubscribe Abs.inlineUnsubscribe
  simp only [seek_eq_getNode _ hpc]
  rw [← h.inline]
  cases hg : getNode x.nodes (pathFrom (splitLevels f) 0) <;> rfl

theorem retain_result (x : Index) (a : Abs) (h : Sim x.nodes x.retained a) (t p : Str) (fl : Bool) :
    (retainMessage x t p fl).2 = a.opResult (.retain t p fl) := by
  unfold retainMessage Abs.opResult
  simp only [pathFrom_zero _ (splitLevels_ne_nil t)]
  obtain ⟨n, hn⟩ := getNode_setPath_self x.nodes (splitLevels t) (splitLevels_ne_nil t)
  simp only [hn, h.retained]
  by_cases hp : p.length > 0
  · simp only [hp, if_true]
  · simp only [hp, if_false]
    cases assocGet a.retained t <;> rfl

theorem opResult_sim (x : Index) (a : Abs) (hpc : PrefixClosed x.nodes) (h : Sim x.nodes x.retained a)
    (op : IOp) : opResult x op = a.opResult op := by
  cases op with
  | subscribe c s => exact congrArg b2i (subscribe_result x a h c s)
  | unsubscribe f c => exact congrArg b2i (unsubscribe_result x a hpc h f c)
  | inlineSubscribe id s => exact congrArg b2i (inlineSubscribe_result x a h id s)
  | inlineUnsubscribe id f => exact congrArg b2i (inlineUnsubscribe_result x a hpc h id f)
  | retain t p fl => exact retain_result x a h t p fl

/-- **Subscribe / InlineSubscribe report is-new, Unsubscribe / InlineUnsubscribe report existed, and
    RetainMessage reports its counter delta, exactly as the plain sets/maps would — after every
    history, for every next operation.** -/
theorem opResult_refines (ops : List IOp) (op : IOp) :
    opResult (runOps ops) op = (absRun ops).opResult op :=
  opResult_sim _ _ (prefixClosed_runOps ops) (sim_runOps ops) op

/-! ### non-vacuity: a concrete history, evaluated on both sides -/

/-- `a/b` -/
def exAB : Str := [97, 47, 98]
/-- `a/+` -/
def exAPlus : Str := [97, 47, 43]
/-- `$share/g/a/#` -/
def exShare : Str := [36, 115, 104, 97, 114, 101, 47, 103, 47, 97, 47, 35]

/-- clients `[1]`, `[2]` subscribe to `a/b`, `a/+`; client `[3]` joins `$share/g/a/#`; inline
    subscription 7 on `a/b`; a message is retained on `a/b`; client `[1]` unsubscribes from `a/b` -/
def exHist : List IOp :=
  [.subscribe [1] { filter := exAB, qos := 1 }, .subscribe [2] { filter := exAPlus },
   .subscribe [3] { filter := exShare, qos := 2 }, .inlineSubscribe 7 { filter := exAB },
   .retain exAB [120] true, .unsubscribe exAB [1]]

-- the particles left: a, a/b (inline + retained), a/+, a/#
example : (runOps exHist).nodes.map (·.path) = [[[97]], [[97], [98]], [[97], [43]], [[97], [35]]] := by decide

-- return values of a next operation, on the trie and on the plain sets
example : opResult (runOps exHist) (.subscribe [1] { filter := exAB }) = 1 := by decide
example : (absRun exHist).opResult (.subscribe [1] { filter := exAB }) = 1 := by decide
example : opResult (runOps exHist) (.subscribe [2] { filter := exAPlus }) = 0 := by decide
example : (absRun exHist).opResult (.subscribe [2] { filter := exAPlus }) = 0 := by decide
example : opResult (runOps exHist) (.subscribe [3] { filter := exShare }) = 0 := by decide
example : (absRun exHist).opResult (.subscribe [3] { filter := exShare }) = 0 := by decide
example : opResult (runOps exHist) (.unsubscribe exAB [1]) = 0 := by decide
example : (absRun exHist).opResult (.unsubscribe exAB [1]) = 0 := by decide
example : opResult (runOps exHist) (.unsubscribe exAPlus [2]) = 1 := by decide
example : (absRun exHist).opResult (.unsubscribe exAPlus [2]) = 1 := by decide
example : opResult (runOps exHist) (.unsubscribe exShare [3]) = 1 := by decide
example : (absRun exHist).opResult (.unsubscribe exShare [3]) = 1 := by decide
example : opResult (runOps exHist) (.inlineSubscribe 7 { filter := exAB }) = 0 := by decide
example : (absRun exHist).opResult (.inlineSubscribe 7 { filter := exAB }) = 0 := by decide
example : opResult (runOps exHist) (.inlineUnsubscribe 7 exAB) = 1 := by decide
example : (absRun exHist).opResult (.inlineUnsubscribe 7 exAB) = 1 := by decide
example : opResult (runOps exHist) (.inlineUnsubscribe 8 exAB) = 0 := by decide
example : (absRun exHist).opResult (.inlineUnsubscribe 8 exAB) = 0 := by decide
example : opResult (runOps exHist) (.retain exAB [] false) = -1 := by decide
example : (absRun exHist).opResult (.retain exAB [] false) = -1 := by decide
example : opResult (runOps exHist) (.retain exAPlus [] false) = 0 := by decide
example : (absRun exHist).opResult (.retain exAPlus [] false) = 0 := by decide
example : opResult (runOps exHist) (.retain exAB [121] false) = 1 := by decide
example : (absRun exHist).opResult (.retain exAB [121] false) = 1 := by decide

-- lookups on both sides
example : (getNode (runOps exHist).nodes [[97], [98]]).bind (fun n => assocGet n.subs [1]) = none := by decide
example : assocGet (absRun exHist).subs ([1], [[97], [98]]) = none := by decide
example : (getNode (runOps exHist).nodes [[97], [43]]).bind (fun n => assocGet n.subs [2]) =
    some { filter := exAPlus } := by decide
example : assocGet (absRun exHist).subs ([2], [[97], [43]]) = some { filter := exAPlus } := by decide
example : (getNode (runOps exHist).nodes [[97], [35]]).bind (fun n => sharedGet n.shared [103] [3]) =
    some { filter := exShare, qos := 2 } := by decide
example : assocGet (absRun exHist).shared ([3], [103], [[97], [35]]) = some { filter := exShare, qos := 2 } := by
  decide
example : (getNode (runOps exHist).nodes [[97], [98]]).bind (fun n => assocGet n.inline 7) =
    some { filter := exAB } := by decide
example : assocGet (absRun exHist).inline (7, [[97], [98]]) = some { filter := exAB } := by decide
example : (getNode (runOps exHist).nodes [[97], [98]]).map (·.retainPath) = some exAB := by decide
example : assocGet (runOps exHist).retained exAB = some { topic := exAB, payload := [120], retain := true } := by
  decide
example : assocGet (absRun exHist).retained exAB = some { topic := exAB, payload := [120], retain := true } := by
  decide

-- the general theorems instantiated at this history
example : Refines (runOps exHist) (absRun exHist) :=
  refines_runOps exHist (by
    intro t p fl h
    simp only [exHist, List.mem_cons, reduceCtorEq, IOp.retain.injEq, List.mem_nil_iff, or_false, false_or] at h
    rw [h.1]; decide)

-- the empty-topic edge: the record is stored under key `[]`, the particle `[[]]` gets no retained path;
-- `Refines` still holds (its `retained_has_node` clause speaks of non-empty topics only)
example : (runOps [.retain [] [120] true]).retained = [([], { topic := [], payload := [120], retain := true })] ∧
    (getNode (runOps [.retain [] [120] true]).nodes [[]]).map (·.retainPath) = some [] := by decide
example : Refines (runOps [.retain [] [120] true]) (absRun [.retain [] [120] true]) := refines_runOps_all _

end Mochi.Topics
