import Mochi.Lemmas.PropsRoundtrip
/-!
Round trip of whole packets, part 1: the fixed header byte, the shape of a round-trip claim
(`RoundTrips`), and the packet types without loops and without CONNECT's flag byte:
PINGREQ/PINGRESP, CONNACK, SUBACK, UNSUBACK, DISCONNECT, AUTH, the four acknowledgements, PUBLISH.
-/
namespace Mochi.Codec
open Mochi.Varint

/-- the first byte `FixedHeader.Encode` writes -/
def headerByte (fh : FixedHeader) : Nat :=
  (fh.type * 16) % 256 ||| encodeBool fh.dup * 8 ||| (fh.qos * 2) % 256 ||| encodeBool fh.retain

theorem withHeader_eq (pk : Packet) (body : Str) :
    withHeader pk body = headerByte pk.fixedHeader :: encodeLength body.length ++ body := by
  simp [withHeader, fixedHeaderEncode, headerByte]

/-- a fixed header the decoder accepts: a known type and the flag bits MQTT prescribes for it
    (PUBLISH: QoS 0–2, no DUP at QoS 0; PUBREL, SUBSCRIBE, UNSUBSCRIBE: exactly `0010`; all others `0000`) -/
def WFHeader (fh : FixedHeader) : Prop :=
  if fh.type = 3 then fh.qos ≤ 2 ∧ ¬ (fh.qos = 0 ∧ fh.dup = true)
  else if fh.type = 6 ∨ fh.type = 8 ∨ fh.type = 10 then fh.qos = 1 ∧ fh.dup = false ∧ fh.retain = false
  else 1 ≤ fh.type ∧ fh.type ≤ 15 ∧ fh.qos = 0 ∧ fh.dup = false ∧ fh.retain = false

instance (fh : FixedHeader) : Decidable (WFHeader fh) := by unfold WFHeader; infer_instance

/-- **fixed header byte**: the decoder reads back type and flags -/
theorem header_roundtrip (fh : FixedHeader) (h : WFHeader fh) :
    fixedHeaderDecode (headerByte fh) = .ok { fh with remaining := 0 } := by
  obtain ⟨rem, t, q, d, r⟩ := fh
  unfold WFHeader at h
  simp only [] at h
  split at h
  · rename_i ht; subst ht
    obtain ⟨hq, hd⟩ := h
    have : q = 0 ∨ q = 1 ∨ q = 2 := by omega
    rcases this with rfl | rfl | rfl <;> cases d <;> cases r <;> first | (simp at hd; done) | (simp [headerByte, fixedHeaderDecode, encodeBool, bit])
  · split at h
    · rename_i ht
      obtain ⟨rfl, rfl, rfl⟩ := h
      rcases ht with rfl | rfl | rfl <;> (simp [headerByte, fixedHeaderDecode, encodeBool, bit])
    · rename_i h3 h6
      obtain ⟨h1, h15, rfl, rfl, rfl⟩ := h
      have : t = 1 ∨ t = 2 ∨ t = 4 ∨ t = 5 ∨ t = 7 ∨ t = 9 ∨ t = 11 ∨ t = 12 ∨ t = 13 ∨ t = 14 ∨ t = 15 := by omega
      rcases this with rfl | rfl | rfl | rfl | rfl | rfl | rfl | rfl | rfl | rfl | rfl <;> (simp [headerByte, fixedHeaderDecode, encodeBool, bit])

/-- the shape of one round-trip claim: the encoder writes header byte, exact remaining length and
    `body`; the header byte decodes to the packet's header; the body decodes to `np` -/
def RoundTrips (pk : Packet) (body : Str) (np : Packet) : Prop :=
  encodePacket pk = .ok (headerByte pk.fixedHeader :: encodeLength body.length ++ body) ∧
  fixedHeaderDecode (headerByte pk.fixedHeader) = .ok { pk.fixedHeader with remaining := 0 } ∧
  decodeBody pk.protocolVersion { pk.fixedHeader with remaining := body.length } body = .ok np

theorem encodeBool_roundtrip (b : Bool) : (encodeBool b % 2 == 1) = b := by cases b <;> rfl


/-! ### dispatch on the packet type -/

/-- the packet a decoder starts from -/
def basePacket (pk : Packet) (body : Str) : Packet :=
  { protocolVersion := pk.protocolVersion, fixedHeader := { pk.fixedHeader with remaining := body.length } }


theorem decodeBody_connect (pk : Packet) (body : Str) (h : pk.fixedHeader.type = 1) :
    decodeBody pk.protocolVersion { pk.fixedHeader with remaining := body.length } body =
      connectDecode (basePacket pk body) body := by simp [decodeBody, basePacket, h]
theorem decodeBody_connack (pk : Packet) (body : Str) (h : pk.fixedHeader.type = 2) :
    decodeBody pk.protocolVersion { pk.fixedHeader with remaining := body.length } body =
      connackDecode (basePacket pk body) body := by simp [decodeBody, basePacket, h]
theorem decodeBody_publish (pk : Packet) (body : Str) (h : pk.fixedHeader.type = 3) :
    decodeBody pk.protocolVersion { pk.fixedHeader with remaining := body.length } body =
      publishDecode (basePacket pk body) body := by simp [decodeBody, basePacket, h]
theorem decodeBody_ack (pk : Packet) (body : Str) (h : pk.fixedHeader.type = 4 ∨ pk.fixedHeader.type = 5 ∨ pk.fixedHeader.type = 6 ∨ pk.fixedHeader.type = 7) :
    decodeBody pk.protocolVersion { pk.fixedHeader with remaining := body.length } body =
      ackDecode (basePacket pk body) body := by
  rcases h with h | h | h | h <;> simp [decodeBody, basePacket, h]
theorem decodeBody_subscribe (pk : Packet) (body : Str) (h : pk.fixedHeader.type = 8) :
    decodeBody pk.protocolVersion { pk.fixedHeader with remaining := body.length } body =
      subscribeDecode (basePacket pk body) body := by simp [decodeBody, basePacket, h]
theorem decodeBody_suback (pk : Packet) (body : Str) (h : pk.fixedHeader.type = 9) :
    decodeBody pk.protocolVersion { pk.fixedHeader with remaining := body.length } body =
      subackDecode (basePacket pk body) body := by simp [decodeBody, basePacket, h]
theorem decodeBody_unsubscribe (pk : Packet) (body : Str) (h : pk.fixedHeader.type = 10) :
    decodeBody pk.protocolVersion { pk.fixedHeader with remaining := body.length } body =
      unsubscribeDecode (basePacket pk body) body := by simp [decodeBody, basePacket, h]
theorem decodeBody_unsuback (pk : Packet) (body : Str) (h : pk.fixedHeader.type = 11) :
    decodeBody pk.protocolVersion { pk.fixedHeader with remaining := body.length } body =
      unsubackDecode (basePacket pk body) body := by simp [decodeBody, basePacket, h]
theorem decodeBody_disconnect (pk : Packet) (body : Str) (h : pk.fixedHeader.type = 14) :
    decodeBody pk.protocolVersion { pk.fixedHeader with remaining := body.length } body =
      disconnectDecode (basePacket pk body) body := by simp [decodeBody, basePacket, h]
theorem decodeBody_auth (pk : Packet) (body : Str) (h : pk.fixedHeader.type = 15) :
    decodeBody pk.protocolVersion { pk.fixedHeader with remaining := body.length } body =
      authDecode (basePacket pk body) body := by simp [decodeBody, basePacket, h]

theorem encodePacket_connect (pk : Packet) (h : pk.fixedHeader.type = 1) : encodePacket pk = connectEncode pk := by
  simp [encodePacket, h]
theorem encodePacket_connack (pk : Packet) (h : pk.fixedHeader.type = 2) : encodePacket pk = connackEncode pk := by
  simp [encodePacket, h]
theorem encodePacket_publish (pk : Packet) (h : pk.fixedHeader.type = 3) : encodePacket pk = publishEncode pk := by
  simp [encodePacket, h]
theorem encodePacket_ack (pk : Packet) (h : pk.fixedHeader.type = 4 ∨ pk.fixedHeader.type = 5 ∨ pk.fixedHeader.type = 6 ∨
    pk.fixedHeader.type = 7) : encodePacket pk = ackEncode pk := by
  rcases h with h | h | h | h <;> simp [encodePacket, h]
theorem encodePacket_subscribe (pk : Packet) (h : pk.fixedHeader.type = 8) : encodePacket pk = subscribeEncode pk := by
  simp [encodePacket, h]
theorem encodePacket_suback (pk : Packet) (h : pk.fixedHeader.type = 9) : encodePacket pk = subackEncode pk := by
  simp [encodePacket, h]
theorem encodePacket_unsubscribe (pk : Packet) (h : pk.fixedHeader.type = 10) : encodePacket pk = unsubscribeEncode pk := by
  simp [encodePacket, h]
theorem encodePacket_unsuback (pk : Packet) (h : pk.fixedHeader.type = 11) : encodePacket pk = unsubackEncode pk := by
  simp [encodePacket, h]
theorem encodePacket_disconnect (pk : Packet) (h : pk.fixedHeader.type = 14) : encodePacket pk = disconnectEncode pk := by
  simp [encodePacket, h]
theorem encodePacket_auth (pk : Packet) (h : pk.fixedHeader.type = 15) : encodePacket pk = authEncode pk := by
  simp [encodePacket, h]

/-- the optional property block of an MQTT 5 packet, read at the cursor -/
theorem propsBlock_At {name : String} {pkt : Nat} {mods : Mods} {n : Nat} {p : Props} {buf : Str} {off : Nat} {t : Str}
    {ver : Nat} (h : At buf off ((if ver == 5 then propsEncode pkt mods n p else []) ++ t))
    (hp : ver = 5 → WFProps p ∧ propsBodyLenC pkt mods n p ≤ maxVBI) :
    (if ver == 5 then decodePropsAt name pkt buf off {} else .ok ({}, off)) =
      .ok (if ver == 5 then normProps pkt mods n p else {},
           off + (if ver == 5 then propsEncode pkt mods n p else []).length) ∧
    At buf (off + (if ver == 5 then propsEncode pkt mods n p else []).length) t := by
  refine ⟨?_, h.step⟩
  by_cases hv : ver = 5
  · have hv' : (ver == 5) = true := by simpa using hv
    simp only [hv', if_true] at h ⊢
    exact decodePropsAt_AtC h (hp hv).1 (hp hv).2
  · have hv' : (ver == 5) = false := by simpa using hv
    simp [hv']

/-! ### PINGREQ / PINGRESP -/

def WFPing (pk : Packet) : Prop := WFHeader pk.fixedHeader ∧ pk.fixedHeader.remaining = 0

theorem C26_ping_roundtrip (pk : Packet) (ht : pk.fixedHeader.type = 12 ∨ pk.fixedHeader.type = 13) (h : WFPing pk) :
    RoundTrips pk [] (basePacket pk []) := by
  obtain ⟨hh, hr⟩ := h
  refine ⟨?_, header_roundtrip _ hh, ?_⟩
  · rcases ht with ht | ht <;> simp [encodePacket, ht, fixedHeaderEncode, headerByte, hr]
  · rcases ht with ht | ht <;> simp [decodeBody, ht, basePacket, pure, Except.pure]

/-! ### CONNACK -/

def connackBody (pk : Packet) : Str :=
  [encodeBool pk.sessionPresent, pk.reasonCode % 256] ++
    (if pk.protocolVersion == 5 then propsEncode 2 pk.mods 4 pk.properties else [])

def WFConnack (pk : Packet) : Prop :=
  WFHeader pk.fixedHeader ∧ pk.reasonCode < 256 ∧
  (pk.protocolVersion = 5 → WFProps pk.properties ∧ propsBodyLenC 2 pk.mods 4 pk.properties ≤ maxVBI)

def connackNorm (pk : Packet) : Packet :=
  { basePacket pk (connackBody pk) with
    sessionPresent := pk.sessionPresent, reasonCode := pk.reasonCode,
    properties := if pk.protocolVersion == 5 then normProps 2 pk.mods 4 pk.properties else {} }

theorem C26_connack_roundtrip (pk : Packet) (ht : pk.fixedHeader.type = 2) (h : WFConnack pk) :
    RoundTrips pk (connackBody pk) (connackNorm pk) := by
  obtain ⟨hh, hrc, hp⟩ := h
  refine ⟨?_, header_roundtrip _ hh, ?_⟩
  · simp [encodePacket, ht, connackEncode, withHeader_eq, connackBody]
  · have hm : pk.reasonCode % 256 = pk.reasonCode := Nat.mod_eq_of_lt hrc
    rw [decodeBody_connack pk _ ht]; simp only [connackDecode, basePacket]
    have h0 : At (connackBody pk) 0 (encodeBool pk.sessionPresent :: pk.reasonCode ::
        (if pk.protocolVersion == 5 then propsEncode 2 pk.mods 4 pk.properties else [])) := by
      have := At.zero (connackBody pk)
      simpa [connackBody, hm] using this
    have e1 := decodeByteBool_At h0
    have e2 := decodeByte_At h0.cons
    have h2 := h0.cons.cons
    simp only [Nat.zero_add] at e1 e2 h2
    simp only [e1, e2, wrapErr, bind, Except.bind, pure, Except.pure, encodeBool_roundtrip, ht]
    by_cases hv : pk.protocolVersion = 5
    · obtain ⟨hwf, hlen⟩ := hp hv
      have hv' : (pk.protocolVersion == 5) = true := by simpa using hv
      simp only [hv', if_true] at h2 ⊢
      have h2' : At (connackBody pk) 2 (propsEncode 2 pk.mods 4 pk.properties ++ []) := by simpa using h2
      have e3 := decodePropsAt_AtC (name := "ErrMalformedProperties") h2' hwf hlen
      simp only [e3]
      simp [connackNorm, basePacket, hv', ht]
    · have hv' : (pk.protocolVersion == 5) = false := by simpa using hv
      simp [hv', connackNorm, basePacket, ht]

/-! ### SUBACK -/

def subackBody (pk : Packet) : Str :=
  encodeUint16 pk.packetID ++
    ((if pk.protocolVersion == 5 then propsEncode 9 pk.mods (2 + pk.reasonCodes.length) pk.properties else []) ++
     pk.reasonCodes)

def WFSuback (pk : Packet) : Prop :=
  WFHeader pk.fixedHeader ∧ pk.packetID < 65536 ∧
  (pk.protocolVersion = 5 →
    WFProps pk.properties ∧ propsBodyLenC 9 pk.mods (2 + pk.reasonCodes.length) pk.properties ≤ maxVBI)

def subackNorm (pk : Packet) : Packet :=
  { basePacket pk (subackBody pk) with
    packetID := pk.packetID, reasonCodes := pk.reasonCodes,
    properties := if pk.protocolVersion == 5 then normProps 9 pk.mods (2 + pk.reasonCodes.length) pk.properties else {} }

theorem C26_suback_roundtrip (pk : Packet) (ht : pk.fixedHeader.type = 9) (h : WFSuback pk) :
    RoundTrips pk (subackBody pk) (subackNorm pk) := by
  obtain ⟨hh, hid, hp⟩ := h
  refine ⟨?_, header_roundtrip _ hh, ?_⟩
  · rw [encodePacket_suback pk ht]
    simp [subackEncode, withHeader_eq, subackBody, ht, encodeUint16]
  · rw [decodeBody_suback pk _ ht]
    have h0 := At.zero (subackBody pk)
    have e1 := decodeUint16_At (v := pk.packetID) h0 hid
    have h1 : At (subackBody pk) (0 + 2) _ := At.step_u16 (v := pk.packetID) h0
    simp only [Nat.zero_add] at e1 h1
    simp only [subackDecode, basePacket, e1, wrapErr, bind, Except.bind, pure, Except.pure, ht]
    by_cases hv : pk.protocolVersion = 5
    · obtain ⟨hwf, hlen⟩ := hp hv
      have hv' : (pk.protocolVersion == 5) = true := by simpa using hv
      simp only [hv', if_true] at h1 ⊢
      have e2 := decodePropsAt_AtC (name := "ErrMalformedProperties") h1 hwf hlen
      have e3 := sliceFrom_At h1.step
      simp only [e2, e3]
      simp [subackNorm, basePacket, hv', ht]
    · have hv' : (pk.protocolVersion == 5) = false := by simpa using hv
      simp only [hv', Bool.false_eq_true, if_false, List.nil_append] at h1 ⊢
      simp only [sliceFrom_At h1]
      simp [subackNorm, basePacket, hv', ht]

/-! ### UNSUBACK -/

def unsubackBody (pk : Packet) : Str :=
  encodeUint16 pk.packetID ++
    (if pk.protocolVersion == 5 then propsEncode 11 pk.mods 2 pk.properties ++ pk.reasonCodes else [])

def WFUnsuback (pk : Packet) : Prop :=
  WFHeader pk.fixedHeader ∧ pk.packetID < 65536 ∧
  (pk.protocolVersion = 5 → WFProps pk.properties ∧ propsBodyLenC 11 pk.mods 2 pk.properties ≤ maxVBI)

/-- below MQTT 5 an UNSUBACK carries no reason codes -/
def unsubackNorm (pk : Packet) : Packet :=
  { basePacket pk (unsubackBody pk) with
    packetID := pk.packetID,
    reasonCodes := if pk.protocolVersion == 5 then pk.reasonCodes else [],
    properties := if pk.protocolVersion == 5 then normProps 11 pk.mods 2 pk.properties else {} }

theorem C26_unsuback_roundtrip (pk : Packet) (ht : pk.fixedHeader.type = 11) (h : WFUnsuback pk) :
    RoundTrips pk (unsubackBody pk) (unsubackNorm pk) := by
  obtain ⟨hh, hid, hp⟩ := h
  refine ⟨?_, header_roundtrip _ hh, ?_⟩
  · rw [encodePacket_unsuback pk ht]
    simp [unsubackEncode, withHeader_eq, unsubackBody, ht, encodeUint16]
  · rw [decodeBody_unsuback pk _ ht]
    have h0 := At.zero (unsubackBody pk)
    have e1 := decodeUint16_At (v := pk.packetID) h0 hid
    have h1 : At (unsubackBody pk) (0 + 2) _ := At.step_u16 (v := pk.packetID) h0
    simp only [Nat.zero_add] at e1 h1
    simp only [unsubackDecode, basePacket, e1, wrapErr, bind, Except.bind, pure, Except.pure, ht]
    by_cases hv : pk.protocolVersion = 5
    · obtain ⟨hwf, hlen⟩ := hp hv
      have hv' : (pk.protocolVersion == 5) = true := by simpa using hv
      simp only [hv', if_true] at h1 ⊢
      have e2 := decodePropsAt_AtC (name := "ErrMalformedProperties") h1 hwf hlen
      have e3 := sliceFrom_At h1.step
      simp only [e2, e3]
      simp [unsubackNorm, basePacket, hv', ht]
    · have hv' : (pk.protocolVersion == 5) = false := by simpa using hv
      simp [hv', unsubackNorm, basePacket, ht]

/-! ### DISCONNECT -/

def disconnectBody (pk : Packet) : Str :=
  if pk.protocolVersion == 5 then [pk.reasonCode % 256] ++ propsEncode 14 pk.mods 1 pk.properties else []

def WFDisconnect (pk : Packet) : Prop :=
  WFHeader pk.fixedHeader ∧
  (pk.protocolVersion = 5 →
    pk.reasonCode < 256 ∧ WFProps pk.properties ∧ propsBodyLenC 14 pk.mods 1 pk.properties ≤ maxVBI)

/-- below MQTT 5 a DISCONNECT has no body: reason code and properties are not transmitted -/
def disconnectNorm (pk : Packet) : Packet :=
  { basePacket pk (disconnectBody pk) with
    reasonCode := if pk.protocolVersion == 5 then pk.reasonCode else 0,
    properties := if pk.protocolVersion == 5 then normProps 14 pk.mods 1 pk.properties else {} }

theorem propsEncode_length_pos (pkt : Nat) (mods : Mods) (n : Nat) (p : Props) : 0 < (propsEncode pkt mods n p).length := by
  unfold propsEncode
  have := encodeLength_length_pos (encodePropList (propsToList pkt mods n p)).length
  simp only [List.length_append]; omega

theorem C26_disconnect_roundtrip (pk : Packet) (ht : pk.fixedHeader.type = 14) (h : WFDisconnect pk) :
    RoundTrips pk (disconnectBody pk) (disconnectNorm pk) := by
  obtain ⟨hh, hp⟩ := h
  refine ⟨?_, header_roundtrip _ hh, ?_⟩
  · rw [encodePacket_disconnect pk ht]
    simp [disconnectEncode, withHeader_eq, disconnectBody, ht]
  · rw [decodeBody_disconnect pk _ ht]
    by_cases hv : pk.protocolVersion = 5
    · obtain ⟨hrc, hwf, hlen⟩ := hp hv
      have hv' : (pk.protocolVersion == 5) = true := by simpa using hv
      have hm : pk.reasonCode % 256 = pk.reasonCode := Nat.mod_eq_of_lt hrc
      have hb : disconnectBody pk = pk.reasonCode :: (propsEncode 14 pk.mods 1 pk.properties ++ []) := by
        simp [disconnectBody, hv', hm]
      have h0 : At (disconnectBody pk) 0 (pk.reasonCode :: (propsEncode 14 pk.mods 1 pk.properties ++ [])) := by
        rw [← hb]; exact At.zero _
      have e1 := decodeByte_At h0
      have h1 := h0.cons
      simp only [Nat.zero_add] at e1 h1
      have e2 := decodePropsAt_AtC (name := "ErrMalformedProperties") h1 hwf hlen
      have hl : (disconnectBody pk).length = 1 + (propsEncode 14 pk.mods 1 pk.properties).length := by
        rw [hb]; simp; omega
      have hpos := propsEncode_length_pos 14 pk.mods 1 pk.properties
      have g0 : (disconnectBody pk).length > 0 := by omega
      have g1 : (disconnectBody pk).length > 1 := by omega
      simp only [disconnectDecode, basePacket, hv', g0, g1, decide_true, Bool.and_self, if_true, e1, e2, wrapErr, bind, Except.bind,
        pure, Except.pure, ht]
      simp [disconnectNorm, basePacket, hv', ht]
    · have hv' : (pk.protocolVersion == 5) = false := by simpa using hv
      simp [disconnectDecode, hv', disconnectNorm, basePacket, pure, Except.pure]

/-! ### AUTH -/

def authBody (pk : Packet) : Str := [pk.reasonCode % 256] ++ propsEncode 15 pk.mods 1 pk.properties

def WFAuth (pk : Packet) : Prop :=
  WFHeader pk.fixedHeader ∧ pk.reasonCode < 256 ∧ WFProps pk.properties ∧ propsBodyLenC 15 pk.mods 1 pk.properties ≤ maxVBI

def authNorm (pk : Packet) : Packet :=
  { basePacket pk (authBody pk) with
    reasonCode := pk.reasonCode, properties := normProps 15 pk.mods 1 pk.properties }

theorem C26_auth_roundtrip (pk : Packet) (ht : pk.fixedHeader.type = 15) (h : WFAuth pk) :
    RoundTrips pk (authBody pk) (authNorm pk) := by
  obtain ⟨hh, hrc, hwf, hlen⟩ := h
  refine ⟨?_, header_roundtrip _ hh, ?_⟩
  · rw [encodePacket_auth pk ht]
    simp [authEncode, withHeader_eq, authBody, ht]
  · rw [decodeBody_auth pk _ ht]
    have hm : pk.reasonCode % 256 = pk.reasonCode := Nat.mod_eq_of_lt hrc
    have hb : authBody pk = pk.reasonCode :: (propsEncode 15 pk.mods 1 pk.properties ++ []) := by
      simp [authBody, hm]
    have h0 : At (authBody pk) 0 (pk.reasonCode :: (propsEncode 15 pk.mods 1 pk.properties ++ [])) := by
      rw [← hb]; exact At.zero _
    have e1 := decodeByte_At h0
    have h1 := h0.cons
    simp only [Nat.zero_add] at e1 h1
    have e2 := decodePropsAt_AtC (name := "ErrMalformedProperties") h1 hwf hlen
    have hl : (authBody pk).length = 1 + (propsEncode 15 pk.mods 1 pk.properties).length := by
      rw [hb]; simp; omega
    have hpos := propsEncode_length_pos 15 pk.mods 1 pk.properties
    have g0 : ((authBody pk).length == 0) = false := by
      have : (authBody pk).length ≠ 0 := by omega
      simpa using this
    have g1 : (authBody pk).length > 1 := by omega
    simp only [authDecode, basePacket, g0, g1, Bool.false_eq_true, if_false, if_true, e1, e2, wrapErr, bind, Except.bind,
      pure, Except.pure, ht]
    simp [authNorm, basePacket, ht]

/-! ### PUBACK, PUBREC, PUBREL, PUBCOMP -/

def ackBody (pk : Packet) : Str :=
  if pk.protocolVersion == 5 then
    let pb := propsEncode pk.fixedHeader.type pk.mods 2 pk.properties
    encodeUint16 pk.packetID ++ ((if pk.reasonCode != 0 || pb.length > 1 then [pk.reasonCode % 256] else []) ++
      (if pb.length > 1 then pb else []))
  else encodeUint16 pk.packetID

def WFAck (pk : Packet) : Prop :=
  WFHeader pk.fixedHeader ∧ pk.packetID < 65536 ∧
  (pk.protocolVersion = 5 →
    pk.reasonCode < 256 ∧ WFProps pk.properties ∧ propsBodyLenC pk.fixedHeader.type pk.mods 2 pk.properties ≤ maxVBI)

/-- below MQTT 5 an acknowledgement is the packet identifier only -/
def ackNorm (pk : Packet) : Packet :=
  { basePacket pk (ackBody pk) with
    packetID := pk.packetID,
    reasonCode := if pk.protocolVersion == 5 then pk.reasonCode else 0,
    properties := if pk.protocolVersion == 5 then normProps pk.fixedHeader.type pk.mods 2 pk.properties else {} }

/-- an empty property block (the single byte 0) stands for the empty record -/
theorem normProps_of_short (pkt : Nat) (mods : Mods) (n : Nat) (p : Props)
    (h : ¬ (propsEncode pkt mods n p).length > 1) : normProps pkt mods n p = {} := by
  rw [← foldl_propsToList]
  have hpos := encodeLength_length_pos (encodePropList (propsToList pkt mods n p)).length
  have h0 : (encodePropList (propsToList pkt mods n p)).length = 0 := by
    simp only [propsEncode, List.length_append] at h; omega
  have : propsToList pkt mods n p = [] := by
    have := encodePropList_length_ge (propsToList pkt mods n p)
    exact List.eq_nil_of_length_eq_zero (by omega)
  rw [this]; rfl

theorem C26_ack_roundtrip (pk : Packet)
    (ht : pk.fixedHeader.type = 4 ∨ pk.fixedHeader.type = 5 ∨ pk.fixedHeader.type = 6 ∨ pk.fixedHeader.type = 7)
    (h : WFAck pk) : RoundTrips pk (ackBody pk) (ackNorm pk) := by
  obtain ⟨hh, hid, hp⟩ := h
  refine ⟨?_, header_roundtrip _ hh, ?_⟩
  · rw [encodePacket_ack pk ht]
    by_cases hv : pk.protocolVersion = 5
    · have hv' : (pk.protocolVersion == 5) = true := by simpa using hv
      simp [ackEncode, withHeader_eq, ackBody, hv', encodeUint16]
    · have hv' : (pk.protocolVersion == 5) = false := by simpa using hv
      simp [ackEncode, withHeader_eq, ackBody, hv']
  · rw [decodeBody_ack pk _ ht]
    by_cases hv : pk.protocolVersion = 5
    · obtain ⟨hrc, hwf, hlen⟩ := hp hv
      have hv' : (pk.protocolVersion == 5) = true := by simpa using hv
      have hm : pk.reasonCode % 256 = pk.reasonCode := Nat.mod_eq_of_lt hrc
      generalize hpb : propsEncode pk.fixedHeader.type pk.mods 2 pk.properties = pb at *
      by_cases hl : pb.length > 1
      · -- reason code and property block
        have hb : ackBody pk = encodeUint16 pk.packetID ++ (pk.reasonCode :: (pb ++ [])) := by
          simp [ackBody, hv', hpb, hl, hm]
        have h0 : At (ackBody pk) 0 (encodeUint16 pk.packetID ++ (pk.reasonCode :: (pb ++ []))) := by
          rw [← hb]; exact At.zero _
        have e1 := decodeUint16_At h0 hid
        have h1 := h0.step_u16
        have e2 := decodeByte_At h1
        have h2 := h1.cons
        simp only [Nat.zero_add] at e1 e2 h2
        rw [← hpb] at h2
        have e3 := decodePropsAt_AtC (name := "ErrMalformedProperties") h2 hwf hlen
        have hlen' : (ackBody pk).length = 3 + pb.length := by rw [hb]; simp [encodeUint16]; omega
        have g2 : (ackBody pk).length > 2 := by omega
        have g3 : (ackBody pk).length > 3 := by omega
        simp only [ackDecode, basePacket, e1, e2, e3, hv', g2, g3, decide_true, Bool.and_self, if_true, wrapErr, bind,
          Except.bind, pure, Except.pure]
        simp [ackNorm, basePacket, hv']
      · have hn := normProps_of_short _ _ _ _ (hpb ▸ hl)
        by_cases hr : pk.reasonCode = 0
        · -- identifier only
          have hb : ackBody pk = encodeUint16 pk.packetID ++ [] := by simp [ackBody, hv', hpb, hl, hr]
          have h0 : At (ackBody pk) 0 (encodeUint16 pk.packetID ++ []) := by rw [← hb]; exact At.zero _
          have e1 := decodeUint16_At h0 hid
          have hlen' : (ackBody pk).length = 2 := by rw [hb]; simp [encodeUint16]
          have g2 : ¬ (ackBody pk).length > 2 := by omega
          simp only [ackDecode, basePacket, e1, hv', g2, decide_false, Bool.and_false, Bool.false_eq_true, if_false,
            wrapErr, bind, Except.bind, pure, Except.pure]
          simp [ackNorm, basePacket, hv', hn, hr]
        · -- identifier and reason code
          have hr' : (pk.reasonCode != 0) = true := by simpa using hr
          have hb : ackBody pk = encodeUint16 pk.packetID ++ (pk.reasonCode :: []) := by
            simp [ackBody, hv', hpb, hl, hr, hm]
          have h0 : At (ackBody pk) 0 (encodeUint16 pk.packetID ++ (pk.reasonCode :: [])) := by
            rw [← hb]; exact At.zero _
          have e1 := decodeUint16_At h0 hid
          have e2 := decodeByte_At h0.step_u16
          simp only [Nat.zero_add] at e1 e2
          have hlen' : (ackBody pk).length = 3 := by rw [hb]; simp [encodeUint16]
          have g2 : (ackBody pk).length > 2 := by omega
          have g3 : ¬ (ackBody pk).length > 3 := by omega
          simp only [ackDecode, basePacket, e1, e2, hv', g2, g3, decide_true, Bool.and_self, if_true, if_false, wrapErr,
            bind, Except.bind, pure, Except.pure]
          simp [ackNorm, basePacket, hv', hn]
    · have hv' : (pk.protocolVersion == 5) = false := by simpa using hv
      have hb : ackBody pk = encodeUint16 pk.packetID ++ [] := by simp [ackBody, hv']
      have h0 : At (ackBody pk) 0 (encodeUint16 pk.packetID ++ []) := by rw [← hb]; exact At.zero _
      have e1 := decodeUint16_At h0 hid
      simp only [ackDecode, basePacket, e1, hv', Bool.false_and, Bool.false_eq_true, if_false, wrapErr, bind, Except.bind,
        pure, Except.pure]
      simp [ackNorm, basePacket, hv']

/-! ### PUBLISH (all protocol versions) -/

/-- the `n` the encoder passes to `Properties.Encode`: length of topic and identifier plus payload -/
def publishN (pk : Packet) : Nat :=
  (encodeBytes pk.topicName ++ (if pk.fixedHeader.qos > 0 then encodeUint16 pk.packetID else [])).length + pk.payload.length

def publishBody (pk : Packet) : Str :=
  encodeBytes pk.topicName ++ ((if pk.fixedHeader.qos > 0 then encodeUint16 pk.packetID else []) ++
    ((if pk.protocolVersion == 5 then propsEncode 3 pk.mods (publishN pk) pk.properties else []) ++ pk.payload))

def WFPublish (pk : Packet) : Prop :=
  WFHeader pk.fixedHeader ∧ wfStr pk.topicName ∧
  (pk.fixedHeader.qos > 0 → pk.packetID ≠ 0 ∧ pk.packetID < 65536) ∧
  (pk.protocolVersion = 5 → WFProps pk.properties ∧ propsBodyLenC 3 pk.mods (publishN pk) pk.properties ≤ maxVBI)

/-- at QoS 0 no packet identifier is transmitted -/
def publishNorm (pk : Packet) : Packet :=
  { basePacket pk (publishBody pk) with
    topicName := pk.topicName, payload := pk.payload,
    packetID := if pk.fixedHeader.qos > 0 then pk.packetID else 0,
    properties := if pk.protocolVersion == 5 then normProps 3 pk.mods (publishN pk) pk.properties else {} }

theorem C26_publish_roundtrip (pk : Packet) (ht : pk.fixedHeader.type = 3) (h : WFPublish pk) :
    RoundTrips pk (publishBody pk) (publishNorm pk) := by
  obtain ⟨hh, htop, hid, hp⟩ := h
  refine ⟨?_, header_roundtrip _ hh, ?_⟩
  · rw [encodePacket_publish pk ht]
    have hne : ¬ (pk.fixedHeader.qos > 0 ∧ pk.packetID = 0) := fun ⟨a, b⟩ => (hid a).1 b
    simp only [publishEncode]
    have : (decide (pk.fixedHeader.qos > 0) && pk.packetID == 0) = false := by
      by_cases hq : pk.fixedHeader.qos > 0
      · have := (hid hq).1; simp [this]
      · simp [hq]
    simp only [this, Bool.false_eq_true, if_false]
    simp [fixedHeaderEncode, headerByte, publishBody, publishN, List.append_assoc, ht, Nat.add_assoc]
  · rw [decodeBody_publish pk _ ht]
    have h0 := At.zero (publishBody pk)
    have e1 := decodeString_At (s := pk.topicName) h0 htop
    have h1 : At (publishBody pk) (0 + 2 + pk.topicName.length) _ := At.step_bytes (s := pk.topicName) h0
    simp only [Nat.zero_add] at e1 h1
    simp only [publishDecode, basePacket, e1, wrapErr, bind, Except.bind, pure, Except.pure]
    by_cases hq : pk.fixedHeader.qos > 0
    · obtain ⟨_, hid'⟩ := hid hq
      simp only [hq, if_true] at h1 ⊢
      have e2 := decodeUint16_At h1 hid'
      have h2 := h1.step_u16
      simp only [e2]
      by_cases hv : pk.protocolVersion = 5
      · obtain ⟨hwf, hlen⟩ := hp hv
        have hv' : (pk.protocolVersion == 5) = true := by simpa using hv
        simp only [hv', if_true] at h2 ⊢
        have e3 := decodePropsAt_AtC (name := "ErrMalformedProperties") h2 hwf hlen
        simp only [ht, e3, sliceFrom_At h2.step]
        simp [publishNorm, basePacket, hq, hv', ht]
      · have hv' : (pk.protocolVersion == 5) = false := by simpa using hv
        simp only [hv', Bool.false_eq_true, if_false, List.nil_append] at h2 ⊢
        simp only [sliceFrom_At h2]
        simp [publishNorm, basePacket, hq, hv', ht]
    · simp only [hq, if_false, List.nil_append] at h1 ⊢
      by_cases hv : pk.protocolVersion = 5
      · obtain ⟨hwf, hlen⟩ := hp hv
        have hv' : (pk.protocolVersion == 5) = true := by simpa using hv
        simp only [hv', if_true] at h1 ⊢
        have e3 := decodePropsAt_AtC (name := "ErrMalformedProperties") h1 hwf hlen
        simp only [ht, e3, sliceFrom_At h1.step]
        simp [publishNorm, basePacket, hq, hv', ht]
      · have hv' : (pk.protocolVersion == 5) = false := by simpa using hv
        simp only [hv', Bool.false_eq_true, if_false, List.nil_append] at h1 ⊢
        simp only [sliceFrom_At h1]
        simp [publishNorm, basePacket, hq, hv', ht]

end Mochi.Codec
