import Mochi.Model.Broker
/-!
# Small facts about `dead` / `ackRes` (a handler's own `WritePacket` and its failure)
-/
namespace Mochi.Broker

theorem dead_eq_false_iff (c : Client) : dead c = false ↔ c.isOpen = true ∧ c.peerGone = false := by
  unfold dead
  cases c.isOpen <;> cases c.peerGone <;> simp

theorem dead_eq_true_iff (c : Client) : dead c = true ↔ c.isOpen = false ∨ c.peerGone = true := by
  unfold dead
  cases c.isOpen <;> cases c.peerGone <;> simp

theorem dead_of_live {c : Client} (ho : c.isOpen = true) (hp : c.peerGone = false) : dead c = false :=
  (dead_eq_false_iff c).2 ⟨ho, hp⟩

theorem dead_of_closed {c : Client} (ho : c.isOpen = false) : dead c = true :=
  (dead_eq_true_iff c).2 (Or.inl ho)

theorem ackRes_live (s : Server) (i t id rc : Nat) (h : dead (getObj s i) = false) :
    ackRes s i t id rc = (s, writeAck s i t id rc, none) := by
  unfold ackRes
  simp [h]

theorem ackRes_inline (s : Server) (i t id rc : Nat) (h : (getObj s i).inline = true) :
    ackRes s i t id rc = (s, writeAck s i t id rc, none) := by
  unfold ackRes
  simp [h]

theorem ackRes_dead (s : Server) (i t id rc : Nat) (h : dead (getObj s i) = true)
    (hin : (getObj s i).inline = false) :
    ackRes s i t id rc = (s, [], some 0) := by
  unfold ackRes
  simp [h, hin]

@[simp] theorem ackRes_fst (s : Server) (i t id rc : Nat) : (ackRes s i t id rc).1 = s := by
  unfold ackRes
  split <;> rfl

/-- the two shapes of `ackRes` -/
theorem ackRes_cases (s : Server) (i t id rc : Nat) :
    ackRes s i t id rc = (s, writeAck s i t id rc, none) ∨ ackRes s i t id rc = (s, [], some 0) := by
  unfold ackRes
  split
  · exact Or.inr rfl
  · exact Or.inl rfl

/-- whatever `ackRes` writes is what `writeAck` writes, or nothing -/
theorem ackRes_out (s : Server) (i t id rc : Nat) :
    (ackRes s i t id rc).2.1 = writeAck s i t id rc ∨ (ackRes s i t id rc).2.1 = [] := by
  rcases ackRes_cases s i t id rc with h | h <;> rw [h]
  · exact Or.inl rfl
  · exact Or.inr rfl

end Mochi.Broker
