import Mochi.Lemmas.BrokerPublishOp
/-!
# Will messages: what `sendLWT`, `detach`, `processDisconnect`, `tickWills` do, as equations (C16)

* `willMsg c` — the message `sendLWT` builds from the will of client object `c`; `willEvent cid` — the harness
  event `will(<id>)` that marks a will publication.
* `sendLWT_noflag / _delayed / _now` — the three cases of `sendLWT` as equations.
* `FanOut o` — every output of a fan-out (`publishToSubscribers`) is a PUBLISH, an inline delivery or a
  packet-id-exhausted event: no connection is closed, no other packet type is written.
* `step_drop_eq` — the `drop` op of a live network client is `sendLWT` + `stopClient` + the session clean-up.
-/
namespace Mochi.Broker
open Mochi.Topics

/-- the message `sendLWT` builds from the will of client object `c` -/
def willMsg (c : Client) : Msg :=
  { type := 3, retain := c.will.retain, qos := c.will.qos, topic := c.will.topic,
    payload := c.will.payload, origin := c.id, created := NOW }

/-- the message `sendLWT` registers in `willDelayed`: the will stamped with the time it becomes due -/
def delayedWillMsg (c : Client) : Msg := { willMsg c with expiry := NOW + c.will.delay }

/-- the event that marks the publication of the will of client id `cid` -/
def willEvent (cid : Str) : Out := .event s!"will({hexStr cid})"

theorem sendLWT_noflag (s : Server) (i : Nat) (h : (getObj s i).will.flag = false) : sendLWT s i = (s, []) := by
  unfold sendLWT; simp [h]

theorem sendLWT_delayed (s : Server) (i : Nat) (hf : (getObj s i).will.flag = true) (hd : (getObj s i).will.delay > 0) :
    sendLWT s i =
      ({ s with willDelayed := assocSet s.willDelayed (getObj s i).id (delayedWillMsg (getObj s i)) }, []) := by
  unfold sendLWT
  simp only [hf, Bool.not_true, Bool.false_eq_true, if_false, hd, if_true]
  rfl

theorem sendLWT_now (s : Server) (i : Nat) (hf : (getObj s i).will.flag = true) (hd : (getObj s i).will.delay = 0) :
    sendLWT s i =
      (modObj (publishToSubscribers (retainedState s (willMsg (getObj s i))) (willMsg (getObj s i))).1 i
          (fun c => { c with will := { c.will with flag := false } }),
       (publishToSubscribers (retainedState s (willMsg (getObj s i))) (willMsg (getObj s i))).2 ++ [willEvent (getObj s i).id]) := by
  unfold sendLWT
  simp only [hf, Bool.not_true, Bool.false_eq_true, if_false, hd, Nat.lt_irrefl]
  rfl

/-! ### the outputs of a fan-out -/

def Out.isFan : Out → Bool
  | .wrote _ (.publish ..) => true
  | .inline .. => true
  | .event _ => true
  | _ => false

/-- every output is a PUBLISH, an inline delivery or an event -/
def FanOut (o : List Out) : Prop := ∀ x ∈ o, x.isFan = true

theorem FanOut.nil : FanOut [] := fun _ h => by cases h
theorem FanOut.append {a b : List Out} (ha : FanOut a) (hb : FanOut b) : FanOut (a ++ b) := by
  intro x hx
  rcases List.mem_append.mp hx with h | h
  · exact ha x h
  · exact hb x h

theorem writeMsg_fan (s : Server) (i : Nat) (m : Msg) (hm : m.type = 3) : FanOut (writeMsg s i m) := by
  unfold writeMsg
  simp only [hm]
  split
  · exact FanOut.nil
  · intro x hx
    simp at hx
    subst hx
    rfl

theorem publishToClientCore_fan (s : Server) (i : Nat) (sub : Sub) (f : Bool) (pk : Msg) (hm : pk.type = 3) :
    FanOut (publishToClientCore s i sub f pk).2 := by
  unfold publishToClientCore
  extract_lets c out
  have hout : out.type = 3 := hm
  split
  rename_i c1 out1 heq
  have ho1 : out1.type = 3 := by
    split at heq
    · split at heq
      split at heq <;> (cases heq; first | exact hout | rfl)
    · cases heq; exact hout
  clear heq
  extract_lets s1
  split
  · split
    · exact FanOut.nil
    · split
      · intro x hx
        simp at hx
        subst hx
        rfl
      · rename_i pid _
        extract_lets c2 out2 sentQuota
        split
        rename_i c3 isNew hfl
        extract_lets c4 s2 src s3
        split
        · exact FanOut.nil
        · split
          · exact FanOut.nil
          · exact writeMsg_fan _ _ _ ho1
  · split
    · exact FanOut.nil
    · exact writeMsg_fan _ _ _ ho1

theorem publishToClient_fan (s : Server) (i : Nat) (sub : Sub) (f : Bool) (pk : Msg) (hm : pk.type = 3) :
    FanOut (publishToClient s i sub f pk).2 := by
  unfold publishToClient
  split
  · exact FanOut.nil
  · split
    · exact FanOut.nil
    · exact publishToClientCore_fan s i sub f pk hm

theorem publishToSubscribers_fan (s : Server) (pk : Msg) (hm : pk.type = 3) : FanOut (publishToSubscribers s pk).2 := by
  unfold publishToSubscribers
  split
  · exact FanOut.nil
  · extract_lets e pk' r subsMap inl
    have hm' : pk'.type = 3 := by
      show (if (pk.expiry == 0) = true then _ else pk).type = 3
      split
      · show (if _ then _ else pk).type = 3
        split
        · exact hm
        · exact hm
      · exact hm
    refine foldl_inv (fun (acc : Server × List Out) => FanOut acc.2) _ _ _ ?_ ?_
    · intro x hx
      obtain ⟨a, _, rfl⟩ := List.mem_map.mp hx
      rfl
    · intro acc cs h
      split
      · exact h
      · rename_i k _
        split
        rename_i s' o heq
        have := publishToClient_fan acc.1 k cs.2 false pk' hm'
        rw [heq] at this
        exact h.append this

/-- the `drop` op's filter (the peer closed the connection itself) leaves a fan-out alone -/
theorem FanOut.filter_closed {o : List Out} (h : FanOut o) (conn : Nat) :
    o.filter (fun x => match x with | .closed c => c != conn | _ => true) = o := by
  apply List.filter_eq_self.mpr
  intro x hx
  have := h x hx
  cases x <;> first | rfl | cases this

/-! ### `sendLWT` keeps the acting object's own fields; the `drop` op as an equation -/

theorem getObj_modObj_lt (s : Server) (i : Nat) (f : Client → Client) (hi : i < s.objs.length) :
    getObj (modObj s i f) i = f (getObj s i) := getObj_setObj_eq s i _ hi

theorem getObj_modObj_ne (s : Server) (i k : Nat) (f : Client → Client) (h : k ≠ i) :
    getObj (modObj s i f) k = getObj s k := getObj_setObj_ne s i k _ h

theorem ownEq_modObj (s : Server) (i : Nat) (f : Client → Client) (hf : ∀ c, OwnEq c (f c)) :
    OwnEq (getObj s i) (getObj (modObj s i f) i) := by
  rcases getObj_setObj_self_cases s i (f (getObj s i)) with e | e
  · show OwnEq _ (getObj (setObj s i (f (getObj s i))) i)
    rw [e]; exact hf _
  · show OwnEq _ (getObj (setObj s i (f (getObj s i))) i)
    rw [e]; exact OwnEq.refl _

theorem sendLWT_own (s : Server) (i : Nat) : OwnEq (getObj s i) (getObj (sendLWT s i).1 i) := by
  by_cases hf : (getObj s i).will.flag = true
  · by_cases hd : (getObj s i).will.delay = 0
    · rw [sendLWT_now s i hf hd]
      refine OwnEq.trans ?_ (ownEq_modObj _ i _ (fun c => by own_rfl))
      have d := (publishToSubscribers_deliv (retainedState s (willMsg (getObj s i))) (willMsg (getObj s i))).all i
      rw [getObj_retainedState] at d
      exact d.own
    · rw [sendLWT_delayed s i hf (Nat.pos_of_ne_zero hd)]
      exact OwnEq.refl _
  · rw [sendLWT_noflag s i (by simpa using hf)]
    exact OwnEq.refl _

/-- `Client.Stop` on a live network client -/
theorem stopClient_live (s : Server) (i : Nat) (hst : (getObj s i).stopped = false) (hin : (getObj s i).inline = false) :
    stopClient s i = (setObj s i { getObj s i with isOpen := false, stopped := true }, [.closed (getObj s i).conn]) := by
  unfold stopClient
  simp only [hst, hin, Bool.false_eq_true, if_false]

/-- the state in which the handler of object `i` learns that its peer is gone -/
def peerLost (s : Server) (i : Nat) : Server := modObj s i (fun c => { c with peerGone := true })

theorem getObj_peerLost_self (s : Server) (i : Nat) (hi : i < s.objs.length) :
    getObj (peerLost s i) i = { getObj s i with peerGone := true } := getObj_modObj_lt s i _ hi

theorem willMsg_peerLost (s : Server) (i : Nat) (hi : i < s.objs.length) :
    willMsg (getObj (peerLost s i) i) = willMsg (getObj s i) := by rw [getObj_peerLost_self s i hi]; rfl

theorem peerLost_willDelayed (s : Server) (i : Nat) : (peerLost s i).willDelayed = s.willDelayed := rfl

theorem detachB_willDelayed (s : Server) (i : Nat) : (detachB s i).willDelayed = s.willDelayed := by
  unfold detachB
  extract_lets +onlyGivenNames c expire s3 s4 s2
  show s2.willDelayed = _
  show (if (expire && !c.takenOver) = true then _ else s).willDelayed = _
  split
  · show s4.willDelayed = _
    have h3 : s3.willDelayed = s.willDelayed := rfl
    have h4 : s4.willDelayed = s3.willDelayed := by
      show (unsubscribeClient s3 i).willDelayed = _
      unfold unsubscribeClient
      extract_lets +onlyGivenNames c' s'
      split
      · rfl
      · refine foldl_inv (fun (acc : Server) => acc.willDelayed = s3.willDelayed) _ _ _ rfl ?_
        intro b a hb
        exact hb
    exact h4.trans h3
  · rfl

/-- the error exit of a live network client's handler: will, then `Client.Stop` -/
theorem detach_true_live (s : Server) (i : Nat) (hst : (getObj s i).stopped = false) (hin : (getObj s i).inline = false) :
    (detach s i true).2 = (sendLWT s i).2 ++ [.closed (getObj s i).conn] ∧
    (detach s i true).1.willDelayed = (sendLWT s i).1.willDelayed := by
  have o := sendLWT_own s i
  have e := stopClient_live (sendLWT s i).1 i (o.stopped.symm.trans hst) (o.inline.symm.trans hin)
  constructor
  · show (sendLWT s i).2 ++ (stopClient (sendLWT s i).1 i).2 = _
    rw [e, o.conn]
  · show (detachB (stopClient (sendLWT s i).1 i).1 i).willDelayed = _
    rw [detachB_willDelayed, e]
    rfl

/-- the outputs of the `drop` op on the connection of a live network client, and its effect on the delayed wills -/
theorem step_drop_live (s : Server) (i : Nat) (hi : i < s.objs.length) (hst : (getObj s i).stopped = false)
    (hin : (getObj s i).inline = false) (hc : assocGet s.connOf (getObj s i).conn = some i) :
    (step s (.drop (getObj s i).conn)).2 = ((sendLWT (peerLost s i) i).2).filter
        (fun x => match x with | .closed c => c != (getObj s i).conn | _ => true) ∧
    (step s (.drop (getObj s i).conn)).1.willDelayed = (sendLWT (peerLost s i) i).1.willDelayed := by
  have e := getObj_peerLost_self s i hi
  have hst' : (getObj (peerLost s i) i).stopped = false := by rw [e]; exact hst
  have hin' : (getObj (peerLost s i) i).inline = false := by rw [e]; exact hin
  have hconn : (getObj (peerLost s i) i).conn = (getObj s i).conn := by rw [e]
  obtain ⟨d1, d2⟩ := detach_true_live (peerLost s i) i hst' hin'
  rw [step]
  simp only [hc, hst, Bool.false_eq_true, if_false]
  constructor
  · show ((detach (peerLost s i) i true).2).filter _ = _
    rw [d1, hconn, List.filter_append]
    simp
    rfl
  · exact d2

end Mochi.Broker
