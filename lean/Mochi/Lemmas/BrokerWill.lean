import Mochi.Lemmas.BrokerPublishOp
/-!
# Will messages: what `sendLWT`, `detach`, `processDisconnect`, `tickWills` do, as equations (C16)

* `willMsg c` — the message `sendLWT` builds from the will of client object `c`; `willEvent cid` — the harness
  event `will(<id>)` that marks a will publication.
* `sendLWT_noflag / _delayed / _now` — the three cases of `sendLWT` as equations.
* `FanOut o` — every output of a fan-out (`publishToSubscribers`) is a PUBLISH, an inline delivery or a
  packet-id-exhausted event: no connection is closed, no other packet type is written.
* `step_drop_eq` — the `drop` op of a live network client is `sendLWT` + `stopClient` + the session clean-up.
-/
namespace Mochi.Broker
open Mochi.Topics

/-- the message `sendLWT` builds from the will of client object `c` -/
def willMsg (c : Client) : Msg :=
  { type := 3, retain := c.will.retain, qos := c.will.qos, topic := c.will.topic,
    payload := c.will.payload, origin := c.id, created := NOW }

/-- the message `sendLWT` registers in `willDelayed`: the will stamped with the time it becomes due -/
def delayedWillMsg (c : Client) : Msg := { willMsg c with expiry := NOW + c.will.delay }

/-- the event that marks the publication of the will of client id `cid` -/
def willEvent (cid : Str) : Out := .event s!"will({hexStr cid})"

theorem sendLWT_noflag (s : Server) (i : Nat) (h : (getObj s i).will.flag = false) : sendLWT s i = (s, []) := by
  unfold sendLWT; simp [h]

theorem sendLWT_delayed (s : Server) (i : Nat) (hf : (getObj s i).will.flag = true) (hd : (getObj s i).will.delay > 0) :
    sendLWT s i =
      ({ s with willDelayed := assocSet s.willDelayed (getObj s i).id (delayedWillMsg (getObj s i)) }, []) := by
  unfold sendLWT
  simp only [hf, Bool.not_true, Bool.false_eq_true, if_false, hd, if_true]
  rfl

theorem sendLWT_now (s : Server) (i : Nat) (hf : (getObj s i).will.flag = true) (hd : (getObj s i).will.delay = 0) :
    sendLWT s i =
      (modObj (publishToSubscribers (retainedState s (willMsg (getObj s i))) (willMsg (getObj s i))).1 i
          (fun c => { c with will := { c.will with flag := false } }),
       (publishToSubscribers (retainedState s (willMsg (getObj s i))) (willMsg (getObj s i))).2 ++ [willEvent (getObj s i).id]) := by
  unfold sendLWT
  simp only [hf, Bool.not_true, Bool.false_eq_true, if_false, hd, Nat.lt_irrefl]
  rfl

/-! ### the outputs of a fan-out -/

def Out.isFan : Out → Bool
  | .wrote _ (.publish ..) => true
  | .inline .. => true
  | .event _ => true
  | _ => false

/-- every output is a PUBLISH, an inline delivery or an event -/
def FanOut (o : List Out) : Prop := ∀ x ∈ o, x.isFan = true

theorem FanOut.nil : FanOut [] := fun _ h => by cases h
theorem FanOut.append {a b : List Out} (ha : FanOut a) (hb : FanOut b) : FanOut (a ++ b) := by
  intro x hx
  rcases List.mem_append.mp hx with h | h
  · exact ha x h
  · exact hb x h

theorem writeMsg_fan (s : Server) (i : Nat) (m : Msg) (hm : m.type = 3) : FanOut (writeMsg s i m) := by
  unfold writeMsg
  simp only [hm]
  split
  · exact FanOut.nil
  · intro x hx
    simp at hx
    subst hx
    rfl

theorem publishToClientCore_fan (s : Server) (i : Nat) (sub : Sub) (f : Bool) (pk : Msg) (hm : pk.type = 3) :
    FanOut (publishToClientCore s i sub f pk).2 := by
  unfold publishToClientCore
  extract_lets c out
  have hout : out.type = 3 := hm
  split
  rename_i c1 out1 heq
  have ho1 : out1.type = 3 := by
    split at heq
    · split at heq
      split at heq <;> (cases heq; first | exact hout | rfl)
    · cases heq; exact hout
  clear heq
  extract_lets s1
  split
  · split
    · exact FanOut.nil
    · split
      · intro x hx
        simp at hx
        subst hx
        rfl
      · rename_i pid _
        extract_lets c2 out2 sentQuota
        split
        rename_i c3 isNew hfl
        extract_lets c4 s2 src s3
        split
        · exact FanOut.nil
        · split
          · exact FanOut.nil
          · exact writeMsg_fan _ _ _ ho1
  · split
    · exact FanOut.nil
    · exact writeMsg_fan _ _ _ ho1

theorem publishToClient_fan (s : Server) (i : Nat) (sub : Sub) (f : Bool) (pk : Msg) (hm : pk.type = 3) :
    FanOut (publishToClient s i sub f pk).2 := by
  unfold publishToClient
  split
  · exact FanOut.nil
  · split
    · exact FanOut.nil
    · exact publishToClientCore_fan s i sub f pk hm

theorem publishToSubscribers_fan (s : Server) (pk : Msg) (hm : pk.type = 3) : FanOut (publishToSubscribers s pk).2 := by
  unfold publishToSubscribers
  split
  · exact FanOut.nil
  · extract_lets e pk' r subsMap inl
    have hm' : pk'.type = 3 := by
      show (if (pk.expiry == 0) = true then _ else pk).type = 3
      split
      · show (if _ then _ else pk).type = 3
        split
        · exact hm
        · exact hm
      · exact hm
    refine foldl_inv (fun (acc : Server × List Out) => FanOut acc.2) _ _ _ ?_ ?_
    · intro x hx
      obtain ⟨a, _, rfl⟩ := List.mem_map.mp hx
      rfl
    · intro acc cs h
      split
      · exact h
      · rename_i k _
        split
        rename_i s' o heq
        have := publishToClient_fan acc.1 k cs.2 false pk' hm'
        rw [heq] at this
        exact h.append this

/-- the `drop` op's filter (the peer closed the connection itself) leaves a fan-out alone -/
theorem FanOut.filter_closed {o : List Out} (h : FanOut o) (conn : Nat) :
    o.filter (fun x => match x with | .closed c => c != conn | _ => true) = o := by
  apply List.filter_eq_self.mpr
  intro x hx
  have := h x hx
  cases x <;> first | rfl | cases this

/-! ### `sendLWT` keeps the acting object's own fields; the `drop` op as an equation -/

theorem getObj_modObj_lt (s : Server) (i : Nat) (f : Client → Client) (hi : i < s.objs.length) :
    getObj (modObj s i f) i = f (getObj s i) := getObj_setObj_eq s i _ hi

theorem getObj_modObj_ne (s : Server) (i k : Nat) (f : Client → Client) (h : k ≠ i) :
    getObj (modObj s i f) k = getObj s k := getObj_setObj_ne s i k _ h

theorem ownEq_modObj (s : Server) (i : Nat) (f : Client → Client) (hf : ∀ c, OwnEq c (f c)) :
    OwnEq (getObj s i) (getObj (modObj s i f) i) := by
  rcases getObj_setObj_self_cases s i (f (getObj s i)) with e | e
  · show OwnEq _ (getObj (setObj s i (f (getObj s i))) i)
    rw [e]; exact hf _
  · show OwnEq _ (getObj (setObj s i (f (getObj s i))) i)
    rw [e]; exact OwnEq.refl _

theorem sendLWT_own (s : Server) (i : Nat) : OwnEq (getObj s i) (getObj (sendLWT s i).1 i) := by
  by_cases hf : (getObj s i).will.flag = true
  · by_cases hd : (getObj s i).will.delay = 0
    · rw [sendLWT_now s i hf hd]
      refine OwnEq.trans ?_ (ownEq_modObj _ i _ (fun c => by own_rfl))
      have d := (publishToSubscribers_deliv (retainedState s (willMsg (getObj s i))) (willMsg (getObj s i))).all i
      rw [getObj_retainedState] at d
      exact d.own
    · rw [sendLWT_delayed s i hf (Nat.pos_of_ne_zero hd)]
      exact OwnEq.refl _
  · rw [sendLWT_noflag s i (by simpa using hf)]
    exact OwnEq.refl _

/-- `Client.Stop` on a live network client -/
theorem stopClient_live (s : Server) (i : Nat) (hst : (getObj s i).stopped = false) (hin : (getObj s i).inline = false) :
    stopClient s i = (setObj s i { getObj s i with isOpen := false, stopped := true }, [.closed (getObj s i).conn]) := by
  unfold stopClient
  simp only [hst, hin, Bool.false_eq_true, if_false]

/-- the state in which the handler of object `i` learns that its peer is gone -/
def peerLost (s : Server) (i : Nat) : Server := modObj s i (fun c => { c with peerGone := true })

theorem getObj_peerLost_self (s : Server) (i : Nat) (hi : i < s.objs.length) :
    getObj (peerLost s i) i = { getObj s i with peerGone := true } := getObj_modObj_lt s i _ hi

theorem willMsg_peerLost (s : Server) (i : Nat) (hi : i < s.objs.length) :
    willMsg (getObj (peerLost s i) i) = willMsg (getObj s i) := by rw [getObj_peerLost_self s i hi]; rfl

theorem peerLost_willDelayed (s : Server) (i : Nat) : (peerLost s i).willDelayed = s.willDelayed := rfl

theorem detachB_willDelayed (s : Server) (i : Nat) : (detachB s i).willDelayed = s.willDelayed := by
  unfold detachB
  extract_lets +onlyGivenNames c expire s3 s4 s2
  show s2.willDelayed = _
  show (if (expire && !c.takenOver) = true then _ else s).willDelayed = _
  split
  · show s4.willDelayed = _
    have h3 : s3.willDelayed = s.willDelayed := rfl
    have h4 : s4.willDelayed = s3.willDelayed := by
      show (unsubscribeClient s3 i).willDelayed = _
      unfold unsubscribeClient
      extract_lets +onlyGivenNames c' s'
      split
      · rfl
      · refine foldl_inv (fun (acc : Server) => acc.willDelayed = s3.willDelayed) _ _ _ rfl ?_
        intro b a hb
        exact hb
    exact h4.trans h3
  · rfl

/-- the error exit of a live network client's handler: will, then `Client.Stop` -/
theorem detach_true_live (s : Server) (i : Nat) (hst : (getObj s i).stopped = false) (hin : (getObj s i).inline = false) :
    (detach s i true).2 = (sendLWT s i).2 ++ [.closed (getObj s i).conn] ∧
    (detach s i true).1.willDelayed = (sendLWT s i).1.willDelayed := by
  have o := sendLWT_own s i
  have e := stopClient_live (sendLWT s i).1 i (o.stopped.symm.trans hst) (o.inline.symm.trans hin)
  constructor
  · show (sendLWT s i).2 ++ (stopClient (sendLWT s i).1 i).2 = _
    rw [e, o.conn]
  · show (detachB (stopClient (sendLWT s i).1 i).1 i).willDelayed = _
    rw [detachB_willDelayed, e]
    rfl

/-- the outputs of the `drop` op on the connection of a live network client, and its effect on the delayed wills -/
theorem step_drop_live (s : Server) (i : Nat) (hi : i < s.objs.length) (hst : (getObj s i).stopped = false)
    (hin : (getObj s i).inline = false) (hc : assocGet s.connOf (getObj s i).conn = some i) :
    (step s (.drop (getObj s i).conn)).2 = ((sendLWT (peerLost s i) i).2).filter
        (fun x => match x with | .closed c => c != (getObj s i).conn | _ => true) ∧
    (step s (.drop (getObj s i).conn)).1.willDelayed = (sendLWT (peerLost s i) i).1.willDelayed := by
  have e := getObj_peerLost_self s i hi
  have hst' : (getObj (peerLost s i) i).stopped = false := by rw [e]; exact hst
  have hin' : (getObj (peerLost s i) i).inline = false := by rw [e]; exact hin
  have hconn : (getObj (peerLost s i) i).conn = (getObj s i).conn := by rw [e]
  obtain ⟨d1, d2⟩ := detach_true_live (peerLost s i) i hst' hin'
  rw [step]
  simp only [hc, hst, Bool.false_eq_true, if_false]
  constructor
  · show ((detach (peerLost s i) i true).2).filter _ = _
    rw [d1, hconn, List.filter_append]
    simp
    rfl
  · exact d2

/-! ### fields of every object that the session clean-up and a release leave alone -/

structure KeepW (a b : Client) : Prop where
  will : b.will = a.will
  id : b.id = a.id
  conn : b.conn = a.conn
  inline : b.inline = a.inline
  isOpen : b.isOpen = a.isOpen
  stopped : b.stopped = a.stopped

macro "kw_rfl" : tactic => `(tactic| exact ⟨rfl, rfl, rfl, rfl, rfl, rfl⟩)

theorem KeepW.refl (a : Client) : KeepW a a := by kw_rfl
theorem KeepW.trans {a b c : Client} (h : KeepW a b) (g : KeepW b c) : KeepW a c :=
  ⟨g.will.trans h.will, g.id.trans h.id, g.conn.trans h.conn, g.inline.trans h.inline, g.isOpen.trans h.isOpen,
    g.stopped.trans h.stopped⟩

/-- every object keeps the `KeepW` fields -/
def KeepAll (s s' : Server) : Prop := ∀ k, KeepW (getObj s k) (getObj s' k)

theorem KeepAll.refl (s : Server) : KeepAll s s := fun _ => KeepW.refl _
theorem KeepAll.trans {s s1 s2 : Server} (h : KeepAll s s1) (g : KeepAll s1 s2) : KeepAll s s2 :=
  fun k => (h k).trans (g k)
theorem KeepAll.of_objs {s s' : Server} (h : s'.objs = s.objs) : KeepAll s s' :=
  fun k => by rw [getObj_of_objs_eq h k]; exact KeepW.refl _

theorem KeepAll.set (s : Server) (i : Nat) (c : Client) (h : KeepW (getObj s i) c) : KeepAll s (setObj s i c) := by
  intro k
  by_cases hk : k = i
  · subst hk
    rcases getObj_setObj_self_cases s k c with e | e
    · rw [e]; exact h
    · rw [e]; exact KeepW.refl _
  · rw [getObj_setObj_ne s i k c hk]; exact KeepW.refl _

theorem clearInflights_keep (s : Server) (i : Nat) : KeepAll s (clearInflights s i) := by
  unfold clearInflights
  extract_lets +onlyGivenNames c n
  exact (KeepAll.set s i _ (by kw_rfl)).trans (KeepAll.of_objs rfl)

theorem unsubscribeClient_keep (s : Server) (i : Nat) : KeepAll s (unsubscribeClient s i) :=
  (KeepAll.set s i _ (by kw_rfl)).trans (KeepAll.of_objs (unsubscribeClient_objs s i))

theorem detachB_keep (s : Server) (i : Nat) : KeepAll s (detachB s i) := by
  unfold detachB
  extract_lets +onlyGivenNames c expire s3 s4 s2
  refine KeepAll.trans (s1 := s2) ?_ (KeepAll.of_objs rfl)
  show KeepAll s (if (expire && !c.takenOver) = true then _ else s)
  split
  · exact ((clearInflights_keep s i).trans (unsubscribeClient_keep s3 i)).trans (KeepAll.of_objs rfl)
  · exact KeepAll.refl s

theorem nextImmediate_keep (s : Server) (i : Nat) : KeepAll s (nextImmediate s i).1 := by
  unfold nextImmediate
  extract_lets c
  split
  · split
    · rename_i m hm
      extract_lets o
      split
      rename_i c' ok hfl
      have hc' : KeepW c c' := by
        have : c' = (flDelete c m.id).1 := by rw [hfl]
        rw [this]; unfold flDelete; kw_rfl
      have hd : KeepW c (decSend c') := by
        refine hc'.trans ?_
        unfold decSend; split <;> kw_rfl
      have h1 : KeepAll s (setObj { s with nextSeed := s.nextSeed / 64 } i (decSend c')) :=
        (KeepAll.of_objs (s' := { s with nextSeed := s.nextSeed / 64 }) rfl).trans (KeepAll.set _ i _ hd)
      show KeepAll s (if ok = true then _ else _)
      split
      · exact h1.trans (KeepAll.of_objs rfl)
      · exact h1
    · exact KeepAll.refl s
  · exact KeepAll.refl s

theorem nextImmediate_willDelayed (s : Server) (i : Nat) : (nextImmediate s i).1.willDelayed = s.willDelayed := by
  unfold nextImmediate
  extract_lets c
  split
  · split
    · rename_i m hm
      extract_lets o
      split
      rename_i c' ok hfl
      show Server.willDelayed (if ok = true then _ else _) = _
      split <;> rfl
    · rfl
  · rfl

/-- a closed client is written nothing by a release -/
theorem nextImmediate_closed (s : Server) (i : Nat) (h : (getObj s i).isOpen = false) : (nextImmediate s i).2 = [] := by
  rcases nextImmediate_out s i with e | ⟨_, m, _, _, e⟩
  · exact e
  · rw [e]; unfold writeMsg; simp [h]

/-! ### DISCONNECT -/

/-- `processDisconnect`'s protocol error: the session expiry interval is raised from zero -/
def seiViolation (c : Client) (sei : Option Nat) : Bool :=
  match sei with
  | some v => decide (v > 0) && c.sei == 0
  | none => false

/-- the client object after a DISCONNECT that carries a session expiry interval -/
def discObj (c : Client) (sei : Option Nat) : Client :=
  match sei with
  | some v => { c with sei := v, fsei := true }
  | none => c

theorem discObj_keep (c : Client) (sei : Option Nat) : KeepW c (discObj c sei) := by
  cases sei <;> (unfold discObj; kw_rfl)

theorem discObj_peerGone (c : Client) (sei : Option Nat) : (discObj c sei).peerGone = c.peerGone := by
  cases sei <;> rfl

theorem discObj_ver (c : Client) (sei : Option Nat) : (discObj c sei).ver = c.ver := by
  cases sei <;> rfl

/-- the state after `processDisconnect` updated the session expiry interval -/
def discState (s : Server) (i : Nat) (sei : Option Nat) : Server := setObj s i (discObj (getObj s i) sei)

theorem getObj_discState (s : Server) (i : Nat) (sei : Option Nat) (hi : i < s.objs.length) :
    getObj (discState s i sei) i = discObj (getObj s i) sei := getObj_setObj_eq s i _ hi

theorem processDisconnect_violation (s : Server) (i rc : Nat) (sei : Option Nat)
    (h : seiViolation (getObj s i) sei = true) : processDisconnect s i rc sei = (s, [], some 0x82) := by
  unfold processDisconnect
  cases sei with
  | none => cases h
  | some v =>
    have h' : (decide (v > 0) && (getObj s i).sei == 0) = true := h
    simp only [h', if_true]

theorem processDisconnect_with_will (s : Server) (i : Nat) (sei : Option Nat)
    (h : seiViolation (getObj s i) sei = false) :
    processDisconnect s i 0x04 sei = (discState s i sei, [], some 0x04) := by
  unfold processDisconnect
  cases sei with
  | none => rfl
  | some v =>
    have h' : (decide (v > 0) && (getObj s i).sei == 0) = false := h
    simp only [h', Bool.false_eq_true, if_false]
    rfl

theorem processDisconnect_normal (s : Server) (i rc : Nat) (sei : Option Nat) (hrc : rc ≠ 0x04)
    (h : seiViolation (getObj s i) sei = false) :
    processDisconnect s i rc sei =
      ((stopClient { discState s i sei with willDelayed := assocDel s.willDelayed (getObj s i).id } i).1,
       (stopClient { discState s i sei with willDelayed := assocDel s.willDelayed (getObj s i).id } i).2, none) := by
  have hrc' : (rc == 4) = false := by simpa using hrc
  unfold processDisconnect
  cases sei with
  | none => simp only [hrc', Bool.false_eq_true, if_false]; rfl
  | some v =>
    have h' : (decide (v > 0) && (getObj s i).sei == 0) = false := h
    simp only [h', hrc', Bool.false_eq_true, if_false]
    rfl

/-- the state after a normal DISCONNECT was processed: the delayed will of the id removed, the client stopped -/
def discStopped (s : Server) (i : Nat) (sei : Option Nat) : Server :=
  setObj { discState s i sei with willDelayed := assocDel s.willDelayed (getObj s i).id } i
    { discObj (getObj s i) sei with isOpen := false, stopped := true }

theorem getObj_discStopped (s : Server) (i : Nat) (sei : Option Nat) (hi : i < s.objs.length) :
    getObj (discStopped s i sei) i = { discObj (getObj s i) sei with isOpen := false, stopped := true } :=
  getObj_setObj_eq _ i _ (by show i < (discState s i sei).objs.length; rw [discState, setObj_length]; exact hi)

/-- a normal DISCONNECT (any reason code but 0x04, no protocol error) of a live network client: `processPacket` -/
theorem receivePacket_disconnect_normal (s : Server) (i rc : Nat) (sei : Option Nat) (hi : i < s.objs.length)
    (hrc : rc ≠ 0x04) (h : seiViolation (getObj s i) sei = false)
    (hst : (getObj s i).stopped = false) (hin : (getObj s i).inline = false) :
    receivePacket s i (.disconnect rc sei) =
      ((nextImmediate (discStopped s i sei) i).1, [.closed (getObj s i).conn], none) := by
  have g : getObj { discState s i sei with willDelayed := assocDel s.willDelayed (getObj s i).id } i =
      discObj (getObj s i) sei := getObj_discState s i sei hi
  have k := discObj_keep (getObj s i) sei
  have e := stopClient_live { discState s i sei with willDelayed := assocDel s.willDelayed (getObj s i).id } i
    (by rw [g, k.stopped]; exact hst) (by rw [g, k.inline]; exact hin)
  rw [g, k.conn] at e
  have hcl : (getObj (discStopped s i sei) i).isOpen = false := by rw [getObj_discStopped s i sei hi]
  unfold receivePacket
  simp only [processDisconnect_normal s i rc sei hrc h, e]
  show ((nextImmediate (discStopped s i sei) i).1, [Out.closed (getObj s i).conn] ++ (nextImmediate (discStopped s i sei) i).2, none) = _
  rw [nextImmediate_closed _ i hcl]
  rfl

/-- DISCONNECT with reason 0x04 (no protocol error): the read loop ends with that error, nothing is written yet -/
theorem receivePacket_disconnect_with_will (s : Server) (i : Nat) (sei : Option Nat)
    (h : seiViolation (getObj s i) sei = false) :
    receivePacket s i (.disconnect 0x04 sei) = (discState s i sei, [], some 0x04) := by
  unfold receivePacket
  simp only [processDisconnect_with_will s i sei h]
  simp

theorem detach_false_eq (s : Server) (i : Nat) :
    detach s i false = (detachB (modObj s i (fun c => { c with will := {} })) i, []) := rfl

/-- **the op**: a normal DISCONNECT of a live network client closes the connection, writes nothing else, removes the
    delayed will registered under the id, clears the will of the object and stops it -/
theorem step_disconnect_normal (s : Server) (i rc : Nat) (sei : Option Nat) (hi : i < s.objs.length)
    (hrc : rc ≠ 0x04) (h : seiViolation (getObj s i) sei = false) (hopen : (getObj s i).isOpen = true)
    (hst : (getObj s i).stopped = false) (hin : (getObj s i).inline = false)
    (hc : assocGet s.connOf (getObj s i).conn = some i) :
    (step s (.recv (getObj s i).conn (.disconnect rc sei))).2 = [.closed (getObj s i).conn] ∧
    (step s (.recv (getObj s i).conn (.disconnect rc sei))).1.willDelayed = assocDel s.willDelayed (getObj s i).id ∧
    (getObj (step s (.recv (getObj s i).conn (.disconnect rc sei))).1 i).will.flag = false ∧
    (getObj (step s (.recv (getObj s i).conn (.disconnect rc sei))).1 i).stopped = true := by
  have g := getObj_discStopped s i sei hi
  have k4 := nextImmediate_keep (discStopped s i sei) i i
  have hcl4 : (getObj (nextImmediate (discStopped s i sei) i).1 i).isOpen = false := by rw [k4.isOpen, g]
  have hst4 : (getObj (nextImmediate (discStopped s i sei) i).1 i).stopped = true := by rw [k4.stopped, g]
  have hlen4 : i < (nextImmediate (discStopped s i sei) i).1.objs.length := by
    rw [(nextImmediate_good (discStopped s i sei) i).len]
    show i < (setObj _ i _).objs.length
    rw [setObj_length]
    show i < (discState s i sei).objs.length
    rw [discState, setObj_length]; exact hi
  have e : step s (.recv (getObj s i).conn (.disconnect rc sei)) =
      (detachB (modObj (nextImmediate (discStopped s i sei) i).1 i (fun c => { c with will := {} })) i,
        [.closed (getObj s i).conn]) := by
    rw [step]
    unfold recvOn
    simp only [hc, hopen, receivePacket_disconnect_normal s i rc sei hi hrc h hst hin, hcl4, detach_false_eq,
      Bool.not_true, Bool.not_false, Bool.false_eq_true, if_false, if_true, List.append_nil]
  rw [e]
  have kB := detachB_keep (modObj (nextImmediate (discStopped s i sei) i).1 i (fun c => { c with will := {} })) i i
  have gm := getObj_modObj_lt (nextImmediate (discStopped s i sei) i).1 i (fun c => { c with will := {} }) hlen4
  refine ⟨rfl, ?_, ?_, ?_⟩
  · show (detachB _ i).willDelayed = _
    rw [detachB_willDelayed]
    show (nextImmediate (discStopped s i sei) i).1.willDelayed = _
    rw [nextImmediate_willDelayed]
    rfl
  · show (getObj (detachB _ i) i).will.flag = false
    rw [kB.will, gm]
  · show (getObj (detachB _ i) i).stopped = true
    rw [kB.stopped, gm]
    exact hst4

/-- **the op**: DISCONNECT with reason 0x04: the handler leaves its read loop with an error, as if the connection had
    been lost (`sendLWT`, then the connection is closed) -/
theorem step_disconnect_with_will (s : Server) (i : Nat) (sei : Option Nat) (hi : i < s.objs.length)
    (h : seiViolation (getObj s i) sei = false) (hopen : (getObj s i).isOpen = true)
    (hst : (getObj s i).stopped = false) (hin : (getObj s i).inline = false)
    (hc : assocGet s.connOf (getObj s i).conn = some i) :
    (step s (.recv (getObj s i).conn (.disconnect 0x04 sei))).2 =
      (sendLWT (discState s i sei) i).2 ++ [.closed (getObj s i).conn] ∧
    (step s (.recv (getObj s i).conn (.disconnect 0x04 sei))).1.willDelayed =
      (sendLWT (discState s i sei) i).1.willDelayed := by
  have g := getObj_discState s i sei hi
  have k := discObj_keep (getObj s i) sei
  obtain ⟨d1, d2⟩ := detach_true_live (discState s i sei) i (by rw [g, k.stopped]; exact hst)
    (by rw [g, k.inline]; exact hin)
  rw [g, k.conn] at d1
  have e : step s (.recv (getObj s i).conn (.disconnect 0x04 sei)) =
      ((detach (discState s i sei) i true).1, (detach (discState s i sei) i true).2) := by
    rw [step]
    unfold recvOn
    simp only [hc, hopen, receivePacket_disconnect_with_will s i sei h, Bool.not_true, Bool.false_eq_true, if_false,
      List.nil_append]
  rw [e]
  exact ⟨d1, d2⟩

theorem publishToClientCore_willDelayed (s : Server) (i : Nat) (sub : Sub) (f : Bool) (pk : Msg) :
    (publishToClientCore s i sub f pk).1.willDelayed = s.willDelayed := by
  unfold publishToClientCore
  extract_lets c out
  split
  rename_i c1 out1 heq
  clear heq
  extract_lets s1
  split
  · split
    · rfl
    · split
      · rfl
      · rename_i pid _
        extract_lets c2 out2 sentQuota
        split
        rename_i c3 isNew hfl
        extract_lets c4 s2 src s3
        have h3 : s3.willDelayed = s.willDelayed := by
          show Server.willDelayed (if isNew = true then _ else _) = _
          split <;> rfl
        split
        · exact h3
        · split <;> exact h3
  · split <;> rfl

/-! ### the housekeeping tick for delayed wills -/

/-- the registered delayed wills that are due at virtual time `t` -/
def dueWills (s : Server) (t : Int) : List (Str × Msg) := s.willDelayed.filter (fun e => decide (t > e.2.expiry))

/-- what `tickWills` does for ONE due entry: fan the message out; if the client id is still registered, retain the
    message (if it is to be retained), clear the will of the session and emit the will event; remove the entry -/
def publishDue (acc : Server × List Out) (e : Str × Msg) : Server × List Out :=
  let r := publishToSubscribers acc.1 e.2
  let r2 : Server × List Out := match assocGet r.1.clients e.1 with
    | some i => (modObj (if e.2.retain then retainMsg r.1 e.2 else r.1) i (fun c => { c with will := {} }), [willEvent e.1])
    | none => (r.1, [])
  ({ r2.1 with willDelayed := assocDel r2.1.willDelayed e.1 }, acc.2 ++ r.2 ++ r2.2)

theorem foldl_filter_eq {α β} (p : α → Bool) (f g : β → α → β) (l : List α) (b : β)
    (h : ∀ b a, f b a = if p a then g b a else b) : l.foldl f b = (l.filter p).foldl g b := by
  induction l generalizing b with
  | nil => rfl
  | cons x xs ih =>
    rw [List.foldl_cons, h, List.filter_cons]
    cases hp : p x
    · simp only [Bool.false_eq_true, if_false]; exact ih b
    · simp only [if_true, List.foldl_cons]; exact ih _

/-- **`tickWills` publishes exactly the due entries, each once, in the order of the list** -/
theorem tickWills_eq (s : Server) (t : Int) : tickWills s t = (dueWills s t).foldl publishDue (s, []) := by
  unfold tickWills dueWills
  refine foldl_filter_eq _ _ _ _ _ ?_
  intro b a
  by_cases h : t > a.2.expiry
  · simp only [h, if_true, decide_true]
    unfold publishDue
    generalize publishToSubscribers b.1 a.2 = p
    obtain ⟨ps, po⟩ := p
    simp only []
    cases hg : assocGet ps.clients a.1 <;> rfl
  · simp only [h, if_false, decide_false, Bool.false_eq_true]

theorem tickWills_nothing_due (s : Server) (t : Int) (h : ∀ e ∈ s.willDelayed, ¬ t > e.2.expiry) :
    tickWills s t = (s, []) := by
  rw [tickWills_eq]
  have : dueWills s t = [] := by
    unfold dueWills
    apply List.filter_eq_nil_iff.mpr
    intro e he
    simpa using h e he
  rw [this]; rfl

/-- the outputs of one due entry: the fan-out of its message, then the will event iff the id is registered; the
    Clients map is not changed -/
theorem publishDue_out (acc : Server × List Out) (e : Str × Msg) :
    (publishDue acc e).2 = acc.2 ++ (publishToSubscribers acc.1 e.2).2 ++
      (if (assocGet acc.1.clients e.1).isSome then [willEvent e.1] else []) ∧
    (publishDue acc e).1.clients = acc.1.clients ∧
    (publishDue acc e).1.willDelayed = assocDel acc.1.willDelayed e.1 := by
  have hc := (publishToSubscribers_deliv acc.1 e.2).clients
  have hwd : (publishToSubscribers acc.1 e.2).1.willDelayed = acc.1.willDelayed := by
    unfold publishToSubscribers
    split
    · rfl
    · extract_lets e' pk' r subsMap inl
      refine foldl_inv (fun (a : Server × List Out) => a.1.willDelayed = acc.1.willDelayed) _ _ _ rfl ?_
      intro a cs ha
      split
      · exact ha
      · rename_i k _
        split
        rename_i s' o heq
        have : s' = (publishToClient a.1 k cs.2 false pk').1 := by rw [heq]
        rw [this]
        refine Eq.trans ?_ ha
        unfold publishToClient
        split
        · rfl
        · split
          · rfl
          · exact publishToClientCore_willDelayed a.1 k cs.2 false pk'
  unfold publishDue
  simp only []
  rw [hc]
  cases hg : assocGet acc.1.clients e.1 with
  | none => exact ⟨by simp, hc, by rw [hwd]⟩
  | some i =>
    refine ⟨by simp, ?_, ?_⟩
    · show (setObj _ i _).clients = _
      show (if e.2.retain = true then retainMsg _ e.2 else _).clients = _
      split
      · rw [(retainMsg_deliv _ _).clients, hc]
      · exact hc
    · show assocDel (setObj _ i _).willDelayed e.1 = _
      show assocDel (if e.2.retain = true then retainMsg _ e.2 else _).willDelayed e.1 = _
      split
      · have : (retainMsg (publishToSubscribers acc.1 e.2).1 e.2).willDelayed =
            (publishToSubscribers acc.1 e.2).1.willDelayed := by
          unfold retainMsg; split <;> rfl
        rw [this, hwd]
      · rw [hwd]

theorem mem_assocDel_iff {α β} [DecidableEq α] (m : List (α × β)) (k : α) (e : α × β) :
    e ∈ assocDel m k ↔ e ∈ m ∧ e.1 ≠ k := by
  unfold assocDel
  simp [List.mem_filter]

theorem fold_publishDue (L : List (Str × Msg)) (acc : Server × List Out) :
    (L.foldl publishDue acc).1.clients = acc.1.clients ∧
    ∀ e, e ∈ (L.foldl publishDue acc).1.willDelayed ↔ e ∈ acc.1.willDelayed ∧ ∀ d ∈ L, d.1 ≠ e.1 := by
  induction L generalizing acc with
  | nil => exact ⟨rfl, fun e => by simp⟩
  | cons x xs ih =>
    obtain ⟨_, h2, h3⟩ := publishDue_out acc x
    obtain ⟨i1, i2⟩ := ih (publishDue acc x)
    rw [List.foldl_cons]
    refine ⟨i1.trans h2, fun e => ?_⟩
    rw [i2 e, h3, mem_assocDel_iff]
    constructor
    · rintro ⟨⟨a, b⟩, c⟩
      refine ⟨a, fun d hd => ?_⟩
      rcases List.mem_cons.mp hd with rfl | hd
      · exact fun h => b h.symm
      · exact c d hd
    · rintro ⟨a, b⟩
      exact ⟨⟨a, fun h => b x List.mem_cons_self h.symm⟩, fun d hd => b d (List.mem_cons_of_mem _ hd)⟩

/-- what is left in `willDelayed` after the tick: the entries whose client id is not the id of a due entry; the
    Clients map is untouched -/
theorem tickWills_willDelayed (s : Server) (t : Int) :
    (tickWills s t).1.clients = s.clients ∧
    ∀ e, e ∈ (tickWills s t).1.willDelayed ↔ e ∈ s.willDelayed ∧ ∀ d ∈ dueWills s t, d.1 ≠ e.1 := by
  rw [tickWills_eq]
  exact fold_publishDue (dueWills s t) (s, [])

theorem eq_of_key_eq_of_nodup {α β} (m : List (α × β)) (hnd : (m.map (·.1)).Nodup) (a b : α × β)
    (ha : a ∈ m) (hb : b ∈ m) (h : a.1 = b.1) : a = b := by
  induction m with
  | nil => cases ha
  | cons x xs ih =>
    rw [List.map_cons, List.nodup_cons] at hnd
    rcases List.mem_cons.mp ha with rfl | ha' <;> rcases List.mem_cons.mp hb with rfl | hb'
    · rfl
    · exact absurd (by rw [h]; exact List.mem_map_of_mem (f := (·.1)) hb') hnd.1
    · exact absurd (by rw [← h]; exact List.mem_map_of_mem (f := (·.1)) ha') hnd.1
    · exact ih hnd.2 ha' hb'

/-- … when `willDelayed` is a map (one entry per client id): exactly the entries that are not yet due are left -/
theorem tickWills_willDelayed_nodup (s : Server) (t : Int) (hnd : (s.willDelayed.map (·.1)).Nodup) (e : Str × Msg) :
    e ∈ (tickWills s t).1.willDelayed ↔ e ∈ s.willDelayed ∧ ¬ t > e.2.expiry := by
  rw [(tickWills_willDelayed s t).2 e]
  constructor
  · rintro ⟨a, b⟩
    refine ⟨a, fun hdue => ?_⟩
    exact b e (by unfold dueWills; exact List.mem_filter.mpr ⟨a, by simpa using hdue⟩) rfl
  · rintro ⟨a, b⟩
    refine ⟨a, fun d hd hk => b ?_⟩
    unfold dueWills at hd
    obtain ⟨hd1, hd2⟩ := List.mem_filter.mp hd
    have := eq_of_key_eq_of_nodup _ hnd d e hd1 a hk
    subst this
    simpa using hd2

theorem step_tick_wills (s : Server) (t : Int) : step s (.tick "wills" t) = tickWills s t := by
  rw [step]
  have h1 : ("wills" == "clients") = false := by decide
  have h2 : ("wills" == "retained") = false := by decide
  have h3 : ("wills" == "inflight") = false := by decide
  have h4 : ("wills" == "wills") = true := by decide
  simp only [h1, h2, h3, h4, Bool.false_eq_true, if_false, if_true]

/-! ### a connection of the same client id removes the registered delayed will -/

theorem admitC_willDelayed (s : Server) (i : Nat) (k : Connect) (present : Bool) :
    (admitC s i k present).1.willDelayed = assocDel s.willDelayed k.id := by
  unfold admitC
  extract_lets +onlyGivenNames s1
  split
  · refine foldl_inv (fun (acc : Server × List Out) => acc.1.willDelayed = assocDel s.willDelayed k.id) _ _ _ rfl ?_
    intro acc m h
    extract_lets m' o s'
    show s'.willDelayed = _
    refine Eq.trans ?_ h
    show Server.willDelayed (if (m.type == 4 || m.type == 7) = true then _ else acc.1) = _
    split
    · split
      rename_i c' ok hfl
      extract_lets s''
      show Server.willDelayed (if ok = true then _ else s'') = _
      split <;> rfl
    · rfl
  · rfl

/-- after an admitted CONNECT (the part of `attachClient` up to the read loop) no delayed will is registered under
    the client id: whatever was registered is removed (`willDelayed.Delete`), without having been published -/
theorem connect_admitted_willDelayed (s : Server) (conn : Nat) (k : Connect)
    (h : refuseCode { s with objs := s.objs ++ [parseConnect s conn k], connOf := s.connOf ++ [(conn, s.objs.length)] } k
      (parseConnect s conn k) = none) :
    ∀ e ∈ (connect s conn k).1.willDelayed, e.1 ≠ k.id := by
  intro e he
  unfold connect at he
  simp only [h] at he
  rw [admitClient_fst, admitC_willDelayed] at he
  exact ((mem_assocDel_iff _ _ _).mp he).2

/-! ### after the will was handled: the object is stopped, its will flag cleared; a stopped object's handler is gone -/

theorem sendLWT_now_flag (s : Server) (i : Nat) (hi : i < s.objs.length) (hf : (getObj s i).will.flag = true)
    (hd : (getObj s i).will.delay = 0) : (getObj (sendLWT s i).1 i).will.flag = false := by
  rw [sendLWT_now s i hf hd]
  have hl : i < (publishToSubscribers (retainedState s (willMsg (getObj s i))) (willMsg (getObj s i))).1.objs.length := by
    rw [(publishToSubscribers_deliv _ _).len, retainedState_objs]; exact hi
  show (getObj (modObj _ i _) i).will.flag = false
  rw [getObj_modObj_lt _ i _ hl]

theorem sendLWT_len (s : Server) (i : Nat) : (sendLWT s i).1.objs.length = s.objs.length := (sendLWT_good s i).len

/-- the error exit of a live network client's handler leaves the object stopped, with the will `sendLWT` left -/
theorem detach_true_live_obj (s : Server) (i : Nat) (hi : i < s.objs.length) (hst : (getObj s i).stopped = false)
    (hin : (getObj s i).inline = false) :
    (getObj (detach s i true).1 i).stopped = true ∧
    (getObj (detach s i true).1 i).will = (getObj (sendLWT s i).1 i).will := by
  have o := sendLWT_own s i
  have e := stopClient_live (sendLWT s i).1 i (o.stopped.symm.trans hst) (o.inline.symm.trans hin)
  have k := detachB_keep (stopClient (sendLWT s i).1 i).1 i i
  have g : getObj (stopClient (sendLWT s i).1 i).1 i =
      { getObj (sendLWT s i).1 i with isOpen := false, stopped := true } := by
    rw [e]; exact getObj_setObj_eq _ i _ (by rw [sendLWT_len]; exact hi)
  constructor
  · show (getObj (detachB (stopClient (sendLWT s i).1 i).1 i) i).stopped = true
    rw [k.stopped, g]
  · show (getObj (detachB (stopClient (sendLWT s i).1 i).1 i) i).will = _
    rw [k.will, g]

/-- after the loss of its connection a live network client's object is stopped, and its will flag is cleared if the
    will was published at once -/
theorem step_drop_live_obj (s : Server) (i : Nat) (hi : i < s.objs.length) (hst : (getObj s i).stopped = false)
    (hin : (getObj s i).inline = false) (hc : assocGet s.connOf (getObj s i).conn = some i) :
    (getObj (step s (.drop (getObj s i).conn)).1 i).stopped = true ∧
    ((getObj s i).will.flag = true → (getObj s i).will.delay = 0 →
      (getObj (step s (.drop (getObj s i).conn)).1 i).will.flag = false) := by
  have e := getObj_peerLost_self s i hi
  have hl : i < (peerLost s i).objs.length := by
    show i < (setObj s i _).objs.length
    rw [setObj_length]; exact hi
  obtain ⟨d1, d2⟩ := detach_true_live_obj (peerLost s i) i hl (by rw [e]; exact hst) (by rw [e]; exact hin)
  have es : (step s (.drop (getObj s i).conn)).1 = (detach (peerLost s i) i true).1 := by
    rw [step]
    simp only [hc, hst, Bool.false_eq_true, if_false]
    rfl
  rw [es]
  refine ⟨d1, fun hf hd => ?_⟩
  rw [d2]
  exact sendLWT_now_flag _ i hl (by rw [e]; exact hf) (by rw [e]; exact hd)

/-- the handler of a stopped object has left its read loop: a lost connection, an inbound packet, a cut connection
    do nothing -/
theorem step_stopped_noop (s : Server) (conn i : Nat) (hc : assocGet s.connOf conn = some i)
    (hst : (getObj s i).stopped = true) (hop : (getObj s i).isOpen = false) :
    step s (.drop conn) = (s, []) ∧ (∀ pk, step s (.recv conn pk) = (s, [])) ∧
    (∀ pk, step s (.recvCut conn pk) = (s, [])) := by
  refine ⟨?_, fun pk => ?_, fun pk => ?_⟩
  · rw [step]; simp only [hc, hst, if_true]
  · rw [step]; unfold recvOn; simp only [hc, hop, Bool.not_false, if_true]
  · rw [step]; simp only [hc, hst, Bool.true_or, if_true]

/-- … and a CONNECT of the same client id does not run its teardown (there is no live handler to take over) -/
theorem admitA_stopped_no_takeover (s : Server) (i : Nat) (k : Connect) (e : Nat)
    (he : assocGet s.clients k.id = some e) (hst : (getObj s e).stopped = true) : (admitA s i k).2.2.2 = none := by
  rw [admitA_exLive_eq]
  simp only [he, hst, Bool.true_or, if_true]

end Mochi.Broker
