import Mochi.Lemmas.BrokerSurviveDeliv
import Mochi.Lemmas.BrokerPublishOp
/-!
# C09 — the record of an unacknowledged exchange through every handler (the walk)

One `X_sv` lemma per handler, in the style of `Mochi/Lemmas/BrokerFrame.lean`: `SurvW i k own s (X s i …).1` —
work for object `i` keeps the record of exchange `k` (and the session parameters) of every other object, and of
object `i` itself under the handler's own condition `own` (the packet does not end the exchange).
-/
namespace Mochi.Broker
open Mochi.Topics

/-! ### acknowledgements -/

theorem processPuback_sv (k : Nat) (s : Server) (i id : Nat) : SurvW i k (id ≠ k) s (processPuback s i id).1 := by
  unfold processPuback
  extract_lets +onlyGivenNames c
  split
  · exact SurvW.refl _ _ _ _
  · extract_lets +onlyGivenNames c'
    exact ((SurvW.refl i k _ s).set c' (fun hne => (RK.flDelete_ne' k c id hne).incSend)).upd rfl

theorem recOk_pubrel (id n : Nat) (p : Str) :
    recOk { type := 6, id := id, qos := 1, reasonCode := 0, created := NOW, expiry := NOW + n } p = true := by
  have h : (0 : Int) ≤ NOW + (n : Int) := by unfold NOW; omega
  simp [recOk, h]

theorem processPubrec_sv (k : Nat) (s : Server) (i id rc : Nat) :
    SurvW i k (id = k → (decide (rc ≥ 0x80) || !reasonValid 5 rc) = false) s (processPubrec s i id rc).1 := by
  unfold processPubrec
  extract_lets +onlyGivenNames c
  split
  · rw [ackRes_fst]; exact SurvW.refl _ _ _ _
  · split
    · rename_i hbad
      extract_lets +onlyGivenNames c'
      refine ((SurvW.refl i k _ s).set c' (fun hown => RK.flDelete_ne' k c id (fun e => ?_))).upd rfl
      have := hown e
      rw [this] at hbad; cases hbad
    · extract_lets +onlyGivenNames ack c' s1
      have hs1 : SurvW i k (id = k → (decide (rc ≥ 0x80) || !reasonValid 5 rc) = false) s s1 :=
        (SurvW.refl i k _ s).set c'
          (fun _ => (RK.decRecv' k c).trans (RK.flSet_ok' k _ ack (fun _ p => recOk_pubrel id _ p)))
      split <;> exact hs1

theorem processPubrel_sv (k : Nat) (s : Server) (i id rc : Nat) : SurvW i k (id ≠ k) s (processPubrel s i id rc).1 := by
  unfold processPubrel
  extract_lets +onlyGivenNames c
  split
  · rw [ackRes_fst]; exact SurvW.refl _ _ _ _
  · split
    · extract_lets +onlyGivenNames c'
      exact ((SurvW.refl i k _ s).set c' (fun hne => RK.flDelete_ne' k c id hne)).upd rfl
    · extract_lets +onlyGivenNames ack c1 s1
      have hc1 : id ≠ k → RK k c c1 := fun hne => RK.flSet_ne' k c ack hne
      have hs1 : SurvW i k (id ≠ k) s s1 := (SurvW.refl i k _ s).set c1 hc1
      split
      · exact hs1
      · extract_lets +onlyGivenNames o c2
        split
        rename_i c3 ok heq
        extract_lets +onlyGivenNames s2
        have hc3 : id ≠ k → RK k c1 c3 := by
          intro hne
          have := RK.flDelete_ne' k c2 id hne
          rw [heq] at this
          exact ((RK.incRecv' k c1).incSend).trans this
        have hs2 : SurvW i k (id ≠ k) s s2 :=
          hs1.set c3 (fun hne => RK.get_set (hc1 hne) (hc3 hne))
        split
        · exact hs2.upd rfl
        · exact hs2

theorem processPubcomp_sv (k : Nat) (s : Server) (i id : Nat) : SurvW i k (id ≠ k) s (processPubcomp s i id).1 := by
  unfold processPubcomp
  extract_lets +onlyGivenNames c
  split
  rename_i c1 ok heq
  extract_lets +onlyGivenNames s1
  have hc1 : id ≠ k → RK k (getObj s i) c1 := by
    intro hne
    have := RK.flDelete_ne' k c id hne
    rw [heq] at this
    exact ((RK.incRecv' k (getObj s i)).incSend).trans this
  have hs1 : SurvW i k (id ≠ k) s s1 := (SurvW.refl i k _ s).set c1 hc1
  split
  · exact hs1.upd rfl
  · exact hs1

/-! ### the release of a deferred message (finding F09: its record is deleted once written) -/

theorem nextImmediate_sv (k : Nat) (s : Server) (i : Nat) :
    SurvW i k (ObjWF (getObj s i)) s (nextImmediate s i).1 := by
  unfold nextImmediate
  extract_lets +onlyGivenNames c
  split
  · split
    · rename_i m hm
      extract_lets +onlyGivenNames o
      split
      rename_i c1 ok heq
      extract_lets +onlyGivenNames s1
      have hmem : m ∈ c.inflight ∧ m.expiry < 0 := by
        have h1 := List.mem_of_mem_head? hm
        have h2 := mem_permuteBy _ _ _ h1
        have h3 := List.mem_filter.mp h2
        exact ⟨h3.1, by simpa using h3.2⟩
      have hc1 : ObjWF (getObj s i) → RK k c c1 := by
        intro hw
        have := RK.flDelete_if (RK.refl k c) m.id (fun p r => r.ne_of_mem hw.ids_nodup hmem.1 (by
          have : ¬ (0 ≤ m.expiry) := by omega
          simp [recOk, this]))
        rw [heq] at this
        exact this
      have hs0 : SurvW i k (ObjWF (getObj s i)) s { s with nextSeed := s.nextSeed / 64 } :=
        (SurvW.refl i k _ s).upd rfl
      have hs1 : SurvW i k (ObjWF (getObj s i)) s s1 := hs0.set _ (fun hw => (hc1 hw).decSend)
      split
      · exact hs1.upd rfl
      · exact hs1
    · exact SurvW.refl _ _ _ _
  · exact SurvW.refl _ _ _ _

/-! ### closing -/

theorem stopClient_sv (k : Nat) (s : Server) (i : Nat) : Surv k s (stopClient s i).1 := by
  unfold stopClient
  extract_lets +onlyGivenNames c
  split
  · exact Surv.refl k s
  · exact (Surv.refl k s).set i _ (by rk_rfl)

theorem disconnectClient_sv (k : Nat) (s : Server) (i code : Nat) : Surv k s (disconnectClient s i code).1 := by
  unfold disconnectClient
  extract_lets +onlyGivenNames c w
  split
  rename_i s' o heq
  have := stopClient_sv k s i
  rw [heq] at this
  exact this

/-- the state in which the acting object already has the session expiry interval the packet leaves it with (only
    DISCONNECT changes it) -/
def preState (s : Server) (j : Nat) (pk : InPk) : Server :=
  setObj s j { getObj s j with sei := seiAfter (getObj s j) pk }

theorem setObj_congr_sv (k : Nat) (s : Server) (i : Nat) (a b : Client) (h : RK k a b) :
    Surv k (setObj s i a) (setObj s i b) := by
  intro x
  by_cases hx : x = i
  · subst hx
    by_cases hl : x < s.objs.length
    · rw [getObj_setObj_eq s x a hl, getObj_setObj_eq s x b hl]; exact h
    · rw [getObj_setObj_ge s x a hl, getObj_setObj_ge s x b hl]; exact RK.refl k _
  · rw [getObj_setObj_ne s i x a hx, getObj_setObj_ne s i x b hx]; exact RK.refl k _

theorem setObj_same_sv (k : Nat) (s : Server) (i : Nat) (a : Client) (h : RK k a (getObj s i)) :
    Surv k (setObj s i a) s := by
  intro x
  by_cases hx : x = i
  · subst hx
    rcases getObj_setObj_self_cases s x a with e | e <;> rw [e]
    · exact h
    · exact RK.refl k _
  · rw [getObj_setObj_ne s i x a hx]; exact RK.refl k _

theorem same_setObj_sv (k : Nat) (s : Server) (i : Nat) (a : Client) (h : RK k (getObj s i) a) :
    Surv k s (setObj s i a) := (Surv.refl k s).set i a h

/-- a packet that is not a DISCONNECT with a session expiry interval: nothing to prepare -/
theorem preState_same (k : Nat) (s : Server) (j : Nat) (pk : InPk) (h : seiAfter (getObj s j) pk = (getObj s j).sei) :
    Surv k (preState s j pk) s :=
  setObj_same_sv k s j _ ⟨fun _ r => r, rfl, rfl, h.symm, rfl⟩

theorem processDisconnect_sv (k : Nat) (s : Server) (i rc : Nat) (sei : Option Nat) :
    SurvW i k True (preState s i (.disconnect rc sei)) (processDisconnect s i rc sei).1 := by
  unfold processDisconnect
  extract_lets +onlyGivenNames c r
  have hr : (r = none ∧ seiAfter c (.disconnect rc sei) = c.sei) ∨
      ∃ c', r = some (s, c') ∧ RK k { c with sei := seiAfter c (.disconnect rc sei) } c' := by
    simp only [r]
    cases sei with
    | none => exact Or.inr ⟨c, rfl, by rk_rfl⟩
    | some v =>
      by_cases hv : (decide (v > 0) && c.sei == 0) = true
      · left
        refine ⟨by dsimp only; rw [if_pos hv], ?_⟩
        show (if (decide (v > 0) && c.sei == 0) = true then c.sei else v) = c.sei
        rw [if_pos hv]
      · right
        refine ⟨_, by dsimp only; rw [if_neg hv], ?_⟩
        have : seiAfter c (.disconnect rc (some v)) = v := by
          show (if (decide (v > 0) && c.sei == 0) = true then c.sei else v) = v
          rw [if_neg hv]
        rw [this]
        rk_rfl
  generalize r = r' at hr
  rcases hr with ⟨rfl, hs⟩ | ⟨c', rfl, hc'⟩
  · exact (preState_same k s i _ hs).w _ _
  · show SurvW i k True _ (match (some (s, c') : Option (Server × Client)) with
      | none => ((s, [], some 0x82) : HRes)
      | some (s, c) => _).1
    simp only []
    have hs1 : SurvW i k True (preState s i (.disconnect rc sei)) (setObj s i c') :=
      (setObj_congr_sv k s i _ _ hc').w _ _
    split
    · exact hs1
    · refine SurvW.fst_mk ?_
      have h2 := stopClient_sv k { setObj s i c' with willDelayed := assocDel (setObj s i c').willDelayed c'.id } i
      exact (SurvW.upd (s' := { setObj s i c' with willDelayed := assocDel (setObj s i c').willDelayed c'.id })
        hs1 rfl).surv h2

/-! ### the session clean-up -/

theorem unsubscribeClient_sv (k : Nat) (s : Server) (i : Nat) : Surv k s (unsubscribeClient s i) := by
  unfold unsubscribeClient
  extract_lets +onlyGivenNames c s1
  have h1 : Surv k s s1 := (Surv.refl k s).set i _ (by rk_rfl)
  split
  · exact h1
  · refine foldl_inv (fun (x : Server) => Surv k s x) _ _ _ h1 ?_
    intro b a h
    exact h.upd rfl

theorem clearInflights_sv (k : Nat) (s : Server) (i : Nat) : SurvW i k False s (clearInflights s i) := by
  unfold clearInflights
  extract_lets +onlyGivenNames c n
  exact ((SurvW.refl i k False s).set _ (fun h => h.elim)).upd rfl

theorem RK.endsWithConn0 {k : Nat} {a b : Client} (h : RK k a b) : endsWithConn0 b = endsWithConn0 a := by
  unfold Mochi.Broker.endsWithConn0 sessionClean
  rw [h.ver, h.clean, h.sei, h.takenOver]

/-- `detachB`: the session of object `i` is discarded exactly if it is a clean one that was not taken over -/
theorem detachB_sv (k : Nat) (s : Server) (i : Nat) :
    SurvW i k (endsWithConn0 (getObj s i) = false) s (detachB s i) := by
  unfold detachB
  extract_lets +onlyGivenNames c expire s3 s4 s2
  refine SurvW.upd (s := s2) ?_ rfl
  show SurvW i k _ s (if (expire && !c.takenOver) = true then _ else s)
  split
  · rename_i hexp
    refine SurvW.weaken (own := False) ?_ (fun h => ?_)
    · have h3 : SurvW i k False s s3 := clearInflights_sv k s i
      exact (h3.surv (unsubscribeClient_sv k s3 i)).upd rfl
    · have : endsWithConn0 (getObj s i) = true := hexp
      rw [this] at h; cases h
  · exact SurvW.refl _ _ _ _

theorem detachB_clients (s : Server) (i : Nat) (h : endsWithConn0 (getObj s i) = false) :
    (detachB s i).clients = s.clients := by
  unfold detachB
  extract_lets +onlyGivenNames c expire s3 s4 s2
  show (if (expire && !c.takenOver) = true then _ else s).clients = _
  have : (expire && !c.takenOver) = false := h
  rw [this]; rfl

end Mochi.Broker
