import Mochi.Lemmas.BrokerRetained
import Mochi.Lemmas.BrokerRetIndex
import Mochi.Lemmas.BrokerShared
/-!
# The retained replay of a new subscription (C05)

`publishRetainedToClient s i sub existed k` for a plain filter, a QoS 0 subscription and a live client without topic
aliases: the state is unchanged and the packets written are, in the order `permSeed` picks, one PUBLISH per retained
message `Messages(filter)` returns whose stored packet passes the gates (No Local, read permission) — and
`Messages(filter)` is exact in every state in which the index invariant `RetIdxOK` holds (every history).
-/
namespace Mochi.Broker
open Mochi.Topics

/-- the subscriber's connection is alive and the client uses no topic aliases -/
structure ReplayClient (s : Server) (i : Nat) : Prop where
  isOpen : (getObj s i).isOpen = true
  peer : (getObj s i).peerGone = false
  notInline : (getObj s i).inline = false
  noAlias : (getObj s i).tam = 0

/-- every stored retained packet is a PUBLISH with the retain flag, stored under its own topic (decidable) -/
def StoredPub (s : Server) : Prop := ∀ e ∈ s.rmsgs, e.2.type = 3 ∧ e.2.retain = true ∧ e.2.topic = e.1

instance (s : Server) : Decidable (StoredPub s) := by unfold StoredPub; infer_instance

/-- the PUBLISH written for the stored packet `pk` -/
def replayPacket (s : Server) (i : Nat) (sub : Sub) (pk : Msg) : Out :=
  .wrote (getObj s i).conn (.publish (getObj s i).ver (shapeOut s.caps (getObj s i).ver sub true pk)
    (decide (pk.expiry > 0) || decide (pk.msgExpiry > 0)))

theorem replayPacket_fields (s : Server) (i : Nat) (sub : Sub) (pk : Msg) :
    (shapeOut s.caps (getObj s i).ver sub true pk).retain = pk.retain ∧
    (shapeOut s.caps (getObj s i).ver sub true pk).topic = pk.topic ∧
    (shapeOut s.caps (getObj s i).ver sub true pk).payload = pk.payload ∧
    (shapeOut s.caps (getObj s i).ver sub true pk).origin = pk.origin := ⟨rfl, rfl, rfl, rfl⟩

theorem publishToClientCore_plain (s : Server) (i : Nat) (sub : Sub) (f : Bool) (pk : Msg)
    (htam : (getObj s i).tam = 0) (hq : sub.qos = 0) (ho : (getObj s i).isOpen = true) :
    publishToClientCore s i sub f pk = (s, writeMsg s i (shapeOut s.caps (getObj s i).ver sub f pk)) := by
  have hq' : ¬ (shapeOut s.caps (getObj s i).ver sub f pk).qos > 0 := by
    show ¬ shapeQos s.caps sub pk.qos > 0
    rw [shapeQos_sub_zero _ _ _ hq]; exact Nat.lt_irrefl 0
  unfold publishToClientCore
  simp only [htam, Nat.lt_irrefl, gt_iff_lt, if_false, setObj_getObj_self, ho, Bool.not_true, Bool.false_eq_true]
  rw [if_neg hq']

theorem writeMsg_live_pub (s : Server) (i : Nat) (m : Msg) (hm : m.type = 3) (ho : (getObj s i).isOpen = true)
    (hp : (getObj s i).peerGone = false) (hi : (getObj s i).inline = false) :
    writeMsg s i m = [.wrote (getObj s i).conn (.publish (getObj s i).ver m (decide (m.expiry > 0) || decide (m.msgExpiry > 0)))] := by
  unfold writeMsg
  simp only [ho, hp, hi, hm, Bool.not_true, Bool.or_self, Bool.false_eq_true, if_false, beq_self_eq_true, if_true]

/-- the gates of a replayed copy: not excluded by No Local, authorised to read the topic -/
def replayGate (s : Server) (i : Nat) (sub : Sub) (pk : Msg) : Bool :=
  !(sub.noLocal && pk.origin == (getObj s i).id) && aclOk s (getObj s i).id pk.topic false

theorem publishToClient_replay (s : Server) (i : Nat) (sub : Sub) (pk : Msg) (hc : ReplayClient s i) (hq : sub.qos = 0)
    (ht : pk.type = 3) :
    publishToClient s i sub true pk = (s, if replayGate s i sub pk = true then [replayPacket s i sub pk] else []) := by
  unfold publishToClient replayGate
  by_cases h1 : (sub.noLocal && pk.origin == (getObj s i).id) = true
  · rw [if_pos h1, h1]; rfl
  · rw [if_neg h1]
    have h1' : (sub.noLocal && pk.origin == (getObj s i).id) = false := by simpa using h1
    rw [h1']
    by_cases h2 : (!aclOk s (getObj s i).id pk.topic false) = true
    · rw [if_pos h2]
      have : aclOk s (getObj s i).id pk.topic false = false := by simpa using h2
      rw [this]; rfl
    · rw [if_neg h2]
      have : aclOk s (getObj s i).id pk.topic false = true := by simpa using h2
      rw [this, publishToClientCore_plain s i sub true pk hc.noAlias hq hc.isOpen,
        writeMsg_live_pub s i (shapeOut s.caps (getObj s i).ver sub true pk) ht hc.isOpen hc.peer hc.notInline]
      rfl

/-- the subscription as `publishRetainedToClient` hands it to the deliveries (its identifier filed) -/
def withIdent (sub : Sub) : Sub :=
  if sub.ident > 0 && (sub.idents.getD []).isEmpty then { sub with idents := some [(sub.filter, sub.ident)] } else sub

theorem withIdent_fields (sub : Sub) : (withIdent sub).qos = sub.qos ∧ (withIdent sub).noLocal = sub.noLocal ∧
    (withIdent sub).filter = sub.filter := by
  unfold withIdent; split <;> exact ⟨rfl, rfl, rfl⟩

/-- what the replay writes for one retained message returned by `Messages` -/
def replayOne (s : Server) (i : Nat) (sub : Sub) (r : Retained) : List Out :=
  match assocGet s.rmsgs r.topic with
  | none => []
  | some pk => if replayGate s i sub pk = true then [replayPacket s i sub pk] else []

theorem replayFold (s : Server) (i : Nat) (sub : Sub) (hc : ReplayClient s i) (hq : sub.qos = 0) (hsp : StoredPub s)
    (L : List Retained) (o0 : List Out) :
    L.foldl (fun (acc : Server × List Out) (r : Retained) =>
      match assocGet acc.1.rmsgs r.topic with
      | none => acc
      | some pk =>
        let (s', o) := publishToClient acc.1 i sub true pk
        (s', acc.2 ++ o)) (s, o0) = (s, o0 ++ L.flatMap (replayOne s i sub)) := by
  induction L generalizing o0 with
  | nil => simp
  | cons r rs ih =>
    rw [List.foldl_cons, List.flatMap_cons, ← List.append_assoc, ← ih]
    congr 1
    unfold replayOne
    cases hg : assocGet s.rmsgs r.topic with
    | none => simp
    | some pk =>
      have ht : pk.type = 3 := (hsp _ (assocGet_some_mem _ _ _ hg)).1
      simp only [publishToClient_replay s i sub pk hc hq ht]

/-- **the replay, as a function of the state before it**: a plain filter, Retain Handling 0 (or 1 for a new
    subscription), a QoS 0 subscription, a live client without topic aliases -/
theorem publishRetainedToClient_replay (s : Server) (i : Nat) (sub : Sub) (ex : Bool) (k : Nat) (hc : ReplayClient s i)
    (hq : sub.qos = 0) (hsp : StoredPub s) (hns : isSharedFilter sub.filter = false)
    (hrh : ((sub.rh == 1 && ex) || sub.rh == 2) = false) :
    publishRetainedToClient s i sub ex k =
      (s, (permuteBy (permDigit s.permSeed k) (messages s.topics sub.filter)).flatMap (replayOne s i (withIdent sub))) := by
  unfold publishRetainedToClient
  rw [hns, hrh, if_neg Bool.false_ne_true, if_neg Bool.false_ne_true]
  have := replayFold s i (withIdent sub) hc ((withIdent_fields sub).1.trans hq) hsp
    (permuteBy (permDigit s.permSeed k) (messages s.topics (withIdent sub).filter)) []
  rw [List.nil_append] at this
  exact this.trans (by rw [(withIdent_fields sub).2.2])

/-! ### which retained messages are replayed -/

theorem assocGet_isSome_iff_keys {α β} [DecidableEq α] (m : List (α × β)) (k : α) :
    (assocGet m k).isSome = true ↔ k ∈ m.map (·.1) := by
  induction m with
  | nil => simp [assocGet]
  | cons x xs ih =>
    obtain ⟨a, b⟩ := x
    unfold assocGet
    by_cases h : a = k
    · rw [if_pos h]; simp [h]
    · rw [if_neg h, ih]
      simp only [List.map_cons, List.mem_cons]
      constructor
      · exact Or.inr
      · rintro (e | e)
        · exact absurd e.symm h
        · exact e

theorem isSome_sync {s : Server} (hk : RetKeysOK (core s)) (t : Str) :
    (assocGet s.topics.retained t).isSome = (assocGet s.rmsgs t).isSome := by
  have h1 := assocGet_isSome_iff_keys s.topics.retained t
  have h2 := assocGet_isSome_iff_keys s.rmsgs t
  have hk' : s.rmsgs.map (·.1) = s.topics.retained.map (·.1) := hk
  rw [hk'] at h2
  cases ha : (assocGet s.topics.retained t).isSome <;> cases hb : (assocGet s.rmsgs t).isSome <;> simp_all

/-- **exactly the matching retained messages the client may read**: a PUBLISH is written by the replay iff it is the
    copy of a stored packet whose topic the filter matches (`specMatch`) and which passes No Local and the read ACL -/
theorem replay_mem_iff (s : Server) (i : Nat) (sub : Sub) (ex : Bool) (k : Nat) (hc : ReplayClient s i)
    (hq : sub.qos = 0) (hsp : StoredPub s) (hns : isSharedFilter sub.filter = false)
    (hrh : ((sub.rh == 1 && ex) || sub.rh == 2) = false)
    (hidx : RetIdxOK (core s)) (hkeys : RetKeysOK (core s)) (hne : assocGet s.rmsgs [] = none)
    (hf : sub.filter ≠ []) (hok : specLevelsOK (splitLevels sub.filter) = true) (o : Out) :
    o ∈ (publishRetainedToClient s i sub ex k).2 ↔
      ∃ t pk, assocGet s.rmsgs t = some pk ∧ specMatch (splitLevels sub.filter) t = true ∧
        replayGate s i (withIdent sub) pk = true ∧ o = replayPacket s i (withIdent sub) pk := by
  have hne' : assocGet s.topics.retained [] = none := by
    have := isSome_sync hkeys []
    rw [hne] at this
    cases h : assocGet s.topics.retained [] with
    | none => rfl
    | some v => rw [h] at this; cases this
  have hex := messages_exact_of_RetIdxOK s hidx hne' sub.filter hf hok
  rw [publishRetainedToClient_replay s i sub ex k hc hq hsp hns hrh]
  simp only [List.mem_flatMap]
  constructor
  · rintro ⟨r, hr, ho⟩
    have hr' : r ∈ messages s.topics sub.filter := (permuteBy_perm _ _).mem_iff.mp hr
    unfold replayOne at ho
    cases hg : assocGet s.rmsgs r.topic with
    | none => simp only [hg] at ho; cases ho
    | some pk =>
      simp only [hg] at ho
      by_cases hgate : replayGate s i (withIdent sub) pk = true
      · rw [if_pos hgate] at ho
        exact ⟨r.topic, pk, hg, ((hex r.topic).mp ⟨r, hr', rfl⟩).2, hgate, List.mem_singleton.mp ho⟩
      · rw [if_neg hgate] at ho; cases ho
  · rintro ⟨t, pk, hg, hm, hgate, rfl⟩
    have hs : (assocGet s.topics.retained t).isSome = true := by rw [isSome_sync hkeys, hg]; rfl
    obtain ⟨r, hr, hrt⟩ := (hex t).mpr ⟨hs, hm⟩
    refine ⟨r, (permuteBy_perm _ _).mem_iff.mpr hr, ?_⟩
    unfold replayOne
    simp only [hrt, hg, hgate, if_true, List.mem_singleton]

/-- Retain Handling 2, or 1 for a subscription that existed, or a shared filter: nothing is replayed -/
theorem replay_none (s : Server) (i : Nat) (sub : Sub) (ex : Bool) (k : Nat)
    (h : isSharedFilter sub.filter = true ∨ sub.rh = 2 ∨ (sub.rh = 1 ∧ ex = true)) :
    publishRetainedToClient s i sub ex k = (s, []) := by
  unfold publishRetainedToClient
  rcases h with h | h | ⟨h, h'⟩
  · rw [if_pos h]
  · split
    · rfl
    · rw [if_pos (by simp [h])]
  · split
    · rfl
    · rw [if_pos (by simp [h, h'])]

end Mochi.Broker

#print axioms Mochi.Broker.publishRetainedToClient_replay
#print axioms Mochi.Broker.replay_mem_iff
