import Mochi.Model.CodecEnc
/-! Round-trip lemmas for the codec helpers, at an arbitrary offset inside a buffer. -/
namespace Mochi.Codec

theorem getElem?_at (pre : Str) (x : Nat) (rest : Str) : (pre ++ x :: rest)[pre.length]? = some x := by
  simp

theorem getElem?_at1 (pre : Str) (x y : Nat) (rest : Str) : (pre ++ x :: y :: rest)[pre.length + 1]? = some y := by
  rw [List.getElem?_append_right (by omega)]; simp

theorem decodeByte_at (pre : Str) (x : Nat) (rest : Str) :
    decodeByte (pre ++ x :: rest) pre.length = .ok (x, pre.length + 1) := by
  unfold decodeByte; rw [getElem?_at]

theorem decodeUint16_at (pre : Str) (v : Nat) (rest : Str) (hv : v < 65536) :
    decodeUint16 (pre ++ encodeUint16 v ++ rest) pre.length = .ok (v, pre.length + 2) := by
  unfold decodeUint16 encodeUint16
  have hl : ¬ (pre ++ [v / 256 % 256, v % 256] ++ rest).length < pre.length + 2 := by simp
  simp only [hl, if_false]
  have e : pre ++ [v / 256 % 256, v % 256] ++ rest = pre ++ (v / 256 % 256) :: (v % 256) :: rest := by simp
  rw [e, getElem?_at, getElem?_at1]
  simp only [Option.getD_some]
  congr 2; omega

theorem decodeUint32_at (pre : Str) (v : Nat) (rest : Str) (hv : v < 4294967296) :
    decodeUint32 (pre ++ encodeUint32 v ++ rest) pre.length = .ok (v, pre.length + 4) := by
  unfold decodeUint32 encodeUint32
  have hl : ¬ (pre ++ [v / 16777216 % 256, v / 65536 % 256, v / 256 % 256, v % 256] ++ rest).length < pre.length + 4 := by
    simp
  simp only [hl, if_false]
  have e : pre ++ [v / 16777216 % 256, v / 65536 % 256, v / 256 % 256, v % 256] ++ rest =
      pre ++ (v / 16777216 % 256) :: (v / 65536 % 256) :: (v / 256 % 256) :: (v % 256) :: rest := by simp
  rw [e, getElem?_at, getElem?_at1]
  have e2 : (pre ++ (v / 16777216 % 256) :: (v / 65536 % 256) :: (v / 256 % 256) :: (v % 256) :: rest)[pre.length + 2]? = some (v / 256 % 256) := by
    rw [List.getElem?_append_right (by omega)]; simp
  have e3 : (pre ++ (v / 16777216 % 256) :: (v / 65536 % 256) :: (v / 256 % 256) :: (v % 256) :: rest)[pre.length + 3]? = some (v % 256) := by
    rw [List.getElem?_append_right (by omega)]; simp
  rw [e2, e3]
  simp only [Option.getD_some]
  congr 2; omega

theorem decodeBytes_at (pre s rest : Str) (hs : s.length < 65536) :
    decodeBytes (pre ++ encodeBytes s ++ rest) pre.length = .ok (s, pre.length + 2 + s.length) := by
  unfold decodeBytes encodeBytes
  have e : pre ++ (encodeUint16 (s.length % 65536) ++ s) ++ rest = pre ++ encodeUint16 (s.length % 65536) ++ (s ++ rest) := by
    simp
  rw [e, decodeUint16_at pre _ _ (by omega)]
  simp only []
  have hm : s.length % 65536 = s.length := Nat.mod_eq_of_lt hs
  rw [hm]
  have hl : ¬ (pre.length + 2 + s.length > (pre ++ encodeUint16 s.length ++ (s ++ rest)).length) := by
    simp [encodeUint16]; omega
  simp only [hl, if_false]
  congr 2
  have : pre ++ encodeUint16 s.length ++ (s ++ rest) = (pre ++ encodeUint16 s.length) ++ (s ++ rest) := by simp
  rw [this, List.drop_append_of_le_length (by simp [encodeUint16])]
  have hlen : (pre ++ encodeUint16 s.length).length = pre.length + 2 := by simp [encodeUint16]
  rw [← hlen, List.drop_length]; simp

theorem decodeString_at (pre s rest : Str) (hs : s.length < 65536) (hu : validUTF8 s = true) :
    decodeString (pre ++ encodeBytes s ++ rest) pre.length = .ok (s, pre.length + 2 + s.length) := by
  unfold decodeString
  rw [decodeBytes_at pre s rest hs]
  simp [hu]

end Mochi.Codec
