import Mochi.Lemmas.Scan
/-! Key sets of the `Subscribers` result as a function of the gathered particles. -/
namespace Mochi.Topics

theorem mem_keys_assocSet {α β} [DecidableEq α] (m : List (α × β)) (k : α) (v : β) (k' : α) :
    k' ∈ (assocSet m k v).map Prod.fst ↔ k' = k ∨ k' ∈ m.map Prod.fst := by
  induction m with
  | nil => simp [assocSet]
  | cons kv rest ih =>
    obtain ⟨a, b⟩ := kv
    unfold assocSet
    by_cases h : a = k
    · subst h; simp
    · simp only [h, if_false, List.map_cons, List.mem_cons, ih]
      constructor
      · rintro (h1 | h1 | h1) <;> simp_all
      · rintro (h1 | h1 | h1) <;> simp_all

theorem gatherSubOne_keys (topic : Str) (m : List (Str × Sub)) (e : Str × Sub) (c : Str) :
    c ∈ (gatherSubOne topic m e).map Prod.fst ↔
      c ∈ m.map Prod.fst ∨ (c = e.1 ∧ dollarExcluded e.2.filter topic = false) := by
  unfold gatherSubOne
  by_cases hd : dollarExcluded e.2.filter topic = true
  · simp [hd]
  · have hd' : dollarExcluded e.2.filter topic = false := by simpa using hd
    simp only [hd', Bool.false_eq_true, if_false, and_true]
    split <;> (rw [mem_keys_assocSet]; constructor <;> (rintro (h | h) <;> simp_all))

/-- one `gatherSubscriptions` call: the client keys afterwards -/
theorem subs_fold_keys (topic : Str) (entries : List (Str × Sub)) (m : List (Str × Sub)) (c : Str) :
    c ∈ (entries.foldl (gatherSubOne topic) m).map Prod.fst ↔
      c ∈ m.map Prod.fst ∨ ∃ s, (c, s) ∈ entries ∧ dollarExcluded s.filter topic = false := by
  induction entries generalizing m with
  | nil => simp
  | cons e rest ih =>
    simp only [List.foldl_cons]
    rw [ih, gatherSubOne_keys]
    constructor
    · rintro ((h | ⟨h1, h2⟩) | ⟨s, hs, hx⟩)
      · exact Or.inl h
      · exact Or.inr ⟨e.2, by rw [h1]; simp, h2⟩
      · exact Or.inr ⟨s, List.mem_cons_of_mem _ hs, hx⟩
    · rintro (h | ⟨s, hs, hx⟩)
      · exact Or.inl (Or.inl h)
      · rcases List.mem_cons.mp hs with h | h
        · left; right; rw [← h]; exact ⟨rfl, hx⟩
        · exact Or.inr ⟨s, h, hx⟩

end Mochi.Topics

namespace Mochi.Topics

/-- client keys of `Subscribers.Subscriptions` after gathering along a visit list -/
theorem fold_subs_keys (ns : List Node) (topic : Str) (L : List Gather) (acc : Subscribers) (c : Str) :
    c ∈ (L.foldl (gatherStep ns topic) acc).subs.map Prod.fst ↔
      c ∈ acc.subs.map Prod.fst ∨
      ∃ q, Gather.subs q ∈ L ∧ ∃ n, getNode ns q = some n ∧
        ∃ s, (c, s) ∈ n.subs ∧ dollarExcluded s.filter topic = false := by
  induction L generalizing acc with
  | nil => simp
  | cons g rest ih =>
    simp only [List.foldl_cons]
    rw [ih]
    cases g with
    | subs p =>
      simp only [gatherStep]
      cases hn : getNode ns p with
      | none =>
        simp only
        constructor
        · rintro (h | ⟨q, hq, n, hgn, s, hs, hx⟩)
          · exact Or.inl h
          · exact Or.inr ⟨q, List.mem_cons_of_mem _ hq, n, hgn, s, hs, hx⟩
        · rintro (h | ⟨q, hq, n, hgn, s, hs, hx⟩)
          · exact Or.inl h
          · rcases List.mem_cons.mp hq with h | h
            · injection h with h; subst h; rw [hn] at hgn; cases hgn
            · exact Or.inr ⟨q, h, n, hgn, s, hs, hx⟩
      | some node =>
        simp only
        rw [subs_fold_keys]
        constructor
        · rintro ((h | ⟨s, hs, hx⟩) | ⟨q, hq, n, hgn, s, hs, hx⟩)
          · exact Or.inl h
          · exact Or.inr ⟨p, by simp, node, hn, s, hs, hx⟩
          · exact Or.inr ⟨q, List.mem_cons_of_mem _ hq, n, hgn, s, hs, hx⟩
        · rintro (h | ⟨q, hq, n, hgn, s, hs, hx⟩)
          · exact Or.inl (Or.inl h)
          · rcases List.mem_cons.mp hq with h | h
            · injection h with h; subst h; rw [hn] at hgn; injection hgn with hgn; subst hgn
              exact Or.inl (Or.inr ⟨s, hs, hx⟩)
            · exact Or.inr ⟨q, h, n, hgn, s, hs, hx⟩
    | shared p =>
      have : (gatherStep ns topic acc (Gather.shared p)).subs = acc.subs := by
        simp only [gatherStep]; cases getNode ns p <;> simp only <;> split <;> rfl
      rw [this]
      constructor
      · rintro (h | ⟨q, hq, rest⟩)
        · exact Or.inl h
        · exact Or.inr ⟨q, List.mem_cons_of_mem _ hq, rest⟩
      · rintro (h | ⟨q, hq, rest⟩)
        · exact Or.inl h
        · rcases List.mem_cons.mp hq with h | h
          · cases h
          · exact Or.inr ⟨q, h, rest⟩
    | inline p =>
      have : (gatherStep ns topic acc (Gather.inline p)).subs = acc.subs := by
        simp only [gatherStep]; cases getNode ns p <;> simp only <;> split <;> rfl
      rw [this]
      constructor
      · rintro (h | ⟨q, hq, rest⟩)
        · exact Or.inl h
        · exact Or.inr ⟨q, List.mem_cons_of_mem _ hq, rest⟩
      · rintro (h | ⟨q, hq, rest⟩)
        · exact Or.inl h
        · rcases List.mem_cons.mp hq with h | h
          · cases h
          · exact Or.inr ⟨q, h, rest⟩

theorem inline_fold_keys (entries : List (Nat × Sub)) (m : List (Nat × Sub)) (i : Nat) :
    i ∈ (entries.foldl gatherInlineOne m).map Prod.fst ↔
      i ∈ m.map Prod.fst ∨ i ∈ entries.map Prod.fst := by
  induction entries generalizing m with
  | nil => simp
  | cons e rest ih =>
    simp only [List.foldl_cons]
    rw [ih]
    unfold gatherInlineOne
    rw [mem_keys_assocSet]
    simp only [List.map_cons, List.mem_cons]
    constructor
    · rintro ((h | h) | h) <;> simp_all
    · rintro (h | h | h) <;> simp_all

/-- inline identifiers of `Subscribers.InlineSubscriptions` after gathering along a visit list -/
theorem fold_inline_keys (ns : List Node) (topic : Str) (L : List Gather) (acc : Subscribers) (i : Nat) :
    i ∈ (L.foldl (gatherStep ns topic) acc).inline.map Prod.fst ↔
      i ∈ acc.inline.map Prod.fst ∨
      ∃ q, Gather.inline q ∈ L ∧ ∃ n, getNode ns q = some n ∧
        (topicDollar topic && wildStart q) = false ∧ i ∈ n.inline.map Prod.fst := by
  induction L generalizing acc with
  | nil => simp
  | cons g rest ih =>
    simp only [List.foldl_cons]
    rw [ih]
    cases g with
    | inline p =>
      simp only [gatherStep]
      cases hn : getNode ns p with
      | none =>
        simp only
        constructor
        · rintro (h | ⟨q, hq, rest⟩)
          · exact Or.inl h
          · exact Or.inr ⟨q, List.mem_cons_of_mem _ hq, rest⟩
        · rintro (h | ⟨q, hq, n, hgn, rest⟩)
          · exact Or.inl h
          · rcases List.mem_cons.mp hq with h | h
            · injection h with h; subst h; rw [hn] at hgn; cases hgn
            · exact Or.inr ⟨q, h, n, hgn, rest⟩
      | some node =>
        simp only
        by_cases hw : (topicDollar topic && wildStart p) = true
        · simp only [hw, if_true]
          constructor
          · rintro (h | ⟨q, hq, rest⟩)
            · exact Or.inl h
            · exact Or.inr ⟨q, List.mem_cons_of_mem _ hq, rest⟩
          · rintro (h | ⟨q, hq, n, hgn, hx, rest⟩)
            · exact Or.inl h
            · rcases List.mem_cons.mp hq with h | h
              · injection h with h; subst h; rw [hw] at hx; cases hx
              · exact Or.inr ⟨q, h, n, hgn, hx, rest⟩
        · have hw' : (topicDollar topic && wildStart p) = false := by simpa using hw
          simp only [hw', Bool.false_eq_true, if_false]
          rw [inline_fold_keys]
          constructor
          · rintro ((h | h) | ⟨q, hq, rest⟩)
            · exact Or.inl h
            · exact Or.inr ⟨p, by simp, node, hn, hw', h⟩
            · exact Or.inr ⟨q, List.mem_cons_of_mem _ hq, rest⟩
          · rintro (h | ⟨q, hq, n, hgn, hx, hi⟩)
            · exact Or.inl (Or.inl h)
            · rcases List.mem_cons.mp hq with h | h
              · injection h with h; subst h; rw [hn] at hgn; injection hgn with hgn; subst hgn
                exact Or.inl (Or.inr hi)
              · exact Or.inr ⟨q, h, n, hgn, hx, hi⟩
    | subs p =>
      have : (gatherStep ns topic acc (Gather.subs p)).inline = acc.inline := by
        simp only [gatherStep]; cases getNode ns p <;> rfl
      rw [this]
      constructor
      · rintro (h | ⟨q, hq, rest⟩)
        · exact Or.inl h
        · exact Or.inr ⟨q, List.mem_cons_of_mem _ hq, rest⟩
      · rintro (h | ⟨q, hq, rest⟩)
        · exact Or.inl h
        · rcases List.mem_cons.mp hq with h | h
          · cases h
          · exact Or.inr ⟨q, h, rest⟩
    | shared p =>
      have : (gatherStep ns topic acc (Gather.shared p)).inline = acc.inline := by
        simp only [gatherStep]; cases getNode ns p <;> simp only <;> split <;> rfl
      rw [this]
      constructor
      · rintro (h | ⟨q, hq, rest⟩)
        · exact Or.inl h
        · exact Or.inr ⟨q, List.mem_cons_of_mem _ hq, rest⟩
      · rintro (h | ⟨q, hq, rest⟩)
        · exact Or.inl h
        · rcases List.mem_cons.mp hq with h | h
          · cases h
          · exact Or.inr ⟨q, h, rest⟩

end Mochi.Topics
