import Mochi.Spec.Topics
/-! Correctness of the subscriber scan over a prefix-closed flattened trie. -/
namespace Mochi.Topics

@[simp] theorem plus_ne_hash : plus ≠ hash := by decide
@[simp] theorem hash_ne_plus : hash ≠ plus := by decide
@[simp] theorem lplus_ne_lhash : ([plus] : Level) ≠ [hash] := by decide
@[simp] theorem lhash_ne_lplus : ([hash] : Level) ≠ [plus] := by decide

/-- every non-empty prefix of a particle's address is a particle too -/
def PrefixClosed (ns : List Node) : Prop :=
  ∀ (p : Path), hasNode ns p = true → ∀ k, 0 < k → k ≤ p.length → hasNode ns (p.take k) = true

theorem prefix_exists (ns : List Node) (hpc : PrefixClosed ns) (a b : Path) (ha : a ≠ [])
    (h : hasNode ns (a ++ b) = true) : hasNode ns a = true := by
  have := hpc (a ++ b) h a.length (by cases a <;> simp_all) (by simp)
  simpa using this

/-- which particle addresses (relative to the current particle) match a single remaining level -/
theorem matchLv_single (q' : Path) (key : Level) (hk : key ≠ [hash]) :
    matchLv q' [key] = true ↔
      (q' = [[hash]] ∨ q' = [[plus]] ∨ q' = [key] ∨ q' = [[plus], [hash]] ∨ q' = [key, [hash]]) := by
  have hk' : ([hash] : Level) ≠ key := fun h => hk h.symm
  match q' with
  | [] => simp [matchLv]
  | [f] =>
    simp only [matchLv]
    by_cases h1 : f = [hash]
    · subst h1; simp
    · by_cases h2 : f = [plus]
      · subst h2; simp [matchLv]
      · by_cases h3 : f = key
        · subst h3; simp [matchLv, h1]
        · simp [matchLv, h1, h2, h3]
  | [f, g] =>
    simp only [matchLv]
    by_cases h1 : f = [hash]
    · subst h1; simp [hk']
    · by_cases h2 : f = [plus]
      · subst h2
        by_cases hg : g = [hash] <;> simp [matchLv, hg]
      · by_cases h3 : f = key
        · subst h3; simp [matchLv, h1, h2]
        · simp [matchLv, h1, h2, h3]
  | f :: g :: h :: r =>
    simp only [matchLv]
    by_cases h1 : f = [hash]
    · subst h1; simp
    · simp [h1, matchLv]

theorem mem_gatherAll_subs (p q : Path) : Gather.subs q ∈ gatherAll p ↔ q = p := by
  simp [gatherAll]
theorem mem_gatherAll_shared (p q : Path) : Gather.shared q ∈ gatherAll p ↔ q = p := by
  simp [gatherAll]
theorem mem_gatherAll_inline (p q : Path) : Gather.inline q ∈ gatherAll p ↔ q = p := by
  simp [gatherAll]

end Mochi.Topics

namespace Mochi.Topics

theorem matchLv_cons_cons (f : Level) (fs : Path) (t : Level) (ts : Path) :
    matchLv (f :: fs) (t :: ts) = (if f == [hash] then fs.isEmpty else (f == [plus] || f == t) && matchLv fs ts) := by
  simp [matchLv]

/-- **The trie walk gathers exactly the matching particles.**  For a prefix-closed particle list, a
    topic with at least one level none of which is `#`, the scan started at particle `cur` gathers
    the particle at address `q` iff `q` exists and its address below `cur` matches the remaining
    topic levels under the MQTT rule. -/
theorem scan_iff (mk : Path → Gather) (hmk : ∀ p q, mk q ∈ gatherAll p ↔ q = p)
    (ns : List Node) (hpc : PrefixClosed ns) :
    ∀ (ts : Path), ts ≠ [] → (∀ t ∈ ts, t ≠ [hash]) → ∀ (cur q : Path),
      (mk q ∈ scanVisits ns cur ts ↔ ∃ q', q = cur ++ q' ∧ hasNode ns q = true ∧ matchLv q' ts = true) := by
  intro ts
  induction ts with
  | nil => intro h; exact absurd rfl h
  | cons key rest ih =>
    intro _ hnh cur q
    have hk : key ≠ [hash] := hnh key (by simp)
    cases rest with
    | nil =>
      unfold scanVisits
      simp only [List.mem_append, matchLv_single _ _ hk]
      constructor
      · intro h
        rcases h with (h | h) | h
        · split at h
          · rename_i hn
            simp only [List.mem_append, hmk] at h
            rcases h with h | h
            · exact ⟨[key], h, by rw [h]; exact hn, Or.inr (Or.inr (Or.inl rfl))⟩
            · split at h
              · rename_i hn2
                rw [hmk] at h
                exact ⟨[key, [hash]], h, by rw [h]; exact hn2, Or.inr (Or.inr (Or.inr (Or.inr rfl)))⟩
              · simp at h
          · simp at h
        · split at h
          · rename_i hn
            simp only [List.mem_append, hmk] at h
            rcases h with h | h
            · exact ⟨[[plus]], h, by rw [h]; exact hn, Or.inr (Or.inl rfl)⟩
            · split at h
              · rename_i hn2
                rw [hmk] at h
                exact ⟨[[plus], [hash]], h, by rw [h]; exact hn2, Or.inr (Or.inr (Or.inr (Or.inl rfl)))⟩
              · simp at h
          · simp at h
        · split at h
          · rename_i hn
            rw [hmk] at h
            exact ⟨[[hash]], h, by rw [h]; exact hn, Or.inl rfl⟩
          · simp at h
      · rintro ⟨q', rfl, hn, hq⟩
        rcases hq with rfl | rfl | rfl | rfl | rfl
        · right; simp [hn, hmk]
        · left; right; simp [hn, hmk]
        · left; left; simp [hn, hmk]
        · left; right
          have hp := prefix_exists ns hpc (cur ++ [[plus]]) [[hash]] (by simp) (by simpa using hn)
          simp [hp, hn, hmk]
        · left; left
          have hp := prefix_exists ns hpc (cur ++ [key]) [[hash]] (by simp) (by simpa using hn)
          simp [hp, hn, hmk]
    | cons r2 rest' =>
      have ih' := ih (by simp) (fun t ht => hnh t (by simp [ht]))
      unfold scanVisits
      simp only [List.mem_append]
      constructor
      · intro h
        rcases h with (h | h) | h
        · split at h
          · rw [ih'] at h
            obtain ⟨q'', rfl, hn, hm⟩ := h
            refine ⟨key :: q'', by simp, by simpa using hn, ?_⟩
            rw [matchLv_cons_cons]; simp [hk, hm]
          · simp at h
        · split at h
          · rw [ih'] at h
            obtain ⟨q'', rfl, hn, hm⟩ := h
            refine ⟨[plus] :: q'', by simp, by simpa using hn, ?_⟩
            rw [matchLv_cons_cons]; simp [hm]
          · simp at h
        · split at h
          · rename_i hn
            rw [hmk] at h
            exact ⟨[[hash]], h, by rw [h]; exact hn, by simp [matchLv]⟩
          · simp at h
      · rintro ⟨q', rfl, hn, hm⟩
        match q', hm with
        | [], hm => simp [matchLv] at hm
        | f :: fs, hm =>
          rw [matchLv_cons_cons] at hm
          by_cases hf : f = [hash]
          · subst hf
            simp at hm
            subst hm
            right; simp [hn, hmk]
          · simp only [beq_iff_eq, hf, if_false, Bool.and_eq_true, Bool.or_eq_true] at hm
            obtain ⟨hfk, hm2⟩ := hm
            have hex : hasNode ns (cur ++ [f]) = true :=
              prefix_exists ns hpc (cur ++ [f]) fs (by simp) (by simpa using hn)
            rcases hfk with rfl | rfl
            · left; right
              simp only [hex, if_true]
              rw [ih']
              exact ⟨fs, by simp, hn, hm2⟩
            · left; left
              simp only [hex, if_true]
              rw [ih']
              exact ⟨fs, by simp, hn, hm2⟩

end Mochi.Topics
