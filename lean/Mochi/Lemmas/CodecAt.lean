import Mochi.Lemmas.CodecRoundtrip
import Mochi.Props.C29
/-!
Cursor view of the decoder helpers: `At buf off tail` says that the bytes of `buf` from offset `off`
on are exactly `tail`.  Every helper, run at such a cursor on what the matching encoder wrote, returns
the value and moves the cursor behind the encoding.  Also: `decodeLength` ignores trailing bytes.
-/
namespace Mochi.Codec
open Mochi.Varint

/-- well-formedness of a string field -/
def wfStr (s : Str) : Prop := s.length < 65536 ∧ validUTF8 s = true
def wfBin (s : Str) : Prop := s.length < 65536

instance (s : Str) : Decidable (wfStr s) := by unfold wfStr; infer_instance
instance (s : Str) : Decidable (wfBin s) := by unfold wfBin; infer_instance

theorem wfStr_nil : wfStr [] := by decide

/-- the bytes of `buf` from `off` on are `tail` -/
def At (buf : Str) (off : Nat) (tail : Str) : Prop := ∃ pre, buf = pre ++ tail ∧ pre.length = off

theorem At.zero (buf : Str) : At buf 0 buf := ⟨[], by simp, rfl⟩

theorem At.step {buf : Str} {off : Nat} {a t : Str} (h : At buf off (a ++ t)) : At buf (off + a.length) t := by
  obtain ⟨pre, rfl, rfl⟩ := h
  exact ⟨pre ++ a, by simp, by simp⟩

theorem At.step' {buf : Str} {off : Nat} {a t : Str} (k : Nat) (h : At buf off (a ++ t)) (hk : a.length = k) :
    At buf (off + k) t := hk ▸ h.step

theorem At.cons {buf : Str} {off : Nat} {x : Nat} {t : Str} (h : At buf off (x :: t)) : At buf (off + 1) t := by
  have : At buf off ([x] ++ t) := by simpa using h
  exact this.step

theorem At.le {buf : Str} {off : Nat} {t : Str} (h : At buf off t) : off ≤ buf.length := by
  obtain ⟨pre, rfl, rfl⟩ := h; simp

theorem At.length {buf : Str} {off : Nat} {t : Str} (h : At buf off t) : buf.length = off + t.length := by
  obtain ⟨pre, rfl, rfl⟩ := h; simp

theorem At.drop {buf : Str} {off : Nat} {t : Str} (h : At buf off t) : buf.drop off = t := by
  obtain ⟨pre, rfl, rfl⟩ := h; simp

theorem At.of_drop {buf : Str} {off : Nat} (h : off ≤ buf.length) : At buf off (buf.drop off) :=
  ⟨buf.take off, by simp, by simp [h]⟩

theorem At.congr {buf : Str} {off : Nat} {t t' : Str} (h : At buf off t) (e : t = t') : At buf off t' := e ▸ h

theorem sliceFrom_At {buf : Str} {off : Nat} {t : Str} (h : At buf off t) : sliceFrom buf off = .ok t := by
  unfold sliceFrom
  simp [h.le, h.drop]

theorem decodeByte_At {buf : Str} {off x : Nat} {t : Str} (h : At buf off (x :: t)) :
    decodeByte buf off = .ok (x, off + 1) := by
  obtain ⟨pre, rfl, rfl⟩ := h
  exact decodeByte_at pre x t

theorem decodeByteBool_At {buf : Str} {off x : Nat} {t : Str} (h : At buf off (x :: t)) :
    decodeByteBool buf off = .ok (x % 2 == 1, off + 1) := by
  obtain ⟨pre, rfl, rfl⟩ := h
  unfold decodeByteBool; rw [getElem?_at]

theorem decodeUint16_At {buf : Str} {off v : Nat} {t : Str} (h : At buf off (encodeUint16 v ++ t)) (hv : v < 65536) :
    decodeUint16 buf off = .ok (v, off + 2) := by
  obtain ⟨pre, rfl, rfl⟩ := h
  have := decodeUint16_at pre v t hv
  simpa [List.append_assoc] using this

theorem At.step_u16 {buf : Str} {off v : Nat} {t : Str} (h : At buf off (encodeUint16 v ++ t)) : At buf (off + 2) t :=
  h.step' 2 rfl

theorem decodeUint32_At {buf : Str} {off v : Nat} {t : Str} (h : At buf off (encodeUint32 v ++ t)) (hv : v < 4294967296) :
    decodeUint32 buf off = .ok (v, off + 4) := by
  obtain ⟨pre, rfl, rfl⟩ := h
  have := decodeUint32_at pre v t hv
  simpa [List.append_assoc] using this

theorem At.step_u32 {buf : Str} {off v : Nat} {t : Str} (h : At buf off (encodeUint32 v ++ t)) : At buf (off + 4) t :=
  h.step' 4 rfl

theorem encodeBytes_length (s : Str) : (encodeBytes s).length = 2 + s.length := by
  simp [encodeBytes, encodeUint16]; omega

theorem decodeBytes_At {buf : Str} {off : Nat} {s t : Str} (h : At buf off (encodeBytes s ++ t)) (hs : wfBin s) :
    decodeBytes buf off = .ok (s, off + 2 + s.length) := by
  obtain ⟨pre, rfl, rfl⟩ := h
  have := decodeBytes_at pre s t hs
  simpa [List.append_assoc] using this

theorem decodeString_At {buf : Str} {off : Nat} {s t : Str} (h : At buf off (encodeBytes s ++ t)) (hs : wfStr s) :
    decodeString buf off = .ok (s, off + 2 + s.length) := by
  obtain ⟨pre, rfl, rfl⟩ := h
  have := decodeString_at pre s t hs.1 hs.2
  simpa [List.append_assoc] using this

theorem At.step_bytes {buf : Str} {off : Nat} {s t : Str} (h : At buf off (encodeBytes s ++ t)) :
    At buf (off + 2 + s.length) t := by
  have := h.step' (2 + s.length) (encodeBytes_length s)
  rwa [← Nat.add_assoc] at this

/-! ### variable byte integers followed by further bytes -/

theorem decodeLoop_append (bs rest : Str) (v m bu : Nat) (r : Nat × Nat) (h : decodeLoop bs v m bu = .ok r) :
    decodeLoop (bs ++ rest) v m bu = .ok r := by
  induction bs generalizing v m bu with
  | nil => simp [decodeLoop] at h
  | cons eb bs ih =>
    simp only [List.cons_append, decodeLoop] at h ⊢
    split
    · rename_i hc; simp [hc] at h
    · rename_i hc
      simp only [hc, if_false] at h
      split
      · rename_i hc2; simpa [hc2] using h
      · rename_i hc2
        simp only [hc2, if_false] at h
        split
        · rename_i hc3; simp [hc3] at h
        · rename_i hc3
          simp only [hc3, if_false] at h
          exact ih _ _ _ h

/-- `DecodeLength` on what `encodeLength` wrote, whatever follows -/
theorem decodeLength_encode_append (n : Nat) (rest : Str) (h : n ≤ maxVBI) :
    decodeLength (encodeLength n ++ rest) = .ok (n, (encodeLength n).length) := by
  have := C29_roundtrip_minimal n h
  unfold decodeLength at *
  rw [this.1]
  exact decodeLoop_append _ _ _ _ _ _ this.2

theorem encodeLength_length_pos (n : Nat) : 0 < (encodeLength n).length := by
  unfold encodeLength; split <;> simp

end Mochi.Codec
