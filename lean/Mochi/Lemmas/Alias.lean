import Mochi.Model.Alias
import Mochi.Lemmas.Refine
/-!
# Lemmas about the width-faithful alias tables (Model/Alias.lean)

The invariant of every table reachable from the empty one (`Out.Inv`): the maximum fits a uint16, the
cursor never exceeds it, the bound values are exactly `1 .. cursor` in insertion order, and no key occurs
twice. Under it the uint16/uint32 arithmetic of `Out.set` never wraps (`set_eq_setNat`).
-/
namespace Mochi.Alias
open Mochi.Topics

/-! ### generalities -/

theorem list_snoc_induction {α} {P : List α → Prop} (nil : P [])
    (snoc : ∀ l a, P l → P (l ++ [a])) : ∀ l, P l := by
  intro l
  rw [← List.reverse_reverse l]
  induction l.reverse with
  | nil => simpa using nil
  | cons a l ih => simpa using snoc _ a ih

theorem assocGet_none_iff {α β} [DecidableEq α] (m : List (α × β)) (k : α) :
    assocGet m k = none ↔ k ∉ m.map Prod.fst := by
  induction m with
  | nil => simp [assocGet]
  | cons kv rest ih =>
    obtain ⟨k0, v0⟩ := kv
    simp only [assocGet, List.map_cons, List.mem_cons, not_or]
    by_cases h : k0 = k
    · subst h; simp
    · have h' : ¬ k = k0 := fun e => h e.symm
      simp [h, h', ih]

theorem assocGet_some_mem_keys {α β} [DecidableEq α] (m : List (α × β)) (k : α) (v : β)
    (h : assocGet m k = some v) : k ∈ m.map Prod.fst := by
  false_or_by_contra
  rename_i hn
  rw [(assocGet_none_iff m k).2 hn] at h
  cases h

/-- two keys holding the same value are the same key when the values have no duplicates -/
theorem key_eq_of_vals_nodup {α β} (m : List (α × β)) (k1 k2 : α) (v : β)
    (hn : (m.map Prod.snd).Nodup) (h1 : (k1, v) ∈ m) (h2 : (k2, v) ∈ m) : k1 = k2 := by
  induction m with
  | nil => cases h1
  | cons kv rest ih =>
    obtain ⟨k0, v0⟩ := kv
    simp only [List.map_cons, List.nodup_cons, List.mem_map, Prod.exists, exists_eq_right, not_exists] at hn
    simp only [List.mem_cons, Prod.mk.injEq] at h1 h2
    rcases h1 with ⟨e1, e1'⟩ | h1 <;> rcases h2 with ⟨e2, e2'⟩ | h2
    · rw [e1, e2]
    · subst e1'; exact absurd h2 (hn.1 _)
    · subst e2'; exact absurd h1 (hn.1 _)
    · exact ih hn.2 h1 h2

theorem u16_of_lt {n : Nat} (h : n < 65536) : u16 n = n := Nat.mod_eq_of_lt h
theorem u32_of_lt {n : Nat} (h : n < 4294967296) : u32 n = n := Nat.mod_eq_of_lt h

/-! ### the invariant -/

structure Out.Inv (a : Out) : Prop where
  max_lt : a.maximum < 65536
  cur_le : a.cursor ≤ a.maximum
  vals : a.internal.map Prod.snd = List.range' 1 a.cursor
  keys : (a.internal.map Prod.fst).Nodup

theorem Out.Inv.length {a : Out} (h : a.Inv) : a.internal.length = a.cursor := by
  have := congrArg List.length h.vals
  simpa using this

theorem Out.Inv.bound_range {a : Out} (h : a.Inv) {t : Str} {x : Nat}
    (hx : assocGet a.internal t = some x) : 1 ≤ x ∧ x ≤ a.cursor := by
  have hm := assocGet_mem _ _ _ hx
  have : x ∈ a.internal.map Prod.snd := List.mem_map.2 ⟨(t, x), hm, rfl⟩
  rw [h.vals, List.mem_range'_1] at this
  omega

theorem Out.Inv.injective {a : Out} (h : a.Inv) {t1 t2 : Str} {x : Nat}
    (h1 : assocGet a.internal t1 = some x) (h2 : assocGet a.internal t2 = some x) : t1 = t2 := by
  refine key_eq_of_vals_nodup a.internal t1 t2 x ?_ (assocGet_mem _ _ _ h1) (assocGet_mem _ _ _ h2)
  rw [h.vals]
  exact List.nodup_range' 1

theorem inv_new (m : Nat) (hm : m < 65536) : (Out.new m).Inv := by
  refine ⟨?_, ?_, ?_, ?_⟩ <;> simp [Out.new, u16_of_lt hm, hm]

theorem new_maximum (m : Nat) (hm : m < 65536) : (Out.new m).maximum = m := by
  simp [Out.new, u16_of_lt hm]

/-! ### `Out.set` without the widths -/

/-- `Out.set` computed in unbounded `Nat` -/
def Out.setNat (a : Out) (topic : Str) : Out × Nat × Bool :=
  if a.maximum == 0 then (a, 0, false) else
  match assocGet a.internal topic with
  | some i => (a, i, true)
  | none =>
    if a.cursor + 1 > a.maximum then (a, 0, false)
    else ({ a with internal := a.internal ++ [(topic, a.cursor + 1)], cursor := a.cursor + 1 },
          a.cursor + 1, false)

/-- under the invariant no computation of `Out.set` wraps -/
theorem set_eq_setNat {a : Out} (h : a.Inv) (t : Str) : a.set t = a.setNat t := by
  have hm := h.max_lt
  have hc := h.cur_le
  have e1 : u32 (a.cursor + 1) = a.cursor + 1 := u32_of_lt (by omega)
  have e2 : u32 a.maximum = a.maximum := u32_of_lt (by omega)
  unfold Out.set Out.setNat
  simp only [e1, e2]
  cases hg : assocGet a.internal t with
  | some i => rfl
  | none =>
    by_cases hgt : a.cursor + 1 > a.maximum
    · simp only [hgt, if_true]
    · have e3 : u16 (u16 a.cursor + 1) = a.cursor + 1 := by
        unfold u16; omega
      simp only [hgt, if_false, e3]

theorem set_eq_setFresh (a : Out) (t : Str) (h : assocGet a.internal t = none) :
    a.set t = a.setFresh t := by
  unfold Out.set Out.setFresh
  simp only [h]

theorem set_maximum (a : Out) (t : Str) : (a.set t).1.maximum = a.maximum := by
  unfold Out.set
  split
  · rfl
  · split
    · rfl
    · dsimp only
      split <;> rfl

theorem inv_set {a : Out} (h : a.Inv) (t : Str) : (a.set t).1.Inv := by
  rw [set_eq_setNat h]
  unfold Out.setNat
  split
  · exact h
  · split
    · exact h
    · rename_i hnone
      split
      · exact h
      · rename_i hle
        refine ⟨h.max_lt, ?_, ?_, ?_⟩
        · show a.cursor + 1 ≤ a.maximum
          omega
        · show (a.internal ++ [(t, a.cursor + 1)]).map Prod.snd = List.range' 1 (a.cursor + 1)
          rw [List.range'_1_concat, List.map_append, h.vals, Nat.add_comm 1 a.cursor]
          rfl
        · show ((a.internal ++ [(t, a.cursor + 1)]).map Prod.fst).Nodup
          rw [List.map_append, List.nodup_append]
          refine ⟨h.keys, by simp, ?_⟩
          intro k hk b hb
          simp only [List.map_cons, List.map_nil, List.mem_singleton] at hb
          subst hb
          intro e
          subst e
          exact (assocGet_none_iff _ _).1 hnone hk

theorem after_nil (a : Out) : a.after [] = a := rfl
theorem after_cons (a : Out) (t : Str) (ts : List Str) : a.after (t :: ts) = (a.set t).1.after ts := rfl
theorem after_snoc (a : Out) (ts : List Str) (t : Str) : a.after (ts ++ [t]) = ((a.after ts).set t).1 := by
  simp [Out.after, List.foldl_append]
theorem after_append (a : Out) (ts ts' : List Str) : a.after (ts ++ ts') = (a.after ts).after ts' := by
  simp [Out.after, List.foldl_append]

theorem inv_after {a : Out} (h : a.Inv) (ts : List Str) : (a.after ts).Inv := by
  induction ts generalizing a with
  | nil => exact h
  | cons t ts ih => exact ih (inv_set h t)

theorem after_maximum (a : Out) (ts : List Str) : (a.after ts).maximum = a.maximum := by
  induction ts generalizing a with
  | nil => rfl
  | cons t ts ih => rw [after_cons, ih, set_maximum]

theorem run_fst (a : Out) (ts : List Str) : (a.run ts).1 = a.after ts := by
  induction ts generalizing a with
  | nil => rfl
  | cons t ts ih => simp only [Out.run, after_cons, ih]

/-! ### what one call does to the bindings -/

/-- the alias returned is within the maximum, and 0 when the maximum is 0 -/
theorem set_alias_le {a : Out} (h : a.Inv) (t : Str) : (a.set t).2.1 ≤ a.maximum := by
  rw [set_eq_setNat h]
  unfold Out.setNat
  split
  · simp
  · split
    · rename_i x hx
      have := h.bound_range hx
      have := h.cur_le
      show x ≤ a.maximum
      omega
    · split
      · simp
      · show a.cursor + 1 ≤ a.maximum
        omega

/-- a binding, once made, is never changed by a later call -/
theorem set_mono (a : Out) (t' t : Str) (x : Nat) (h : assocGet a.internal t = some x) :
    assocGet (a.set t').1.internal t = some x := by
  unfold Out.set
  split
  · exact h
  · split
    · exact h
    · dsimp only
      split
      · exact h
      · show assocGet (a.internal ++ _) t = some x
        rw [assocGet_append, h]; rfl

theorem after_mono (a : Out) (ts : List Str) (t : Str) (x : Nat) (h : assocGet a.internal t = some x) :
    assocGet (a.after ts).internal t = some x := by
  induction ts generalizing a with
  | nil => exact h
  | cons t' ts ih => exact ih _ (set_mono a t' t x h)

/-- a call that returns a non-zero alias leaves the topic bound to it -/
theorem set_binds (a : Out) (t : Str) (x : Nat) (hx : (a.set t).2.1 = x) (h0 : x ≠ 0) :
    assocGet (a.set t).1.internal t = some x := by
  unfold Out.set at hx ⊢
  split
  · rename_i hz; simp only [hz, if_true] at hx; exact absurd hx.symm h0
  · rename_i hz
    simp only [hz] at hx
    split
    · rename_i i hi
      simp only [hi] at hx
      rw [← hx]; exact hi
    · rename_i hnone
      simp only [hnone] at hx
      dsimp only at hx ⊢
      split
      · rename_i hgt; simp only [hgt, if_true] at hx; exact absurd hx.symm h0
      · rename_i hgt
        simp only [hgt, if_false] at hx
        show assocGet (a.internal ++ _) t = some x
        rw [assocGet_append, hnone, ← hx]
        simp [assocGet]

/-- a binding present after a call was there before, or was made by this very call (which then
    returned it, non-zero, with `existed = false`) -/
theorem set_new_binding {a : Out} (h : a.Inv) (t' t : Str) (x : Nat)
    (hx : assocGet (a.set t').1.internal t = some x) :
    assocGet a.internal t = some x ∨ (t = t' ∧ (a.set t').2.1 = x ∧ x ≠ 0 ∧ assocGet a.internal t = none) := by
  rw [set_eq_setNat h] at hx ⊢
  unfold Out.setNat at hx ⊢
  split
  · rename_i hz; simp only [hz, if_true] at hx; exact Or.inl hx
  · rename_i hz
    simp only [hz] at hx
    split
    · rename_i i hi; simp only [hi] at hx; exact Or.inl hx
    · rename_i hnone
      simp only [hnone] at hx
      split
      · rename_i hgt; simp only [hgt, if_true] at hx; exact Or.inl hx
      · rename_i hgt
        simp only [hgt, if_false] at hx
        change assocGet (a.internal ++ [(t', a.cursor + 1)]) t = some x at hx
        rw [assocGet_append] at hx
        cases hg : assocGet a.internal t with
        | some y => rw [hg] at hx; exact Or.inl hx
        | none =>
          rw [hg] at hx
          simp only [Option.or, assocGet] at hx
          right
          by_cases he : t' = t
          · subst he
            simp only [if_true, Option.some.injEq] at hx
            refine ⟨rfl, hx, by omega, rfl⟩
          · simp [he] at hx

/-- `existed` is reported exactly for the topics that are keys of the table (reachable tables) -/
theorem set_existed_iff {a : Out} (h : a.Inv) (t : Str) :
    (a.set t).2.2 = true ↔ ∃ x, assocGet a.internal t = some x := by
  unfold Out.set
  split
  · rename_i hz
    have hz' : a.maximum = 0 := by simpa using hz
    have hc : a.cursor = 0 := by have := h.cur_le; omega
    have hl : a.internal = [] := by
      have := h.length; rw [hc] at this; exact List.eq_nil_of_length_eq_zero this
    simp [hl, assocGet]
  · split
    · rename_i i hi; simp [hi]
    · rename_i hnone
      dsimp only
      split <;> simp [hnone]

theorem set_existing (a : Out) (t : Str) (x : Nat) (hz : a.maximum ≠ 0) (h : assocGet a.internal t = some x) :
    a.set t = (a, x, true) := by
  unfold Out.set
  have : (a.maximum == 0) = false := by simpa using hz
  simp [this, h]

theorem Out.Inv.max_ne_zero_of_bound {a : Out} (h : a.Inv) {t : Str} {x : Nat}
    (hx : assocGet a.internal t = some x) : a.maximum ≠ 0 := by
  have := h.bound_range hx
  have := h.cur_le
  omega

/-- when all `maximum` aliases are taken, a new topic gets 0 and the table is unchanged -/
theorem set_full {a : Out} (h : a.Inv) (t : Str) (hfull : a.internal.length = a.maximum)
    (hnew : assocGet a.internal t = none) : a.set t = (a, 0, false) := by
  rw [set_eq_setNat h]
  unfold Out.setNat
  have hc : a.cursor = a.maximum := by rw [← h.length]; exact hfull
  simp only [hnew]
  split
  · rfl
  · simp [hc]

/-! ### which earlier call made a binding -/

/-- `t` is bound to `x` after the calls `ts` exactly when some earlier call `Set(t)` returned `x ≠ 0` -/
theorem bound_iff_earlier (m : Nat) (hm : m < 65536) (ts : List Str) (t : Str) (x : Nat) :
    assocGet ((Out.new m).after ts).internal t = some x ↔
      ∃ p, (p ++ [t]) <+: ts ∧ (((Out.new m).after p).set t).2.1 = x ∧ x ≠ 0 := by
  induction ts using list_snoc_induction with
  | nil =>
    constructor
    · intro h; simp [after_nil, Out.new, assocGet] at h
    · rintro ⟨p, hp, _⟩
      rw [List.prefix_nil] at hp
      simp at hp
  | snoc ts t' ih =>
    have hinv := inv_after (inv_new m hm) ts
    rw [after_snoc]
    constructor
    · intro h
      rcases set_new_binding hinv t' t x h with h | ⟨rfl, hx, h0, _⟩
      · obtain ⟨p, hp, hr⟩ := ih.1 h
        exact ⟨p, List.prefix_concat_iff.2 (Or.inr hp), hr⟩
      · exact ⟨ts, List.prefix_refl _, hx, h0⟩
    · rintro ⟨p, hp, hx, h0⟩
      rcases List.prefix_concat_iff.1 hp with he | hp
      · obtain ⟨rfl, rfl⟩ := List.append_singleton_inj.1 he
        exact set_binds _ _ _ hx h0
      · exact set_mono _ _ _ _ (ih.2 ⟨p, hp, hx, h0⟩)

/-! ### filling with fresh topics -/

theorem setFresh_get_none (a : Out) (t t' : Str) (h : assocGet a.internal t' = none) (hne : t ≠ t') :
    assocGet (a.setFresh t).1.internal t' = none := by
  unfold Out.setFresh
  split
  · exact h
  · dsimp only
    split
    · exact h
    · show assocGet (a.internal ++ _) t' = none
      rw [assocGet_append, h]
      simp [assocGet, hne]

/-- for topics that are no keys of the table and pairwise different, one `setFresh` each is what `Set` does -/
theorem fillSpec_eq_run (a : Out) (ts : List Str) (hk : ∀ t ∈ ts, assocGet a.internal t = none)
    (hn : ts.Nodup) : a.fillSpec ts = ((a.run ts).1, (a.run ts).2.map Prod.fst) := by
  induction ts generalizing a with
  | nil => rfl
  | cons t ts ih =>
    have ht := hk t (List.mem_cons_self)
    rw [List.nodup_cons] at hn
    simp only [Out.fillSpec, Out.run, set_eq_setFresh a t ht, List.map_cons]
    rw [ih]
    · intro t' ht'
      refine setFresh_get_none a t t' (hk t' (List.mem_cons_of_mem _ ht')) ?_
      intro e; subst e; exact hn.1 ht'
    · exact hn.2

theorem fillGo_spec (m : Nat) (base : List (Str × Nat)) (ts : List Str) :
    ∀ (cur : Nat) (nb : List (Str × Nat)) (as : List Nat),
      let r := Out.fillGo m cur nb as ts
      let s := Out.fillSpec ⟨m, cur, base ++ nb.reverse⟩ ts
      s.1 = ⟨m, r.1, base ++ r.2.1.reverse⟩ ∧ as.reverse ++ s.2 = r.2.2.reverse := by
  induction ts with
  | nil => intro cur nb as; simp [Out.fillGo, Out.fillSpec]
  | cons t ts ih =>
    intro cur nb as
    simp only [Out.fillGo, Out.fillSpec, Out.setFresh]
    by_cases hz : (m == 0) = true
    · simp only [hz, if_true]
      have := ih cur nb (0 :: as)
      simp only [List.reverse_cons, List.append_assoc, List.singleton_append] at this
      exact this
    · simp only [hz]
      by_cases hg : u32 (cur + 1) > u32 m
      · simp only [hg, if_true]
        have := ih cur nb (0 :: as)
        simp only [List.reverse_cons, List.append_assoc, List.singleton_append] at this
        exact this
      · simp only [hg, if_false]
        have := ih (u32 (cur + 1)) ((t, u16 (u16 cur + 1)) :: nb) (u16 (u16 cur + 1) :: as)
        simp only [List.reverse_cons, List.append_assoc, List.singleton_append] at this
        simp only [Bool.false_eq_true, if_false, List.append_assoc]
        exact this

/-- the one-pass fill is `n` calls of `setFresh` -/
theorem fillFresh_eq_fillSpec (a : Out) (ts : List Str) : a.fillFresh ts = a.fillSpec ts := by
  have := fillGo_spec a.maximum a.internal ts a.cursor [] []
  simp only [List.reverse_nil, List.append_nil, List.nil_append] at this
  unfold Out.fillFresh
  obtain ⟨h1, h2⟩ := this
  apply Prod.ext
  · exact h1.symm
  · exact h2.symm

/-- so, for fresh and pairwise different topics, the one-pass fill is `n` calls of `Set` -/
theorem fillFresh_eq_run (a : Out) (ts : List Str) (hk : ∀ t ∈ ts, assocGet a.internal t = none)
    (hn : ts.Nodup) : a.fillFresh ts = ((a.run ts).1, (a.run ts).2.map Prod.fst) := by
  rw [fillFresh_eq_fillSpec, fillSpec_eq_run a ts hk hn]

/-- `Set` over pairwise different new topics binds one alias each until the table is full -/
theorem after_length {a : Out} (h : a.Inv) (ts : List Str) (hk : ∀ t ∈ ts, assocGet a.internal t = none)
    (hn : ts.Nodup) : (a.after ts).internal.length = min (a.internal.length + ts.length) a.maximum := by
  induction ts generalizing a with
  | nil =>
    have := h.length; have := h.cur_le
    simp only [after_nil, List.length_nil]; omega
  | cons t ts ih =>
    have ht := hk t (List.mem_cons_self)
    rw [List.nodup_cons] at hn
    have hk' : ∀ t' ∈ ts, assocGet (a.set t).1.internal t' = none := by
      intro t' ht'
      rw [set_eq_setFresh a t ht]
      refine setFresh_get_none a t t' (hk t' (List.mem_cons_of_mem _ ht')) ?_
      intro e; subst e; exact hn.1 ht'
    rw [after_cons, ih (inv_set h t) hk' hn.2, set_maximum]
    have hl := h.length; have hc := h.cur_le
    have : (a.set t).1.internal.length = if a.cursor + 1 > a.maximum then a.internal.length else a.internal.length + 1 := by
      rw [set_eq_setNat h]
      unfold Out.setNat
      simp only [ht]
      split
      · rename_i hz
        have : a.maximum = 0 := by simpa using hz
        simp [this]
      · split <;> simp
    rw [this, List.length_cons]
    split <;> omega

/-! ### inbound -/

theorem in_set_maximum (a : In) (id : Nat) (t : Str) : (a.set id t).1.maximum = a.maximum := by
  unfold In.set
  split
  · rfl
  · split
    · split <;> rfl
    · rfl

theorem in_after_cons (a : In) (o : Nat × Str) (ops : List (Nat × Str)) :
    a.after (o :: ops) = (a.set o.1 o.2).1.after ops := rfl

/-- what `id` is bound to (the empty topic when unbound) follows the last non-empty binding -/
theorem in_after_get (a : In) (hm : a.maximum ≠ 0) (ops : List (Nat × Str)) (id : Nat) (acc : Option Str)
    (h : (assocGet a.internal id).getD [] = acc.getD []) :
    (assocGet (a.after ops).internal id).getD [] =
      (ops.foldl (fun acc o => if o.1 = id ∧ o.2 ≠ [] then some o.2 else acc) acc).getD [] := by
  induction ops generalizing a acc with
  | nil => exact h
  | cons o ops ih =>
    obtain ⟨i, t⟩ := o
    rw [in_after_cons, List.foldl_cons]
    apply ih
    · rw [in_set_maximum]; exact hm
    · have hz : (a.maximum == 0) = false := by simpa using hm
      unfold In.set
      simp only [hz]
      by_cases hi : i = id
      · subst hi
        by_cases ht : t = []
        · subst ht
          cases hg : assocGet a.internal i with
          | some e =>
            rw [hg] at h
            simpa [hg] using h
          | none =>
            rw [hg] at h
            have h' : acc.getD [] = [] := by simpa using h.symm
            simp [assocGet_assocSet, h']
        · cases hg : assocGet a.internal i with
          | some e => simp [ht, assocGet_assocSet]
          | none => simp [ht, assocGet_assocSet]
      · have hi' : ¬ id = i := fun e => hi e.symm
        cases hg : assocGet a.internal i with
        | some e =>
          by_cases ht : t = []
          · simp [ht, hi, h]
          · simp [ht, hi, hi', assocGet_assocSet, h]
        | none => simp [hi, hi', assocGet_assocSet, h]

end Mochi.Alias
