import Mochi.Spec.Topics
namespace Mochi.Topics

theorem splitLevels_ne_nil (f : Str) : splitLevels f ≠ [] := by
  induction f with
  | nil => simp [splitLevels]
  | cons c rest ih =>
    unfold splitLevels
    split
    · simp
    · split
      · simp
      · simp

theorem join_split (f : Str) : joinLevels (splitLevels f) = f := by
  induction f with
  | nil => simp [splitLevels, joinLevels]
  | cons c rest ih =>
    unfold splitLevels
    split
    · rename_i h
      subst h
      cases hs : splitLevels rest with
      | nil => exact absurd hs (splitLevels_ne_nil rest)
      | cons l ls =>
        rw [hs] at ih
        simp [joinLevels, ih]
    · cases hs : splitLevels rest with
      | nil => exact absurd hs (splitLevels_ne_nil rest)
      | cons l ls =>
        rw [hs] at ih
        simp only
        cases ls with
        | nil => simp [joinLevels] at ih ⊢; exact ih
        | cons l2 ls2 => simp [joinLevels] at ih ⊢; exact ih

theorem contains_len_one (l : Level) (c : Nat) : (l.contains c && l.length == 1) = (l == [c]) := by
  match l with
  | [] => simp
  | [a] =>
    by_cases h : a = c
    · subst h; simp
    · have h' : ¬ c = a := fun e => h e.symm
      simp [h, h']
  | a :: b :: r => simp

theorem levelsOK_eq (ls : Path) : levelsOK ls = specLevelsOK ls := by
  induction ls with
  | nil => simp [levelsOK, specLevelsOK]
  | cons l rest ih =>
    cases rest with
    | nil =>
      simp only [levelsOK, specLevelsOK, List.dropLast, List.all_nil, List.getLast?, List.all_cons, Bool.true_and, Bool.and_true]
      have h1 := contains_len_one l hash
      have h2 := contains_len_one l plus
      cases hh : l.contains hash <;> cases hp : l.contains plus <;> simp [hh, hp] at h1 h2 ⊢ <;> simp_all
    | cons l2 r2 =>
      simp only [levelsOK] at ih ⊢
      rw [ih]
      simp only [specLevelsOK, List.dropLast, List.all_cons, List.getLast?_cons_cons]
      have h2 := contains_len_one l plus
      cases hh : l.contains hash <;> cases hp : l.contains plus <;> simp [hh, hp] at h2 ⊢ <;>
        first | done | (cases hl : (l == [plus]) <;> simp_all) | simp_all

end Mochi.Topics
