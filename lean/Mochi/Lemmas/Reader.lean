import Mochi.Model.Reader
import Mochi.Lemmas.CodecBounds
/-! Helper lemmas about the reader model (`Model/Reader.lean`): what `DecodeLength` consumed, the shape
of a successful `ReadFixedHeader`, fuel adequacy of the read loop (termination), framing. -/
namespace Mochi.Reader
open Mochi.Codec Mochi.Varint

/-! ### `DecodeLength` -/

theorem decodeLoop_le_max (bs : List Nat) (v m bu n k : Nat) (h : decodeLoop bs v m bu = .ok (n, k)) :
    n ≤ maxVBI := by
  induction bs generalizing v m bu with
  | nil => simp [decodeLoop] at h
  | cons eb rest ih =>
    simp only [decodeLoop] at h
    split at h
    · simp at h
    · split at h
      · injection h with h; injection h with h1 h2; subst h1; omega
      · split at h
        · simp at h
        · exact ih _ _ _ h

theorem decodeLength_le_max (bs : List Nat) (n k : Nat) (h : decodeLength bs = .ok (n, k)) : n ≤ maxVBI :=
  decodeLoop_le_max bs 0 0 1 n k h

theorem decodeLoop_bu_le (bs : List Nat) (v m bu n k : Nat) (h : decodeLoop bs v m bu = .ok (n, k))
    (hbu : bu ≤ 4) : k ≤ 4 := by
  induction bs generalizing v m bu with
  | nil => simp [decodeLoop] at h
  | cons eb rest ih =>
    simp only [decodeLoop] at h
    split at h
    · simp at h
    · split at h
      · injection h with h; injection h with h1 h2; subst h2; exact hbu
      · split at h
        · simp at h
        · exact ih _ _ _ h (by omega)

/-- a variable byte integer occupies one to four bytes, all of them present -/
theorem decodeLength_bytes (bs : List Nat) (n k : Nat) (h : decodeLength bs = .ok (n, k)) :
    1 ≤ k ∧ k ≤ 4 ∧ k ≤ bs.length :=
  ⟨(decodeLength_used bs n k h).1, decodeLoop_bu_le bs 0 0 1 n k h (by omega), (decodeLength_used bs n k h).2⟩

/-- `DecodeLength` looks only at the bytes it reports as used -/
theorem decodeLoop_take (bs : List Nat) (v m bu n k : Nat) (h : decodeLoop bs v m bu = .ok (n, k)) :
    decodeLoop (bs.take (k + 1 - bu)) v m bu = .ok (n, k) := by
  induction bs generalizing v m bu with
  | nil => simp [decodeLoop] at h
  | cons eb rest ih =>
    have hk := (decodeLoop_used (eb :: rest) v m bu n k h).1
    have e : k + 1 - bu = (k - bu) + 1 := by omega
    rw [e, List.take_succ_cons]
    simp only [decodeLoop] at h ⊢
    split at h
    · simp at h
    · rename_i h1
      rw [if_neg h1]
      split at h
      · rename_i h2; rw [if_pos h2]; exact h
      · rename_i h2
        rw [if_neg h2]
        split at h
        · simp at h
        · rename_i h3
          rw [if_neg h3]
          have hk' := (decodeLoop_used rest _ _ (bu + 1) n k h).1
          have := ih _ _ _ h
          have e2 : k + 1 - (bu + 1) = k - bu := by omega
          rw [e2] at this
          exact this

theorem decodeLength_take (bs : List Nat) (n k : Nat) (h : decodeLength bs = .ok (n, k)) :
    decodeLength (bs.take k) = .ok (n, k) := by
  have := decodeLoop_take bs 0 0 1 n k h
  simpa [decodeLength] using this

theorem decodeLoop_append (l rest : List Nat) (v m bu : Nat) (r : Nat × Nat) (h : decodeLoop l v m bu = .ok r) :
    decodeLoop (l ++ rest) v m bu = .ok r := by
  induction l generalizing v m bu with
  | nil => simp [decodeLoop] at h
  | cons eb l ih =>
    simp only [List.cons_append, decodeLoop] at h ⊢
    split at h
    · simp at h
    · rename_i h1
      rw [if_neg h1]
      split at h
      · rename_i h2; rw [if_pos h2]; exact h
      · rename_i h2
        rw [if_neg h2]
        split at h
        · simp at h
        · rename_i h3; rw [if_neg h3]; exact ih _ _ _ h

/-- bytes after a complete variable byte integer do not influence its decoding -/
theorem decodeLength_append (l rest : List Nat) (r : Nat × Nat) (h : decodeLength l = .ok r) :
    decodeLength (l ++ rest) = .ok r :=
  decodeLoop_append l rest 0 0 1 r h

/-! ### `ReadFixedHeader` -/

/-- the conversion `uint32(fh.Remaining+bu+1)` never wraps: `Remaining ≤ 268435455`, `bu ≤ 4` -/
theorem toUint32_of_le (n bu : Nat) (h : n ≤ maxVBI) (hbu : bu ≤ 4) : toUint32 (n + bu + 1) = n + bu + 1 := by
  unfold toUint32 maxVBI at *; omega

/-- the shape of a successful `ReadFixedHeader` -/
theorem readFixedHeader_ok (m : Nat) (bs : List Nat) (fh : FixedHeader) (used : Nat)
    (h : readFixedHeader m bs = .ok fh used) :
    ∃ b rest fh0 n bu, bs = b :: rest ∧ fixedHeaderDecode b = .ok fh0 ∧ decodeLength rest = .ok (n, bu) ∧
      fh = { fh0 with remaining := n } ∧ used = bu + 1 ∧ ¬ (m > 0 ∧ n + bu + 1 > m) := by
  cases bs with
  | nil => simp [readFixedHeader] at h
  | cons b rest =>
    simp only [readFixedHeader] at h
    split at h
    · simp at h
    · rename_i fh0 hfh
      split at h
      · simp at h
      · simp at h
      · rename_i n bu hd
        split at h
        · simp at h
        · rename_i hsz
          injection h with h1 h2
          refine ⟨b, rest, fh0, n, bu, rfl, hfh, hd, h1.symm, h2.symm, ?_⟩
          rw [toUint32_of_le n bu (decodeLength_le_max rest n bu hd) (decodeLength_bytes rest n bu hd).2.1] at hsz
          simpa using hsz

/-- **each packet consumes at least two bytes** (and its fixed header at most five) -/
theorem readFixedHeader_used (m : Nat) (bs : List Nat) (fh : FixedHeader) (used : Nat)
    (h : readFixedHeader m bs = .ok fh used) : 2 ≤ used ∧ used ≤ 5 ∧ used ≤ bs.length := by
  obtain ⟨b, rest, fh0, n, bu, rfl, _, hd, _, rfl, _⟩ := readFixedHeader_ok m bs fh used h
  have := decodeLength_bytes rest n bu hd
  simp only [List.length_cons]; omega

/-! ### the read loop: fuel adequacy -/

theorem readStreamFuel_eq (cfg : Cfg) (ver : Nat) (f1 f2 : Nat) (bs : List Nat)
    (h1 : bs.length ≤ f1) (h2 : bs.length ≤ f2) :
    readStreamFuel cfg ver f1 bs = readStreamFuel cfg ver f2 bs := by
  induction f1 generalizing f2 bs with
  | zero =>
    have : bs = [] := List.eq_nil_of_length_eq_zero (by omega)
    subst this
    cases f2 with
    | zero => rfl
    | succ f2 => simp [readStreamFuel, readFixedHeader]
  | succ f1 ih =>
    cases f2 with
    | zero =>
      have : bs = [] := List.eq_nil_of_length_eq_zero (by omega)
      subst this
      simp [readStreamFuel, readFixedHeader]
    | succ f2 =>
      simp only [readStreamFuel]
      cases hfh : readFixedHeader cfg.maxPacketSize bs with
      | needMore => rfl
      | error e => rfl
      | ok fh used =>
        have hu := readFixedHeader_used _ _ _ _ hfh
        simp only []
        cases hpk : readPacket ver fh (bs.drop used) with
        | needMore => rfl
        | error e => rfl
        | ok pk =>
          simp only []
          have hl : (bs.drop (used + fh.remaining)).length ≤ bs.length - 2 := by
            rw [List.length_drop]; omega
          rw [ih f2 (bs.drop (used + fh.remaining)) (by omega) (by omega)]

/-- **termination**: once the fuel reaches the length of the stream, more fuel changes nothing — the
    read loop never runs out of iterations. -/
theorem readStreamFuel_stable (cfg : Cfg) (ver : Nat) (fuel : Nat) (bs : List Nat) (h : bs.length ≤ fuel) :
    readStreamFuel cfg ver fuel bs = readStream cfg ver bs :=
  readStreamFuel_eq cfg ver fuel bs.length bs h (Nat.le_refl _)

/-- the unfolding equation of the read loop (what one iteration of `Client.Read` does) -/
theorem readStream_step (cfg : Cfg) (ver : Nat) (bs : List Nat) :
    readStream cfg ver bs =
      match readFixedHeader cfg.maxPacketSize bs with
      | .needMore => ([.needMore], bs)
      | .error e => ([.error e], bs)
      | .ok fh used =>
        match readPacket ver fh (bs.drop used) with
        | .needMore => ([.needMore], bs)
        | .error e => ([.error (.body e)], bs)
        | .ok pk =>
          let r := readStream cfg ver (bs.drop (used + fh.remaining))
          (.packet pk :: r.1, r.2) := by
  cases bs with
  | nil => simp [readStream, readStreamFuel, readFixedHeader]
  | cons b rest =>
    show readStreamFuel cfg ver (rest.length + 1) (b :: rest) = _
    simp only [readStreamFuel]
    cases hfh : readFixedHeader cfg.maxPacketSize (b :: rest) with
    | needMore => rfl
    | error e => rfl
    | ok fh used =>
      have hu := readFixedHeader_used _ _ _ _ hfh
      simp only []
      cases hpk : readPacket ver fh ((b :: rest).drop used) with
      | needMore => rfl
      | error e => rfl
      | ok pk =>
        simp only []
        rw [readStreamFuel_stable]
        rw [List.length_drop]; simp only [List.length_cons] at hu ⊢; omega

/-! ### framing -/

/-- the bytes one `packet` event accounts for -/
structure Frame where
  hb : Nat                  -- type and flags
  lenBytes : List Nat       -- the variable byte integer "remaining length"
  body : List Nat
  pk : Packet               -- what the body decoded to
deriving Repr

def Frame.bytes (f : Frame) : List Nat := f.hb :: (f.lenBytes ++ f.body)

/-- `f` is one MQTT control packet: its length bytes encode exactly `body.length`, and header byte and
    body decode (at the client's version) to `f.pk` -/
def Frame.Decodes (ver : Nat) (f : Frame) : Prop :=
  ∃ fh, fixedHeaderDecode f.hb = .ok fh ∧
        decodeLength f.lenBytes = .ok (f.body.length, f.lenBytes.length) ∧
        decodeBody ver { fh with remaining := f.body.length } f.body = .ok f.pk

def ReadEvent.isFinal : ReadEvent → Bool
  | .packet _ => false
  | _ => true

theorem readPacket_ok (ver : Nat) (fh : FixedHeader) (bs : List Nat) (pk : Packet)
    (h : readPacket ver fh bs = .ok pk) :
    fh.remaining ≤ bs.length ∧ decodeBody ver fh (bs.take fh.remaining) = .ok pk := by
  unfold readPacket at h
  split at h
  · simp at h
  · rename_i hl
    split at h
    · rename_i pk' hd; injection h with h; subst h; exact ⟨by omega, hd⟩
    · simp at h

theorem readStreamFuel_frames (cfg : Cfg) (ver : Nat) (fuel : Nat) (bs : List Nat) :
    ∃ (frames : List Frame) (last : ReadEvent),
      (readStreamFuel cfg ver fuel bs).1 = frames.map (fun f => ReadEvent.packet f.pk) ++ [last] ∧
      last.isFinal = true ∧ (∀ f ∈ frames, f.Decodes ver) ∧
      bs = frames.flatMap Frame.bytes ++ (readStreamFuel cfg ver fuel bs).2 := by
  induction fuel generalizing bs with
  | zero => exact ⟨[], .needMore, by simp [readStreamFuel], rfl, by simp, by simp [readStreamFuel]⟩
  | succ fuel ih =>
    simp only [readStreamFuel]
    cases hfh : readFixedHeader cfg.maxPacketSize bs with
    | needMore => exact ⟨[], .needMore, by simp, rfl, by simp, by simp⟩
    | error e => exact ⟨[], .error e, by simp, rfl, by simp, by simp⟩
    | ok fh used =>
      simp only []
      cases hpk : readPacket ver fh (bs.drop used) with
      | needMore => exact ⟨[], .needMore, by simp, rfl, by simp, by simp⟩
      | error e => exact ⟨[], .error (.body e), by simp, rfl, by simp, by simp⟩
      | ok pk =>
        simp only []
        obtain ⟨b, rest, fh0, n, bu, rfl, hfh0, hd, rfl, rfl, _⟩ := readFixedHeader_ok _ _ _ _ hfh
        obtain ⟨hlen, hbody⟩ := readPacket_ok _ _ _ _ hpk
        obtain ⟨frames, last, h1, h2, h3, h4⟩ := ih ((b :: rest).drop (bu + 1 + n))
        have hb := decodeLength_bytes rest n bu hd
        simp only [List.drop_succ_cons] at hlen hbody
        simp only [List.length_drop] at hlen
        let f : Frame := { hb := b, lenBytes := rest.take bu, body := (rest.drop bu).take n, pk := pk }
        have hbl : ((rest.drop bu).take n).length = n := by
          rw [List.length_take, List.length_drop]; omega
        have hll : (rest.take bu).length = bu := by rw [List.length_take]; omega
        refine ⟨f :: frames, last, ?_, h2, ?_, ?_⟩
        · simp only [List.map_cons, List.cons_append, h1, f]
        · intro g hg
          rcases List.mem_cons.mp hg with rfl | hg
          · refine ⟨fh0, hfh0, ?_, ?_⟩
            · show decodeLength (rest.take bu) = .ok (((rest.drop bu).take n).length, (rest.take bu).length)
              rw [hbl, hll]; exact decodeLength_take rest n bu hd
            · show decodeBody ver { fh0 with remaining := ((rest.drop bu).take n).length } ((rest.drop bu).take n) = .ok pk
              rw [hbl]; exact hbody
          · exact h3 g hg
        · have e1 : (b :: rest).drop (bu + 1 + n) = (rest.drop bu).drop n := by
            have : bu + 1 + n = (bu + n) + 1 := by omega
            rw [this, List.drop_succ_cons, List.drop_drop]
          rw [e1] at h4 ⊢
          simp only [List.flatMap_cons, Frame.bytes, f, List.cons_append, List.append_assoc]
          rw [← h4, List.take_append_drop, List.take_append_drop]

end Mochi.Reader
