import Mochi.Model.Codec
/-! Offsets returned by the decode helpers stay inside the buffer; none of them panics. -/
namespace Mochi.Codec
open Mochi.Varint

/-- does not panic -/
def NoPanic {α} (x : Dec α) : Prop := x ≠ .error .panic

theorem noPanic_ok {α} (a : α) : NoPanic (.ok a : Dec α) := by simp [NoPanic]
theorem noPanic_pure {α} (a : α) : NoPanic (pure a : Dec α) := by simp [NoPanic, pure, Except.pure]
theorem noPanic_err {α} (n : String) : NoPanic (err n : Dec α) := by simp [NoPanic, err]

theorem noPanic_bind {α β} (x : Dec α) (f : α → Dec β) (hx : NoPanic x)
    (hf : ∀ a, x = .ok a → NoPanic (f a)) : NoPanic (x >>= f) := by
  cases x with
  | error e =>
    simp only [bind, Except.bind, NoPanic] at *
    intro h; injection h with h; exact hx (by rw [h])
  | ok a => simp only [bind, Except.bind]; exact hf a rfl

theorem noPanic_wrap {α} (n : String) (x : Dec α) (hx : NoPanic x) : NoPanic (wrapErr n x) := by
  cases x with
  | ok a => simp [wrapErr, NoPanic]
  | error e =>
    cases e with
    | panic => exact absurd rfl hx
    | code c => simp [wrapErr, NoPanic, err]

theorem wrap_ok {α} (n : String) (x : Dec α) (a : α) (h : wrapErr n x = .ok a) : x = .ok a := by
  cases x with
  | ok b => simpa [wrapErr] using h
  | error e => cases e <;> simp [wrapErr, err] at h

theorem decodeByte_np (buf : Str) (off : Nat) : NoPanic (decodeByte buf off) := by
  unfold decodeByte; split <;> simp [NoPanic, err]
theorem decodeByte_ok (buf : Str) (off v o : Nat) (h : decodeByte buf off = .ok (v, o)) :
    o = off + 1 ∧ o ≤ buf.length := by
  unfold decodeByte at h
  split at h
  · rename_i b hb
    injection h with h; injection h with h1 h2
    have := (List.getElem?_eq_some_iff.mp hb).1
    omega
  · simp [err] at h

theorem decodeByteBool_np (buf : Str) (off : Nat) : NoPanic (decodeByteBool buf off) := by
  unfold decodeByteBool; split <;> simp [NoPanic, err]
theorem decodeByteBool_ok (buf : Str) (off : Nat) (v : Bool) (o : Nat) (h : decodeByteBool buf off = .ok (v, o)) :
    o = off + 1 ∧ o ≤ buf.length := by
  unfold decodeByteBool at h
  split at h
  · rename_i b hb
    injection h with h; injection h with h1 h2
    have := (List.getElem?_eq_some_iff.mp hb).1
    omega
  · simp [err] at h

theorem decodeUint16_np (buf : Str) (off : Nat) : NoPanic (decodeUint16 buf off) := by
  unfold decodeUint16; split <;> simp [NoPanic, err]
theorem decodeUint16_ok (buf : Str) (off v o : Nat) (h : decodeUint16 buf off = .ok (v, o)) :
    o = off + 2 ∧ o ≤ buf.length := by
  unfold decodeUint16 at h
  split at h
  · simp [err] at h
  · injection h with h; injection h with h1 h2; omega

theorem decodeUint32_np (buf : Str) (off : Nat) : NoPanic (decodeUint32 buf off) := by
  unfold decodeUint32; split <;> simp [NoPanic, err]
theorem decodeUint32_ok (buf : Str) (off v o : Nat) (h : decodeUint32 buf off = .ok (v, o)) :
    o = off + 4 ∧ o ≤ buf.length := by
  unfold decodeUint32 at h
  split at h
  · simp [err] at h
  · injection h with h; injection h with h1 h2; omega

theorem decodeBytes_np (buf : Str) (off : Nat) : NoPanic (decodeBytes buf off) := by
  unfold decodeBytes
  have := decodeUint16_np buf off
  split
  · rename_i e he; rw [he] at this
    intro h; injection h with h; exact this (by rw [h])
  · split <;> simp [NoPanic, err]
theorem decodeBytes_ok (buf : Str) (off : Nat) (v : Str) (o : Nat) (h : decodeBytes buf off = .ok (v, o)) :
    off + 2 ≤ o ∧ o ≤ buf.length := by
  unfold decodeBytes at h
  split at h
  · simp at h
  · rename_i len next hu
    have := decodeUint16_ok buf off len next hu
    split at h
    · simp [err] at h
    · injection h with h; injection h with h1 h2; omega

theorem decodeString_np (buf : Str) (off : Nat) : NoPanic (decodeString buf off) := by
  unfold decodeString
  have := decodeBytes_np buf off
  split
  · rename_i e he; rw [he] at this
    intro h; injection h with h; exact this (by rw [h])
  · split <;> simp [NoPanic, err]
theorem decodeString_ok (buf : Str) (off : Nat) (v : Str) (o : Nat) (h : decodeString buf off = .ok (v, o)) :
    off + 2 ≤ o ∧ o ≤ buf.length := by
  unfold decodeString at h
  split at h
  · simp at h
  · rename_i b n hb
    split at h
    · injection h with h; injection h with h1 h2; subst h2
      exact decodeBytes_ok buf off b n hb
    · simp [err] at h

theorem sliceFrom_np (buf : Str) (off : Nat) (h : off ≤ buf.length) : NoPanic (sliceFrom buf off) := by
  unfold sliceFrom; simp [h, NoPanic]
theorem sliceFrom_ok (buf : Str) (off : Nat) (r : Str) (h : sliceFrom buf off = .ok r) :
    r = buf.drop off ∧ off ≤ buf.length := by
  unfold sliceFrom at h
  split at h
  · injection h with h; exact ⟨h.symm, by assumption⟩
  · simp at h

/-- `DecodeLength` uses only bytes that are there -/
theorem decodeLoop_used (bs : Str) (v m bu n k : Nat) (h : decodeLoop bs v m bu = .ok (n, k)) :
    bu ≤ k ∧ k + 1 ≤ bu + bs.length := by
  induction bs generalizing v m bu with
  | nil => simp [decodeLoop] at h
  | cons eb rest ih =>
    simp only [decodeLoop] at h
    split at h
    · simp at h
    · split at h
      · injection h with h; injection h with h1 h2; subst h2; simp
      · split at h
        · simp at h
        · have := ih _ _ _ h
          simp only [List.length_cons]; omega

theorem decodeLength_used (bs : Str) (n k : Nat) (h : decodeLength bs = .ok (n, k)) :
    1 ≤ k ∧ k ≤ bs.length := by
  have := decodeLoop_used bs 0 0 1 n k h
  omega

end Mochi.Codec
