import Mochi.Lemmas.BrokerIndexSync
import Mochi.Lemmas.Gather
import Mochi.Lemmas.CountersConn
/-!
# Who is written a publish: `publishToSubscribers`, entry by entry (C03)

For an application message of QoS 0 (`pk.type = 3`, `pk.qos = 0`) the outputs of `publishToSubscribers s pk` are
characterised exactly, as a function of the state `s` BEFORE the publish:

* `pubConn o` — the connection a written PUBLISH goes to (`none` for every other output);
* `recipient s pk cs` — the connection the entry `cs = (client id, merged subscription)` of the subscriber map
  is served on, if it is served: the id is registered, the object is open, not inline, its peer not gone, the
  No Local option of the MERGED subscription does not exclude the publisher, the id may read the topic;
* `fold_pubConns` — the connections written to, in order, are exactly the recipients of the entries, in order.

The state only changes in the five delivery fields of the served objects (`Deliv`) — the gates of later entries
read none of them — and, QoS being 0, not at all outside `objs`.
-/
namespace Mochi.Broker
open Mochi.Topics

/-! ### one delivery of a QoS 0 message -/

/-- a written copy of the application message `pk`: a PUBLISH with its payload, QoS 0 -/
def IsCopy (pk : Msg) (o : Out) : Prop :=
  ∃ n ver m me, o = Out.wrote n (.publish ver m me) ∧ m.type = 3 ∧ m.payload = pk.payload ∧ m.qos = 0 ∧
    m.origin = pk.origin ∧ m.dup = false ∧ m.id = 0

/-- the connection a written PUBLISH goes to -/
def pubConn : Out → Option Nat
  | .wrote n (.publish _ _ _) => some n
  | _ => none

theorem shapeQos_zero (caps : Caps) (sub : Sub) : shapeQos caps sub 0 = 0 := by
  simp [shapeQos]

/-- a subscription of QoS 0 downgrades every message to QoS 0 -/
theorem shapeQos_sub_zero (caps : Caps) (sub : Sub) (q : Nat) (h : sub.qos = 0) : shapeQos caps sub q = 0 := by
  unfold shapeQos
  rw [h]
  cases q with
  | zero => simp
  | succ k => simp

theorem shapeQos_zero_of (caps : Caps) (sub : Sub) (q : Nat) (h : q = 0 ∨ sub.qos = 0) : shapeQos caps sub q = 0 := by
  rcases h with h | h
  · rw [h]; exact shapeQos_zero _ _
  · exact shapeQos_sub_zero _ _ _ h

/-- `publishToClientCore` for a message that is QoS 0 after shaping (QoS 0 itself, or the subscription is): the object is rewritten (alias table only) and, if it is open, the
    shaped copy is written -/
theorem publishToClientCore_q0 (s : Server) (i : Nat) (sub : Sub) (f : Bool) (pk : Msg)
    (hq : pk.qos = 0 ∨ sub.qos = 0) :
    ∃ c1 m, SessEq (getObj s i) c1 ∧
      (m.type = pk.type ∧ m.payload = pk.payload ∧ m.qos = 0 ∧ m.origin = pk.origin ∧ m.dup = false ∧ m.id = 0) ∧
      publishToClientCore s i sub f pk =
        (setObj s i c1, if c1.isOpen = true then writeMsg (setObj s i c1) i m else []) := by
  unfold publishToClientCore
  extract_lets c out
  split
  rename_i c1 out1 heq
  have hout : out.type = pk.type ∧ out.payload = pk.payload ∧ out.qos = 0 ∧ out.origin = pk.origin ∧
      out.dup = false ∧ out.id = 0 :=
    ⟨rfl, rfl, shapeQos_zero_of s.caps sub pk.qos hq, rfl, rfl, rfl⟩
  have h1 : SessEq c c1 ∧ (out1.type = pk.type ∧ out1.payload = pk.payload ∧ out1.qos = 0 ∧ out1.origin = pk.origin ∧
      out1.dup = false ∧ out1.id = 0) := by
    split at heq
    · split at heq
      rename_i c' a ex h2
      have h3 := SessEq.aliasOutSet c pk.topic
      rw [h2] at h3
      split at heq
      · cases heq; exact ⟨h3, hout⟩
      · cases heq; exact ⟨h3, hout⟩
    · cases heq; exact ⟨SessEq.refl _, hout⟩
  clear heq
  refine ⟨c1, out1, h1.1, h1.2, ?_⟩
  have hz : ¬ out1.qos > 0 := by rw [h1.2.2.2.1]; exact Nat.lt_irrefl 0
  simp only [hz, if_false]
  cases c1.isOpen <;> rfl

theorem getObj_setObj_lt (s : Server) (i : Nat) (c : Client) (h : i < s.objs.length) :
    getObj (setObj s i c) i = c := getObj_setObj_eq s i c h

/-- the gates of `publishToClient` and of `writeMsg` for entry `sub` of client object `i`: not excluded by
    No Local, authorised to read the topic, open, not inline, peer not gone -/
def gate (s : Server) (i : Nat) (sub : Sub) (pk : Msg) : Bool :=
  !(sub.noLocal && pk.origin == (getObj s i).id) && aclOk s (getObj s i).id pk.topic false &&
    (getObj s i).isOpen && !(getObj s i).inline && !(getObj s i).peerGone

theorem gate_congr {s t : Server} (d : Deliv s t) (ha : t.aclDeny = s.aclDeny) (i : Nat) (sub : Sub) (pk : Msg) :
    gate t i sub pk = gate s i sub pk := by
  have e := d.all i
  unfold gate aclOk
  rw [ha, ← e.id, ← e.isOpen, ← e.inline, ← e.peerGone]

theorem writeMsg_pub (s : Server) (i : Nat) (m : Msg) (hm : m.type = 3) :
    ∃ me, writeMsg s i m =
      if ((getObj s i).isOpen && !(getObj s i).inline && !(getObj s i).peerGone) = true then
        [Out.wrote (getObj s i).conn (.publish (getObj s i).ver m me)] else [] := by
  refine ⟨decide (m.expiry > 0) || decide (m.msgExpiry > 0), ?_⟩
  unfold writeMsg
  extract_lets c me
  · by_cases h : (!c.isOpen || c.inline || c.peerGone) = true
    · have h' : ((getObj s i).isOpen && !(getObj s i).inline && !(getObj s i).peerGone) = false := by
        show (c.isOpen && !c.inline && !c.peerGone) = false
        cases h1 : c.isOpen <;> cases h2 : c.inline <;> cases h3 : c.peerGone <;> simp_all
      rw [if_pos h, h']
      rfl
    · have h' : ((getObj s i).isOpen && !(getObj s i).inline && !(getObj s i).peerGone) = true := by
        show (c.isOpen && !c.inline && !c.peerGone) = true
        cases h1 : c.isOpen <;> cases h2 : c.inline <;> cases h3 : c.peerGone <;> simp_all
      rw [if_neg h, h']
      have hm' : (m.type == 3) = true := by rw [hm]; rfl
      simp only [hm', if_true]
      rfl

/-- one entry of the subscriber map, QoS 0: who is written, and what happens to the state -/
theorem publishToClient_q0 (t : Server) (i : Nat) (sub : Sub) (pk : Msg) (hi : i < t.objs.length)
    (hq : pk.qos = 0 ∨ sub.qos = 0) (ht : pk.type = 3) :
    Deliv t (publishToClient t i sub false pk).1 ∧ (publishToClient t i sub false pk).1.aclDeny = t.aclDeny ∧
    (publishToClient t i sub false pk).2.filterMap pubConn =
      (if gate t i sub pk = true then [(getObj t i).conn] else []) ∧
    ∀ x ∈ (publishToClient t i sub false pk).2, IsCopy pk x := by
  unfold publishToClient
  by_cases h1 : (sub.noLocal && pk.origin == (getObj t i).id) = true
  · rw [if_pos h1]
    refine ⟨Deliv.refl t, rfl, ?_, fun x hx => by cases hx⟩
    have : gate t i sub pk = false := by unfold gate; rw [h1]; rfl
    rw [this]; rfl
  · rw [if_neg h1]
    have h1' : (sub.noLocal && pk.origin == (getObj t i).id) = false := by simpa using h1
    by_cases h2 : (!aclOk t (getObj t i).id pk.topic false) = true
    · rw [if_pos h2]
      refine ⟨Deliv.refl t, rfl, ?_, fun x hx => by cases hx⟩
      have h2' : aclOk t (getObj t i).id pk.topic false = false := by simpa using h2
      have : gate t i sub pk = false := by unfold gate; rw [h1', h2']; rfl
      rw [this]; rfl
    · rw [if_neg h2]
      have h2' : aclOk t (getObj t i).id pk.topic false = true := by simpa using h2
      obtain ⟨c1, m, hc1, hm, heq⟩ := publishToClientCore_q0 t i sub false pk hq
      rw [heq]
      have hg : getObj (setObj t i c1) i = c1 := getObj_setObj_lt t i c1 hi
      have hgate : gate t i sub pk = (c1.isOpen && !c1.inline && !c1.peerGone) := by
        unfold gate
        rw [h1', h2', hc1.isOpen, hc1.inline, hc1.peerGone]
        rfl
      refine ⟨(Deliv.refl t).set i c1 hc1, rfl, ?_, ?_⟩
      · show (if c1.isOpen = true then writeMsg (setObj t i c1) i m else []).filterMap pubConn = _
        obtain ⟨me, hw⟩ := writeMsg_pub (setObj t i c1) i m (hm.1.trans ht)
        rw [hw, hg, hgate, hc1.conn]
        cases c1.isOpen <;> cases c1.inline <;> cases c1.peerGone <;> rfl
      · intro x hx
        replace hx : x ∈ (if c1.isOpen = true then writeMsg (setObj t i c1) i m else []) := hx
        obtain ⟨me, hw⟩ := writeMsg_pub (setObj t i c1) i m (hm.1.trans ht)
        rw [hw] at hx
        split at hx
        · split at hx
          · rw [List.mem_singleton] at hx
            exact ⟨_, _, m, me, hx, hm.1.trans ht, hm.2.1, hm.2.2.1, hm.2.2.2.1, hm.2.2.2.2.1, hm.2.2.2.2.2⟩
          · cases hx
        · cases hx

/-! ### the loop of `publishToSubscribers` -/

/-- the loop body of `publishToSubscribers` -/
def deliverStep (pk : Msg) (acc : Server × List Out) (cs : Str × Sub) : Server × List Out :=
  match assocGet acc.1.clients cs.1 with
  | none => acc
  | some i =>
    let (s', o) := publishToClient acc.1 i cs.2 false pk
    (s', acc.2 ++ o)

/-- the connection on which the entry `cs` of the subscriber map is served, if it is: as a function of the state
    BEFORE the publish -/
def recipient (s : Server) (pk : Msg) (cs : Str × Sub) : Option Nat :=
  match assocGet s.clients cs.1 with
  | none => none
  | some i => if gate s i cs.2 pk = true then some (getObj s i).conn else none

theorem fold_pubConns (s : Server) (pk : Msg) (hcv : ∀ id i, (id, i) ∈ s.clients → i < s.objs.length)
    (ht : pk.type = 3) (L : List (Str × Sub)) (hq : pk.qos = 0 ∨ ∀ cs ∈ L, cs.2.qos = 0) :
    ∀ acc : Server × List Out, Deliv s acc.1 → acc.1.aclDeny = s.aclDeny →
      Deliv s (L.foldl (deliverStep pk) acc).1 ∧ (L.foldl (deliverStep pk) acc).1.aclDeny = s.aclDeny ∧
      (L.foldl (deliverStep pk) acc).2.filterMap pubConn = acc.2.filterMap pubConn ++ L.filterMap (recipient s pk) ∧
      ∀ x ∈ (L.foldl (deliverStep pk) acc).2, x ∈ acc.2 ∨ IsCopy pk x := by
  induction L with
  | nil =>
    intro acc d ha
    exact ⟨d, ha, by simp, fun x hx => Or.inl hx⟩
  | cons cs rest ih =>
    have hq1 : pk.qos = 0 ∨ cs.2.qos = 0 := hq.imp id (fun h => h cs List.mem_cons_self)
    replace ih := ih (hq.imp id (fun h c hc => h c (List.mem_cons_of_mem _ hc)))
    intro acc d ha
    rw [List.foldl_cons]
    cases hc : assocGet s.clients cs.1 with
    | none =>
      have e : deliverStep pk acc cs = acc := by
        unfold deliverStep
        rw [d.clients, hc]
      have hr : recipient s pk cs = none := by unfold recipient; rw [hc]
      rw [e, List.filterMap_cons, hr]
      exact ih acc d ha
    | some i =>
      have hi : i < acc.1.objs.length := by rw [d.len]; exact hcv _ _ (assocGet_mem _ _ _ hc)
      obtain ⟨p1, p2, p3, p4⟩ := publishToClient_q0 acc.1 i cs.2 pk hi hq1 ht
      have e : deliverStep pk acc cs =
          ((publishToClient acc.1 i cs.2 false pk).1, acc.2 ++ (publishToClient acc.1 i cs.2 false pk).2) := by
        unfold deliverStep
        rw [d.clients, hc]
      have hr : recipient s pk cs = if gate s i cs.2 pk = true then some (getObj s i).conn else none := by
        unfold recipient; rw [hc]
      rw [e]
      obtain ⟨q1, q2, q3, q4⟩ := ih ((publishToClient acc.1 i cs.2 false pk).1, acc.2 ++ (publishToClient acc.1 i cs.2 false pk).2)
        (d.trans p1) (p2.trans ha)
      refine ⟨q1, q2, ?_, ?_⟩
      · rw [q3, List.filterMap_append, p3, gate_congr d ha, ← (d.all i).conn, List.filterMap_cons, hr,
          List.append_assoc]
        cases gate s i cs.2 pk <;> rfl
      · intro x hx
        rcases q4 x hx with h | h
        · rcases List.mem_append.mp h with h | h
          · exact Or.inl h
          · exact Or.inr (p4 x h)
        · exact Or.inr h

/-! ### `publishToSubscribers` without matching shared subscriptions -/

/-- the message as `publishToSubscribers` hands it to the deliveries: the expiry time stamped -/
def stamped (s : Server) (pk : Msg) : Msg :=
  if pk.expiry == 0 then
    let e := minimumNZ s.caps.maxMessageExpiry pk.msgExpiry
    if e > 0 then { pk with expiry := pk.created + e } else pk
  else pk

theorem stamped_fields (s : Server) (pk : Msg) :
    (stamped s pk).topic = pk.topic ∧ (stamped s pk).payload = pk.payload ∧ (stamped s pk).qos = pk.qos ∧
    (stamped s pk).type = pk.type ∧ (stamped s pk).origin = pk.origin := by
  unfold stamped
  split
  · extract_lets e
    split
    · exact ⟨rfl, rfl, rfl, rfl, rfl⟩
    · exact ⟨rfl, rfl, rfl, rfl, rfl⟩
  · exact ⟨rfl, rfl, rfl, rfl, rfl⟩

theorem publishToSubscribers_eq_fold (s : Server) (pk : Msg) (hig : pk.ignore = false)
    (hsh : (subscribers s.topics pk.topic).shared = []) :
    publishToSubscribers s pk =
      (subscribers s.topics pk.topic).subs.foldl (deliverStep (stamped s pk))
        (s, (subscribers s.topics pk.topic).inline.map fun x => Out.inline x.1 pk.topic pk.payload) := by
  have htop := (stamped_fields s pk).1
  have hpay := (stamped_fields s pk).2.1
  unfold publishToSubscribers
  rw [if_neg (by rw [hig]; exact Bool.false_ne_true)]
  show (if (subscribers s.topics (stamped s pk).topic).shared.length > 0 then _
        else (subscribers s.topics (stamped s pk).topic).subs).foldl (deliverStep (stamped s pk))
      (s, (subscribers s.topics (stamped s pk).topic).inline.map
        fun x => Out.inline x.1 (stamped s pk).topic (stamped s pk).payload) = _
  rw [htop, hpay, hsh]
  rfl

theorem gate_stamped (s : Server) (pk : Msg) (i : Nat) (sub : Sub) : gate s i sub (stamped s pk) = gate s i sub pk := by
  unfold gate
  rw [(stamped_fields s pk).1, (stamped_fields s pk).2.2.2.2]

theorem recipient_stamped (s : Server) (pk : Msg) : recipient s (stamped s pk) = recipient s pk := by
  funext cs
  unfold recipient
  split
  · rfl
  · rw [gate_stamped]

theorem IsCopy_stamped {s : Server} {pk : Msg} {x : Out} (h : IsCopy (stamped s pk) x) : IsCopy pk x := by
  obtain ⟨n, ver, m, me, h1, h2, h3, h4, h5, h6⟩ := h
  exact ⟨n, ver, m, me, h1, h2, h3.trans (stamped_fields s pk).2.1, h4, h5.trans (stamped_fields s pk).2.2.2.2, h6⟩

/-- **the connections written a PUBLISH, in order, are the recipients of the entries of the subscriber map, in
    order**; every output is an inline delivery or a copy of the message -/
theorem publishToSubscribers_pubConns (s : Server) (pk : Msg)
    (hcv : ∀ id i, (id, i) ∈ s.clients → i < s.objs.length)
    (hig : pk.ignore = false) (ht : pk.type = 3)
    (hq : pk.qos = 0 ∨ ∀ cs ∈ (subscribers s.topics pk.topic).subs, cs.2.qos = 0)
    (hsh : (subscribers s.topics pk.topic).shared = []) :
    (publishToSubscribers s pk).2.filterMap pubConn =
      (subscribers s.topics pk.topic).subs.filterMap (recipient s pk) ∧
    ∀ x ∈ (publishToSubscribers s pk).2, (∃ id, x = Out.inline id pk.topic pk.payload) ∨ IsCopy pk x := by
  rw [publishToSubscribers_eq_fold s pk hig hsh]
  obtain ⟨_, _, q3, q4⟩ := fold_pubConns s (stamped s pk) hcv
    ((stamped_fields s pk).2.2.2.1.trans ht) (subscribers s.topics pk.topic).subs
    (hq.imp (fun h => (stamped_fields s pk).2.2.1.trans h) id)
    (s, (subscribers s.topics pk.topic).inline.map fun x => Out.inline x.1 pk.topic pk.payload) (Deliv.refl s) rfl
  refine ⟨?_, ?_⟩
  · rw [q3, recipient_stamped]
    have : ((subscribers s.topics pk.topic).inline.map fun x => Out.inline x.1 pk.topic pk.payload).filterMap pubConn
        = [] := by
      rw [List.filterMap_map]
      apply List.filterMap_eq_nil_iff.mpr
      intro a _
      rfl
    show List.filterMap pubConn _ ++ _ = _
    rw [this, List.nil_append]
  · intro x hx
    rcases q4 x hx with h | h
    · obtain ⟨a, _, rfl⟩ := List.mem_map.mp h
      exact Or.inl ⟨a.1, rfl⟩
    · exact Or.inr (IsCopy_stamped h)

/-- an output is a PUBLISH written to connection `n` -/
theorem pubConn_eq_some {o : Out} {n : Nat} : pubConn o = some n ↔ ∃ ver m me, o = Out.wrote n (.publish ver m me) := by
  constructor
  · intro h
    cases o with
    | wrote c w =>
      cases w with
      | publish ver m me =>
        have : c = n := by simpa [pubConn] using h
        exact ⟨ver, m, me, by rw [this]⟩
      | _ => cases h
    | _ => cases h
  · rintro ⟨ver, m, me, rfl⟩
    rfl

theorem mem_pubConns {o : List Out} {n : Nat} :
    n ∈ o.filterMap pubConn ↔ ∃ ver m me, Out.wrote n (.publish ver m me) ∈ o := by
  rw [List.mem_filterMap]
  constructor
  · rintro ⟨x, hx, h⟩
    obtain ⟨ver, m, me, rfl⟩ := pubConn_eq_some.mp h
    exact ⟨ver, m, me, hx⟩
  · rintro ⟨ver, m, me, h⟩
    exact ⟨_, h, rfl⟩

/-! ### who receives, stated on the state before the publish -/

/-- two client objects that are not inline have different connection numbers -/
def ConnDistinct (s : Server) : Prop :=
  ∀ i j, i < s.objs.length → j < s.objs.length → (getObj s i).inline = false → (getObj s j).inline = false →
    (getObj s i).conn = (getObj s j).conn → i = j

/-- the client on connection `n` is entitled to the message `pk` through the entry `(cid, sub)` of the subscriber
    map `subs` (client id ↦ MERGED matching subscription): it is the connection of the client object registered
    under `cid`, which is open, not inline, whose peer is not gone; `cid` may read the topic; the No Local
    option of the merged subscription does not exclude the publisher -/
def EntitledVia (s : Server) (pk : Msg) (subs : List (Str × Sub)) (n : Nat) : Prop :=
  ∃ cid i sub, (cid, i) ∈ s.clients ∧ (getObj s i).conn = n ∧ (getObj s i).isOpen = true ∧
    (getObj s i).inline = false ∧ (getObj s i).peerGone = false ∧ (cid, sub) ∈ subs ∧
    aclOk s cid pk.topic false = true ∧ (sub.noLocal && pk.origin == cid) = false

theorem gate_true_iff (s : Server) (i : Nat) (sub : Sub) (pk : Msg) :
    gate s i sub pk = true ↔ (sub.noLocal && pk.origin == (getObj s i).id) = false ∧
      aclOk s (getObj s i).id pk.topic false = true ∧ (getObj s i).isOpen = true ∧ (getObj s i).inline = false ∧
      (getObj s i).peerGone = false := by
  unfold gate
  cases (sub.noLocal && pk.origin == (getObj s i).id) <;> cases aclOk s (getObj s i).id pk.topic false <;>
    cases (getObj s i).isOpen <;> cases (getObj s i).inline <;> cases (getObj s i).peerGone <;> simp

theorem recipient_eq_some (s : Server) (pk : Msg) (cs : Str × Sub) (n : Nat) :
    recipient s pk cs = some n ↔ ∃ i, assocGet s.clients cs.1 = some i ∧ gate s i cs.2 pk = true ∧ (getObj s i).conn = n := by
  unfold recipient
  cases assocGet s.clients cs.1 with
  | none => simp
  | some i =>
    simp only [Option.some.injEq, exists_eq_left']
    split
    · rename_i hg
      simp [hg]
    · rename_i hg
      simp [hg]

theorem mem_recipients (s : Server) (hw : WF s) (pk : Msg) (subs : List (Str × Sub)) (n : Nat) :
    n ∈ subs.filterMap (recipient s pk) ↔ EntitledVia s pk subs n := by
  rw [List.mem_filterMap]
  constructor
  · rintro ⟨cs, hcs, h⟩
    obtain ⟨i, hi, hg, hn⟩ := (recipient_eq_some s pk cs n).mp h
    have hm := assocGet_mem _ _ _ hi
    have hid := (hw.clients_valid _ _ hm).2
    obtain ⟨g1, g2, g3, g4, g5⟩ := (gate_true_iff s i cs.2 pk).mp hg
    rw [hid] at g1 g2
    exact ⟨cs.1, i, cs.2, hm, hn, g3, g4, g5, hcs, g2, g1⟩
  · rintro ⟨cid, i, sub, hm, hn, g3, g4, g5, hcs, g2, g1⟩
    refine ⟨(cid, sub), hcs, (recipient_eq_some s pk _ n).mpr ⟨i, assocGet_of_mem_nodup _ _ _ hw.clients_nodup hm, ?_, hn⟩⟩
    have hid := (hw.clients_valid _ _ hm).2
    exact (gate_true_iff s i sub pk).mpr ⟨by rw [hid]; exact g1, by rw [hid]; exact g2, g3, g4, g5⟩

/-- with one entry per client id and one connection per client object, no connection is a recipient twice -/
theorem recipients_nodup (s : Server) (hw : WF s) (hcd : ConnDistinct s) (pk : Msg) (subs : List (Str × Sub))
    (hnd : (subs.map Prod.fst).Nodup) : (subs.filterMap (recipient s pk)).Nodup := by
  have hp : subs.Pairwise (fun a b => a.1 ≠ b.1) := List.pairwise_map.mp hnd
  refine List.Pairwise.filterMap (recipient s pk) ?_ hp
  intro a a' hne n hn n' hn' e
  subst e
  obtain ⟨i, hi, hg, hc⟩ := (recipient_eq_some s pk a n).mp hn
  obtain ⟨j, hj, hg', hc'⟩ := (recipient_eq_some s pk a' n).mp hn'
  have vi := hw.clients_valid _ _ (assocGet_mem _ _ _ hi)
  have vj := hw.clients_valid _ _ (assocGet_mem _ _ _ hj)
  have := hcd i j vi.1 vj.1 ((gate_true_iff s i a.2 pk).mp hg).2.2.2.1 ((gate_true_iff s j a'.2 pk).mp hg').2.2.2.1
    (hc.trans hc'.symm)
  subst this
  exact hne (vi.2.symm.trans vj.2)

end Mochi.Broker

/-! ## The subscriber map, declaratively: keys and merged No Local in terms of the matching index entries -/
namespace Mochi.Topics

/-- the map `m` holds for client `c` a (merged) subscription with property `P` -/
def HasSub (P : Sub → Prop) (m : List (Str × Sub)) (c : Str) : Prop := ∃ sub, assocGet m c = some sub ∧ P sub

/-- `P` is a disjunctive property of merged subscriptions: the merge has it iff one of the two has (the filter
    under which the merge is filed does not matter) -/
def MergeOr (P : Sub → Prop) : Prop := ∀ a b : Sub, P (a.merge b) ↔ P a ∨ P b

theorem mergeOr_true : MergeOr (fun _ => True) := fun _ _ => ⟨fun _ => Or.inl trivial, fun _ => trivial⟩

theorem mergeOr_noLocal : MergeOr (fun sub => sub.noLocal = true) := by
  intro a b
  show (if b.noLocal = true then true else a.noLocal) = true ↔ _
  cases ha : a.noLocal <;> cases hb : b.noLocal <;> simp [ha, hb]

theorem hasSub_gatherSubOne {P : Sub → Prop} (hP : MergeOr P) (topic : Str) (m : List (Str × Sub)) (e : Str × Sub)
    (c : Str) :
    HasSub P (gatherSubOne topic m e) c ↔
      HasSub P m c ∨ (c = e.1 ∧ dollarExcluded e.2.filter topic = false ∧ P e.2) := by
  unfold gatherSubOne
  by_cases hd : dollarExcluded e.2.filter topic = true
  · rw [if_pos hd]
    constructor
    · exact Or.inl
    · rintro (h | ⟨_, h, _⟩)
      · exact h
      · rw [hd] at h; cases h
  · have hd' : dollarExcluded e.2.filter topic = false := by simpa using hd
    rw [if_neg hd]
    unfold HasSub
    cases hg : assocGet m e.1 with
    | none =>
      simp only [assocGet_assocSet]
      by_cases hc : c = e.1
      · subst hc
        simp only [if_true, Option.some.injEq, exists_eq_left', hg, hd', true_and]
        rw [hP]
        constructor
        · rintro (h | h) <;> exact Or.inr h
        · rintro (⟨_, h, _⟩ | h)
          · cases h
          · exact Or.inl h
      · simp only [hc, if_false, false_and, or_false]
    | some cls =>
      simp only [assocGet_assocSet]
      by_cases hc : c = e.1
      · subst hc
        simp only [if_true, Option.some.injEq, exists_eq_left', hg, hd', true_and]
        exact hP cls e.2
      · simp only [hc, if_false, false_and, or_false]

theorem hasSub_subs_fold {P : Sub → Prop} (hP : MergeOr P) (topic : Str) (entries : List (Str × Sub))
    (m : List (Str × Sub)) (c : Str) :
    HasSub P (entries.foldl (gatherSubOne topic) m) c ↔
      HasSub P m c ∨ ∃ s, (c, s) ∈ entries ∧ dollarExcluded s.filter topic = false ∧ P s := by
  induction entries generalizing m with
  | nil => simp
  | cons e rest ih =>
    simp only [List.foldl_cons]
    rw [ih, hasSub_gatherSubOne hP]
    constructor
    · rintro ((h | ⟨h1, h2, h3⟩) | ⟨s, hs, hx⟩)
      · exact Or.inl h
      · exact Or.inr ⟨e.2, by rw [h1]; simp, h2, h3⟩
      · exact Or.inr ⟨s, List.mem_cons_of_mem _ hs, hx⟩
    · rintro (h | ⟨s, hs, hx⟩)
      · exact Or.inl (Or.inl h)
      · rcases List.mem_cons.mp hs with h | h
        · left; right; rw [← h]; exact ⟨rfl, hx⟩
        · exact Or.inr ⟨s, h, hx⟩

/-- the merged subscriptions after gathering along a visit list -/
theorem hasSub_fold {P : Sub → Prop} (hP : MergeOr P) (ns : List Node) (topic : Str) (L : List Gather)
    (acc : Subscribers) (c : Str) :
    HasSub P (L.foldl (gatherStep ns topic) acc).subs c ↔
      HasSub P acc.subs c ∨
      ∃ q, Gather.subs q ∈ L ∧ ∃ n, getNode ns q = some n ∧
        ∃ s, (c, s) ∈ n.subs ∧ dollarExcluded s.filter topic = false ∧ P s := by
  induction L generalizing acc with
  | nil => simp
  | cons g rest ih =>
    simp only [List.foldl_cons]
    rw [ih]
    cases g with
    | subs p =>
      simp only [gatherStep]
      cases hn : getNode ns p with
      | none =>
        simp only
        constructor
        · rintro (h | ⟨q, hq, n, hgn, s, hs, hx⟩)
          · exact Or.inl h
          · exact Or.inr ⟨q, List.mem_cons_of_mem _ hq, n, hgn, s, hs, hx⟩
        · rintro (h | ⟨q, hq, n, hgn, s, hs, hx⟩)
          · exact Or.inl h
          · rcases List.mem_cons.mp hq with h | h
            · injection h with h; subst h; rw [hn] at hgn; cases hgn
            · exact Or.inr ⟨q, h, n, hgn, s, hs, hx⟩
      | some node =>
        simp only
        rw [hasSub_subs_fold hP]
        constructor
        · rintro ((h | ⟨s, hs, hx⟩) | ⟨q, hq, n, hgn, s, hs, hx⟩)
          · exact Or.inl h
          · exact Or.inr ⟨p, by simp, node, hn, s, hs, hx⟩
          · exact Or.inr ⟨q, List.mem_cons_of_mem _ hq, n, hgn, s, hs, hx⟩
        · rintro (h | ⟨q, hq, n, hgn, s, hs, hx⟩)
          · exact Or.inl (Or.inl h)
          · rcases List.mem_cons.mp hq with h | h
            · injection h with h; subst h; rw [hn] at hgn; injection hgn with hgn; subst hgn
              exact Or.inl (Or.inr ⟨s, hs, hx⟩)
            · exact Or.inr ⟨q, h, n, hgn, s, hs, hx⟩
    | shared p =>
      have : (gatherStep ns topic acc (Gather.shared p)).subs = acc.subs := by
        simp only [gatherStep]; cases getNode ns p <;> simp only <;> split <;> rfl
      rw [this]
      constructor
      · rintro (h | ⟨q, hq, rest⟩)
        · exact Or.inl h
        · exact Or.inr ⟨q, List.mem_cons_of_mem _ hq, rest⟩
      · rintro (h | ⟨q, hq, rest⟩)
        · exact Or.inl h
        · rcases List.mem_cons.mp hq with h | h
          · cases h
          · exact Or.inr ⟨q, h, rest⟩
    | inline p =>
      have : (gatherStep ns topic acc (Gather.inline p)).subs = acc.subs := by
        simp only [gatherStep]; cases getNode ns p <;> simp only <;> split <;> rfl
      rw [this]
      constructor
      · rintro (h | ⟨q, hq, rest⟩)
        · exact Or.inl h
        · exact Or.inr ⟨q, List.mem_cons_of_mem _ hq, rest⟩
      · rintro (h | ⟨q, hq, rest⟩)
        · exact Or.inl h
        · rcases List.mem_cons.mp hq with h | h
          · cases h
          · exact Or.inr ⟨q, h, rest⟩

/-- **the subscriber map of a prefix-closed index**: client `c` has a merged subscription with the disjunctive
    property `P` iff a particle whose address matches the topic holds a subscription of `c` with `P` that the `$`
    rule does not exclude -/
theorem hasSub_subscribers {P : Sub → Prop} (hP : MergeOr P) (x : Index) (hpc : PrefixClosed x.nodes) (topic : Str)
    (hne : topic ≠ []) (hnh : ∀ t ∈ splitLevels topic, t ≠ [hash]) (c : Str) :
    HasSub P (subscribers x topic).subs c ↔
      ∃ q n s, getNode x.nodes q = some n ∧ (c, s) ∈ n.subs ∧ matchLv q (splitLevels topic) = true ∧
        dollarExcluded s.filter topic = false ∧ P s := by
  unfold subscribers
  have : topic.isEmpty = false := by cases topic <;> simp_all
  simp only [this, Bool.false_eq_true, if_false]
  rw [hasSub_fold hP]
  have hscan : ∀ q, Gather.subs q ∈ scanVisits x.nodes [] (splitLevels topic) ↔
      hasNode x.nodes q = true ∧ matchLv q (splitLevels topic) = true := by
    intro q
    rw [scan_iff Gather.subs mem_gatherAll_subs _ hpc _ (splitLevels_ne_nil topic) hnh]
    simp
  constructor
  · rintro (⟨sub, h, _⟩ | ⟨q, hq, n, hn, s, hs, hx, hp⟩)
    · cases h
    · exact ⟨q, n, s, hn, hs, ((hscan q).mp hq).2, hx, hp⟩
  · rintro ⟨q, n, s, hn, hs, hm, hx, hp⟩
    right
    refine ⟨q, (hscan q).mpr ⟨?_, hm⟩, n, hn, s, hs, hx, hp⟩
    rw [hasNode_iff]
    exact ⟨n, getNode_mem hn, getNode_path hn⟩

/-! ### the `$` test of `gatherSubscriptions` and the `$` rule of the matcher -/

theorem splitLevels_cons_ne (c : Nat) (rest : Str) (hc : c ≠ slash) :
    ∃ l ls, splitLevels (c :: rest) = (c :: l) :: ls := by
  unfold splitLevels
  rw [if_neg hc]
  split
  · exact ⟨[], [], rfl⟩
  · rename_i l ls _
    exact ⟨l, ls, rfl⟩

theorem splitLevels_cons_slash (rest : Str) : splitLevels (slash :: rest) = [] :: splitLevels rest := by
  rw [splitLevels]
  simp

/-- on a filter whose levels match the topic's, the byte test of `gatherSubscriptions` (`topic[0] == '$'` and
    `filter[0]` is `+` or `#`) is the `$` rule of the matcher (the first LEVEL of the filter is `+` or `#`) -/
theorem dollarExcluded_eq_dollarRule (f topic : Str) (hm : matchLv (splitLevels f) (splitLevels topic) = true) :
    dollarExcluded f topic = dollarRule (splitLevels f) topic := by
  cases f with
  | nil =>
    unfold dollarExcluded dollarRule
    simp [splitLevels]
  | cons f0 fr =>
    cases topic with
    | nil =>
      unfold dollarExcluded dollarRule
      simp
    | cons t0 tr =>
      by_cases hs : f0 = slash
      · subst hs
        unfold dollarExcluded dollarRule
        rw [splitLevels_cons_slash]
        simp [slash, plus, hash]
      · obtain ⟨l, ls, hf⟩ := splitLevels_cons_ne f0 fr hs
        by_cases ht : t0 = dollar
        · subst ht
          obtain ⟨l', ls', htp⟩ := splitLevels_cons_ne dollar tr (by decide)
          rw [hf, htp, matchLv_cons_cons] at hm
          unfold dollarExcluded dollarRule
          rw [hf]
          by_cases hp : f0 = plus
          · subst hp
            have h1 : ((plus :: l) == [hash]) = false := by simp [plus, hash]
            have h2 : ((plus :: l) == (dollar :: l')) = false := by simp [plus, dollar]
            rw [h1] at hm
            simp only [Bool.false_eq_true, if_false, h2, Bool.or_false, Bool.and_eq_true] at hm
            simp [hm.1]
          · by_cases hh : f0 = hash
            · subst hh
              have h1 : ((hash :: l) == [plus]) = false := by simp [plus, hash]
              have h2 : ((hash :: l) == (dollar :: l')) = false := by simp [hash, dollar]
              by_cases h3 : ((hash :: l) == [hash]) = true
              · simp [h3]
              · rw [if_neg h3, h1, h2] at hm
                simp at hm
            · have h1 : ((f0 :: l) == [plus]) = false := by simp [hp]
              have h2 : ((f0 :: l) == [hash]) = false := by simp [hh]
              simp [hp, hh, h1, h2]
        · unfold dollarExcluded dollarRule
          have : (t0 == dollar) = false := by simpa using ht
          show (t0 == dollar && (f0 == plus || f0 == hash)) = ((some t0 == some dollar) && _)
          have h2 : (some t0 == some dollar) = false := by simpa using ht
          rw [this, h2]
          rfl

theorem specMatch_iff (f topic : Str) :
    specMatch (splitLevels f) topic = true ↔
      matchLv (splitLevels f) (splitLevels topic) = true ∧ dollarExcluded f topic = false := by
  unfold specMatch
  constructor
  · intro h
    have h1 : matchLv (splitLevels f) (splitLevels topic) = true := by
      cases hm : matchLv (splitLevels f) (splitLevels topic)
      · rw [hm] at h; cases h
      · rfl
    refine ⟨h1, ?_⟩
    rw [dollarExcluded_eq_dollarRule f topic h1]
    rw [h1] at h
    simpa using h
  · rintro ⟨h1, h2⟩
    rw [dollarExcluded_eq_dollarRule f topic h1] at h2
    rw [h1, h2]
    rfl

/-! ### in terms of the entries of the index -/

/-- the index holds for client `c` the plain subscription `sub` (at the address of its filter), and the filter of
    `sub` matches `topic` under the declarative matcher `specMatch` -/
def MatchingSub (x : Index) (topic c : Str) (sub : Sub) : Prop :=
  plainAt x (splitLevels sub.filter) c = some sub ∧ specMatch (splitLevels sub.filter) topic = true

/-- **Step 2.** the subscriber map in terms of the index entries and the declarative matcher, for every
    structurally sound index (`IdxOK`: kept by every index operation, hence by every history) -/
theorem hasSub_subscribers_idx {P : Sub → Prop} (hP : MergeOr P) (x : Index) (hx : IdxOK x) (topic : Str)
    (hne : topic ≠ []) (hnh : ∀ t ∈ splitLevels topic, t ≠ [hash]) (c : Str) :
    HasSub P (subscribers x topic).subs c ↔ ∃ sub, MatchingSub x topic c sub ∧ P sub := by
  rw [hasSub_subscribers hP x hx.pc topic hne hnh]
  constructor
  · rintro ⟨q, n, s, hn, hs, hm, hd, hp⟩
    have hpl : plainAt x q c = some s := by
      unfold plainAt
      rw [hn]
      exact assocGet_of_mem _ _ _ (hx.keys n (getNode_mem hn)).subs hs
    have hq : splitLevels s.filter = q := by
      rw [← plainPath_eq]; exact (hx.pos.plain q c s hpl).2
    refine ⟨s, ⟨by rw [hq]; exact hpl, ?_⟩, hp⟩
    rw [specMatch_iff, hq]
    exact ⟨hm, hd⟩
  · rintro ⟨sub, ⟨hpl, hsm⟩, hp⟩
    obtain ⟨hm, hd⟩ := (specMatch_iff sub.filter topic).mp hsm
    unfold plainAt at hpl
    cases hg : getNode x.nodes (splitLevels sub.filter) with
    | none => rw [hg] at hpl; cases hpl
    | some n =>
      rw [hg] at hpl
      exact ⟨_, n, sub, hg, assocGet_mem _ _ _ hpl, hm, hd, hp⟩

theorem mem_keys_iff_hasSub (m : List (Str × Sub)) (c : Str) : c ∈ m.map Prod.fst ↔ HasSub (fun _ => True) m c := by
  unfold HasSub
  constructor
  · intro h
    cases hg : assocGet m c with
    | none => exact absurd h (assocGet_none_not_mem m c hg)
    | some sub => exact ⟨sub, rfl, trivial⟩
  · rintro ⟨sub, h, _⟩
    exact List.mem_map.mpr ⟨(c, sub), assocGet_mem _ _ _ h, rfl⟩

/-- a matching plain subscription is an entry of the index (`indexEntries`) with a plain filter, and conversely -/
theorem MatchingSub.entry {x : Index} {topic c : Str} {sub : Sub} (h : MatchingSub x topic c sub) :
    (c, sub.filter) ∈ indexEntries x :=
  Entry.mem (Or.inl ⟨_, sub, h.1, rfl⟩)

theorem matchingSub_of_entry {x : Index} (hx : IdxOK x) {topic c f : Str} (hm : (c, f) ∈ indexEntries x)
    (hs : shareKey f = false) (hsm : specMatch (splitLevels f) topic = true) :
    ∃ sub, MatchingSub x topic c sub ∧ sub.filter = f := by
  rcases Entry.of_mem hx hm with ⟨q, sub, hq, hf⟩ | ⟨q, g, sub, hq, hf⟩
  · have := (hx.pos.plain q c sub hq).2
    rw [plainPath_eq] at this
    exact ⟨sub, ⟨by rw [this]; exact hq, by rw [hf]; exact hsm⟩, hf⟩
  · have := (hx.pos.shared q g c sub hq).1
    rw [hf, hs] at this
    cases this

theorem idxOK_applyOp (x : Index) (h : IdxOK x) (op : IOp) : IdxOK (applyOp x op) := by
  cases op with
  | subscribe c s => exact idxOK_subscribe x h c s
  | unsubscribe f c => exact idxOK_unsubscribe x h f c
  | inlineSubscribe id s => exact idxOK_inlineSubscribe x h id s
  | inlineUnsubscribe id f => exact idxOK_inlineUnsubscribe x h id f
  | retain t p fl => exact idxOK_retainMessage x h t p fl

/-- every index reached by a history of index operations is structurally sound -/
theorem idxOK_runOps (ops : List IOp) : IdxOK (runOps ops) := by
  unfold runOps
  suffices ∀ x, IdxOK x → IdxOK (ops.foldl applyOp x) from this {} idxOK_empty
  induction ops with
  | nil => exact fun x h => h
  | cons op rest ih => exact fun x h => ih _ (idxOK_applyOp x h op)

theorem mergeOr_qosPos : MergeOr (fun sub => sub.qos > 0) := by
  intro a b
  show (if b.qos > a.qos then b.qos else a.qos) > 0 ↔ _
  split <;> omega

/-- every matching plain subscription of the index has QoS 0: so has every merged entry of the subscriber map -/
theorem merged_qos_zero (x : Index) (hx : IdxOK x) (topic : Str) (hne : topic ≠ [])
    (hnh : ∀ t ∈ splitLevels topic, t ≠ [hash]) (hnd : ((subscribers x topic).subs.map Prod.fst).Nodup)
    (h : ∀ c sub, MatchingSub x topic c sub → sub.qos = 0) :
    ∀ cs ∈ (subscribers x topic).subs, cs.2.qos = 0 := by
  intro cs hcs
  by_cases hz : cs.2.qos = 0
  · exact hz
  · have hp : HasSub (fun sub => sub.qos > 0) (subscribers x topic).subs cs.1 :=
      ⟨cs.2, assocGet_of_mem _ _ _ hnd hcs, Nat.pos_of_ne_zero hz⟩
    obtain ⟨sub, hm, hq⟩ := (hasSub_subscribers_idx mergeOr_qosPos x hx topic hne hnh cs.1).mp hp
    have := h _ _ hm
    omega

end Mochi.Topics

/-! ## Who is entitled, declaratively -/
namespace Mochi.Broker
open Mochi.Topics

/-- **entitlement as the model implements it** (finding F03 included): connection `n` belongs to a client object
    registered under its id `cid` that is open, not inline, whose peer is not gone; the index holds a plain
    subscription of `cid` whose filter matches the topic; `cid` may read the topic; and it is NOT the case that
    `cid` is the publisher and SOME matching subscription of `cid` has No Local set (the model merges the matching
    subscriptions of a client with OR on No Local) -/
def EntitledF03 (s : Server) (pk : Msg) (n : Nat) : Prop :=
  ∃ cid i, (cid, i) ∈ s.clients ∧ (getObj s i).conn = n ∧ (getObj s i).isOpen = true ∧
    (getObj s i).inline = false ∧ (getObj s i).peerGone = false ∧
    (∃ sub, MatchingSub s.topics pk.topic cid sub) ∧ aclOk s cid pk.topic false = true ∧
    ¬ (pk.origin = cid ∧ ∃ sub, MatchingSub s.topics pk.topic cid sub ∧ sub.noLocal = true)

/-- **entitlement as C03 states it**: … holds at least one matching subscription that it is authorised to read and
    whose No Local option does not exclude it -/
def EntitledSpec (s : Server) (pk : Msg) (n : Nat) : Prop :=
  ∃ cid i, (cid, i) ∈ s.clients ∧ (getObj s i).conn = n ∧ (getObj s i).isOpen = true ∧
    (getObj s i).inline = false ∧ (getObj s i).peerGone = false ∧ aclOk s cid pk.topic false = true ∧
    ∃ sub, MatchingSub s.topics pk.topic cid sub ∧ ¬ (sub.noLocal = true ∧ pk.origin = cid)

/-- whoever the model serves is entitled in the sense of C03 -/
theorem EntitledF03.spec {s : Server} {pk : Msg} {n : Nat} (h : EntitledF03 s pk n) : EntitledSpec s pk n := by
  obtain ⟨cid, i, h1, h2, h3, h4, h5, ⟨sub, hsub⟩, h7, h8⟩ := h
  exact ⟨cid, i, h1, h2, h3, h4, h5, h7, sub, hsub, fun ⟨a, b⟩ => h8 ⟨b, sub, hsub, a⟩⟩

/-- the F03 situation: the publisher holds a matching subscription with No Local and a matching one without -/
def MixedNoLocal (s : Server) (pk : Msg) : Prop :=
  ∃ sub sub', MatchingSub s.topics pk.topic pk.origin sub ∧ sub.noLocal = true ∧
    MatchingSub s.topics pk.topic pk.origin sub' ∧ sub'.noLocal = false

/-- outside the F03 situation the model's entitlement IS the entitlement of C03 -/
theorem entitledF03_iff_spec {s : Server} {pk : Msg} (hm : ¬ MixedNoLocal s pk) (n : Nat) :
    EntitledF03 s pk n ↔ EntitledSpec s pk n := by
  constructor
  · exact EntitledF03.spec
  · rintro ⟨cid, i, h1, h2, h3, h4, h5, h7, sub, hsub, hnl⟩
    refine ⟨cid, i, h1, h2, h3, h4, h5, ⟨sub, hsub⟩, h7, ?_⟩
    rintro ⟨ho, sub', hsub', hnl'⟩
    subst ho
    cases hs : sub.noLocal with
    | true => exact hnl ⟨hs, rfl⟩
    | false => exact hm ⟨sub', sub, hsub', hnl', hsub, hs⟩

/-- the entry of the subscriber map in terms of the index: step 1's `EntitledVia` is `EntitledF03` -/
theorem entitledVia_iff_F03 (s : Server) (hx : IdxOK s.topics) (pk : Msg) (hne : pk.topic ≠ [])
    (hnh : ∀ t ∈ splitLevels pk.topic, t ≠ [hash]) (hnd : ((subscribers s.topics pk.topic).subs.map Prod.fst).Nodup)
    (n : Nat) :
    EntitledVia s pk (subscribers s.topics pk.topic).subs n ↔ EntitledF03 s pk n := by
  have hkey := fun c => hasSub_subscribers_idx mergeOr_true s.topics hx pk.topic hne hnh c
  have hnl := fun c => hasSub_subscribers_idx mergeOr_noLocal s.topics hx pk.topic hne hnh c
  constructor
  · rintro ⟨cid, i, sub, h1, h2, h3, h4, h5, hs, h7, h8⟩
    have hg := assocGet_of_mem_nodup _ _ _ hnd hs
    refine ⟨cid, i, h1, h2, h3, h4, h5, ?_, h7, ?_⟩
    · obtain ⟨sub', hsub', _⟩ := (hkey cid).mp ⟨sub, hg, trivial⟩
      exact ⟨sub', hsub'⟩
    · rintro ⟨ho, hex⟩
      obtain ⟨sub', hg', hn'⟩ := (hnl cid).mpr hex
      rw [hg] at hg'
      cases hg'
      rw [hn', ho] at h8
      simp at h8
  · rintro ⟨cid, i, h1, h2, h3, h4, h5, ⟨sub0, hsub0⟩, h7, h8⟩
    obtain ⟨sub, hg, _⟩ := (hkey cid).mpr ⟨sub0, hsub0, trivial⟩
    refine ⟨cid, i, sub, h1, h2, h3, h4, h5, assocGet_mem _ _ _ hg, h7, ?_⟩
    cases hs : sub.noLocal with
    | false => rfl
    | true =>
      by_cases ho : pk.origin = cid
      · exact absurd ⟨ho, (hnl cid).mp ⟨sub, hg, hs⟩⟩ h8
      · simp [ho]

end Mochi.Broker

/-! ## One connection per client object, in every history without schedule ops -/
namespace Mochi.Broker
open Mochi.Topics

/-- every client object that is not inline is the object its connection number is mapped to -/
def ConnMap (s : Server) : Prop :=
  ∀ i, i < s.objs.length → (getObj s i).inline = false → assocGet s.connOf (getObj s i).conn = some i

theorem ConnMap.distinct {s : Server} (h : ConnMap s) : ConnDistinct s := by
  intro i j hi hj hii hij e
  have a := h i hi hii
  have b := h j hj hij
  rw [e, b] at a
  cases a
  rfl

/-- no object created or removed, the connection table, `conn` and `inline` of every object kept -/
structure CK (s s' : Server) : Prop where
  len : s'.objs.length = s.objs.length
  connOf : s'.connOf = s.connOf
  conn : ∀ k, (getObj s' k).conn = (getObj s k).conn
  inl : ∀ k, (getObj s' k).inline = (getObj s k).inline

theorem CK.refl (s : Server) : CK s s := ⟨rfl, rfl, fun _ => rfl, fun _ => rfl⟩
theorem CK.trans {s s1 s2 : Server} (h : CK s s1) (g : CK s1 s2) : CK s s2 :=
  ⟨g.len.trans h.len, g.connOf.trans h.connOf, fun k => (g.conn k).trans (h.conn k), fun k => (g.inl k).trans (h.inl k)⟩

theorem CK.of_frame {i : Nat} {s s' : Server} {o : List Out} (f : Frame i s s' o) : CK s s' := by
  refine ⟨f.len, f.connOf, fun k => ?_, fun k => ?_⟩
  · by_cases hk : k = i
    · subst hk; exact f.conn
    · exact (f.other k hk).conn.symm
  · by_cases hk : k = i
    · subst hk; exact f.inline
    · exact (f.other k hk).inline.symm

theorem CK.of_quietC {s s' : Server} (q : QuietC s s') : CK s s' :=
  ⟨q.len, q.connOf, fun k => (q.all k).conn.symm, fun k => (q.all k).inline.symm⟩

theorem CK.of_objs {s s' : Server} (ho : s'.objs = s.objs) (hn : s'.connOf = s.connOf) : CK s s' :=
  ⟨by rw [ho], hn, fun k => by rw [getObj_of_objs_eq ho k], fun k => by rw [getObj_of_objs_eq ho k]⟩

theorem CK.mod (s : Server) (i : Nat) (f : Client → Client) (hc : ∀ c, (f c).conn = c.conn)
    (hi : ∀ c, (f c).inline = c.inline) : CK s (modObj s i f) := by
  have key : ∀ k, (getObj (modObj s i f) k).conn = (getObj s k).conn ∧
      (getObj (modObj s i f) k).inline = (getObj s k).inline := by
    intro k
    unfold modObj
    by_cases hk : k = i
    · subst hk
      rcases getObj_setObj_self_cases s k (f (getObj s k)) with e | e
      · rw [e]; exact ⟨hc _, hi _⟩
      · rw [e]; exact ⟨rfl, rfl⟩
    · rw [getObj_setObj_ne s i k _ hk]; exact ⟨rfl, rfl⟩
  exact ⟨setObj_length s i _, rfl, fun k => (key k).1, fun k => (key k).2⟩

theorem ConnMap.of_ck {s s' : Server} (h : ConnMap s) (g : CK s s') : ConnMap s' := by
  intro i hi hin
  rw [g.len] at hi
  rw [g.inl] at hin
  rw [g.connOf, g.conn]
  exact h i hi hin

theorem recvOn_ck (s : Server) (c : Nat) (pk : InPk) (b : Bool) : CK s (recvOn s c pk b).1 := by
  cases hc : assocGet s.connOf c with
  | none =>
    have : recvOn s c pk b = (s, []) := by unfold recvOn; rw [hc]
    rw [this]; exact CK.refl s
  | some i => exact CK.of_frame (recvOn_frame s c pk b i hc)

theorem incConn_ck (s : Server) : CK s (incConn s) := CK.of_objs rfl rfl

theorem admitA_ck (s : Server) (i : Nat) (k : Connect) : CK s (admitA s i k).1 := by
  cases he : assocGet s.clients k.id with
  | some e =>
    exact ((incConn_ck s).trans (CK.of_frame (stopClient_frame (incConn s) e))).trans
      (CK.of_quietC (admitA_qc_some s i k e he).q)
  | none => exact (incConn_ck s).trans (CK.of_quietC (admitA_qc_none s i k he).q)

theorem admitClient_ck (s : Server) (i conn : Nat) (k : Connect) : CK s (admitClient s i conn k).1 := by
  rw [admitClient_fst]
  have a := admitA_ck s i k
  have b := CK.of_quietC (admitConnack_quiet_cnt (admitA s i k).1 i conn (admitA s i k).2.2.1)
  refine CK.trans ?_ (CK.of_quietC (admitC_quiet_cnt _ i k _))
  cases (admitA s i k).2.2.2 with
  | none => exact a.trans b
  | some e => exact (a.trans b).trans (CK.of_frame (detach_frame _ e true))

theorem connMap_addObj {s : Server} (h : ConnMap s) (c : Client) (conn : Nat) (hcc : c.conn = conn)
    (hf : conn ∉ s.connOf.map (·.1)) :
    ConnMap { s with objs := s.objs ++ [c], connOf := s.connOf ++ [(conn, s.objs.length)] } := by
  intro j hj hin
  have ho : ({ s with objs := s.objs ++ [c], connOf := s.connOf ++ [(conn, s.objs.length)] } : Server).objs =
      s.objs ++ [c] := rfl
  have hj' : j < s.objs.length + 1 := by simpa using hj
  show assocGet (s.connOf ++ [(conn, s.objs.length)]) _ = some j
  by_cases hlt : j < s.objs.length
  · rw [getObj_append_lt ho j hlt] at hin ⊢
    rw [assocGet_append, h j hlt hin]
    rfl
  · have : j = s.objs.length := by omega
    subst this
    rw [getObj_append_eq ho, hcc]
    exact assocGet_append_fresh _ _ _ hf

theorem connect_connMap (s : Server) (conn : Nat) (k : Connect) (h : ConnMap s) (hf : conn ∉ s.connOf.map (·.1)) :
    ConnMap (connect s conn k).1 := by
  unfold connect
  extract_lets +onlyGivenNames c i s1
  have h1 : ConnMap s1 := connMap_addObj h c conn rfl hf
  split
  · exact h1.of_ck (CK.of_frame (stopClient_frame s1 i))
  · exact h1.of_ck (admitClient_ck s1 i conn k)

/-- `ConnMap` is kept by every op that is not a schedule op -/
theorem ConnMap_step_seq (s : Server) (op : Op) (h : ConnMap s) (hseq : op.isSeq = true) (hfresh : OpFresh s op) :
    ConnMap (step s op).1 := by
  cases op with
  | connect conn k =>
    have hf : conn ∉ s.connOf.map (·.1) := hfresh
    rw [step]
    split
    rename_i s1 o h1
    have c1 : ConnMap s1 := by
      have := connect_connMap s conn k h hf
      rw [h1] at this; exact this
    split
    · split
      · split
        rename_i s2 o2 h2
        have := recvOn_ck s1 conn .pingreq false
        rw [h2] at this
        exact c1.of_ck this
      · exact c1
    · exact c1
  | recv conn pk =>
    rw [step]
    exact h.of_ck (recvOn_ck s conn pk true)
  | drop conn =>
    rw [step]
    split
    · exact h
    · rename_i i hc
      split
      · exact h
      · extract_lets +onlyGivenNames s1
        have k1 : CK s s1 := CK.mod s i _ (fun _ => rfl) (fun _ => rfl)
        split
        rename_i s2 o h2
        have := CK.of_frame (detach_frame s1 i true)
        rw [h2] at this
        exact h.of_ck (k1.trans this)
  | recvCut conn pk =>
    rw [step]
    split
    · exact h
    · rename_i i hc
      split
      · exact h
      · extract_lets +onlyGivenNames s1
        have k1 : CK s s1 := CK.mod s i _ (fun _ => rfl) (fun _ => rfl)
        split
        rename_i s2 o h2
        have k2 : CK s1 s2 := by
          have := recvOn_ck s1 conn pk false
          rw [h2] at this; exact this
        split
        rename_i s3 o2 h3
        show ConnMap s3
        split at h3
        · cases h3; exact h.of_ck (k1.trans k2)
        · have := CK.of_frame (detach_frame s2 i true)
          rw [h3] at this
          exact h.of_ck ((k1.trans k2).trans this)
  | tick kind t => exact h.of_ck (CK.of_quietC (tick_quiet s kind t))
  | inlinePublish topic payload retain qos =>
    rw [step]
    exact h.of_ck (CK.of_frame (receivePacket_frame s 0 _))
  | inlineSubscribe id filter =>
    rw [step]
    split
    · exact h
    · exact h.of_ck (CK.of_objs rfl rfl)
  | inlineUnsubscribe id filter =>
    rw [step]
    split
    · exact h
    · exact h.of_ck (CK.of_objs rfl rfl)
  | dropHold conn => cases hseq
  | dropHoldEarly conn => cases hseq
  | connectHold conn k stage => cases hseq
  | release conn => cases hseq

theorem ConnMap_init (caps : Caps) : ConnMap (init caps) := by
  intro i hi hin
  have : i = 0 := by
    have : i < 1 := hi
    omega
  subst this
  cases hin

theorem ConnMap_run_seq_from (s : Server) (ops : List Op) (h : ConnMap s) (hseq : SeqOps ops) (hf : OpsFresh s ops) :
    ConnMap (run s ops) := by
  induction ops generalizing s with
  | nil => exact h
  | cons op ops ih =>
    exact ih _ (ConnMap_step_seq s op h (hseq op List.mem_cons_self) hf.1)
      (fun o ho => hseq o (List.mem_cons_of_mem _ ho)) hf.2

/-- one connection per client object, in every history without schedule ops -/
theorem ConnDistinct_run_seq (caps : Caps) (ops : List Op) (hseq : SeqOps ops) (hf : OpsFresh (init caps) ops) :
    ConnDistinct (run (init caps) ops) :=
  (ConnMap_run_seq_from _ ops (ConnMap_init caps) hseq hf).distinct

/-! ## In terms of the sessions: the registered session lists a matching plain filter -/

/-- for a registered client, "the index holds a matching plain subscription under its id" is "its session lists a
    plain filter that matches" — `SyncInv.own` (no orphan entries) and `SyncInv.ownB` (its converse for plain
    filters) -/
theorem matching_iff_session {s : Server} (h : SyncInv s) (hw : WF s) {cid : Str} {i : Nat}
    (hm : (cid, i) ∈ s.clients) (topic : Str) :
    (∃ sub, MatchingSub s.topics topic cid sub) ↔
      ∃ f ∈ subKeys (getObj s i), shareKey f = false ∧ specMatch (splitLevels f) topic = true := by
  have hg := assocGet_of_mem_nodup _ _ _ hw.clients_nodup hm
  constructor
  · rintro ⟨sub, hpl, hsm⟩
    obtain ⟨i', hi', hf⟩ := h.own cid sub.filter (Or.inl ⟨_, sub, hpl, rfl⟩)
    rw [hg] at hi'
    cases hi'
    exact ⟨sub.filter, hf, (h.idx.pos.plain _ cid sub hpl).1, hsm⟩
  · rintro ⟨f, hf, hs, hsm⟩
    have hp := h.ownB cid i hg f hf hs
    unfold HasPlain at hp
    cases hq : plainAt s.topics (plainPath f) cid with
    | none => rw [hq] at hp; cases hp
    | some sub =>
      have e : sub.filter = f := plainPath_inj (h.idx.pos.plain _ cid sub hq).2
      rw [plainPath_eq] at hq
      exact ⟨sub, by rw [e]; exact hq, by rw [e]; exact hsm⟩

/-- `EntitledF03` with "holds a matching index entry" read off the SESSION: the client object registered under the
    id lists a plain filter (first level not `$share`) that `specMatch`es the topic -/
def EntitledSession (s : Server) (pk : Msg) (n : Nat) : Prop :=
  ∃ cid i, (cid, i) ∈ s.clients ∧ (getObj s i).conn = n ∧ (getObj s i).isOpen = true ∧
    (getObj s i).inline = false ∧ (getObj s i).peerGone = false ∧
    (∃ f ∈ subKeys (getObj s i), shareKey f = false ∧ specMatch (splitLevels f) pk.topic = true) ∧
    aclOk s cid pk.topic false = true ∧
    ¬ (pk.origin = cid ∧ ∃ sub, MatchingSub s.topics pk.topic cid sub ∧ sub.noLocal = true)

theorem entitledF03_iff_session {s : Server} (h : SyncInv s) (hw : WF s) (pk : Msg) (n : Nat) :
    EntitledF03 s pk n ↔ EntitledSession s pk n := by
  constructor
  · rintro ⟨cid, i, h1, h2, h3, h4, h5, h6, h7, h8⟩
    exact ⟨cid, i, h1, h2, h3, h4, h5, (matching_iff_session h hw h1 pk.topic).mp h6, h7, h8⟩
  · rintro ⟨cid, i, h1, h2, h3, h4, h5, h6, h7, h8⟩
    exact ⟨cid, i, h1, h2, h3, h4, h5, (matching_iff_session h hw h1 pk.topic).mpr h6, h7, h8⟩

/-- no particle holds a shared subscription: no shared subscription is a candidate for any topic -/
theorem subscribers_shared_nil (x : Index) (topic : Str) (h : ∀ n ∈ x.nodes, n.shared = []) :
    (subscribers x topic).shared = [] := by
  unfold subscribers
  split
  · rfl
  · refine foldl_inv (fun acc : Subscribers => acc.shared = []) _ _ _ rfl ?_
    intro acc g ha
    cases g with
    | subs p =>
      simp only [gatherStep]
      split
      · exact ha
      · exact ha
    | shared p =>
      simp only [gatherStep]
      split
      · exact ha
      · rename_i n hn
        split
        · exact ha
        · show n.shared.foldl _ acc.shared = []
          rw [h n (getNode_mem hn)]
          exact ha
    | inline p =>
      simp only [gatherStep]
      split
      · exact ha
      · split
        · exact ha
        · exact ha

/-! ## Reachable states: ops without schedule ops, interleaved with configuration changes

The harness configures the broker between ops (`bk.acl`: a read / write denial is added; `bk.pubhook`; the
authentication mode; the seeds that resolve Go's map order): none of these is an `Op`.  `ReachSeq caps s` covers
them: any change that leaves the tables (`objs`, `clients`, `connOf`, `topics`, the lists of parked handlers) and
`caps` alone. -/

/-- `s'` differs from `s` only in configuration and bookkeeping fields: `auth`, `aclDeny`, `pubHook`, the seeds,
    `info`, `rmsgs`, `willDelayed` -/
structure SameTables (s s' : Server) : Prop where
  objs : s'.objs = s.objs
  caps : s'.caps = s.caps
  connOf : s'.connOf = s.connOf
  clients : s'.clients = s.clients
  topics : s'.topics = s.topics
  pending : s'.pending = s.pending
  parked : s'.parked = s.parked
  parkedEarly : s'.parkedEarly = s.parkedEarly

inductive ReachSeq (caps : Caps) : Server → Prop
  | init : ReachSeq caps (init caps)
  | step {s : Server} (op : Op) : ReachSeq caps s → op.isSeq = true → OpFresh s op → ReachSeq caps (step s op).1
  | config {s s' : Server} : ReachSeq caps s → SameTables s s' → ReachSeq caps s'

/-- the invariants the delivery theorem needs hold in every reachable state -/
theorem ReachSeq.inv {caps : Caps} {s : Server} (h : ReachSeq caps s) :
    SyncInv s ∧ WF s ∧ ConnMap s ∧ NoSched s := by
  induction h with
  | init => exact ⟨SyncInv_init caps, WF_init caps, ConnMap_init caps, rfl, rfl, rfl⟩
  | step op _ hseq hfresh ih =>
    obtain ⟨a, w, c, n⟩ := ih
    have hok := n.schedOK op
    obtain ⟨l, p⟩ := step_seq_lists op hseq a w hfresh hok
    exact ⟨SyncInv_step _ op a w hfresh hok, WF_step _ op w hfresh, ConnMap_step_seq _ op c hseq hfresh,
      l.parked.trans n.1, l.parkedEarly.trans n.2.1, p.trans n.2.2⟩
  | config _ t ih =>
    obtain ⟨a, w, c, n⟩ := ih
    refine ⟨a.of_quiet ((Quiet.refl _).upd8 t.objs t.caps t.connOf t.clients t.pending t.parked t.parkedEarly
        (by rw [t.topics])), w.upd t.objs t.clients t.connOf t.pending, c.of_ck (CK.of_objs t.objs t.connOf),
      t.parked.trans n.1, t.parkedEarly.trans n.2.1, t.pending.trans n.2.2⟩

theorem ReachSeq.run {caps : Caps} {s : Server} (h : ReachSeq caps s) (ops : List Op) (hseq : SeqOps ops)
    (hf : OpsFresh s ops) : ReachSeq caps (run s ops) := by
  induction ops generalizing s with
  | nil => exact h
  | cons op ops ih =>
    exact ih (h.step op (hseq op List.mem_cons_self) hf.1) (fun o ho => hseq o (List.mem_cons_of_mem _ ho)) hf.2

end Mochi.Broker
