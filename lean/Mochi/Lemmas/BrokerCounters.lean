import Mochi.Lemmas.CountersCore
import Mochi.Lemmas.CountersInfl
import Mochi.Lemmas.CountersIndex
import Mochi.Lemmas.CountersConn
/-!
# C38 — the broker model's counters equal what they count, in every history

`Counted s` bundles the four counter invariants of the broker model (`Mochi/Model/Broker.lean`):

| counter              | equals                                                              | proved in          |
|----------------------|---------------------------------------------------------------------|--------------------|
| `info.retained`      | `s.rmsgs.length`                                                    | `CountersCore`     |
| `info.inflight`      | `sumAll s` — in-flight records of ALL client objects                | `CountersInfl`     |
| `info.subs`          | `cnt s.topics.nodes` — plain + shared entries of the index          | `CountersIndex`    |
| `info.connected`     | `hcount s` — handlers between increment and deferred decrement      | `CountersConn`     |

`Counted_init`, `Counted_step`, `Counted_run`.  `retained` and `subs` need no hypothesis at all; `inflight`
and `connected` need the history to be well scheduled (`OpSched`, decidable): a connection whose handler is
parked inside `attachClient` or right after its read loop delivers nothing until it is released, and no
network client uses the inline client's id.  In a quiescent state (`Quiescent`: no parked handler) `hcount s`
is the number of open, non-inline client objects (`connected_quiescent`).
-/
namespace Mochi.Broker
open Mochi.Topics

/-- **the counters equal what they count** (with the auxiliary invariants their proofs carry) -/
structure Counted (s : Server) : Prop where
  /-- `info.retained = s.rmsgs.length` -/
  retained : CountedRetained s
  /-- `info.inflight = sumAll s` (field `eq`), `isOpen = !stopped`, clients parked in the authentication hook
      have no session, the connection table is injective, object 0 exists -/
  inflight : InflInv s
  /-- `info.subs = cnt s.topics.nodes` for a well-formed index -/
  subs : CountedSubs s
  /-- `info.connected = hcount s` (field `eq`) and the side conditions on the three lists of parked handlers -/
  connected : ConnInv s

/-- no connection handler is parked anywhere -/
def Quiescent (s : Server) : Prop := s.parked = [] ∧ s.parkedEarly = [] ∧ s.pending = []

instance (s : Server) : Decidable (Quiescent s) := by unfold Quiescent; infer_instance

/-- the open network (non-inline) client objects -/
def liveClients (s : Server) : Nat := (s.objs.filter (fun c => c.isOpen && !c.inline)).length

theorem ConnInv_init (caps : Caps) : ConnInv (init caps) := by
  refine ⟨⟨?_, ?_, ?_, ?_, ?_, ?_, ?_, rfl, ?_, ⟨?_, List.nodup_nil⟩, ?_, rfl⟩, rfl⟩
  · intro k hk; cases hk
  · intro k hk; cases hk
  · intro p hp; cases hp
  · intro p hp; cases hp
  · intro c i hi; cases hi
  · intro k hk; cases hk
  · intro k hk; cases hk
  · intro k hk
    cases k with
    | zero => exact absurd rfl hk
    | succ k => rfl
  · intro p hp; cases hp
  · intro k hk; cases hk

theorem Counted_init (caps : Caps) : Counted (init caps) :=
  ⟨CountedRetained_init caps, InflInv_init caps, CountedSubs_init caps, ConnInv_init caps⟩

/-- **every op of a well-scheduled history keeps the counters right** -/
theorem Counted_step (s : Server) (op : Op) (hw : WF s) (hf : OpFresh s op) (hs : OpSched s op) (h : Counted s) :
    Counted (step s op).1 :=
  ⟨CountedRetained_step s op h.retained, InflInv_step s op hw hf hs.sched1 h.inflight, CountedSubs_step s op h.subs,
   ConnInv_step s op hw hf hs h.inflight h.connected⟩

/-- every op of the history is well scheduled in the state it is applied to -/
def OpsSched (s : Server) : List Op → Prop
  | [] => True
  | op :: ops => OpSched s op ∧ OpsSched (step s op).1 ops

instance instDecidableOpsSched (s : Server) (ops : List Op) : Decidable (OpsSched s ops) :=
  match ops with
  | [] => isTrue trivial
  | op :: ops =>
    match (inferInstance : Decidable (OpSched s op)) with
    | isFalse h => isFalse (fun g => h g.1)
    | isTrue h =>
      match instDecidableOpsSched (step s op).1 ops with
      | isFalse g => isFalse (fun g' => g g'.2)
      | isTrue g => isTrue ⟨h, g⟩

theorem OpsSched.sched1 {s : Server} {ops : List Op} (h : OpsSched s ops) : OpsSched1 s ops := by
  induction ops generalizing s with
  | nil => trivial
  | cons op ops ih => exact ⟨h.1.sched1, ih h.2⟩

theorem Counted_run_from (s : Server) (ops : List Op) (hw : WF s) (hf : OpsFresh s ops) (hs : OpsSched s ops)
    (h : Counted s) : Counted (run s ops) := by
  induction ops generalizing s with
  | nil => exact h
  | cons op ops ih =>
    show Counted (run (step s op).1 ops)
    exact ih _ (WF_step s op hw hf.1) hf.2 hs.2 (Counted_step s op hw hf.1 hs.1 h)

/-- **the counters are right after every well-scheduled history** -/
theorem Counted_run (caps : Caps) (ops : List Op) (hf : OpsFresh (init caps) ops) (hs : OpsSched (init caps) ops) :
    Counted (run (init caps) ops) :=
  Counted_run_from _ ops (WF_init caps) hf hs (Counted_init caps)

/-! ### the four conjuncts under the names of the brief -/

/-- the `inflight` conjunct (with its auxiliary invariants): `InflInv` -/
abbrev CountedInflight := InflInv
/-- the `connected` conjunct (with its side conditions): `ConnInv` -/
abbrev CountedConnected := ConnInv

theorem CountedInflight_init (caps : Caps) : CountedInflight (init caps) := InflInv_init caps
theorem CountedInflight_step (s : Server) (op : Op) (hw : WF s) (hf : OpFresh s op) (hs : OpSched1 s op)
    (h : CountedInflight s) : CountedInflight (step s op).1 := InflInv_step s op hw hf hs h
theorem CountedInflight_run (caps : Caps) (ops : List Op) (hf : OpsFresh (init caps) ops)
    (hs : OpsSched1 (init caps) ops) : CountedInflight (run (init caps) ops) := InflInv_run caps ops hf hs

theorem CountedConnected_init (caps : Caps) : CountedConnected (init caps) := ConnInv_init caps
theorem CountedConnected_step (s : Server) (op : Op) (hw : WF s) (hf : OpFresh s op) (hs : OpSched s op)
    (hi : CountedInflight s) (h : CountedConnected s) : CountedConnected (step s op).1 :=
  ConnInv_step s op hw hf hs hi h
theorem CountedConnected_run (caps : Caps) (ops : List Op) (hf : OpsFresh (init caps) ops)
    (hs : OpsSched (init caps) ops) : CountedConnected (run (init caps) ops) := (Counted_run caps ops hf hs).connected

/-! ### what `hcount` is in a quiescent state -/

theorem map_getD_range {α} (l : List α) (d : α) : (List.range l.length).map (fun k => l.getD k d) = l := by
  apply List.ext_getElem
  · simp
  · intro i h1 h2
    simp [List.getD_eq_getElem?_getD, h2]

theorem countP_range_getD {α} (l : List α) (d : α) (f : α → Bool) :
    (List.range l.length).countP (fun k => f (l.getD k d)) = l.countP f := by
  have := List.countP_map (p := f) (f := fun k => l.getD k d) (l := List.range l.length)
  rw [map_getD_range] at this
  rw [this]
  rfl

theorem Hb_quiescent {s : Server} (h : Side s) (hq : Quiescent s) (k : Nat) (hk : k < s.objs.length) :
    Hb s k = ((getObj s k).isOpen && !(getObj s k).inline) := by
  obtain ⟨h1, h2, h3⟩ := hq
  by_cases hk0 : k = 0
  · subst hk0
    rw [Hb_zero, h.inl0]
    simp
  · have hk' := hk
    rw [Hb_plain hk0 (by rw [h1]; simp) (by rw [h2]; simp) (by rw [h3]; intro p hp; cases hp), h.inl k hk0]
    simp

/-- in a quiescent state the handlers that count are the open network clients -/
theorem hcount_quiescent {s : Server} (h : Side s) (hq : Quiescent s) : hcount s = liveClients s := by
  unfold hcount liveClients
  rw [← List.countP_eq_length_filter]
  rw [← countP_range_getD s.objs {} (fun c => c.isOpen && !c.inline)]
  exact countP_range_congr _ _ _ (fun k hk => Hb_quiescent h hq k hk)

/-! ### the four equalities and the signs -/

theorem Counted.retained_eq {s : Server} (h : Counted s) : s.info.retained = s.rmsgs.length := h.retained

theorem Counted.inflight_eq {s : Server} (h : Counted s) : s.info.inflight = sumAll s := h.inflight.eq

theorem Counted.subs_eq {s : Server} (h : Counted s) : s.info.subs = cnt s.topics.nodes := h.subs.2

theorem Counted.connected_eq {s : Server} (h : Counted s) : s.info.connected = hcount s := h.connected.eq

/-- at every quiescent point `ClientsConnected` is the number of open network clients -/
theorem Counted.connected_quiescent {s : Server} (h : Counted s) (hq : Quiescent s) :
    s.info.connected = liveClients s := by
  rw [h.connected.eq, hcount_quiescent h.connected.side hq]

theorem Counted.nonneg {s : Server} (h : Counted s) :
    0 ≤ s.info.retained ∧ 0 ≤ s.info.inflight ∧ 0 ≤ s.info.subs ∧ 0 ≤ s.info.connected := by
  rw [h.retained_eq, h.inflight_eq, h.subs_eq, h.connected_eq]
  exact ⟨Int.natCast_nonneg _, Int.natCast_nonneg _, Int.natCast_nonneg _, Int.natCast_nonneg _⟩

/-! ### the registered objects (what the harness's `VerifActual` walks: `s.Clients.GetAll()`)

The Go counters are compared with sums over the Clients MAP.  A client object that holds a session but is not
(any more) in the map is an *orphan*; without orphans the sums over the map are the sums over all objects.
Orphans do arise — see `C38_inflight_counterexample` in `Props/C38.lean` (`Clients.Delete(cl.ID)` at the end of
`attachClient` deletes by id, whoever is registered under it). -/

/-- the in-flight records of the registered client objects -/
def sumReg (s : Server) : Nat := (s.clients.map (fun e => (getObj s e.2).inflight.length)).sum

/-- the open network clients among the registered objects -/
def liveReg (s : Server) : Nat := s.clients.countP (fun e => (getObj s e.2).isOpen && !(getObj s e.2).inline)

/-- every client object that holds in-flight records, or is an open network client, is in the Clients map -/
def NoOrphans (s : Server) : Prop :=
  ∀ k, k < s.objs.length →
    ((getObj s k).inflight.length != 0 || ((getObj s k).isOpen && !(getObj s k).inline)) = true →
      s.clients.any (fun e => e.2 == k) = true

instance (s : Server) : Decidable (NoOrphans s) := by unfold NoOrphans; infer_instance

theorem nodup_of_map_nodup {α β} (f : α → β) (l : List α) (h : (l.map f).Nodup) : l.Nodup := by
  induction l with
  | nil => exact List.nodup_nil
  | cons x xs ih =>
    rw [List.map_cons, List.nodup_cons] at h
    rw [List.nodup_cons]
    exact ⟨fun hx => h.1 (List.mem_map.mpr ⟨x, hx, rfl⟩), ih h.2⟩

theorem regIdx_nodup {s : Server} (hw : WF s) : (s.clients.map (·.2)).Nodup := by
  have h1 : (s.clients.map (·.2)).map (fun i => (getObj s i).id) = s.clients.map (·.1) := by
    rw [List.map_map]
    apply List.map_congr_left
    intro e he
    exact (hw.clients_valid e.1 e.2 he).2
  have := hw.clients_nodup
  rw [← h1] at this
  exact nodup_of_map_nodup _ _ this

theorem range_perm_reg {s : Server} (hw : WF s) :
    (List.range s.objs.length).Perm
      (s.clients.map (·.2) ++ (List.range s.objs.length).filter (fun k => !(s.clients.map (·.2)).contains k)) := by
  rw [List.perm_ext_iff_of_nodup List.nodup_range]
  · intro a
    simp only [List.mem_range, List.mem_append, List.mem_filter, Bool.not_eq_true', List.contains_eq_mem,
      decide_eq_false_iff_not]
    constructor
    · intro ha
      by_cases hm : a ∈ s.clients.map (·.2)
      · exact Or.inl hm
      · exact Or.inr ⟨ha, hm⟩
    · rintro (hm | ⟨ha, _⟩)
      · obtain ⟨e, he, rfl⟩ := List.mem_map.mp hm
        exact (hw.clients_valid e.1 e.2 he).1
      · exact ha
  · rw [List.nodup_append]
    refine ⟨regIdx_nodup hw, List.nodup_range.sublist List.filter_sublist, ?_⟩
    intro a ha b hb hab
    subst hab
    have := (List.mem_filter.mp hb).2
    simp only [Bool.not_eq_true', List.contains_eq_mem, decide_eq_false_iff_not] at this
    exact this ha

theorem sum_map_zero {α} (l : List α) (f : α → Nat) (h : ∀ x ∈ l, f x = 0) : (l.map f).sum = 0 := by
  induction l with
  | nil => rfl
  | cons x xs ih =>
    rw [List.map_cons, List.sum_cons, h x List.mem_cons_self, ih (fun y hy => h y (List.mem_cons_of_mem _ hy))]

theorem countP_zero {α} (l : List α) (f : α → Bool) (h : ∀ x ∈ l, f x = false) : l.countP f = 0 := by
  rw [List.countP_eq_zero]
  intro x hx
  rw [h x hx]
  exact Bool.false_ne_true

theorem unreg_of_filter {s : Server} {k : Nat}
    (hk : k ∈ (List.range s.objs.length).filter (fun k => !(s.clients.map (·.2)).contains k)) :
    k < s.objs.length ∧ s.clients.any (fun e => e.2 == k) = false := by
  obtain ⟨h1, h2⟩ := List.mem_filter.mp hk
  refine ⟨List.mem_range.mp h1, ?_⟩
  simp only [Bool.not_eq_true', List.contains_eq_mem, decide_eq_false_iff_not] at h2
  rw [List.any_eq_false]
  intro e he
  simp only [beq_iff_eq]
  intro x
  exact h2 (List.mem_map.mpr ⟨e, he, x⟩)

/-- without orphans the registered objects hold all the in-flight records -/
theorem sumReg_eq_sumAll {s : Server} (hw : WF s) (ho : NoOrphans s) : sumReg s = sumAll s := by
  unfold sumReg sumAll
  have h1 : s.objs.map (·.inflight.length) =
      (List.range s.objs.length).map (fun k => (getObj s k).inflight.length) := by
    have := map_getD_range s.objs ({} : Client)
    conv => lhs; rw [← this]
    rw [List.map_map]
    rfl
  have hz : (((List.range s.objs.length).filter (fun k => !(s.clients.map (·.2)).contains k)).map
      (fun k => (getObj s k).inflight.length)).sum = 0 :=
    sum_map_zero _ _ (fun k hk => by
      obtain ⟨hlt, hun⟩ := unreg_of_filter hk
      cases hl : (getObj s k).inflight.length with
      | zero => rfl
      | succ n =>
        have := ho k hlt (by simp [hl])
        rw [hun] at this
        cases this)
  rw [h1, ((range_perm_reg hw).map _).sum_nat, List.map_append, List.sum_append, hz, List.map_map, Nat.add_zero]
  rfl

/-- without orphans the registered objects include all the open network clients -/
theorem liveReg_eq_liveClients {s : Server} (hw : WF s) (ho : NoOrphans s) : liveReg s = liveClients s := by
  unfold liveReg liveClients
  rw [← List.countP_eq_length_filter, ← countP_range_getD s.objs {} (fun c => c.isOpen && !c.inline)]
  have hz : ((List.range s.objs.length).filter (fun k => !(s.clients.map (·.2)).contains k)).countP
      (fun k => (s.objs.getD k {}).isOpen && !(s.objs.getD k {}).inline) = 0 :=
    countP_zero _ _ (fun k hk => by
      obtain ⟨hlt, hun⟩ := unreg_of_filter hk
      cases hl : ((s.objs.getD k {}).isOpen && !(s.objs.getD k {}).inline) with
      | false => rfl
      | true =>
        have := ho k hlt (by
          show ((getObj s k).inflight.length != 0 || ((s.objs.getD k {}).isOpen && !(s.objs.getD k {}).inline)) = true
          rw [hl]; simp)
        rw [hun] at this
        cases this)
  rw [(range_perm_reg hw).countP_eq, List.countP_append, hz, Nat.add_zero, List.countP_map]
  rfl

end Mochi.Broker
