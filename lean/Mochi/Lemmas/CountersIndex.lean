import Mochi.Lemmas.Refine
import Mochi.Lemmas.CountersCore
/-!
# C38, part 3 — the `subs` counter

`cnt ns`: the number of (client, filter) subscription entries of the particle list `ns` — plain entries
plus the members of every share group (inline subscriptions are not counted: `Server.Subscribe` does
not touch `Info.Subscriptions`).  For a well-formed index (`NodesWF`: distinct particle addresses, one
entry per client per particle, one entry per group, one entry per member)

* `Subscribe` adds exactly one entry iff it reports "new",
* `Unsubscribe` removes exactly one entry iff it reports "existed",
* retaining a message, the inline API and `trim` change nothing.

Hence `SubsOK` is lawful (`Laws SubsOK`) and, by the core walk, holds after EVERY history.
-/
namespace Mochi.Topics

/-! ### association lists -/

theorem length_assocSet {α β} [DecidableEq α] (m : List (α × β)) (k : α) (v : β) :
    (assocSet m k v).length = m.length + (if (assocGet m k).isSome then 0 else 1) := by
  induction m with
  | nil => simp [assocSet, assocGet]
  | cons x xs ih =>
    obtain ⟨a, b⟩ := x
    unfold assocSet assocGet
    by_cases h : a = k
    · simp [h]
    · simp only [h, if_false, List.length_cons, ih]
      omega

theorem assocGet_isSome_iff_key {α β} [DecidableEq α] (m : List (α × β)) (k : α) :
    (assocGet m k).isSome = true ↔ k ∈ m.map (·.1) := by
  induction m with
  | nil => simp [assocGet]
  | cons x xs ih =>
    obtain ⟨a, b⟩ := x
    unfold assocGet
    by_cases h : a = k
    · simp [h]
    · simp only [h, if_false, ih, List.map_cons, List.mem_cons]
      constructor
      · exact Or.inr
      · rintro (e | e)
        · exact absurd e.symm h
        · exact e

theorem filter_ne_self {α β} [DecidableEq α] (m : List (α × β)) (k : α) (h : k ∉ m.map (·.1)) :
    m.filter (fun kv => kv.1 ≠ k) = m := by
  rw [List.filter_eq_self]
  intro e he
  have : e.1 ≠ k := fun q => h (q ▸ List.mem_map.mpr ⟨e, he, rfl⟩)
  simpa using this

theorem length_assocDel {α β} [DecidableEq α] (m : List (α × β)) (k : α) (hnd : (m.map (·.1)).Nodup) :
    (assocDel m k).length + (if (assocGet m k).isSome then 1 else 0) = m.length := by
  induction m with
  | nil => simp [assocDel, assocGet]
  | cons x xs ih =>
    obtain ⟨a, b⟩ := x
    rw [List.map_cons, List.nodup_cons] at hnd
    have ih' := ih hnd.2
    unfold assocDel at ih' ⊢
    unfold assocGet
    rw [List.filter_cons]
    by_cases h : a = k
    · subst h
      have hkeep := filter_ne_self xs a hnd.1
      have hd : decide ((a, b).1 ≠ a) = false := by simp
      rw [hd, hkeep]
      simp
    · have hd : decide ((a, b).1 ≠ k) = true := by simpa using h
      rw [hd]
      simp only [if_true, h, if_false, List.length_cons]
      omega

theorem assocDel_keys_nodup {α β} [DecidableEq α] (m : List (α × β)) (k : α) (hnd : (m.map (·.1)).Nodup) :
    ((assocDel m k).map (·.1)).Nodup :=
  (List.filter_sublist.map _).nodup hnd

theorem mem_assocDel {α β} [DecidableEq α] (m : List (α × β)) (k : α) (e : α × β) (h : e ∈ assocDel m k) : e ∈ m :=
  (List.mem_filter.mp h).1

/-! ### share groups -/

theorem sharedLen_cons (a : Str) (b : List (Str × Sub)) (rest : List (Str × List (Str × Sub))) :
    sharedLen ((a, b) :: rest) = b.length + sharedLen rest := by
  simp [sharedLen]

theorem sharedLen_append (a b : List (Str × List (Str × Sub))) : sharedLen (a ++ b) = sharedLen a + sharedLen b := by
  simp [sharedLen]

theorem sharedLen_assocSet (sh : List (Str × List (Str × Sub))) (g : Str) (m m' : List (Str × Sub))
    (hm : assocGet sh g = some m) : sharedLen (assocSet sh g m') + m.length = sharedLen sh + m'.length := by
  induction sh with
  | nil => simp [assocGet] at hm
  | cons x xs ih =>
    obtain ⟨a, b⟩ := x
    unfold assocGet at hm
    unfold assocSet
    by_cases h : a = g
    · simp only [h, if_true, Option.some.injEq] at hm ⊢
      subst hm
      rw [sharedLen_cons, sharedLen_cons]
      omega
    · simp only [h, if_false] at hm ⊢
      have := ih hm
      rw [sharedLen_cons, sharedLen_cons]
      omega

theorem sharedLen_assocDel (sh : List (Str × List (Str × Sub))) (g : Str) (m : List (Str × Sub))
    (hnd : (sh.map (·.1)).Nodup) (hm : assocGet sh g = some m) : sharedLen (assocDel sh g) + m.length = sharedLen sh := by
  induction sh with
  | nil => simp [assocGet] at hm
  | cons x xs ih =>
    obtain ⟨a, b⟩ := x
    rw [List.map_cons, List.nodup_cons] at hnd
    unfold assocGet at hm
    by_cases h : a = g
    · simp only [h, if_true, Option.some.injEq] at hm
      subst hm
      subst h
      have hkeep := filter_ne_self xs a hnd.1
      have hd : decide ((a, b).1 ≠ a) = false := by simp
      unfold assocDel
      rw [List.filter_cons, hd, if_neg Bool.false_ne_true, hkeep, sharedLen_cons]
      omega
    · simp only [h, if_false] at hm
      have := ih hnd.2 hm
      have hd : decide ((a, b).1 ≠ g) = true := by simpa using h
      unfold assocDel at this ⊢
      rw [List.filter_cons, hd, if_pos rfl, sharedLen_cons, sharedLen_cons]
      omega

/-- one entry per group, one entry per member -/
structure SharedWF (sh : List (Str × List (Str × Sub))) : Prop where
  groups : (sh.map (·.1)).Nodup
  members : ∀ g ∈ sh, (g.2.map (·.1)).Nodup

theorem SharedWF.nil : SharedWF [] := ⟨List.nodup_nil, fun _ h => by cases h⟩

theorem SharedWF.get {sh : List (Str × List (Str × Sub))} (h : SharedWF sh) {g : Str} {m : List (Str × Sub)}
    (hm : assocGet sh g = some m) : (m.map (·.1)).Nodup :=
  h.members (g, m) (assocGet_mem _ _ _ hm)

theorem sharedAdd_ok_cnt (sh : List (Str × List (Str × Sub))) (g c : Str) (s : Sub) (h : SharedWF sh) :
    SharedWF (sharedAdd sh g c s) ∧
      (sharedLen (sharedAdd sh g c s) : Int) = sharedLen sh + (if (!(sharedGet sh g c).isSome) = true then 1 else 0) := by
  unfold sharedAdd sharedGet
  cases hm : assocGet sh g with
  | none =>
    simp only []
    refine ⟨⟨?_, ?_⟩, ?_⟩
    · rw [List.map_append, List.nodup_append]
      refine ⟨h.groups, by simp, ?_⟩
      intro a ha b hb hab
      simp only [List.map_cons, List.map_nil, List.mem_singleton] at hb
      subst hb; subst hab
      have := (assocGet_isSome_iff_key sh a).mpr ha
      rw [hm] at this
      cases this
    · intro x hx
      rcases List.mem_append.mp hx with hx | hx
      · exact h.members x hx
      · rw [List.mem_singleton.mp hx]
        simp
    · rw [sharedLen_append]
      simp [sharedLen]
  | some m =>
    simp only []
    have hmn := h.get hm
    refine ⟨⟨Mochi.Broker.assocSet_keys_nodup _ _ _ h.groups, ?_⟩, ?_⟩
    · intro x hx
      rcases Mochi.Broker.mem_assocSet _ _ _ _ hx with hx | hx
      · exact h.members x hx
      · rw [hx]
        exact Mochi.Broker.assocSet_keys_nodup _ _ _ hmn
    · have h1 := sharedLen_assocSet sh g m (assocSet m c s) hm
      have h2 := length_assocSet m c s
      cases hc : (assocGet m c).isSome <;> simp [hc] at h2 ⊢ <;> omega

theorem sharedDel_ok_cnt (sh : List (Str × List (Str × Sub))) (g c : Str) (h : SharedWF sh) :
    SharedWF (sharedDel sh g c) ∧
      (sharedLen (sharedDel sh g c) : Int) = sharedLen sh - (if (sharedGet sh g c).isSome = true then 1 else 0) := by
  unfold sharedDel sharedGet
  cases hm : assocGet sh g with
  | none =>
    simp only []
    exact ⟨h, by simp⟩
  | some m =>
    simp only []
    have hmn := h.get hm
    have h2 := length_assocDel m c hmn
    split
    · rename_i hemp
      have hl : (assocDel m c).length = 0 := by simpa using hemp
      refine ⟨⟨assocDel_keys_nodup _ _ h.groups, fun x hx => h.members x (mem_assocDel _ _ _ hx)⟩, ?_⟩
      have h1 := sharedLen_assocDel sh g m h.groups hm
      cases hc : (assocGet m c).isSome <;> simp [hc] at h2 ⊢ <;> omega
    · refine ⟨⟨Mochi.Broker.assocSet_keys_nodup _ _ _ h.groups, ?_⟩, ?_⟩
      · intro x hx
        rcases Mochi.Broker.mem_assocSet _ _ _ _ hx with hx | hx
        · exact h.members x hx
        · rw [hx]
          exact assocDel_keys_nodup _ _ hmn
      · have h1 := sharedLen_assocSet sh g m (assocDel m c) hm
        cases hc : (assocGet m c).isSome <;> simp [hc] at h2 ⊢ <;> omega

/-! ### particles -/

/-- the subscription entries of one particle (plain + members of its share groups) -/
def nodeCount (n : Node) : Nat := n.subs.length + sharedLen n.shared

/-- the subscription entries of the index -/
def cnt (ns : List Node) : Nat := (ns.map nodeCount).sum

structure NodeWF (n : Node) : Prop where
  subs : (n.subs.map (·.1)).Nodup
  shared : SharedWF n.shared

theorem NodeWF.fresh (q : Path) : NodeWF { path := q } := ⟨List.nodup_nil, SharedWF.nil⟩

/-- distinct, non-empty particle addresses; every particle well-formed -/
structure NodesWF (ns : List Node) : Prop where
  paths : PathsOK (ns.map (·.path))
  nodes : ∀ n ∈ ns, NodeWF n

theorem NodesWF.nil : NodesWF [] := ⟨⟨List.nodup_nil, fun _ h => by cases h⟩, fun _ h => by cases h⟩

theorem cnt_cons (n : Node) (ns : List Node) : cnt (n :: ns) = nodeCount n + cnt ns := by simp [cnt]

theorem cnt_append (a b : List Node) : cnt (a ++ b) = cnt a + cnt b := by simp [cnt]

theorem putNode_of_not_mem (ns : List Node) (n : Node) (h : n.path ∉ ns.map (·.path)) : putNode ns n = ns := by
  induction ns with
  | nil => rfl
  | cons m rest ih =>
    rw [putNode_cons]
    rw [List.map_cons, List.mem_cons, not_or] at h
    have : ¬ m.path = n.path := fun e => h.1 e.symm
    simp only [this, if_false]
    rw [ih h.2]

theorem cnt_putNode (ns : List Node) (n n' : Node) (hnd : (ns.map (·.path)).Nodup) (hg : getNode ns n'.path = some n) :
    cnt (putNode ns n') + nodeCount n = cnt ns + nodeCount n' := by
  induction ns with
  | nil => simp [getNode_nil] at hg
  | cons m rest ih =>
    rw [List.map_cons, List.nodup_cons] at hnd
    rw [putNode_cons]
    rw [getNode_cons] at hg
    by_cases hm : m.path = n'.path
    · simp only [hm, if_true, Option.some.injEq] at hg ⊢
      subst hg
      rw [putNode_of_not_mem rest n' (hm ▸ hnd.1), cnt_cons, cnt_cons]
      omega
    · simp only [hm, if_false] at hg ⊢
      have := ih hnd.2 hg
      rw [cnt_cons, cnt_cons]
      omega

theorem mem_putNode_cnt (ns : List Node) (n m : Node) (h : m ∈ putNode ns n) : m = n ∨ m ∈ ns := by
  unfold putNode at h
  obtain ⟨m0, hm0, he⟩ := List.mem_map.mp h
  split at he
  · exact Or.inl he.symm
  · exact Or.inr (he ▸ hm0)

theorem NodesWF.putNode {ns : List Node} (h : NodesWF ns) (n : Node) (hn : NodeWF n) : NodesWF (putNode ns n) :=
  ⟨pathsOK_putNode ns n h.paths, fun m hm => by
    rcases mem_putNode_cnt ns n m hm with e | e
    · exact e ▸ hn
    · exact h.nodes m e⟩

theorem setPath_ok (ns : List Node) (p : Path) (h : NodesWF ns) : NodesWF (setPath ns p) ∧ cnt (setPath ns p) = cnt ns := by
  refine ⟨⟨pathsOK_setPath ns p h.paths, ?_⟩, ?_⟩
  · unfold setPath
    refine Mochi.Broker.foldl_inv (fun (acc : List Node) => ∀ n ∈ acc, NodeWF n) _ _ _ h.nodes ?_
    intro acc q ha
    split
    · exact ha
    · intro n hn
      rcases List.mem_append.mp hn with hn | hn
      · exact ha n hn
      · rw [List.mem_singleton.mp hn]; exact NodeWF.fresh q
  · unfold setPath
    refine Mochi.Broker.foldl_inv (fun (acc : List Node) => cnt acc = cnt ns) _ _ _ rfl ?_
    intro acc q ha
    split
    · exact ha
    · rw [cnt_append, ha]
      simp [cnt, nodeCount, sharedLen]

theorem cnt_filter (ns : List Node) (f : Node → Bool) (h : ∀ m ∈ ns, f m = false → nodeCount m = 0) :
    cnt (ns.filter f) = cnt ns := by
  induction ns with
  | nil => rfl
  | cons m rest ih =>
    have ih' := ih (fun x hx => h x (List.mem_cons_of_mem _ hx))
    rw [List.filter_cons]
    cases hf : f m
    · simp only [Bool.false_eq_true, if_false]
      rw [cnt_cons, h m List.mem_cons_self hf, ih']
      omega
    · simp only [if_true]
      rw [cnt_cons, cnt_cons, ih']

theorem nodeCount_of_nodeEmpty (ns : List Node) (n : Node) (h : nodeEmpty ns n = true) : nodeCount n = 0 := by
  unfold nodeEmpty at h
  simp only [Bool.and_eq_true, beq_iff_eq] at h
  unfold nodeCount
  omega

theorem NodesWF.sublist {l₁ l₂ : List Node} (hs : List.Sublist l₁ l₂) (h : NodesWF l₂) : NodesWF l₁ :=
  ⟨pathsOK_sublist (hs.map _) h.paths, fun n hn => h.nodes n (hs.subset hn)⟩

theorem trim_ok (ns : List Node) (p : Path) (fuel : Nat) (h : NodesWF ns) :
    NodesWF (trim ns p fuel) ∧ cnt (trim ns p fuel) = cnt ns := by
  refine ⟨h.sublist (trim_sublist ns p fuel), ?_⟩
  induction fuel generalizing ns p with
  | zero => unfold trim; rfl
  | succ fuel ih =>
    unfold trim
    split
    · rfl
    · split
      · rfl
      · rename_i n hn
        split
        · rename_i hemp
          have hfil : NodesWF (ns.filter (fun m => m.path != p)) := h.sublist List.filter_sublist
          rw [ih _ _ hfil]
          apply cnt_filter
          intro m hm hf
          have hmp : m.path = p := by simpa using hf
          have := getNode_of_mem ns h.paths.1 m hm
          rw [hmp, hn] at this
          cases this
          exact nodeCount_of_nodeEmpty ns _ hemp
        · rfl

/-! ### the index operations -/

theorem subscribe_ok (x : Index) (cid : Str) (sb : Sub) (h : NodesWF x.nodes) :
    NodesWF (subscribe x cid sb).1.nodes ∧
      (cnt (subscribe x cid sb).1.nodes : Int) = cnt x.nodes + (if (subscribe x cid sb).2 = true then 1 else 0) := by
  unfold subscribe
  extract_lets ls group p ns p2 ns2
  split
  · obtain ⟨hns, hc⟩ := setPath_ok x.nodes p h
    split
    · exact ⟨h, by simp⟩
    · rename_i n hn
      have hnw := hns.nodes n (getNode_mem hn)
      obtain ⟨hsw, hsl⟩ := sharedAdd_ok_cnt n.shared group cid sb hnw.shared
      have hput := cnt_putNode ns n { n with shared := sharedAdd n.shared group cid sb } hns.paths.1
        (by show getNode ns n.path = some n; rw [getNode_path hn]; exact hn)
      refine ⟨hns.putNode _ ⟨hnw.subs, hsw⟩, ?_⟩
      show (cnt (putNode ns { n with shared := sharedAdd n.shared group cid sb }) : Int) = _
      unfold nodeCount at hput
      simp only [] at hput
      show _ = (cnt x.nodes : Int) + (if (!(sharedGet n.shared group cid).isSome) = true then 1 else 0)
      have hc' : cnt ns = cnt x.nodes := hc
      omega
  · obtain ⟨hns, hc⟩ := setPath_ok x.nodes p2 h
    split
    · exact ⟨h, by simp⟩
    · rename_i n hn
      have hnw := hns.nodes n (getNode_mem hn)
      have hput := cnt_putNode ns2 n { n with subs := assocSet n.subs cid sb } hns.paths.1
        (by show getNode ns2 n.path = some n; rw [getNode_path hn]; exact hn)
      refine ⟨hns.putNode _ ⟨Mochi.Broker.assocSet_keys_nodup _ _ _ hnw.subs, hnw.shared⟩, ?_⟩
      show (cnt (putNode ns2 { n with subs := assocSet n.subs cid sb }) : Int) =
        (cnt x.nodes : Int) + (if (!(assocGet n.subs cid).isSome) = true then 1 else 0)
      unfold nodeCount at hput
      simp only [] at hput
      have hl := length_assocSet n.subs cid sb
      have hc' : cnt ns2 = cnt x.nodes := hc
      cases hs : (assocGet n.subs cid).isSome <;> simp [hs] at hl ⊢ <;> omega

theorem seek_some_cnt {ns : List Node} {p : Path} {n : Node} (h : seek ns p = some n) : getNode ns p = some n := by
  unfold seek at h
  split at h
  · exact h
  · cases h

theorem unsubscribe_ok (x : Index) (f cid : Str) (h : NodesWF x.nodes) :
    NodesWF (unsubscribe x f cid).1.nodes ∧
      (cnt (unsubscribe x f cid).1.nodes : Int) = cnt x.nodes - (if (unsubscribe x f cid).2 = true then 1 else 0) := by
  unfold unsubscribe
  extract_lets ls share p group
  split
  · exact ⟨h, by simp⟩
  split
  · exact ⟨h, by simp⟩
  rename_i n hs
  have hn := seek_some_cnt hs
  have hnw := h.nodes n (getNode_mem hn)
  split
  · obtain ⟨hsw, hsl⟩ := sharedDel_ok_cnt n.shared group cid hnw.shared
    have hput := cnt_putNode x.nodes n { n with shared := sharedDel n.shared group cid } h.paths.1
      (by show getNode x.nodes n.path = some n; rw [getNode_path hn]; exact hn)
    have hnsw : NodesWF (putNode x.nodes { n with shared := sharedDel n.shared group cid }) :=
      h.putNode _ ⟨hnw.subs, hsw⟩
    obtain ⟨ht, htc⟩ := trim_ok _ p p.length hnsw
    refine ⟨ht, ?_⟩
    show (cnt (trim (putNode x.nodes { n with shared := sharedDel n.shared group cid }) p p.length) : Int) =
      (cnt x.nodes : Int) - (if (sharedGet n.shared group cid).isSome = true then 1 else 0)
    rw [htc]
    unfold nodeCount at hput
    simp only [] at hput
    omega
  · have hput := cnt_putNode x.nodes n { n with subs := assocDel n.subs cid } h.paths.1
      (by show getNode x.nodes n.path = some n; rw [getNode_path hn]; exact hn)
    have hnsw : NodesWF (putNode x.nodes { n with subs := assocDel n.subs cid }) :=
      h.putNode _ ⟨assocDel_keys_nodup _ _ hnw.subs, hnw.shared⟩
    obtain ⟨ht, htc⟩ := trim_ok _ p p.length hnsw
    refine ⟨ht, ?_⟩
    show (cnt (trim (putNode x.nodes { n with subs := assocDel n.subs cid }) p p.length) : Int) =
      (cnt x.nodes : Int) - (if (assocGet n.subs cid).isSome = true then 1 else 0)
    rw [htc]
    unfold nodeCount at hput
    simp only [] at hput
    have hl := length_assocDel n.subs cid hnw.subs
    cases hs : (assocGet n.subs cid).isSome <;> simp [hs] at hl ⊢ <;> omega

/-- a particle is rewritten in a field other than `subs` / `shared` -/
theorem putSame_ok (ns : List Node) (n n' : Node) (h : NodesWF ns) (hg : getNode ns n'.path = some n)
    (h1 : n'.subs = n.subs) (h2 : n'.shared = n.shared) : NodesWF (putNode ns n') ∧ cnt (putNode ns n') = cnt ns := by
  have hnw := h.nodes n (getNode_mem hg)
  refine ⟨h.putNode n' ⟨h1 ▸ hnw.subs, h2 ▸ hnw.shared⟩, ?_⟩
  have := cnt_putNode ns n n' h.paths.1 hg
  unfold nodeCount at this
  rw [h1, h2] at this
  omega

theorem retainMessage_ok (x : Index) (topic payload : Str) (fl : Bool) (h : NodesWF x.nodes) :
    NodesWF (retainMessage x topic payload fl).1.nodes ∧ cnt (retainMessage x topic payload fl).1.nodes = cnt x.nodes := by
  unfold retainMessage
  extract_lets p ns
  obtain ⟨hns, hc⟩ := setPath_ok x.nodes p h
  split
  · exact ⟨h, rfl⟩
  · rename_i n hn
    have hg : getNode ns n.path = some n := by rw [getNode_path hn]; exact hn
    split
    · obtain ⟨a, b⟩ := putSame_ok ns n { n with retainPath := topic } hns hg rfl rfl
      exact ⟨a, b.trans hc⟩
    · obtain ⟨a, b⟩ := putSame_ok ns n { n with retainPath := [] } hns hg rfl rfl
      obtain ⟨c, d⟩ := trim_ok _ p p.length a
      exact ⟨c, d.trans (b.trans hc)⟩

theorem inlineSubscribe_ok (x : Index) (id : Nat) (s : Sub) (h : NodesWF x.nodes) :
    NodesWF (inlineSubscribe x id s).1.nodes ∧ cnt (inlineSubscribe x id s).1.nodes = cnt x.nodes := by
  unfold inlineSubscribe
  extract_lets p ns
  obtain ⟨hns, hc⟩ := setPath_ok x.nodes p h
  split
  · exact ⟨h, rfl⟩
  · rename_i n hn
    have hg : getNode ns n.path = some n := by rw [getNode_path hn]; exact hn
    obtain ⟨a, b⟩ := putSame_ok ns n { n with inline := assocSet n.inline id s } hns hg rfl rfl
    exact ⟨a, b.trans hc⟩

theorem inlineUnsubscribe_ok (x : Index) (id : Nat) (f : Str) (h : NodesWF x.nodes) :
    NodesWF (inlineUnsubscribe x id f).1.nodes ∧ cnt (inlineUnsubscribe x id f).1.nodes = cnt x.nodes := by
  unfold inlineUnsubscribe
  extract_lets p
  split
  · exact ⟨h, rfl⟩
  · rename_i n hs
    have hn := seek_some_cnt hs
    have hg : getNode x.nodes n.path = some n := by rw [getNode_path hn]; exact hn
    extract_lets existed inl ns
    obtain ⟨a, b⟩ := putSame_ok x.nodes n { n with inline := inl } h hg rfl rfl
    show NodesWF (if inl.isEmpty = true then trim ns p p.length else ns) ∧
      cnt (if inl.isEmpty = true then trim ns p p.length else ns) = cnt x.nodes
    split
    · obtain ⟨c, d⟩ := trim_ok ns p p.length a
      exact ⟨c, d.trans b⟩
    · exact ⟨a, b⟩

end Mochi.Topics

namespace Mochi.Broker
open Mochi.Topics

/-- the index is well-formed and `Info.Subscriptions` is its number of subscription entries -/
def SubsOK (k : Core) : Prop := NodesWF k.topics.nodes ∧ k.subs = cnt k.topics.nodes

theorem tickRetainedLoop_nodes (s : Server) (now : Int) :
    (tickRetained.tickRetainedLoop s now).topics.nodes = s.topics.nodes ∧
      (tickRetained.tickRetainedLoop s now).info = s.info := by
  unfold tickRetained.tickRetainedLoop
  refine foldl_inv (fun (x : Server) => x.topics.nodes = s.topics.nodes ∧ x.info = s.info) _ _ _ ⟨rfl, rfl⟩ ?_
  intro b e h
  extract_lets pk expired enforced
  split
  · exact h
  · exact h

theorem SubsOK_laws : Laws SubsOK := by
  refine ⟨?_, ?_, ?_, ?_, ?_, ?_⟩
  · intro s cid sb h
    obtain ⟨a, b⟩ := subscribe_ok s.topics cid sb h.1
    have h2 : s.info.subs = (cnt s.topics.nodes : Int) := h.2
    refine ⟨a, ?_⟩
    show (if (subscribe s.topics cid sb).2 = true then ({ s.info with subs := s.info.subs + 1 } : Info) else s.info).subs =
      (cnt (subscribe s.topics cid sb).1.nodes : Int)
    rw [b]
    split
    · show s.info.subs + 1 = _
      rw [h2]
    · show s.info.subs = _
      rw [h2]; simp
  · intro s f cid h
    obtain ⟨a, b⟩ := unsubscribe_ok s.topics f cid h.1
    have h2 : s.info.subs = (cnt s.topics.nodes : Int) := h.2
    refine ⟨a, ?_⟩
    show (if (unsubscribe s.topics f cid).2 = true then ({ s.info with subs := s.info.subs - 1 } : Info) else s.info).subs =
      (cnt (unsubscribe s.topics f cid).1.nodes : Int)
    rw [b]
    split
    · show s.info.subs - 1 = _
      rw [h2]
    · show s.info.subs = _
      rw [h2]; simp
  · intro s pk h
    unfold retainMsg
    split
    · exact h
    · obtain ⟨a, b⟩ := retainMessage_ok s.topics pk.topic pk.payload pk.retain h.1
      refine ⟨a, ?_⟩
      show s.info.subs = (cnt (retainMessage s.topics pk.topic pk.payload pk.retain).1.nodes : Int)
      rw [b]
      exact h.2
  · intro s now h
    obtain ⟨a, b⟩ := tickRetainedLoop_nodes s now
    unfold tickRetained
    show NodesWF (tickRetained.tickRetainedLoop s now).topics.nodes ∧
      (tickRetained.tickRetainedLoop s now).info.subs = cnt (tickRetained.tickRetainedLoop s now).topics.nodes
    rw [a, b]
    exact h
  · intro s id sb h
    obtain ⟨a, b⟩ := inlineSubscribe_ok s.topics id sb h.1
    refine ⟨a, ?_⟩
    show s.info.subs = (cnt (inlineSubscribe s.topics id sb).1.nodes : Int)
    rw [b]
    exact h.2
  · intro s id f h
    obtain ⟨a, b⟩ := inlineUnsubscribe_ok s.topics id f h.1
    refine ⟨a, ?_⟩
    show s.info.subs = (cnt (inlineUnsubscribe s.topics id f).1.nodes : Int)
    rw [b]
    exact h.2

/-! ### third instance: the retained store of the index (`Topics.Retained`, whose `Len()` Go reports) has the
    keys of the retained packets `rmsgs` the model keeps beside it -/

theorem keys_assocSet {α β γ} [DecidableEq α] (m : List (α × β)) (m' : List (α × γ)) (k : α) (v : β) (v' : γ)
    (h : m.map (·.1) = m'.map (·.1)) : (assocSet m k v).map (·.1) = (assocSet m' k v').map (·.1) := by
  induction m generalizing m' with
  | nil =>
    cases m' with
    | nil => rfl
    | cons y ys => simp at h
  | cons x xs ih =>
    cases m' with
    | nil => simp at h
    | cons y ys =>
      obtain ⟨a, b⟩ := x
      obtain ⟨a', b'⟩ := y
      simp only [List.map_cons, List.cons.injEq] at h
      obtain ⟨h1, h2⟩ := h
      have h1' : a = a' := h1
      subst h1'
      unfold assocSet
      by_cases hk : a = k
      · simp only [hk, if_true, List.map_cons, h2]
      · simp only [hk, if_false, List.map_cons, ih ys h2]

theorem keys_assocDel {α β γ} [DecidableEq α] (m : List (α × β)) (m' : List (α × γ)) (k : α)
    (h : m.map (·.1) = m'.map (·.1)) : (assocDel m k).map (·.1) = (assocDel m' k).map (·.1) := by
  induction m generalizing m' with
  | nil =>
    cases m' with
    | nil => rfl
    | cons y ys => simp at h
  | cons x xs ih =>
    cases m' with
    | nil => simp at h
    | cons y ys =>
      obtain ⟨a, b⟩ := x
      obtain ⟨a', b'⟩ := y
      simp only [List.map_cons, List.cons.injEq] at h
      obtain ⟨h1, h2⟩ := h
      have h1' : a = a' := h1
      subst h1'
      have := ih ys h2
      unfold assocDel at this ⊢
      rw [List.filter_cons, List.filter_cons]
      by_cases hk : a = k
      · have hd : decide (a ≠ k) = false := by simp [hk]
        simp only [hd, Bool.false_eq_true, if_false]
        exact this
      · have hd : decide (a ≠ k) = true := by simpa using hk
        simp only [hd, if_true, List.map_cons, this]

/-- the retained packets and the index's retained store have the same topics, in the same order -/
def RetKeysOK (k : Core) : Prop := k.rmsgs.map (·.1) = k.topics.retained.map (·.1)

theorem retainMessage_retained (x : Index) (topic payload : Str) (fl : Bool) :
    (retainMessage x topic payload fl).1.retained =
      if payload.length > 0 then assocSet x.retained topic { topic := topic, payload := payload, retain := fl }
      else assocDel x.retained topic := by
  unfold retainMessage
  extract_lets p ns
  obtain ⟨n, hn⟩ := getNode_setPath_self x.nodes p (pathFrom_ne_nil _ _)
  rw [show getNode ns p = some n from hn]
  simp only []
  split <;> rfl

theorem RetKeysOK_laws : Laws RetKeysOK := by
  refine ⟨?_, ?_, ?_, ?_, ?_, ?_⟩
  · intro s cid sb h
    show s.rmsgs.map (·.1) = (subscribe s.topics cid sb).1.retained.map (·.1)
    have : (subscribe s.topics cid sb).1.retained = s.topics.retained := by
      unfold subscribe
      extract_lets ls group p ns p2 ns2
      (repeat' split) <;> rfl
    rw [this]; exact h
  · intro s f cid h
    show s.rmsgs.map (·.1) = (unsubscribe s.topics f cid).1.retained.map (·.1)
    have : (unsubscribe s.topics f cid).1.retained = s.topics.retained := by
      unfold unsubscribe
      extract_lets ls share p group
      (repeat' split) <;> rfl
    rw [this]; exact h
  · intro s pk h
    unfold retainMsg
    split
    · exact h
    · show (if pk.payload.length > 0 then assocSet s.rmsgs pk.topic _ else assocDel s.rmsgs pk.topic).map (·.1) =
        (retainMessage s.topics pk.topic pk.payload pk.retain).1.retained.map (·.1)
      rw [retainMessage_retained]
      split
      · exact keys_assocSet _ _ _ _ _ h
      · exact keys_assocDel _ _ _ h
  · intro s now h
    unfold tickRetained
    show (tickRetained.tickRetainedLoop s now).rmsgs.map (·.1) =
      (tickRetained.tickRetainedLoop s now).topics.retained.map (·.1)
    unfold tickRetained.tickRetainedLoop
    refine foldl_inv (fun (x : Server) => x.rmsgs.map (·.1) = x.topics.retained.map (·.1)) _ _ _ h ?_
    intro b e hb
    extract_lets pk expired enforced
    split
    · exact keys_assocDel _ _ _ hb
    · exact hb
  · intro s id sb h
    show s.rmsgs.map (·.1) = (inlineSubscribe s.topics id sb).1.retained.map (·.1)
    have : (inlineSubscribe s.topics id sb).1.retained = s.topics.retained := by
      unfold inlineSubscribe
      extract_lets p ns
      split <;> rfl
    rw [this]; exact h
  · intro s id f h
    show s.rmsgs.map (·.1) = (inlineUnsubscribe s.topics id f).1.retained.map (·.1)
    have : (inlineUnsubscribe s.topics id f).1.retained = s.topics.retained := by
      unfold inlineUnsubscribe
      extract_lets p
      split <;> rfl
    rw [this]; exact h

/-- after every history the retained packets and `Topics.Retained` have the same topics -/
theorem RetKeys_run (caps : Caps) (ops : List Op) :
    (run (init caps) ops).rmsgs.map (·.1) = (run (init caps) ops).topics.retained.map (·.1) :=
  run_coreP RetKeysOK_laws _ ops rfl

/-- the `subs` conjunct of `Counted` -/
def CountedSubs (s : Server) : Prop := NodesWF s.topics.nodes ∧ s.info.subs = cnt s.topics.nodes

theorem CountedSubs_init (caps : Caps) : CountedSubs (init caps) := ⟨NodesWF.nil, rfl⟩

theorem CountedSubs_step (s : Server) (op : Op) (h : CountedSubs s) : CountedSubs (step s op).1 :=
  step_coreP SubsOK_laws s op h

theorem CountedSubs_run (caps : Caps) (ops : List Op) : CountedSubs (run (init caps) ops) :=
  run_coreP SubsOK_laws _ ops (CountedSubs_init caps)

end Mochi.Broker
