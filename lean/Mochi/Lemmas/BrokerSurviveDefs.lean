import Mochi.Lemmas.BrokerIndexSync
/-!
# C09 — definitions: the in-flight record of one exchange, "the session holds it", "this op may end it"

* `Rec c k p`      — client object `c` has, under packet identifier `k`, the record of the exchange that delivered
                     payload `p`: the PUBLISH (type 3) with that payload or the PUBREL (type 6) `processPubrec` put in
                     its place (the packet identifier is the key — `flSet` replaces the record under the same id);
                     a record deferred by flow control (`expiry = -1`, finding F09) does not count;
* `Holds s cid k p` — the object REGISTERED under `cid` has that record;
* `Ends s cid k op` — decidable: `op` may legitimately end the exchange in state `s`;
* `RK`, `Surv`, `SurvW` — the relations the handler walk of `Mochi/Lemmas/BrokerSurvive.lean` is organised by.
-/
namespace Mochi.Broker
open Mochi.Topics

/-! ### the record -/

/-- `m` is the record of the exchange that delivered payload `p`: the PUBLISH itself or the PUBREL that replaced it
    after PUBREC; not a record deferred by flow control (`expiry = -1`, F09) -/
def recOk (m : Msg) (p : Str) : Bool :=
  decide (0 ≤ m.expiry) && ((m.type == 3 && m.payload == p) || m.type == 6)

def Rec (c : Client) (k : Nat) (p : Str) : Prop := ∃ m, flGet c k = some m ∧ recOk m p = true

instance (c : Client) (k : Nat) (p : Str) : Decidable (Rec c k p) :=
  match h : flGet c k with
  | some m =>
    if h' : recOk m p = true then isTrue ⟨m, h, h'⟩
    else isFalse (by rintro ⟨m', hm, hr⟩; rw [h] at hm; cases hm; exact h' hr)
  | none => isFalse (by rintro ⟨m', hm, _⟩; rw [h] at hm; cases hm)

/-- **the session registered under `cid` holds the record of exchange `k` (payload `p`)** -/
def Holds (s : Server) (cid : Str) (k : Nat) (payload : Str) : Prop :=
  ∃ i, assocGet s.clients cid = some i ∧ Rec (getObj s i) k payload

instance (s : Server) (cid : Str) (k : Nat) (p : Str) : Decidable (Holds s cid k p) :=
  match h : assocGet s.clients cid with
  | some i =>
    if h' : Rec (getObj s i) k p then isTrue ⟨i, h, h'⟩
    else isFalse (by rintro ⟨i', hi, hr⟩; rw [h] at hi; cases hi; exact h' hr)
  | none => isFalse (by rintro ⟨i', hi, _⟩; rw [h] at hi; cases hi)

/-! ### what may end the exchange -/

/-- the session of this object ends when its connection does (`attachClient`'s clean-up: `expire`) -/
def sessionClean (c : Client) : Bool := (c.ver == 5 && c.sei == 0) || (c.ver < 5 && c.clean)

/-- the packets that end (or overwrite — F10: ONE in-flight map serves both directions) the record under `k`:
    PUBACK k, PUBCOMP k, PUBREC k with a failure (or undefined) reason code, and the client's OWN PUBLISH / PUBREL
    with packet identifier `k` -/
def pkEnds (k : Nat) : InPk → Bool
  | .puback id _ => id == k
  | .pubcomp id _ => id == k
  | .pubrec id rc => id == k && (rc ≥ 0x80 || !reasonValid 5 rc)
  | .pubrel id _ => id == k
  | .publish _ _ _ id _ _ _ _ => id == k
  | _ => false

/-- the session expiry interval after this packet (only DISCONNECT carries one; `processDisconnect` refuses to raise it
    from 0) -/
def seiAfter (c : Client) : InPk → Nat
  | .disconnect _ (some v) => if v > 0 && c.sei == 0 then c.sei else v
  | _ => c.sei

/-- the session of object `c` ends with its connection: it is a clean one and was not taken over -/
def endsWithConn0 (c : Client) : Bool := sessionClean c && !c.takenOver

/-- the session of object `c` ends with its connection once `pk` is handled -/
def endsWithConn (c : Client) (pk : InPk) : Bool := endsWithConn0 { c with sei := seiAfter c pk }

/-- handling `pk` for object `j` ends the connection: the handler returns an error, or closes the connection
    (DISCONNECT), or — with the harness's barrier — the barrier PINGREQ's handler returns an error -/
def connEnds (s : Server) (j : Nat) (pk : InPk) (barrier : Bool) : Bool :=
  let r := receivePacket s j pk
  r.2.2.isSome || !(getObj r.1 j).isOpen || (barrier && (receivePacket r.1 j .pingreq).2.2.isSome)

/-- one inbound packet on connection `conn`, for client id `cid` -/
def EndsRecv (s : Server) (cid : Str) (k : Nat) (conn : Nat) (pk : InPk) (barrier : Bool) : Prop :=
  match assocGet s.connOf conn with
  | some j => (getObj s j).id = cid ∧ (getObj s j).isOpen = true ∧
      (pkEnds k pk = true ∨ (connEnds s j pk barrier = true ∧ endsWithConn (getObj s j) pk = true))
  | none => False

instance (s : Server) (cid : Str) (k conn : Nat) (pk : InPk) (b : Bool) : Decidable (EndsRecv s cid k conn pk b) := by
  unfold EndsRecv; split <;> infer_instance

/-- the connection's handler leaves its read loop (the connection is lost): the session ends if it is a clean one -/
def EndsDrop (s : Server) (cid : Str) (conn : Nat) : Prop :=
  match assocGet s.connOf conn with
  | some j => (getObj s j).id = cid ∧ (getObj s j).stopped = false ∧ endsWithConn0 (getObj s j) = true
  | none => False

instance (s : Server) (cid : Str) (conn : Nat) : Decidable (EndsDrop s cid conn) := by
  unfold EndsDrop; split <;> infer_instance

/-- a handler parked by `dropHold` / `dropHoldEarly` runs its session clean-up -/
def EndsParked (s : Server) (cid : Str) (conn : Nat) : Prop :=
  match assocGet s.connOf conn with
  | some j => (getObj s j).id = cid ∧ (s.parked.contains j = true ∨ s.parkedEarly.contains j = true) ∧
      endsWithConn0 (getObj s j) = true
  | none => False

instance (s : Server) (cid : Str) (conn : Nat) : Decidable (EndsParked s cid conn) := by
  unfold EndsParked; split <;> infer_instance

/-- an admitted CONNECT for `cid` discards the session: Clean Start, or the old session is an MQTT 3 clean one -/
def EndsTakeover (s : Server) (cid : Str) (k' : Connect) : Prop :=
  k'.id = cid ∧ (k'.clean = true ∨
    match assocGet s.clients cid with
    | some e => ((getObj s e).clean && (getObj s e).ver < 5) = true
    | none => False)

instance (s : Server) (cid : Str) (k' : Connect) : Decidable (EndsTakeover s cid k') := by
  unfold EndsTakeover
  cases assocGet s.clients cid <;> infer_instance

/-- a record is removed by the `inflight` housekeeping at virtual time `t` -/
def recExpired (caps : Caps) (m : Msg) (t : Int) : Bool :=
  (m.ver == 5 && m.expiry > 0 && m.expiry < t) || (caps.maxMessageExpiry > 0 && t - m.created > caps.maxMessageExpiry)

/-- the peer sends one packet and vanishes: the connection ends in any case -/
def EndsRecvCut (s : Server) (cid : Str) (k : Nat) (conn : Nat) (pk : InPk) : Prop :=
  match assocGet s.connOf conn with
  | some j => (getObj s j).id = cid ∧ (getObj s j).isOpen = true ∧ (getObj s j).stopped = false ∧
      (pkEnds k pk = true ∨ endsWithConn (getObj s j) pk = true)
  | none => False

instance (s : Server) (cid : Str) (k conn : Nat) (pk : InPk) : Decidable (EndsRecvCut s cid k conn pk) := by
  unfold EndsRecvCut; split <;> infer_instance

/-- a parked handler runs on: a parked CONNECT as `connect` (stage 1) / with only its barrier left (stage 2); a
    handler parked by `dropHold` / `dropHoldEarly` runs its clean-up -/
def EndsRelease (s : Server) (cid : Str) (k : Nat) (conn : Nat) : Prop :=
  match s.pending.find? (·.conn == conn) with
  | some p =>
    (p.stage = 1 ∧ p.refuse = none ∧ EndsTakeover s cid p.k) ∨
    ((getObj (connectRelease { s with pending := s.pending.filter (·.conn != conn) } p).1 p.obj).isOpen = true ∧
      EndsRecv (connectRelease { s with pending := s.pending.filter (·.conn != conn) } p).1 cid k conn .pingreq false)
  | none => EndsParked s cid conn

instance (s : Server) (cid : Str) (k conn : Nat) : Decidable (EndsRelease s cid k conn) := by
  unfold EndsRelease; split <;> infer_instance

/-- the `clients` housekeeping finds the session due -/
def EndsDue (s : Server) (cid : Str) (t : Int) : Prop :=
  match assocGet s.clients cid with
  | some i => sessionDue s.caps (getObj s i) t = true
  | none => False

instance (s : Server) (cid : Str) (t : Int) : Decidable (EndsDue s cid t) := by
  unfold EndsDue; split <;> infer_instance

/-- the `inflight` housekeeping finds the record expired -/
def EndsExpired (s : Server) (cid : Str) (k : Nat) (t : Int) : Prop :=
  match assocGet s.clients cid with
  | some i =>
    (match flGet (getObj s i) k with
     | some m => recExpired s.caps m t = true
     | none => False)
  | none => False

instance (s : Server) (cid : Str) (k : Nat) (t : Int) : Decidable (EndsExpired s cid k t) := by
  unfold EndsExpired; split
  · split <;> infer_instance
  · infer_instance

/-- **the ops that may legitimately end exchange `k` of client `cid` in state `s`** -/
def Ends (s : Server) (cid : Str) (k : Nat) : Op → Prop
  | .recv conn pk => EndsRecv s cid k conn pk true
  | .recvCut conn pk => EndsRecvCut s cid k conn pk
  | .drop conn => EndsDrop s cid conn
  | .dropHold _ => False            -- parked BEFORE the session clean-up: the `release` ends it
  | .dropHoldEarly _ => False
  | .release conn => EndsRelease s cid k conn
  | .connect conn k' =>
    (refuseCode s k' (parseConnect s conn k') = none ∧ EndsTakeover s cid k') ∨
    -- the barrier PINGREQ of the op is an inbound packet on the new connection like any other
    EndsRecv (connect s conn k').1 cid k conn .pingreq false
  | .connectHold conn k' stage =>
    -- parked in the authentication hook (stage 1): nothing is registered yet
    stage ≠ 1 ∧ refuseCode s k' (parseConnect s conn k') = none ∧ EndsTakeover s cid k'
  | .tick kind t => (kind = "clients" ∧ EndsDue s cid t) ∨ (kind = "inflight" ∧ EndsExpired s cid k t)
  | .inlinePublish _ _ _ qos =>
    -- the inline client (object 0) "receives" a PUBLISH whose packet identifier is its QoS
    (getObj s 0).id = cid ∧ qos = k
  | .inlineSubscribe _ _ => False
  | .inlineUnsubscribe _ _ => False

instance (s : Server) (cid : Str) (k : Nat) (op : Op) : Decidable (Ends s cid k op) := by
  cases op <;> unfold Ends <;> infer_instance

/-! ### client level: what keeps the record -/

theorem Rec.of_infl {a b : Client} {k : Nat} {p : Str} (h : b.inflight = a.inflight) (r : Rec a k p) : Rec b k p := by
  obtain ⟨m, hm, ho⟩ := r
  exact ⟨m, by unfold flGet at hm ⊢; rw [h]; exact hm, ho⟩

theorem flGet_flSet_ne (c : Client) (m : Msg) (k : Nat) (h : m.id ≠ k) : flGet (flSet c m).1 k = flGet c k := by
  unfold flSet
  split
  · unfold flGet
    show List.find? _ (c.inflight.map _) = _
    induction c.inflight with
    | nil => rfl
    | cons x xs ih =>
      rw [List.map_cons, List.find?_cons, List.find?_cons]
      by_cases hx : x.id = m.id
      · have h1 : (x.id == m.id) = true := by simpa using hx
        have h2 : (m.id == k) = false := by simpa using h
        have h3 : (x.id == k) = false := by rw [hx]; exact h2
        simp only [h1, if_true, h2, h3]
        exact ih
      · have h1 : (x.id == m.id) = false := by simpa using hx
        simp only [h1, Bool.false_eq_true, if_false]
        cases (x.id == k) with
        | true => rfl
        | false => exact ih
  · unfold flGet
    show List.find? _ (c.inflight ++ [m]) = _
    rw [List.find?_append]
    have h2 : (m.id == k) = false := by simpa using h
    cases List.find? (fun x => x.id == k) c.inflight with
    | some y => rfl
    | none => simp [h2]

theorem flGet_flDelete_ne (c : Client) (id k : Nat) (h : id ≠ k) : flGet (flDelete c id).1 k = flGet c k := by
  unfold flDelete flGet
  show List.find? _ (c.inflight.filter _) = _
  induction c.inflight with
  | nil => rfl
  | cons x xs ih =>
    rw [List.filter_cons, List.find?_cons]
    by_cases hx : x.id = id
    · have h1 : (x.id != id) = false := by simp [hx]
      have h3 : (x.id == k) = false := by rw [hx]; simpa using h
      simp only [h1, Bool.false_eq_true, if_false, h3]
      exact ih
    · have h1 : (x.id != id) = true := by simpa using hx
      simp only [h1, if_true, List.find?_cons]
      cases (x.id == k) with
      | true => rfl
      | false => exact ih

theorem flGet_flSet_self_sv (c : Client) (m : Msg) : flGet (flSet c m).1 m.id = some m := by
  unfold flSet
  split
  · rename_i h
    unfold flGet at h ⊢
    obtain ⟨x, hx⟩ := Option.isSome_iff_exists.mp h
    show List.find? _ (c.inflight.map _) = _
    have hmem := List.mem_of_find?_eq_some hx
    have hid : x.id = m.id := by simpa using List.find?_some hx
    clear hx h
    generalize c.inflight = l at hmem
    induction l with
    | nil => cases hmem
    | cons y ys ih =>
      rw [List.map_cons, List.find?_cons]
      by_cases hy : y.id = m.id
      · simp [hy]
      · have hy' : (y.id == m.id) = false := by simpa using hy
        simp only [hy', Bool.false_eq_true, if_false]
        apply ih
        rcases List.mem_cons.mp hmem with h1 | h1
        · subst h1; exact absurd hid hy
        · exact h1
  · rename_i h
    unfold flGet at h ⊢
    show List.find? _ (c.inflight ++ [m]) = _
    rw [List.find?_append]
    have : List.find? (fun x => x.id == m.id) c.inflight = none := by simpa using h
    simp [this]

/-- with one record per identifier, a member of the in-flight list is what its identifier retrieves -/
theorem flGet_of_mem (c : Client) (m : Msg) (hn : (c.inflight.map (·.id)).Nodup) (hm : m ∈ c.inflight) :
    flGet c m.id = some m := by
  unfold flGet
  generalize c.inflight = l at hn hm
  induction l with
  | nil => cases hm
  | cons x xs ih =>
    rw [List.map_cons, List.nodup_cons] at hn
    rw [List.find?_cons]
    rcases List.mem_cons.mp hm with h | h
    · subst h; simp
    · have hx : x.id ≠ m.id := fun e => hn.1 (e ▸ List.mem_map_of_mem h)
      have : (x.id == m.id) = false := by simpa using hx
      rw [this]
      exact ih hn.2 h

theorem Rec.ne_of_none {c : Client} {k id : Nat} {p : Str} (r : Rec c k p) (h : flGet c id = none) : id ≠ k := by
  rintro rfl
  obtain ⟨m, hm, _⟩ := r
  rw [h] at hm; cases hm

/-- a member of the in-flight list that is not a record of the exchange has another identifier -/
theorem Rec.ne_of_mem {c : Client} {k : Nat} {p : Str} (r : Rec c k p) (hn : (c.inflight.map (·.id)).Nodup)
    {m : Msg} (hm : m ∈ c.inflight) (hb : recOk m p = false) : m.id ≠ k := by
  intro e
  obtain ⟨m0, hm0, ho⟩ := r
  have := flGet_of_mem c m hn hm
  rw [e, hm0] at this
  cases this
  rw [ho] at hb; cases hb

/-- `b` keeps the record of exchange `k` of `a`, and the parameters that decide whether the session ends with its
    connection -/
structure RK (k : Nat) (a b : Client) : Prop where
  keep : ∀ p, Rec a k p → Rec b k p
  ver : b.ver = a.ver
  clean : b.clean = a.clean
  sei : b.sei = a.sei
  takenOver : b.takenOver = a.takenOver

/-- closes `RK k a b` when `b` is `a` with fields other than the five rewritten -/
macro "rk_rfl" : tactic => `(tactic| exact ⟨fun _ h => h, rfl, rfl, rfl, rfl⟩)

theorem RK.refl (k : Nat) (a : Client) : RK k a a := by rk_rfl
theorem RK.trans {k : Nat} {a b c : Client} (h : RK k a b) (g : RK k b c) : RK k a c :=
  ⟨fun p r => g.keep p (h.keep p r), g.ver.trans h.ver, g.clean.trans h.clean, g.sei.trans h.sei,
   g.takenOver.trans h.takenOver⟩
theorem RK.of_eq {k : Nat} {a b : Client} (h : a = b) : RK k a b := h ▸ RK.refl k a

/-- the same except in fields other than the in-flight list, which is kept -/
theorem RK.of_sess {k : Nat} {a b : Client} (h : SessEq a b) (hi : b.inflight = a.inflight) : RK k a b :=
  ⟨fun _ r => r.of_infl hi, h.ver.symm, h.clean.symm, h.sei.symm, h.takenOver.symm⟩

theorem RK.flSet_ne' (k : Nat) (c : Client) (m : Msg) (h : m.id ≠ k) : RK k c (flSet c m).1 := by
  refine ⟨fun p r => ?_, ?_, ?_, ?_, ?_⟩
  · obtain ⟨m0, hm0, ho⟩ := r
    exact ⟨m0, by rw [flGet_flSet_ne c m k h]; exact hm0, ho⟩
  all_goals (unfold Mochi.Broker.flSet; split <;> rfl)

theorem RK.flDelete_ne' (k : Nat) (c : Client) (id : Nat) (h : id ≠ k) : RK k c (flDelete c id).1 := by
  refine ⟨fun p r => ?_, rfl, rfl, rfl, rfl⟩
  obtain ⟨m0, hm0, ho⟩ := r
  exact ⟨m0, by rw [flGet_flDelete_ne c id k h]; exact hm0, ho⟩

/-- rewriting the record under `m.id` keeps exchange `k` if `m` is itself a record of the exchange (PUBREC → PUBREL) -/
theorem RK.flSet_ok' (k : Nat) (c : Client) (m : Msg) (h : m.id = k → ∀ p, recOk m p = true) : RK k c (flSet c m).1 := by
  by_cases hk : m.id = k
  · refine ⟨fun p _ => ⟨m, by rw [← hk]; exact flGet_flSet_self_sv c m, h hk p⟩, ?_, ?_, ?_, ?_⟩
    all_goals (unfold Mochi.Broker.flSet; split <;> rfl)
  · exact RK.flSet_ne' k c m hk

theorem RK.decSend' (k : Nat) (c : Client) : RK k c (decSend c) := by
  unfold Mochi.Broker.decSend; split <;> rk_rfl
theorem RK.incSend' (k : Nat) (c : Client) : RK k c (incSend c) := by
  unfold Mochi.Broker.incSend; split <;> rk_rfl
theorem RK.decRecv' (k : Nat) (c : Client) : RK k c (decRecv c) := by
  unfold Mochi.Broker.decRecv; split <;> rk_rfl
theorem RK.incRecv' (k : Nat) (c : Client) : RK k c (incRecv c) := by
  unfold Mochi.Broker.incRecv; split <;> rk_rfl
theorem RK.aliasOutSet' (k : Nat) (c : Client) (t : Str) : RK k c (aliasOutSet c t).1 := by
  unfold Mochi.Broker.aliasOutSet
  split
  · rk_rfl
  · split
    · rk_rfl
    · split <;> rk_rfl

theorem RK.decSend {k : Nat} {a b : Client} (h : RK k a b) : RK k a (decSend b) := h.trans (RK.decSend' k b)
theorem RK.incSend {k : Nat} {a b : Client} (h : RK k a b) : RK k a (incSend b) := h.trans (RK.incSend' k b)
theorem RK.decRecv {k : Nat} {a b : Client} (h : RK k a b) : RK k a (decRecv b) := h.trans (RK.decRecv' k b)
theorem RK.incRecv {k : Nat} {a b : Client} (h : RK k a b) : RK k a (incRecv b) := h.trans (RK.incRecv' k b)
theorem RK.flSet_ne {k : Nat} {a b : Client} (h : RK k a b) (m : Msg) (hm : m.id ≠ k) : RK k a (flSet b m).1 :=
  h.trans (RK.flSet_ne' k b m hm)
theorem RK.flDelete_ne {k : Nat} {a b : Client} (h : RK k a b) (id : Nat) (hm : id ≠ k) : RK k a (flDelete b id).1 :=
  h.trans (RK.flDelete_ne' k b id hm)

/-- a condition on the identifier that only has to hold when `a` holds the record at all -/
theorem RK.flSet_if {k : Nat} {a b : Client} (h : RK k a b) (m : Msg) (hm : ∀ p, Rec a k p → m.id ≠ k) :
    RK k a (flSet b m).1 := by
  refine ⟨fun p r => ((h.flSet_ne m (hm p r)).keep p r), ?_, ?_, ?_, ?_⟩
  all_goals (unfold Mochi.Broker.flSet; split)
  all_goals first | exact h.ver | exact h.clean | exact h.sei | exact h.takenOver

theorem RK.flDelete_if {k : Nat} {a b : Client} (h : RK k a b) (id : Nat) (hm : ∀ p, Rec a k p → id ≠ k) :
    RK k a (flDelete b id).1 :=
  ⟨fun p r => ((h.flDelete_ne id (hm p r)).keep p r), h.ver, h.clean, h.sei, h.takenOver⟩

theorem RK.get_set {k : Nat} {s : Server} {i : Nat} {c d : Client} (h1 : RK k (getObj s i) c) (h2 : RK k c d) :
    RK k (getObj (setObj s i c) i) d := by
  rcases getObj_setObj_self_cases s i c with e | e
  · rw [e]; exact h2
  · rw [e]; exact h1.trans h2

/-! ### server level -/

/-- every object keeps the record of exchange `k` and its session parameters -/
def Surv (k : Nat) (s s' : Server) : Prop := ∀ x, RK k (getObj s x) (getObj s' x)

/-- work done for object `j`: every OTHER object keeps the record of exchange `k`; object `j` itself does if `own` -/
def SurvW (j k : Nat) (own : Prop) (s s' : Server) : Prop := ∀ x, (x ≠ j ∨ own) → RK k (getObj s x) (getObj s' x)

theorem Surv.refl (k : Nat) (s : Server) : Surv k s s := fun _ => RK.refl k _
theorem Surv.trans {k : Nat} {s s1 s2 : Server} (h : Surv k s s1) (g : Surv k s1 s2) : Surv k s s2 :=
  fun x => (h x).trans (g x)
theorem Surv.upd {k : Nat} {s0 s s' : Server} (h : Surv k s0 s) (ho : s'.objs = s.objs) : Surv k s0 s' :=
  fun x => by rw [getObj_of_objs_eq ho x]; exact h x
/-- writing an object related to what was there at the START -/
theorem Surv.set {k : Nat} {s0 s : Server} (h : Surv k s0 s) (i : Nat) (c : Client) (hc : RK k (getObj s0 i) c) :
    Surv k s0 (setObj s i c) := by
  intro x
  by_cases hx : x = i
  · subst hx
    rcases getObj_setObj_self_cases s x c with e | e <;> rw [e]
    · exact hc
    · exact h x
  · rw [getObj_setObj_ne s i x c hx]; exact h x

theorem SurvW.refl (j k : Nat) (own : Prop) (s : Server) : SurvW j k own s s := fun _ _ => RK.refl k _
theorem SurvW.trans {j k : Nat} {own : Prop} {s s1 s2 : Server} (h : SurvW j k own s s1) (g : SurvW j k own s1 s2) :
    SurvW j k own s s2 := fun x hx => (h x hx).trans (g x hx)
theorem Surv.w {k : Nat} {s s' : Server} (h : Surv k s s') (j : Nat) (own : Prop) : SurvW j k own s s' :=
  fun x _ => h x
theorem SurvW.surv {j k : Nat} {own : Prop} {s0 s s' : Server} (h : SurvW j k own s0 s) (g : Surv k s s') :
    SurvW j k own s0 s' := h.trans (g.w j own)
theorem SurvW.weaken {j k : Nat} {own own' : Prop} {s s' : Server} (h : SurvW j k own s s') (hw : own' → own) :
    SurvW j k own' s s' := fun x hx => h x (hx.imp (fun a => a) hw)
theorem SurvW.upd {j k : Nat} {own : Prop} {s0 s s' : Server} (h : SurvW j k own s0 s) (ho : s'.objs = s.objs) :
    SurvW j k own s0 s' := fun x hx => by rw [getObj_of_objs_eq ho x]; exact h x hx
/-- the acting object is rewritten: related to what is there NOW, if `own` -/
theorem SurvW.set {j k : Nat} {own : Prop} {s0 s : Server} (h : SurvW j k own s0 s) (c : Client)
    (hc : own → RK k (getObj s j) c) : SurvW j k own s0 (setObj s j c) := by
  intro x hx
  by_cases hxj : x = j
  · subst hxj
    have ho : own := hx.resolve_left (fun n => n rfl)
    rcases getObj_setObj_self_cases s x c with e | e <;> rw [e]
    · exact (h x hx).trans (hc ho)
    · exact h x hx
  · rw [getObj_setObj_ne s j x c hxj]; exact h x hx
theorem SurvW.mod {j k : Nat} {own : Prop} {s0 s : Server} (h : SurvW j k own s0 s) (f : Client → Client)
    (hf : own → RK k (getObj s j) (f (getObj s j))) : SurvW j k own s0 (modObj s j f) := h.set _ hf
theorem SurvW.fst_mk {α} {j k : Nat} {own : Prop} {s0 x : Server} {y : α} (h : SurvW j k own s0 x) :
    SurvW j k own s0 (x, y).1 := h
/-- the acting object, read back: for the absolute style -/
theorem SurvW.own {j k : Nat} {own : Prop} {s s' : Server} (h : SurvW j k own s s') (ho : own) : Surv k s s' :=
  fun x => h x (Or.inr ho)

theorem SurvW.ite_res {j k : Nat} {own : Prop} {s : Server} {p : Prop} [Decidable p] {a b : HRes}
    (ha : p → SurvW j k own s a.1) (hb : ¬ p → SurvW j k own s b.1) : SurvW j k own s (if p then a else b).1 := by
  by_cases h : p
  · rw [if_pos h]; exact ha h
  · rw [if_neg h]; exact hb h

end Mochi.Broker
