import Mochi.Lemmas.BrokerInv
/-!
# C38, part 1 — the "core" of the broker state: topic index, retained store and their two counters

`core s` is the part of the state the `retained` and `subs` counters talk about: the topic index, the
retained packets, `info.retained`, `info.subs`.  Almost every handler leaves it alone; it changes only at

* `subscribe` sites (`processSubscribe`, `inheritClientSession`),
* `unsubscribe` sites (`processUnsubscribe`, `UnsubscribeClient`),
* `retainMsg`, `tickRetained`, the inline subscribe / unsubscribe API.

`Laws P`: the predicate `P` on cores is kept by each of these sites.  One walk over all handlers
(`X_core`, mirroring the `X_good` walk of `BrokerInv.lean`) then shows: every `step` keeps every lawful
`P`.  Instantiated twice: `P := retained counter = size of the retained store` (this file) and
`P := subs counter = number of subscription entries of a well-formed index` (`CountersIndex.lean`).

The same walk records that the handlers below `detachB` / `admitA` never touch `info.connected`,
`parked`, `parkedEarly` (used for the `connected` counter).
-/
namespace Mochi.Broker
open Mochi.Topics

structure Core where
  topics : Index
  rmsgs : List (Str × Msg)
  retained : Int
  subs : Int

def core (s : Server) : Core := ⟨s.topics, s.rmsgs, s.info.retained, s.info.subs⟩

/-- `P` is kept by every site that changes the core -/
structure Laws (P : Core → Prop) : Prop where
  sub : ∀ (s : Server) (cid : Str) (sb : Sub), P (core s) →
    P (core { s with topics := (subscribe s.topics cid sb).1,
                     info := if (subscribe s.topics cid sb).2 then { s.info with subs := s.info.subs + 1 } else s.info })
  unsub : ∀ (s : Server) (f cid : Str), P (core s) →
    P (core { s with topics := (unsubscribe s.topics f cid).1,
                     info := if (unsubscribe s.topics f cid).2 then { s.info with subs := s.info.subs - 1 } else s.info })
  retain : ∀ (s : Server) (pk : Msg), P (core s) → P (core (retainMsg s pk))
  tickRetained : ∀ (s : Server) (now : Int), P (core s) → P (core (tickRetained s now))
  inlSub : ∀ (s : Server) (id : Nat) (sb : Sub), P (core s) → P (core { s with topics := (inlineSubscribe s.topics id sb).1 })
  inlUnsub : ∀ (s : Server) (id : Nat) (f : Str), P (core s) → P (core { s with topics := (inlineUnsubscribe s.topics id f).1 })

/-- `s'` results from `s` keeping `P` of the core, and without touching `info.connected`, `parked`,
    `parkedEarly` -/
structure CoreR (P : Core → Prop) (s s' : Server) : Prop where
  core : P (core s) → P (core s')
  conn : s'.info.connected = s.info.connected
  parked : s'.parked = s.parked
  parkedEarly : s'.parkedEarly = s.parkedEarly

section
variable {P : Core → Prop}

theorem CoreR.refl (s : Server) : CoreR P s s := ⟨fun x => x, rfl, rfl, rfl⟩

theorem CoreR.trans {s s1 s2 : Server} (h : CoreR P s s1) (g : CoreR P s1 s2) : CoreR P s s2 :=
  ⟨fun x => g.core (h.core x), g.conn.trans h.conn, g.parked.trans h.parked, g.parkedEarly.trans h.parkedEarly⟩

/-- a change outside the core, `info.connected`, `parked`, `parkedEarly` -/
theorem CoreR.upd {s0 s s' : Server} (h : CoreR P s0 s) (hc : Mochi.Broker.core s' = Mochi.Broker.core s)
    (h1 : s'.info.connected = s.info.connected) (h2 : s'.parked = s.parked) (h3 : s'.parkedEarly = s.parkedEarly) :
    CoreR P s0 s' :=
  ⟨fun x => by rw [hc]; exact h.core x, h1.trans h.conn, h2.trans h.parked, h3.trans h.parkedEarly⟩

theorem CoreR.set {s0 s : Server} (h : CoreR P s0 s) (i : Nat) (c : Client) : CoreR P s0 (setObj s i c) :=
  h.upd rfl rfl rfl rfl

theorem CoreR.mod {s0 s : Server} (h : CoreR P s0 s) (i : Nat) (f : Client → Client) : CoreR P s0 (modObj s i f) :=
  h.upd rfl rfl rfl rfl

theorem CoreR.fst_mk {α} {s0 x : Server} {y : α} (h : CoreR P s0 x) : CoreR P s0 (x, y).1 := h

theorem CoreR.sub (L : Laws P) {s0 s : Server} (h : CoreR P s0 s) (cid : Str) (sb : Sub) :
    CoreR P s0 { s with topics := (subscribe s.topics cid sb).1,
                        info := if (subscribe s.topics cid sb).2 then { s.info with subs := s.info.subs + 1 } else s.info } := by
  refine h.trans ⟨L.sub s cid sb, ?_, rfl, rfl⟩
  show (if (subscribe s.topics cid sb).2 = true then _ else s.info).connected = _
  split <;> rfl

theorem CoreR.unsub (L : Laws P) {s0 s : Server} (h : CoreR P s0 s) (f cid : Str) :
    CoreR P s0 { s with topics := (unsubscribe s.topics f cid).1,
                        info := if (unsubscribe s.topics f cid).2 then { s.info with subs := s.info.subs - 1 } else s.info } := by
  refine h.trans ⟨L.unsub s f cid, ?_, rfl, rfl⟩
  show (if (unsubscribe s.topics f cid).2 = true then _ else s.info).connected = _
  split <;> rfl

theorem CoreR.ite_res {s : Server} {p : Prop} [Decidable p] {a b : HRes}
    (ha : p → CoreR P s a.1) (hb : ¬ p → CoreR P s b.1) : CoreR P s (if p then a else b).1 := by
  by_cases h : p
  · rw [if_pos h]; exact ha h
  · rw [if_neg h]; exact hb h

/-! ### the delivery family -/

theorem publishToClientCore_core (s : Server) (i : Nat) (sub : Sub) (f : Bool) (pk : Msg) :
    CoreR P s (publishToClientCore s i sub f pk).1 := by
  unfold publishToClientCore
  extract_lets c out
  split
  rename_i c1 out1 heq
  clear heq
  extract_lets s1
  have hs1 : CoreR P s s1 := (CoreR.refl s).set i c1
  split
  · split
    · exact hs1.upd rfl rfl rfl rfl
    · split
      · exact hs1.upd rfl rfl rfl rfl
      · rename_i pid _
        extract_lets c2 out2 sentQuota
        split
        rename_i c3 isNew hfl
        extract_lets c4 s2 src s3
        have hs2 : CoreR P s s2 := hs1.set i c4
        have hs3 : CoreR P s s3 := by
          show CoreR P s (if isNew = true then _ else _)
          split
          · exact hs2.upd rfl rfl rfl rfl
          · exact hs2
        split
        · exact hs3.set i _
        · split <;> exact hs3
  · split <;> exact hs1

theorem publishToClient_core (s : Server) (i : Nat) (sub : Sub) (f : Bool) (pk : Msg) :
    CoreR P s (publishToClient s i sub f pk).1 := by
  unfold publishToClient
  split
  · exact CoreR.refl s
  · split
    · exact CoreR.refl s
    · exact publishToClientCore_core s i sub f pk

theorem publishToSubscribers_core (s : Server) (pk : Msg) : CoreR P s (publishToSubscribers s pk).1 := by
  unfold publishToSubscribers
  split
  · exact CoreR.refl s
  · extract_lets e pk' r subsMap inl
    refine foldl_inv (fun (acc : Server × List Out) => CoreR P s acc.1) _ _ _ (CoreR.refl s) ?_
    intro acc cs h
    split
    · exact h
    · rename_i k _
      split
      rename_i s' o heq
      have := publishToClient_core (P := P) acc.1 k cs.2 false pk'
      rw [heq] at this
      exact h.trans this

theorem publishRetainedToClient_core (s : Server) (i : Nat) (sub : Sub) (ex : Bool) (k : Nat) :
    CoreR P s (publishRetainedToClient s i sub ex k).1 := by
  unfold publishRetainedToClient
  split
  · exact CoreR.refl s
  · split
    · exact CoreR.refl s
    · extract_lets sub'
      refine foldl_inv (fun (acc : Server × List Out) => CoreR P s acc.1) _ _ _ (CoreR.refl s) ?_
      intro acc r h
      split
      · exact h
      · rename_i m _
        split
        rename_i s' o heq
        have := publishToClient_core (P := P) acc.1 i sub' true m
        rw [heq] at this
        exact h.trans this

theorem retainMsg_core (L : Laws P) (s : Server) (pk : Msg) : CoreR P s (retainMsg s pk) := by
  refine ⟨L.retain s pk, ?_, ?_, ?_⟩ <;> (unfold retainMsg; split <;> rfl)

/-! ### work on the acting object -/

theorem stopClient_core (s : Server) (i : Nat) : CoreR P s (stopClient s i).1 := by
  unfold stopClient
  extract_lets +onlyGivenNames c
  split
  · exact CoreR.refl s
  · exact (CoreR.refl s).set i _

theorem disconnectClient_core (s : Server) (i : Nat) (code : Nat) : CoreR P s (disconnectClient s i code).1 := by
  unfold disconnectClient
  extract_lets +onlyGivenNames c w
  split
  rename_i s' o heq
  have := stopClient_core (P := P) s i
  rw [heq] at this
  exact this

theorem unsubscribeClient_core (L : Laws P) (s : Server) (i : Nat) : CoreR P s (unsubscribeClient s i) := by
  unfold unsubscribeClient
  extract_lets +onlyGivenNames c s1
  have h1 : CoreR P s s1 := (CoreR.refl s).set i _
  split
  · exact h1
  · refine foldl_inv (fun (x : Server) => CoreR P s x) _ _ _ h1 ?_
    intro b a h
    exact h.unsub L a.1 c.id

theorem clearInflights_core (s : Server) (i : Nat) : CoreR P s (clearInflights s i) := by
  unfold clearInflights
  extract_lets +onlyGivenNames c n
  exact (CoreR.refl s).upd rfl rfl rfl rfl

theorem processPuback_core (s : Server) (i id : Nat) : CoreR P s (processPuback s i id).1 := by
  unfold processPuback
  extract_lets +onlyGivenNames c
  split
  · exact CoreR.refl s
  · extract_lets +onlyGivenNames c'
    exact (CoreR.refl s).upd rfl rfl rfl rfl

theorem processPubrec_core (s : Server) (i id rc : Nat) : CoreR P s (processPubrec s i id rc).1 := by
  unfold processPubrec
  extract_lets +onlyGivenNames c
  split
  · rw [ackRes_fst]; exact CoreR.refl s
  · split
    · extract_lets +onlyGivenNames c'
      exact (CoreR.refl s).upd rfl rfl rfl rfl
    · extract_lets +onlyGivenNames ack c' s1
      have hs1 : CoreR P s s1 := (CoreR.refl s).set i c'
      split <;> exact hs1

theorem processPubrel_core (s : Server) (i id rc : Nat) : CoreR P s (processPubrel s i id rc).1 := by
  unfold processPubrel
  extract_lets +onlyGivenNames c
  split
  · rw [ackRes_fst]; exact CoreR.refl s
  · split
    · extract_lets +onlyGivenNames c'
      exact (CoreR.refl s).upd rfl rfl rfl rfl
    · extract_lets +onlyGivenNames ack c1 s1
      have hs1 : CoreR P s s1 := (CoreR.refl s).set i c1
      split
      · exact hs1
      · extract_lets +onlyGivenNames o c2
        split
        rename_i c3 ok heq
        extract_lets +onlyGivenNames s2
        have hs2 : CoreR P s s2 := hs1.set i c3
        split
        · exact hs2.upd rfl rfl rfl rfl
        · exact hs2

theorem processPubcomp_core (s : Server) (i id : Nat) : CoreR P s (processPubcomp s i id).1 := by
  unfold processPubcomp
  extract_lets +onlyGivenNames c
  split
  rename_i c1 ok heq
  extract_lets +onlyGivenNames s1
  have hs1 : CoreR P s s1 := (CoreR.refl s).set i c1
  split
  · exact hs1.upd rfl rfl rfl rfl
  · exact hs1

theorem nextImmediate_core (s : Server) (i : Nat) : CoreR P s (nextImmediate s i).1 := by
  unfold nextImmediate
  extract_lets +onlyGivenNames c
  split
  · split
    · rename_i m _
      extract_lets +onlyGivenNames o
      split
      rename_i c1 ok heq
      extract_lets +onlyGivenNames s1
      have hs0 : CoreR P s { s with nextSeed := s.nextSeed / 64 } := (CoreR.refl s).upd rfl rfl rfl rfl
      have hs1 : CoreR P s s1 := hs0.set i _
      split
      · exact hs1.upd rfl rfl rfl rfl
      · exact hs1
    · exact CoreR.refl s
  · exact CoreR.refl s

theorem processDisconnect_core (s : Server) (i rc : Nat) (sei : Option Nat) :
    CoreR P s (processDisconnect s i rc sei).1 := by
  unfold processDisconnect
  extract_lets +onlyGivenNames c r
  have hr : ∀ s' c', r = some (s', c') → s' = s := by
    intro s' c' h
    simp only [r] at h
    split at h
    · split at h
      · cases h
      · cases h; rfl
    · cases h; rfl
  generalize r = r' at hr
  split
  · exact CoreR.refl s
  · rename_i s' c'
    obtain rfl := hr s' c' rfl
    extract_lets +onlyGivenNames s1
    have hs1 : CoreR P s' s1 := (CoreR.refl s').set i c'
    split
    · exact hs1
    · extract_lets +onlyGivenNames s2
      have hs2 : CoreR P s' s2 := hs1.upd rfl rfl rfl rfl
      split
      rename_i s3 o hst
      have := stopClient_core (P := P) s2 i
      rw [hst] at this
      exact hs2.trans this

theorem processUnsubscribe_core (L : Laws P) (s : Server) (i id : Nat) (filters : List Str) :
    CoreR P s (processUnsubscribe s i id filters).1 := by
  unfold processUnsubscribe
  extract_lets +onlyGivenNames c inUse r
  have hr : CoreR P s r.1 := by
    refine foldl_inv (fun (acc : Server × List Nat) => CoreR P s acc.1) _ _ _ (CoreR.refl s) ?_
    intro acc f h
    split
    rename_i s' rcs
    split
    · exact h
    · extract_lets rr src s1 s2
      show CoreR P s s2
      exact (CoreR.unsub L (s := s') h f c.id).mod _ _
  generalize r = r' at hr
  split
  rename_i s' rcs
  extract_lets c'
  split <;> exact hr

theorem processSubscribe_core (L : Laws P) (s : Server) (i id subId : Nat) (filters : List Sub) :
    CoreR P s (processSubscribe s i id subId filters).1 := by
  unfold processSubscribe
  extract_lets +onlyGivenNames c inUse fin r
  have hr : CoreR P s r.1 := by
    refine foldl_inv (fun (acc : Server × List Nat × List Bool) => CoreR P s acc.1) _ _ _ (CoreR.refl s) ?_
    intro acc sub h
    split
    rename_i s' rcs exs
    extract_lets +onlyGivenNames sub'
    split
    · exact h
    · split
      · exact h
      · split
        · exact h
        · split
          · exact h
          · extract_lets +onlyGivenNames rr src s1 s2
            show CoreR P s s2
            exact (CoreR.sub L (s := s') h c.id sub').mod _ _
  generalize r = r' at hr
  split
  rename_i s' rcs exs
  extract_lets +onlyGivenNames c'
  split
  · exact hr
  · extract_lets +onlyGivenNames o1 z
    show CoreR P s z.1
    refine foldl_inv (fun (acc : Server × List Out) => CoreR P s acc.1) _ _ _ hr ?_
    intro acc xk h
    extract_lets +onlyGivenNames x
    split
    · exact h
    · extract_lets +onlyGivenNames src sub'
      split
      rename_i s2 o heq
      have := publishRetainedToClient_core (P := P) acc.1 i sub' x.2.2 xk.2
      rw [heq] at this
      exact h.trans this

theorem sendLWT_core (L : Laws P) (s : Server) (i : Nat) : CoreR P s (sendLWT s i).1 := by
  unfold sendLWT
  extract_lets +onlyGivenNames c
  split
  · exact CoreR.refl s
  · extract_lets +onlyGivenNames pk
    split
    · exact (CoreR.refl s).upd rfl rfl rfl rfl
    · extract_lets +onlyGivenNames s1
      have hs1 : CoreR P s s1 := by
        show CoreR P s (if pk.retain = true then retainMsg s pk else s)
        split
        · exact retainMsg_core L s pk
        · exact CoreR.refl s
      split
      rename_i s2 o heq
      have := publishToSubscribers_core (P := P) s1 pk
      rw [heq] at this
      have h2 : CoreR P s s2 := hs1.trans this
      refine CoreR.fst_mk ?_
      exact h2.mod _ _

theorem detachA_core (L : Laws P) (s : Server) (i : Nat) (withErr : Bool) : CoreR P s (detachA s i withErr).1 := by
  unfold detachA
  split
  · split
    rename_i s2 o2 h2
    split
    rename_i s3 o3 h3
    have a := sendLWT_core L s i
    rw [h2] at a
    have b := stopClient_core (P := P) s2 i
    rw [h3] at b
    exact a.trans b
  · exact (CoreR.refl s).mod i (fun c => { c with will := {} })

theorem processPublish_core (L : Laws P) (s : Server) (i : Nat) (qos : Nat) (dup retain : Bool) (id : Nat)
    (topic payload : Str) (msgExpiry : Nat) (alias : Option Nat) :
    CoreR P s (processPublish s i qos dup retain id topic payload msgExpiry alias).1 := by
  unfold processPublish
  extract_lets +onlyGivenNames c
  have early : ∀ code, CoreR P s
      (if (qos == 0) = true then ((s, [], none) : HRes)
        else if (c.ver != 5) = true then
          match disconnectClient s i code with
          | (s, o) => (s, o, some code)
        else ackRes s i (if (qos == 2) = true then 5 else 4) id code).1 := by
    intro code
    split
    · exact CoreR.refl s
    · split
      · split
        rename_i s' o heq
        have := disconnectClient_core (P := P) s i code
        rw [heq] at this
        exact this
      · rw [ackRes_fst]; exact CoreR.refl s
  refine CoreR.ite_res (fun _ => early _) (fun _ => ?_)
  · refine CoreR.ite_res (fun _ => ?_) (fun _ => ?_)
    · split
      rename_i s' o heq
      have := disconnectClient_core (P := P) s i 0x93
      rw [heq] at this
      exact this
    · refine CoreR.ite_res (fun _ => early _) (fun _ => ?_)
      · extract_lets +onlyGivenNames e pk pre
        have hpre : ∀ r, pre = some r → r.1 = s := by
          intro r h
          simp only [pre] at h
          split at h
          · cases h
          · split at h
            · split at h
              · cases h; exact ackRes_fst s i 5 id 0x91
              · cases h
            · cases h
        generalize pre = pre' at hpre
        split
        · rename_i r
          rw [hpre r rfl]
          exact CoreR.refl s
        · clear hpre
          split
          rename_i s1 c1 heq
          have hs1 : CoreR P s s1 := by
            split at heq
            · cases heq
              exact (CoreR.refl s).upd rfl rfl rfl rfl
            · cases heq
              exact CoreR.refl s
          clear heq
          split
          rename_i c2 pk2 heq
          clear heq
          extract_lets +onlyGivenNames s2
          have hs2 : CoreR P s s2 := hs1.set i c2
          split
          · split
            rename_i s' o heq
            have := disconnectClient_core (P := P) s2 i 0x82
            rw [heq] at this
            exact hs2.trans this
          extract_lets +onlyGivenNames pk3 mode
          split
          · exact hs2
          · split
            · rw [ackRes_fst]; exact hs2
            · extract_lets +onlyGivenNames pk4 s3
              have hs3 : CoreR P s s3 := by
                show CoreR P s (if pk4.retain = true then retainMsg s2 pk4 else s2)
                split
                · exact hs2.trans (retainMsg_core L s2 pk4)
                · exact hs2
              split
              · split
                rename_i s4 o heq
                have := publishToSubscribers_core (P := P) s3 pk4
                rw [heq] at this
                exact hs3.trans this
              · extract_lets +onlyGivenNames s4 ackT ackRC ack
                have hs4 : CoreR P s s4 := hs3.mod i decRecv
                split
                rename_i c5 isNew heq
                clear heq
                extract_lets +onlyGivenNames s5 src s6
                have hs5 : CoreR P s s5 := hs4.set i c5
                have hs6 : CoreR P s s6 := by
                  show CoreR P s (if isNew = true then _ else s5)
                  split
                  · exact hs5.upd rfl rfl rfl rfl
                  · exact hs5
                split
                · exact hs6
                · extract_lets +onlyGivenNames o1 s7
                  have hs7 : CoreR P s s7 := by
                    show CoreR P s (if (pk4.qos == 1) = true then _ else s6)
                    split
                    · split
                      rename_i c6 ok heq
                      extract_lets +onlyGivenNames s8
                      have hs8 : CoreR P s s8 := hs6.set i _
                      split
                      · exact hs8.upd rfl rfl rfl rfl
                      · exact hs8
                    · exact hs6
                  split
                  rename_i s9 o2 heq
                  have := publishToSubscribers_core (P := P) s7 pk4
                  rw [heq] at this
                  exact hs7.trans this

/-! ### one inbound packet -/

theorem receivePacket_core (L : Laws P) (s : Server) (i : Nat) (pk : InPk) : CoreR P s (receivePacket s i pk).1 := by
  unfold receivePacket
  extract_lets +onlyGivenNames c r
  have hr : CoreR P s r.1 := by
    simp only [r]
    split
    · split
      · exact CoreR.refl s
      · exact processPublish_core L ..
    · split
      · exact CoreR.refl s
      · exact processSubscribe_core L ..
    · split
      · exact CoreR.refl s
      · exact processUnsubscribe_core L ..
    · exact processPuback_core ..
    · exact processPubrec_core ..
    · exact processPubrel_core ..
    · exact processPubcomp_core ..
    · split <;> exact CoreR.refl s
    · exact processDisconnect_core ..
  generalize r = r' at hr
  split
  · rename_i s1 o
    split
    rename_i s2 o2 heq
    have := nextImmediate_core (P := P) s1 i
    rw [heq] at this
    exact hr.trans this
  · rename_i s1 o code
    split
    · split
      rename_i s2 o2 heq
      have := disconnectClient_core (P := P) s1 i code
      rw [heq] at this
      exact hr.trans this
    · exact hr

/-! ### the weaker relation for the handlers that move `info.connected`, `parked`, `parkedEarly` -/

/-- `P` of the core is kept -/
def CoreP (P : Core → Prop) (s s' : Server) : Prop := P (Mochi.Broker.core s) → P (Mochi.Broker.core s')

theorem CoreP.refl (s : Server) : CoreP P s s := fun x => x
theorem CoreP.trans {s s1 s2 : Server} (h : CoreP P s s1) (g : CoreP P s1 s2) : CoreP P s s2 := fun x => g (h x)
theorem CoreR.toP {s s' : Server} (h : CoreR P s s') : CoreP P s s' := h.core
theorem CoreP.upd {s0 s s' : Server} (h : CoreP P s0 s) (hc : Mochi.Broker.core s' = Mochi.Broker.core s) : CoreP P s0 s' :=
  fun x => by rw [hc]; exact h x
theorem CoreP.fst_mk {α} {s0 x : Server} {y : α} (h : CoreP P s0 x) : CoreP P s0 (x, y).1 := h

theorem detachB_coreP (L : Laws P) (s : Server) (i : Nat) : CoreP P s (detachB s i) := by
  unfold detachB
  extract_lets +onlyGivenNames c expire s3 s4 s2
  refine CoreP.upd (s := s2) ?_ rfl
  show CoreP P s (if (expire && !c.takenOver) = true then _ else s)
  split
  · have h3 : CoreR P s s3 := clearInflights_core s i
    have h4 : CoreR P s s4 := h3.trans (unsubscribeClient_core L s3 i)
    exact h4.toP.upd rfl
  · exact CoreP.refl s

theorem detach_coreP (L : Laws P) (s : Server) (i : Nat) (withErr : Bool) : CoreP P s (detach s i withErr).1 := by
  unfold detach
  split
  rename_i s1 o1 heq
  have hs1 : CoreR P s s1 := by
    have := detachA_core L s i withErr
    rw [heq] at this
    exact this
  exact hs1.toP.trans (detachB_coreP L s1 i)

theorem recvOn_coreP (L : Laws P) (s : Server) (c : Nat) (pk : InPk) (b : Bool) : CoreP P s (recvOn s c pk b).1 := by
  unfold recvOn
  split
  · exact CoreP.refl s
  · rename_i i hc
    split
    · exact CoreP.refl s
    · split
      rename_i s1 o e heq
      have h1 : CoreP P s s1 := by
        have := receivePacket_core L s i pk
        rw [heq] at this
        exact this.toP
      split
      · split
        rename_i s2 o2 hd
        have := detach_coreP L s1 i true
        rw [hd] at this
        exact h1.trans this
      · split
        · split
          rename_i s2 o2 hd
          have := detach_coreP L s1 i false
          rw [hd] at this
          exact h1.trans this
        · split
          · split
            rename_i s2 o2 e2 heq2
            have h2 := receivePacket_core L s1 i .pingreq
            rw [heq2] at h2
            extract_lets +onlyGivenNames o2f
            have h12 : CoreP P s s2 := h1.trans h2.toP
            split
            · split
              rename_i s3 o3 hd
              have := detach_coreP L s2 i true
              rw [hd] at this
              exact h12.trans this
            · exact h12
          · exact h1

/-! ### connecting -/

theorem admitA_coreP (L : Laws P) (s : Server) (i : Nat) (k : Connect) : CoreP P s (admitA s i k).1 := by
  unfold admitA
  extract_lets +onlyGivenNames src s0 exLive
  have hs0 : CoreP P s s0 := (CoreP.refl s).upd rfl
  split
  rename_i s' o1 present heq
  refine CoreP.upd (s := s') ?_ rfl
  split at heq
  · rename_i e _
    extract_lets +onlyGivenNames ex at heq
    split at heq
    rename_i s1 o hd
    have hs1 : CoreR P s0 s1 := by
      have := disconnectClient_core (P := P) s0 e 0x8E
      rw [hd] at this
      exact this
    split at heq
    · extract_lets +onlyGivenNames s2 s3 at heq
      cases heq
      have hs2 : CoreR P s0 s2 := hs1.trans (unsubscribeClient_core L s1 e)
      have hs3 : CoreR P s0 s3 := hs2.trans (clearInflights_core s2 e)
      exact hs0.trans (hs3.mod e _).toP
    · extract_lets +onlyGivenNames s2 ex2 rmx s2i src2 s3 s4 s5 s6 at heq
      rw [← (Prod.mk.inj heq).1]
      have hs2 : CoreR P s0 s2 := hs1.mod e _
      have hs2i : CoreR P s0 s2i := hs2.mod i _
      have hs3 : CoreR P s0 s3 := by
        show CoreR P s0 (if ex2.inflight.length > 0 then _ else s2)
        split
        · exact hs2i.upd rfl rfl rfl rfl
        · exact hs2
      have hs4 : CoreR P s0 s4 := by
        refine foldl_inv (fun (x : Server) => CoreR P s0 x) _ _ _ hs3 ?_
        intro b fs h
        extract_lets +onlyGivenNames rr src3 b1
        exact (CoreR.sub L h k.id fs.2).mod i _
      have hs5 : CoreR P s0 s5 := hs4.trans (unsubscribeClient_core L s4 e)
      exact hs0.trans (hs5.trans (clearInflights_core s5 e)).toP
  · cases heq
    exact hs0

theorem admitConnack_core (s : Server) (i conn : Nat) (present : Bool) : CoreR P s (admitConnack s i conn present).1 := by
  unfold admitConnack
  extract_lets +onlyGivenNames cl
  split
  rename_i s' seiOut heq
  show CoreR P s s'
  split at heq
  · cases heq
    exact (CoreR.refl s).mod i _
  · cases heq
    exact CoreR.refl s

theorem admitC_core (s : Server) (i : Nat) (k : Connect) (present : Bool) : CoreR P s (admitC s i k present).1 := by
  unfold admitC
  extract_lets +onlyGivenNames s1
  have hs1 : CoreR P s s1 := (CoreR.refl s).upd rfl rfl rfl rfl
  split
  · refine foldl_inv (fun (acc : Server × List Out) => CoreR P s acc.1) _ _ _ hs1 ?_
    intro acc m h
    extract_lets +onlyGivenNames m' o s'
    show CoreR P s s'
    show CoreR P s (if (m.type == 4 || m.type == 7) = true then _ else acc.1)
    split
    · split
      rename_i c' ok heq
      extract_lets +onlyGivenNames s''
      have h2 : CoreR P s s'' := h.set i c'
      split
      · exact h2.upd rfl rfl rfl rfl
      · exact h2
    · exact h
  · exact hs1

theorem admitClient_coreP (L : Laws P) (s : Server) (i conn : Nat) (k : Connect) :
    CoreP P s (admitClient s i conn k).1 := by
  unfold admitClient
  split
  rename_i s1 o1 present exLive h1
  have g1 : CoreP P s s1 := by
    have := admitA_coreP L s i k
    rw [h1] at this; exact this
  split
  rename_i s2 o2 h2
  have g2 : CoreP P s1 s2 := by
    have := admitConnack_core (P := P) s1 i conn present
    rw [h2] at this; exact this.toP
  split
  rename_i s3 o4 h3
  have g3 : CoreP P s2 s3 := by
    split at h3
    · rename_i e
      have := detach_coreP L s2 e true
      rw [h3] at this; exact this
    · cases h3; exact CoreP.refl _
  split
  rename_i s4 o3 h4
  have g4 : CoreP P s3 s4 := by
    have := admitC_core (P := P) s3 i k present
    rw [h4] at this; exact this.toP
  exact ((g1.trans g2).trans g3).trans g4

theorem connect_coreP (L : Laws P) (s : Server) (conn : Nat) (k : Connect) : CoreP P s (connect s conn k).1 := by
  unfold connect
  extract_lets +onlyGivenNames c i s1
  have w1 : CoreP P s s1 := (CoreP.refl s).upd rfl
  split
  · split
    rename_i s2 o2 h2
    have := stopClient_core (P := P) s1 i
    rw [h2] at this
    exact w1.trans this.toP
  · exact w1.trans (admitClient_coreP L s1 i conn k)

theorem ite_fst_coreP {s : Server} {α} (c : Prop) [Decidable c] (a b : Server × α) (ha : CoreP P s a.1) (hb : CoreP P s b.1) :
    CoreP P s (if c then a else b).1 := by
  split <;> assumption

theorem connectHold_coreP (L : Laws P) (s : Server) (conn : Nat) (k : Connect) (stage : Nat) :
    CoreP P s (connectHold s conn k stage).1 := by
  unfold connectHold
  extract_lets +onlyGivenNames c i s1 dec
  have w1 : CoreP P s s1 := (CoreP.refl s).upd rfl
  generalize dec = d
  cases d with
  | some code =>
    refine ite_fst_coreP _ _ _ ?_ ?_
    · exact w1.upd rfl
    · extract_lets +onlyGivenNames o
      split
      rename_i s2 o2 h2
      have := stopClient_core (P := P) s1 i
      rw [h2] at this
      exact w1.trans this.toP
  | none =>
    refine ite_fst_coreP _ _ _ ?_ ?_
    · exact w1.upd rfl
    · split
      rename_i s2 o1 present exLive h1
      have w2 : CoreP P s s2 := by
        have := admitA_coreP L s1 i k
        rw [h1] at this; exact w1.trans this
      split
      rename_i s3 o4 h3
      have g3 : CoreP P s2 s3 := by
        split at h3
        · rename_i e
          have := detach_coreP L s2 e true
          rw [h3] at this; exact this
        · cases h3; exact CoreP.refl _
      exact (w2.trans g3).upd rfl

theorem connectRelease_coreP (L : Laws P) (s : Server) (p : Pending) : CoreP P s (connectRelease s p).1 := by
  unfold connectRelease
  split
  · split
    · split
      rename_i s2 o2 h2
      have := stopClient_core (P := P) s p.obj
      rw [h2] at this
      exact this.toP
    · exact admitClient_coreP L s p.obj p.conn p.k
  · split
    · exact (CoreP.refl s).upd rfl
    · split
      rename_i s2 o2 h2
      have g2 : CoreP P s s2 := by
        have := admitConnack_core (P := P) s p.obj p.conn p.present
        rw [h2] at this; exact this.toP
      split
      rename_i s3 o3 h3
      have g3 : CoreP P s2 s3 := by
        have := admitC_core (P := P) s2 p.obj p.k p.present
        rw [h3] at this; exact this.toP
      exact g2.trans g3

/-! ### housekeeping -/

theorem tickClients_coreP (L : Laws P) (s : Server) (dt : Int) : CoreP P s (tickClients s dt).1 := by
  unfold tickClients
  refine foldl_inv (fun (acc : Server × List Out) => CoreP P s acc.1) _ _ _ (CoreP.refl s) ?_
  intro acc e h
  extract_lets +onlyGivenNames c
  split
  · extract_lets +onlyGivenNames s1 s2
    have g : CoreR P acc.1 s2 := (clearInflights_core acc.1 e.2).trans (unsubscribeClient_core L s1 e.2)
    exact (h.trans g.toP).upd rfl
  · exact h

theorem tickInflight_coreP (s : Server) (now : Int) : CoreP P s (tickInflight s now) := by
  unfold tickInflight
  refine foldl_inv (fun (x : Server) => CoreP P s x) _ _ _ (CoreP.refl s) ?_
  intro b e h
  extract_lets +onlyGivenNames c
  refine foldl_inv (fun (x : Server) => CoreP P s x) _ _ _ h ?_
  intro b2 m h2
  extract_lets +onlyGivenNames expired enforced
  split
  · split
    rename_i c' ok heq
    extract_lets +onlyGivenNames s1
    have h3 : CoreP P s s1 := h2.upd rfl
    split
    · exact h3.upd rfl
    · exact h3
  · exact h2

theorem tickWills_coreP (L : Laws P) (s : Server) (dt : Int) : CoreP P s (tickWills s dt).1 := by
  unfold tickWills
  refine foldl_inv (fun (acc : Server × List Out) => CoreP P s acc.1) _ _ _ (CoreP.refl s) ?_
  intro acc e h
  split
  · split
    rename_i s1 o h1
    have g1 : CoreP P s s1 := by
      have := publishToSubscribers_core (P := P) acc.1 e.2
      rw [h1] at this
      exact h.trans this.toP
    split
    rename_i s2 o2 h2
    have g2 : CoreP P s s2 := by
      split at h2
      · rename_i i _
        extract_lets +onlyGivenNames s3 at h2
        rw [← (Prod.mk.inj h2).1]
        have g3 : CoreP P s s3 := by
          show CoreP P s (if e.2.retain = true then retainMsg s1 e.2 else s1)
          split
          · exact g1.trans (retainMsg_core L s1 e.2).toP
          · exact g1
        exact g3.upd rfl
      · cases h2; exact g1
    exact g2.upd rfl
  · exact h

/-! ### `step` -/

theorem barrier_coreP (L : Laws P) {s0 s1 : Server} {o : List Out} (conn : Nat) (b : Bool) (w1 : CoreP P s0 s1) :
    CoreP P s0 (if b = true then
          match recvOn s1 conn InPk.pingreq false with
          | (s, o2) => (s, o ++ o2.filter (fun x => match x with | .wrote _ .pingresp => false | _ => true))
        else (s1, o)).1 := by
  split
  · split
    rename_i s2 o2 h2
    have := recvOn_coreP L s1 conn .pingreq false
    rw [h2] at this
    exact w1.trans this
  · exact w1

/-- **every op keeps every lawful predicate on the core** -/
theorem step_coreP (L : Laws P) (s : Server) (op : Op) : CoreP P s (step s op).1 := by
  cases op with
  | connect conn k =>
    rw [step]
    split
    rename_i s1 o h1
    have w1 : CoreP P s s1 := by
      have := connect_coreP L s conn k
      rw [h1] at this; exact this
    split
    · exact barrier_coreP L conn _ w1
    · exact w1
  | recv conn pk =>
    rw [step]
    exact recvOn_coreP L s conn pk true
  | drop conn =>
    rw [step]
    split
    · exact CoreP.refl s
    · rename_i i _
      split
      · exact CoreP.refl s
      · extract_lets +onlyGivenNames s1
        have g1 : CoreP P s s1 := (CoreP.refl s).upd rfl
        split
        rename_i s2 o h2
        have := detach_coreP L s1 i true
        rw [h2] at this
        exact g1.trans this
  | recvCut conn pk =>
    rw [step]
    split
    · exact CoreP.refl s
    · rename_i i _
      split
      · exact CoreP.refl s
      · extract_lets +onlyGivenNames s1
        have g1 : CoreP P s s1 := (CoreP.refl s).upd rfl
        split
        rename_i s2 o h2
        have g2 : CoreP P s s2 := by
          have := recvOn_coreP L s1 conn pk false
          rw [h2] at this
          exact g1.trans this
        split
        rename_i s3 o2 h3
        show CoreP P s s3
        split at h3
        · cases h3; exact g2
        · have := detach_coreP L s2 i true
          rw [h3] at this
          exact g2.trans this
  | dropHold conn =>
    rw [step]
    split
    · exact CoreP.refl s
    · rename_i i _
      split
      · exact CoreP.refl s
      · extract_lets +onlyGivenNames s1
        have g1 : CoreP P s s1 := (CoreP.refl s).upd rfl
        split
        rename_i s2 o h2
        have := detachA_core L s1 i true
        rw [h2] at this
        exact (g1.trans this.toP).upd rfl
  | release conn =>
    rw [step]
    split
    · rename_i p hp
      split
      rename_i s1 o h1
      have w1 : CoreP P s s1 := by
        have := connectRelease_coreP L { s with pending := s.pending.filter (·.conn != conn) } p
        rw [h1] at this
        exact ((CoreP.refl s).upd rfl).trans this
      exact barrier_coreP L conn _ w1
    · split
      · exact CoreP.refl s
      · rename_i i _
        split
        · exact ((CoreP.refl s).upd (s' := { s with parked := s.parked.filter (· != i) }) rfl).trans (detachB_coreP L _ i)
        · split
          · split
            rename_i s1 o h1
            have := detach_coreP L { s with parkedEarly := s.parkedEarly.filter (· != i) } i true
            rw [h1] at this
            exact ((CoreP.refl s).upd rfl).trans this
          · exact CoreP.refl s
  | dropHoldEarly conn =>
    rw [step]
    split
    · exact CoreP.refl s
    · rename_i i _
      split
      · exact CoreP.refl s
      · exact (CoreP.refl s).upd rfl
  | connectHold conn k stage =>
    rw [step]
    exact connectHold_coreP L s conn k stage
  | tick kind t =>
    rw [step]
    split
    · exact tickClients_coreP L s t
    · split
      · exact L.tickRetained s t
      · split
        · exact tickInflight_coreP s t
        · split
          · exact tickWills_coreP L s t
          · exact CoreP.refl s
  | inlinePublish topic payload retain qos =>
    rw [step]
    exact (receivePacket_core L s 0 _).toP
  | inlineSubscribe id filter =>
    rw [step]
    split
    · exact CoreP.refl s
    · exact L.inlSub s id _
  | inlineUnsubscribe id filter =>
    rw [step]
    split
    · exact CoreP.refl s
    · exact L.inlUnsub s id filter

theorem run_coreP (L : Laws P) (s : Server) (ops : List Op) : CoreP P s (run s ops) := by
  induction ops generalizing s with
  | nil => exact CoreP.refl s
  | cons op ops ih => exact (step_coreP L s op).trans (ih _)

end

/-! ### first instance: the `retained` counter is the size of the retained store -/

/-- `Info.Retained` is the number of retained packets -/
def RetainedOK (k : Core) : Prop := k.retained = k.rmsgs.length

theorem RetainedOK_laws : Laws RetainedOK := by
  refine ⟨?_, ?_, ?_, ?_, ?_, ?_⟩
  · intro s cid sb h
    show (if (subscribe s.topics cid sb).2 = true then _ else s.info).retained = _
    split <;> exact h
  · intro s f cid h
    show (if (unsubscribe s.topics f cid).2 = true then _ else s.info).retained = _
    split <;> exact h
  · intro s pk h
    unfold retainMsg
    split
    · exact h
    · rfl
  · intro s now _
    rfl
  · intro s id sb h; exact h
  · intro s id f h; exact h

/-- the `retained` conjunct of `Counted` -/
def CountedRetained (s : Server) : Prop := s.info.retained = s.rmsgs.length

theorem CountedRetained_init (caps : Caps) : CountedRetained (init caps) := rfl

theorem CountedRetained_step (s : Server) (op : Op) (h : CountedRetained s) : CountedRetained (step s op).1 :=
  step_coreP RetainedOK_laws s op h

theorem CountedRetained_run (caps : Caps) (ops : List Op) : CountedRetained (run (init caps) ops) :=
  run_coreP RetainedOK_laws _ ops (CountedRetained_init caps)

end Mochi.Broker
