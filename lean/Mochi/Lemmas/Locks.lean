import Mochi.Model.Locks
/-!
# M8 — soundness of the lock-graph checkers

For **every** function list `fs`:
* `noSelfNesting_sound`: if `noSelfNesting fs` then in no reachable state of the interleaving semantics is a
  thread about to request a lock it holds;
* `lockOrderAcyclic_sound`: if `lockOrderAcyclic fs` then no reachable state contains a cycle of threads each
  waiting for a lock held by the next.
Both follow from one lemma about `walk` (`run_sound` / `pre_sound`), generic in the acquisition policy: every
trace a thread can emit satisfies `TraceOK rel`.
-/
namespace Mochi.Locks

/-! ## names -/

theorem resolve_append (o p : Path) (k : LockRef) : resolve (o ++ p) k = resolve o (k.rebase p) := by
  simp [resolve, LockRef.rebase, List.append_assoc]

theorem resolve_inj {o : Path} {a b : LockRef} (h : resolve o a = resolve o b) : a = b := by
  cases a; cases b
  simp only [resolve, LockRef.mk.injEq] at h
  simp [List.append_cancel_left h.1, h.2]

theorem rebase_nil (k : LockRef) : k.rebase [] = k := rfl

theorem lookup_mem {fs : List Func} {g : Nat} {f : Func} (h : lookup fs g = some f) : f ∈ fs := by
  induction fs with
  | nil => simp [lookup] at h
  | cons a t ih =>
    simp only [lookup] at h
    split at h
    · cases h; simp
    · exact List.mem_cons_of_mem _ (ih h)

theorem sumOf_lookup {fs : List Func} {g : Nat} {f : Func} (h : lookup fs g = some f) : sumOf fs g = f.acq := by
  simp [sumOf, h]

/-! ## traces -/

theorem heldAfter_append (h : List LockRef) (a b : List CEv) :
    heldAfter h (a ++ b) = heldAfter (heldAfter h a) b := by
  induction a generalizing h with
  | nil => rfl
  | cons e t ih => cases e <;> simp [heldAfter, ih]

theorem traceOK_append (rel : LockRef → LockRef → Prop) (h : List LockRef) (a b : List CEv) :
    TraceOK rel h (a ++ b) ↔ TraceOK rel h a ∧ TraceOK rel (heldAfter h a) b := by
  induction a generalizing h with
  | nil => simp [TraceOK, heldAfter]
  | cons e t ih => cases e <;> simp [TraceOK, heldAfter, ih, and_assoc]

theorem traceOK_rels (rel : LockRef → LockRef → Prop) (h : List LockRef) (ds : List LockRef) :
    TraceOK rel h (ds.map .rel) := by
  induction ds generalizing h with
  | nil => simp [TraceOK]
  | cons d t ih => simp [TraceOK, ih]

theorem heldAfter_rels_sub (h : List LockRef) (ds : List LockRef) :
    ∀ l ∈ heldAfter h (ds.map .rel), l ∈ h ∧ l ∉ ds := by
  induction ds generalizing h with
  | nil => simp [heldAfter]
  | cons d t ih =>
    intro l hl
    simp only [List.map_cons, heldAfter] at hl
    have := ih _ l hl
    simp only [List.mem_filter, decide_eq_true_eq] at this
    simp [this.1.1, this.1.2, this.2]

/-- what the acquisition of `l` after `done` is checked against -/
theorem traceOK_split {rel : LockRef → LockRef → Prop} {done rest : List CEv} {l : LockRef} {m : Mode}
    (h : TraceOK rel [] (done ++ .acq l m :: rest)) : ∀ x ∈ heldAfter [] done, rel x l := by
  rw [traceOK_append] at h
  exact h.2.1

/-! ## the walk is sound for every policy that is stable under renaming -/

/-- locks held by the enclosing frames (`X`) never conflict with what this function may acquire -/
def Ctx (rel : LockRef → LockRef → Prop) (o : Path) (X mine : List LockRef) : Prop :=
  ∀ k ∈ mine, ∀ x ∈ X, rel x (resolve o k)

/-- the checker's sets over-approximate what the thread holds: `h` held now, `X` held by enclosing frames,
`H`/`U` as in `walk`, `D` the releases deferred so far in this activation -/
structure Inv (o : Path) (X h H U D : List LockRef) : Prop where
  held : ∀ l ∈ h, l ∈ X ∨ ∃ k ∈ H, l = resolve o k
  undef : ∀ l ∈ h, l ∈ X ∨ l ∈ D ∨ ∃ k ∈ U, l = resolve o k

theorem Inv.mono {o : Path} {X h H U D H2 U2 D2 : List LockRef} (i : Inv o X h H U D)
    (hH : ∀ k ∈ H, k ∈ H2) (hU : ∀ k ∈ U, k ∈ U2) (hD : ∀ k ∈ D, k ∈ D2) : Inv o X h H2 U2 D2 := by
  constructor
  · intro l hl
    rcases i.held l hl with hx | ⟨k, hk, e⟩
    · exact .inl hx
    · exact .inr ⟨k, hH k hk, e⟩
  · intro l hl
    rcases i.undef l hl with hx | hd | ⟨k, hk, e⟩
    · exact .inl hx
    · exact .inr (.inl (hD l hd))
    · exact .inr (.inr ⟨k, hU k hk, e⟩)

theorem okAcq_iff {pol : Policy} {mine H : List LockRef} {k : LockRef} :
    okAcq pol mine H k = true ↔ (∀ h ∈ H, pol h k = true) ∧ k ∈ mine := by
  simp [okAcq, List.all_eq_true]

section Sound
variable {fs : List Func} {pol : Policy} {rel : LockRef → LockRef → Prop}

/-- the request of `k` passes against everything held -/
theorem okAcq_rel (hpol : ∀ o h k, pol h k = true → rel (resolve o h) (resolve o k))
    {o : Path} {X h H U D mine : List LockRef} {k : LockRef}
    (hc : Ctx rel o X mine) (i : Inv o X h H U D) (hk : okAcq pol mine H k = true) :
    ∀ x ∈ h, rel x (resolve o k) := by
  rw [okAcq_iff] at hk
  intro x hx
  rcases i.held x hx with hX | ⟨k', hk', e⟩
  · exact hc k hk.2 x hX
  · subst e; exact hpol o k' k (hk.1 k' hk')

theorem run_sound (hpol : ∀ o h k, pol h k = true → rel (resolve o h) (resolve o k))
    (hfs : ∀ f ∈ fs, funcOK (sumOf fs) pol f = true)
    {o : Path} {P : Prog} {tr : List CEv} {ds : List LockRef} {r : Bool} (hrun : Run fs o P tr ds r) :
    ∀ (mine X h H U D H' U' : List LockRef), walk (sumOf fs) pol mine (H, U) P = some (H', U') →
      Ctx rel o X mine → Inv o X h H U D →
      TraceOK rel h tr ∧
      (r = false → Inv o X (heldAfter h tr) H' U' (D ++ ds)) ∧
      (r = true → ∀ l ∈ heldAfter h tr, l ∈ X ∨ l ∈ D ++ ds) := by
  induction hrun with
  | skip =>
    intro mine X h H U D H' U' hw hc i
    simp only [walk, Option.some.injEq, Prod.mk.injEq] at hw
    obtain ⟨rfl, rfl⟩ := hw
    simpa [TraceOK, heldAfter] using i
  | callUnknown =>
    intro mine X h H U D H' U' hw hc i
    simp only [walk, Option.some.injEq, Prod.mk.injEq] at hw
    obtain ⟨rfl, rfl⟩ := hw
    simpa [TraceOK, heldAfter] using i
  | spawn =>
    intro mine X h H U D H' U' hw hc i
    simp only [walk, Option.some.injEq, Prod.mk.injEq] at hw
    obtain ⟨rfl, rfl⟩ := hw
    simpa [TraceOK, heldAfter] using i
  | unknown =>
    intro mine X h H U D H' U' hw hc i
    simp [walk] at hw
  | callMissing hl =>
    intro mine X h H U D H' U' hw hc i
    simp only [walk] at hw
    split at hw
    · simp only [Option.some.injEq, Prod.mk.injEq] at hw
      obtain ⟨rfl, rfl⟩ := hw
      simpa [TraceOK, heldAfter] using i
    · cases hw
  | @acquire o l m =>
    intro mine X h H U D H' U' hw hc i
    simp only [walk] at hw
    split at hw
    · rename_i hk
      simp only [Option.some.injEq, Prod.mk.injEq] at hw
      obtain ⟨rfl, rfl⟩ := hw
      refine ⟨⟨okAcq_rel hpol hc i hk, trivial⟩, fun _ => ?_, fun hr => by cases hr⟩
      simp only [heldAfter, List.append_nil]
      constructor
      · intro x hx
        rcases List.mem_cons.1 hx with rfl | hx
        · exact .inr ⟨l, by simp, rfl⟩
        · rcases i.held x hx with hX | ⟨k, hk', e⟩
          · exact .inl hX
          · exact .inr ⟨k, List.mem_cons_of_mem _ hk', e⟩
      · intro x hx
        rcases List.mem_cons.1 hx with rfl | hx
        · exact .inr (.inr ⟨l, by simp, rfl⟩)
        · rcases i.undef x hx with hX | hD | ⟨k, hk', e⟩
          · exact .inl hX
          · exact .inr (.inl hD)
          · exact .inr (.inr ⟨k, List.mem_cons_of_mem _ hk', e⟩)
    · cases hw
  | @release o l m =>
    intro mine X h H U D H' U' hw hc i
    simp only [walk, Option.some.injEq, Prod.mk.injEq] at hw
    obtain ⟨rfl, rfl⟩ := hw
    refine ⟨trivial, fun _ => ?_, fun hr => by cases hr⟩
    simp only [heldAfter, List.append_nil]
    constructor
    · intro x hx
      simp only [List.mem_filter, decide_eq_true_eq] at hx
      rcases i.held x hx.1 with hX | ⟨k, hk', e⟩
      · exact .inl hX
      · refine .inr ⟨k, ?_, e⟩
        simp only [List.mem_filter, decide_eq_true_eq]
        exact ⟨hk', fun hkl => hx.2 (by rw [e, hkl])⟩
    · intro x hx
      simp only [List.mem_filter, decide_eq_true_eq] at hx
      rcases i.undef x hx.1 with hX | hD | ⟨k, hk', e⟩
      · exact .inl hX
      · exact .inr (.inl hD)
      · refine .inr (.inr ⟨k, ?_, e⟩)
        simp only [List.mem_filter, decide_eq_true_eq]
        exact ⟨hk', fun hkl => hx.2 (by rw [e, hkl])⟩
  | @deferRelease o l m =>
    intro mine X h H U D H' U' hw hc i
    simp only [walk, Option.some.injEq, Prod.mk.injEq] at hw
    obtain ⟨rfl, rfl⟩ := hw
    refine ⟨trivial, fun _ => ?_, fun hr => by cases hr⟩
    simp only [heldAfter]
    constructor
    · exact i.held
    · intro x hx
      rcases i.undef x hx with hX | hD | ⟨k, hk', e⟩
      · exact .inl hX
      · exact .inr (.inl (by simp [hD]))
      · by_cases hkl : k = l
        · exact .inr (.inl (by simp [e, hkl]))
        · refine .inr (.inr ⟨k, ?_, e⟩)
          simp only [List.mem_filter, decide_eq_true_eq]
          exact ⟨hk', hkl⟩
  | ret =>
    intro mine X h H U D H' U' hw hc i
    simp only [walk] at hw
    split at hw
    · rename_i hU
      simp only [Option.some.injEq, Prod.mk.injEq] at hw
      obtain ⟨rfl, rfl⟩ := hw
      refine ⟨trivial, (fun hr => by cases hr), fun _ => ?_⟩
      intro x hx
      simp only [heldAfter] at hx
      rcases i.undef x hx with hX | hD | ⟨k, hk', _⟩
      · exact .inl hX
      · exact .inr (by simp [hD])
      · simp only [List.isEmpty_iff] at hU
        subst hU; cases hk'
    · cases hw
  | @call g f o p tr ds r hl hbody ih =>
    intro mine X h H U D H' U' hw hc i
    simp only [walk, sumOf_lookup hl] at hw
    split at hw
    · rename_i hall
      simp only [Option.some.injEq, Prod.mk.injEq] at hw
      obtain ⟨rfl, rfl⟩ := hw
      rw [List.all_eq_true] at hall
      -- the callee passed its own check
      have hf := hfs f (lookup_mem hl)
      simp only [funcOK] at hf
      split at hf
      · rename_i Hf Uf hwf
        simp only [List.isEmpty_iff] at hf
        subst hf
        have hctx : Ctx rel (o ++ p) h f.acq := by
          intro k hk x hx
          rw [resolve_append]
          exact okAcq_rel hpol hc i (hall k hk) x hx
        have hinv : Inv (o ++ p) h h [] [] [] := ⟨fun l hl => .inl hl, fun l hl => .inl hl⟩
        obtain ⟨hok, hF, hT⟩ := ih f.acq h h [] [] [] Hf [] hwf hctx hinv
        have hsub : ∀ l ∈ heldAfter h tr, l ∈ h ∨ l ∈ ds := by
          intro l hl
          cases r with
          | false =>
            rcases (hF rfl).undef l hl with hX | hD | ⟨k, hk, _⟩
            · exact .inl hX
            · exact .inr (by simpa using hD)
            · cases hk
          | true =>
            rcases hT rfl l hl with hX | hD
            · exact .inl hX
            · exact .inr (by simpa using hD)
        have hback : ∀ l ∈ heldAfter h (tr ++ ds.map .rel), l ∈ h := by
          intro l hl
          rw [heldAfter_append] at hl
          have := heldAfter_rels_sub _ _ l hl
          rcases hsub l this.1 with hh | hd
          · exact hh
          · exact absurd hd this.2
        refine ⟨(traceOK_append _ _ _ _).2 ⟨hok, traceOK_rels _ _ _⟩, fun _ => ?_, fun hr => by cases hr⟩
        simp only [List.append_nil]
        exact ⟨fun l hl => i.held l (hback l hl), fun l hl => i.undef l (hback l hl)⟩
      · cases hf
    · cases hw
  | @seq o a t1 d1 b t2 d2 r _ _ iha ihb =>
    intro mine X h H U D H' U' hw hc i
    simp only [walk] at hw
    split at hw
    · rename_i s1 hwa
      obtain ⟨H1, U1⟩ := s1
      obtain ⟨hok1, hF1, _⟩ := iha mine X h H U D H1 U1 hwa hc i
      obtain ⟨hok2, hF2, hT2⟩ := ihb mine X _ H1 U1 (D ++ d1) H' U' hw hc (hF1 rfl)
      refine ⟨(traceOK_append _ _ _ _).2 ⟨hok1, hok2⟩, ?_, ?_⟩
      · intro hr; rw [heldAfter_append, ← List.append_assoc]; exact hF2 hr
      · intro hr; rw [heldAfter_append, ← List.append_assoc]; exact hT2 hr
    · cases hw
  | @seqRet o a t1 d1 b _ iha =>
    intro mine X h H U D H' U' hw hc i
    simp only [walk] at hw
    split at hw
    · rename_i s1 hwa
      obtain ⟨H1, U1⟩ := s1
      obtain ⟨hok1, _, hT1⟩ := iha mine X h H U D H1 U1 hwa hc i
      exact ⟨hok1, (fun hr => by cases hr), hT1⟩
    · cases hw
  | @altL o a t d r b _ iha =>
    intro mine X h H U D H' U' hw hc i
    simp only [walk] at hw
    split at hw
    · rename_i H1 U1 H2 U2 hwa hwb
      simp only [Option.some.injEq, Prod.mk.injEq] at hw
      obtain ⟨rfl, rfl⟩ := hw
      obtain ⟨hok, hF, hT⟩ := iha mine X h H U D H1 U1 hwa hc i
      exact ⟨hok, fun hr => (hF hr).mono (by simp +contextual) (by simp +contextual) (fun _ x => x), hT⟩
    · cases hw
  | @altR o b t d r a _ ihb =>
    intro mine X h H U D H' U' hw hc i
    simp only [walk] at hw
    split at hw
    · rename_i H1 U1 H2 U2 hwa hwb
      simp only [Option.some.injEq, Prod.mk.injEq] at hw
      obtain ⟨rfl, rfl⟩ := hw
      obtain ⟨hok, hF, hT⟩ := ihb mine X h H U D H2 U2 hwb hc i
      exact ⟨hok, fun hr => (hF hr).mono (by simp +contextual) (by simp +contextual) (fun _ x => x), hT⟩
    · cases hw
  | @loopDone o a =>
    intro mine X h H U D H' U' hw hc i
    simp only [walk] at hw
    split at hw
    · split at hw
      · simp only [Option.some.injEq, Prod.mk.injEq] at hw
        obtain ⟨rfl, rfl⟩ := hw
        simpa [TraceOK, heldAfter] using i
      · cases hw
    · cases hw
  | @loopStep o a t1 d1 t2 d2 r _ _ iha ihl =>
    intro mine X h H U D H' U' hw hc i
    have hw0 := hw
    simp only [walk] at hw
    split at hw
    · rename_i H1 U1 hwa
      split at hw
      · rename_i hsub
        simp only [Option.some.injEq, Prod.mk.injEq] at hw
        obtain ⟨rfl, rfl⟩ := hw
        simp only [Bool.and_eq_true, List.all_eq_true, List.contains_iff_mem] at hsub
        obtain ⟨hok1, hF1, _⟩ := iha mine X h H U D H1 U1 hwa hc i
        have i1 := (hF1 rfl).mono hsub.1 hsub.2 (fun _ x => x)
        obtain ⟨hok2, hF2, hT2⟩ := ihl mine X _ H U (D ++ d1) H U hw0 hc i1
        refine ⟨(traceOK_append _ _ _ _).2 ⟨hok1, hok2⟩, ?_, ?_⟩
        · intro hr; rw [heldAfter_append, ← List.append_assoc]; exact hF2 hr
        · intro hr; rw [heldAfter_append, ← List.append_assoc]; exact hT2 hr
      · cases hw
    · cases hw
  | @loopRet o a t1 d1 _ iha =>
    intro mine X h H U D H' U' hw hc i
    simp only [walk] at hw
    split at hw
    · rename_i H1 U1 hwa
      obtain ⟨hok1, _, hT1⟩ := iha mine X h H U D H1 U1 hwa hc i
      exact ⟨hok1, (fun hr => by cases hr), hT1⟩
    · cases hw

/-- the same for executions that stopped anywhere -/
theorem pre_sound (hpol : ∀ o h k, pol h k = true → rel (resolve o h) (resolve o k))
    (hfs : ∀ f ∈ fs, funcOK (sumOf fs) pol f = true)
    {o : Path} {P : Prog} {tr : List CEv} (hpre : Pre fs o P tr) :
    ∀ (mine X h H U D H' U' : List LockRef), walk (sumOf fs) pol mine (H, U) P = some (H', U') →
      Ctx rel o X mine → Inv o X h H U D → TraceOK rel h tr := by
  induction hpre with
  | nil => intros; trivial
  | full hrun =>
    intro mine X h H U D H' U' hw hc i
    exact (run_sound hpol hfs hrun mine X h H U D H' U' hw hc i).1
  | @call g f o p tr hl _ ih =>
    intro mine X h H U D H' U' hw hc i
    simp only [walk, sumOf_lookup hl] at hw
    split at hw
    · rename_i hall
      rw [List.all_eq_true] at hall
      have hf := hfs f (lookup_mem hl)
      simp only [funcOK] at hf
      split at hf
      · rename_i Hf Uf hwf
        have hctx : Ctx rel (o ++ p) h f.acq := by
          intro k hk x hx
          rw [resolve_append]
          exact okAcq_rel hpol hc i (hall k hk) x hx
        exact ih f.acq h h [] [] [] Hf Uf hwf hctx ⟨fun l hl => .inl hl, fun l hl => .inl hl⟩
      · cases hf
    · cases hw
  | @seqL o a tr b _ ih =>
    intro mine X h H U D H' U' hw hc i
    simp only [walk] at hw
    split at hw
    · rename_i s1 hwa
      exact ih mine X h H U D s1.1 s1.2 hwa hc i
    · cases hw
  | @seqR o a t1 d1 b t2 hrun _ ih =>
    intro mine X h H U D H' U' hw hc i
    simp only [walk] at hw
    split at hw
    · rename_i s1 hwa
      obtain ⟨H1, U1⟩ := s1
      obtain ⟨hok1, hF1, _⟩ := run_sound hpol hfs hrun mine X h H U D H1 U1 hwa hc i
      exact (traceOK_append _ _ _ _).2 ⟨hok1, ih mine X _ H1 U1 (D ++ d1) H' U' hw hc (hF1 rfl)⟩
    · cases hw
  | @altL o a tr b _ ih =>
    intro mine X h H U D H' U' hw hc i
    simp only [walk] at hw
    split at hw
    · rename_i H1 U1 H2 U2 hwa hwb
      exact ih mine X h H U D H1 U1 hwa hc i
    · cases hw
  | @altR o b tr a _ ih =>
    intro mine X h H U D H' U' hw hc i
    simp only [walk] at hw
    split at hw
    · rename_i H1 U1 H2 U2 hwa hwb
      exact ih mine X h H U D H2 U2 hwb hc i
    · cases hw
  | @loopIn o a tr _ ih =>
    intro mine X h H U D H' U' hw hc i
    simp only [walk] at hw
    split at hw
    · rename_i H1 U1 hwa
      exact ih mine X h H U D H1 U1 hwa hc i
    · cases hw
  | @loopNext o a t1 d1 t2 hrun _ ih =>
    intro mine X h H U D H' U' hw hc i
    have hw0 := hw
    simp only [walk] at hw
    split at hw
    · rename_i H1 U1 hwa
      split at hw
      · rename_i hsub
        simp only [Option.some.injEq, Prod.mk.injEq] at hw
        obtain ⟨rfl, rfl⟩ := hw
        simp only [Bool.and_eq_true, List.all_eq_true, List.contains_iff_mem] at hsub
        obtain ⟨hok1, hF1, _⟩ := run_sound hpol hfs hrun mine X h H U D H1 U1 hwa hc i
        have i1 := (hF1 rfl).mono hsub.1 hsub.2 (fun _ x => x)
        exact (traceOK_append _ _ _ _).2 ⟨hok1, ih mine X _ H U (D ++ d1) H U hw0 hc i1⟩
      · cases hw
    · cases hw

/-- every trace of a thread is allowed by the policy, from the empty held set -/
theorem thread_sound (hpol : ∀ o h k, pol h k = true → rel (resolve o h) (resolve o k))
    (hfs : checkWith pol fs = true) {tr : List CEv} (ht : ThreadTrace fs tr) : TraceOK rel [] tr := by
  obtain ⟨g, o, hpre⟩ := ht
  have hfs' : ∀ f ∈ fs, funcOK (sumOf fs) pol f = true := by
    simpa [checkWith, List.all_eq_true] using hfs
  refine pre_sound hpol hfs' hpre (sumOf fs g) [] [] [] [] [] [] [] ?_ ?_ ?_
  · simp [walk, okAcq, rebase_nil]
  · intro k _ x hx; cases hx
  · exact ⟨fun l hl => (by cases hl), fun l hl => (by cases hl)⟩

end Sound

/-! ## the interleaving semantics -/

/-- every thread of a reachable state is somewhere inside a trace of a function of `fs` -/
theorem reachable_traces {fs : List Func} {cfg : Config} (hr : Reachable fs cfg) :
    ∀ t ∈ cfg, ThreadTrace fs (t.done ++ t.todo) := by
  induction hr with
  | init h => intro t ht; simpa [(h t ht).1] using (h t ht).2
  | step _ hs ih =>
    cases hs with
    | @acq pre post l m d t _ =>
      intro u hu
      rcases List.mem_append.1 hu with hu | hu
      · exact ih u (List.mem_append.2 (.inl hu))
      · rcases List.mem_cons.1 hu with rfl | hu
        · simpa using ih ⟨d, .acq l m :: t⟩ (by simp)
        · exact ih u (List.mem_append.2 (.inr (List.mem_cons_of_mem _ hu)))
    | @rel pre post d l t =>
      intro u hu
      rcases List.mem_append.1 hu with hu | hu
      · exact ih u (List.mem_append.2 (.inl hu))
      · rcases List.mem_cons.1 hu with rfl | hu
        · simpa using ih ⟨d, .rel l :: t⟩ (by simp)
        · exact ih u (List.mem_append.2 (.inr (List.mem_cons_of_mem _ hu)))

theorem selfPolicy_stable : ∀ (o : Path) (h k : LockRef), selfPolicy h k = true → resolve o h ≠ resolve o k := by
  intro o h k hp e
  simp only [selfPolicy, ne_eq, decide_eq_true_eq] at hp
  exact hp (resolve_inj e)

/-- **Soundness of `noSelfNesting`, per thread**: no trace of a thread contains a request for a lock that the
thread holds at that moment. -/
theorem noSelfNesting_trace (fs : List Func) (h : noSelfNesting fs = true) :
    ∀ tr, ThreadTrace fs tr → TraceOK (· ≠ ·) [] tr :=
  fun _ ht => thread_sound selfPolicy_stable h ht

/-- **Soundness of `noSelfNesting`**: in every state reachable by interleaving threads that run functions of
`fs`, no thread is about to request a lock it holds. -/
theorem noSelfNesting_sound (fs : List Func) (h : noSelfNesting fs = true) :
    ∀ cfg, Reachable fs cfg → ∀ t ∈ cfg, ¬ SelfDeadlockStep t := by
  intro cfg hr t ht ⟨l, m, rest, htodo, hheld⟩
  have htr := noSelfNesting_trace fs h _ (reachable_traces hr t ht)
  rw [htodo] at htr
  exact traceOK_split htr l hheld rfl

theorem orderPolicy_stable (rk : Nat → Nat) :
    ∀ (o : Path) (h k : LockRef), orderPolicy rk h k = true → rk (resolve o h).cls < rk (resolve o k).cls := by
  intro o h k hp
  simpa [orderPolicy, resolve] using hp

/-- per thread: every lock is requested at a rank above everything held -/
theorem lockOrderAcyclic_trace (fs : List Func) (h : lockOrderAcyclic fs = true) :
    ∀ tr, ThreadTrace fs tr → TraceOK (fun x l => (lockRanks fs).get x.cls < (lockRanks fs).get l.cls) [] tr :=
  fun _ ht => thread_sound (orderPolicy_stable _) h ht

theorem WaitPath.head_mem {cfg : Config} {t v : Thread} (h : WaitPath cfg t v) : t ∈ cfg := by
  cases h <;> assumption

theorem WaitPath.head_waits {cfg : Config} {t v : Thread} (h : WaitPath cfg t v) :
    ∃ l m rest, t.todo = .acq l m :: rest := by
  cases h with
  | one _ _ hw => obtain ⟨l, m, rest, e, _⟩ := hw; exact ⟨l, m, rest, e⟩
  | cons _ hw _ => obtain ⟨l, m, rest, e, _⟩ := hw; exact ⟨l, m, rest, e⟩

/-- along a chain of waiting threads the rank of the requested lock grows -/
theorem WaitPath.rank_lt {cfg : Config} (rk : Nat → Nat)
    (hdisc : ∀ t ∈ cfg, ∀ l m rest, t.todo = .acq l m :: rest → ∀ x ∈ t.held, rk x.cls < rk l.cls)
    {t v : Thread} (h : WaitPath cfg t v) :
    ∀ lv mv rv, v.todo = .acq lv mv :: rv → ∃ lt mt rt, t.todo = .acq lt mt :: rt ∧ rk lt.cls < rk lv.cls := by
  induction h with
  | one _ hu hw =>
    intro lv mv rv hv
    obtain ⟨l, m, rest, e, hheld⟩ := hw
    exact ⟨l, m, rest, e, hdisc _ hu lv mv rv hv l hheld⟩
  | cons _ hw hp ih =>
    intro lv mv rv hv
    obtain ⟨l, m, rest, e, hheld⟩ := hw
    obtain ⟨lu, mu, ru, eu⟩ := hp.head_waits
    obtain ⟨lu', mu', ru', eu', hlt⟩ := ih lv mv rv hv
    rw [eu] at eu'
    cases eu'
    exact ⟨l, m, rest, e, Nat.lt_trans (hdisc _ hp.head_mem lu mu ru eu l hheld) hlt⟩

/-- **Soundness of `lockOrderAcyclic`**: no reachable state contains a cycle of threads each waiting for a
lock held by the next (a strict order on lock classes that every thread respects excludes it). -/
theorem lockOrderAcyclic_sound (fs : List Func) (h : lockOrderAcyclic fs = true) :
    ∀ cfg, Reachable fs cfg → ¬ WaitCycle cfg := by
  intro cfg hr ⟨t, hp⟩
  have hdisc : ∀ t ∈ cfg, ∀ l m rest, t.todo = .acq l m :: rest →
      ∀ x ∈ t.held, (lockRanks fs).get x.cls < (lockRanks fs).get l.cls := by
    intro t ht l m rest htodo
    have htr := lockOrderAcyclic_trace fs h _ (reachable_traces hr t ht)
    rw [htodo] at htr
    exact traceOK_split htr
  obtain ⟨l, m, rest, e⟩ := hp.head_waits
  obtain ⟨l', m', rest', e', hlt⟩ := hp.rank_lt _ hdisc l m rest e
  rw [e] at e'
  cases e'
  exact Nat.lt_irrefl _ hlt

/-- an acyclic lock order in particular has no nested acquisition of one lock -/
theorem lockOrderAcyclic_noSelf (fs : List Func) (h : lockOrderAcyclic fs = true) :
    ∀ cfg, Reachable fs cfg → ∀ t ∈ cfg, ¬ SelfDeadlockStep t := by
  intro cfg hr t ht ⟨l, m, rest, htodo, hheld⟩
  exact lockOrderAcyclic_sound fs h cfg hr ⟨t, .one ht ht ⟨l, m, rest, htodo, hheld⟩⟩

end Mochi.Locks
