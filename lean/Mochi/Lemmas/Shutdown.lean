import Mochi.Model.Shutdown
/-! The invariant of the shutdown model (M4b), preserved by every step of every schedule. -/
namespace Mochi.Shutdown

/-- an MQTT 5 connection was written DISCONNECT 0x8B, unless its peer had closed it before the broker did -/
def good (h : H) : Prop := h.ver ≥ 5 → Out.disconnect 0x8B ∈ h.out ∨ h.peerClosed = true

/-- the clients of listener `l` the closer has enumerated and not yet stopped -/
def pendingFor : CPc → Nat → List Nat
  | .disc l todo, l' => if l = l' then todo else []
  | .discStop l c todo, l' => if l = l' then c :: todo else []
  | _, _ => []

/-- the listener the closer is working on -/
def curL : CPc → Option Nat
  | .snapshot l | .disc l _ | .discStop l _ _ | .closeNet l => some l
  | _ => none

def lateC : CPc → Bool
  | .wgWait | .wgBlocked | .hooksStop | .returned | .panicked => true
  | _ => false

def afterWait : CPc → Bool
  | .hooksStop | .returned => true
  | _ => false

/-- `ClientsWg.Add(1)` has been executed -/
def afterAdd (pc : HPc) : Bool := pc.counted || pc == .finished

/-- what is known of one handler, relative to the closer's progress (`wp` = Wait has returned, `snap` =
    listeners enumerated, `cpc` = closer's program counter) -/
structure HInv (order : List Nat) (wp : Bool) (snap : List Nat) (cpc : CPc) (i : Nat) (h : H) : Prop where
  reg : h.regBeforeSnap = true → h.registered = true
  addA : afterAdd h.pc = true → h.addBeforeWait = false → wp = true
  addB : h.addBeforeWait = true → afterAdd h.pc = true
  goodS : h.stopped = true → good h
  tear : h.pc = .teardown → h.stopped = true ∨ h.peerClosed = true
  fin : (h.pc = .wgDone ∨ h.pc = .finished) → h.stopped = true
  waitF : wp = true → h.addBeforeWait = true → h.pc = .finished
  pend : h.regBeforeSnap = true → h.lis ∈ snap → h.stopped = true ∨ i ∈ pendingFor cpc h.lis
  regAdd : h.regBeforeSnap = true → h.lis ∈ order → h.addBeforeWait = true
  stopG : ∀ l todo, cpc = .discStop l i todo → good h

structure Inv (order : List Nat) (s : Sys) : Prop where
  count : s.wg = s.hs.countP (fun h => h.pc.counted)
  waitLate : s.waitPassed = true ↔ afterWait s.cpc = true
  lateTodo : lateC s.cpc = true → s.todoL = []
  lis : ∀ l ∈ order, l ∈ s.todoL ∨ curL s.cpc = some l ∨ (l ∈ s.snapshotted ∧ l ∈ s.ended ∧ l ∈ s.netClosed)
  cur : ∀ l, curL s.cpc = some l → l ∈ s.ended ∧ (s.cpc ≠ .snapshot l → l ∈ s.snapshotted)
  hinv : ∀ i h, s.hs[i]? = some h → HInv order s.waitPassed s.snapshotted s.cpc i h

/-- once `Wait` has returned every listener has been enumerated -/
theorem Inv.allSnap {order : List Nat} {s : Sys} (hI : Inv order s) (hw : s.waitPassed = true) :
    ∀ l ∈ order, l ∈ s.snapshotted ∧ l ∈ s.ended ∧ l ∈ s.netClosed := by
  intro l hl
  have ha := hI.waitLate.1 hw
  have hlate : lateC s.cpc = true := by
    revert ha; cases s.cpc <;> simp [afterWait, lateC]
  have htodo := hI.lateTodo hlate
  have hcur : curL s.cpc = none := by
    revert hlate; cases s.cpc <;> simp [curL, lateC]
  rcases hI.lis l hl with h | h | h
  · rw [htodo] at h; exact absurd h (by simp)
  · rw [hcur] at h; exact absurd h (by simp)
  · exact h

theorem inv_start (order : List Nat) (hs : List H)
    (hfresh : ∀ h ∈ hs, h.pc = .endTest ∧ h.registered = false ∧ h.stopped = false ∧ h.regBeforeSnap = false ∧
      h.addBeforeWait = false) : Inv order (start order hs) := by
  refine ⟨?_, ?_, ?_, ?_, ?_, ?_⟩
  · simp only [start]
    symm
    rw [List.countP_eq_zero]
    intro h hh
    simp [(hfresh h hh).1, HPc.counted]
  · simp [start, afterWait]
  · simp [start, lateC]
  · intro l hl; left; simpa [start] using hl
  · intro l; simp [start, curL]
  · intro i h hi
    have hm : h ∈ hs := List.mem_iff_getElem?.2 ⟨i, by simpa [start] using hi⟩
    obtain ⟨h1, h2, h3, h4, h5⟩ := hfresh h hm
    constructor <;> simp_all [start, afterAdd, HPc.counted, pendingFor]

theorem lt_of_getElem? {α} {l : List α} {i : Nat} {a : α} (h : l[i]? = some a) : i < l.length := by
  cases hl : decide (i < l.length) with
  | true => exact of_decide_eq_true hl
  | false =>
    have := of_decide_eq_false hl
    rw [List.getElem?_eq_none (by omega)] at h; exact absurd h (by simp)

theorem getElem_of_getElem? {α} {l : List α} {i : Nat} {a : α} (h : l[i]? = some a) :
    l[i]'(lt_of_getElem? h) = a := by
  have := List.getElem?_eq_getElem (lt_of_getElem? h)
  rw [this] at h; exact Option.some.inj h

/-- replacing handler `i` changes the number of counted handlers by the two handlers' own contributions -/
theorem count_set (hs : List H) (i : Nat) (h h' : H) (hi : hs[i]? = some h) :
    (hs.set i h').countP (fun h => h.pc.counted) =
      (hs.countP (fun h => h.pc.counted) - (if h.pc.counted then 1 else 0)) + (if h'.pc.counted then 1 else 0) := by
  rw [List.countP_set (lt_of_getElem? hi), getElem_of_getElem? hi]

theorem count_pos (hs : List H) (i : Nat) (h : H) (hi : hs[i]? = some h) (hc : h.pc.counted = true) :
    0 < hs.countP (fun h => h.pc.counted) := by
  rw [List.countP_pos_iff]
  exact ⟨h, List.mem_iff_getElem?.2 ⟨i, hi⟩, hc⟩

/-- a handler step: handler `i` becomes `h'`, the counter `wg'`; nothing of the closer changes -/
theorem inv_setH (order : List Nat) (s : Sys) (i : Nat) (h h' : H) (wg' : Nat) (hI : Inv order s)
    (hi : s.hs[i]? = some h)
    (hc : wg' + (if h.pc.counted then 1 else 0) = s.wg + (if h'.pc.counted then 1 else 0))
    (hh : HInv order s.waitPassed s.snapshotted s.cpc i h') :
    Inv order { s with wg := wg', hs := s.hs.set i h' } := by
  refine ⟨?_, hI.waitLate, hI.lateTodo, hI.lis, hI.cur, ?_⟩
  · simp only
    rw [count_set s.hs i h h' hi]
    have hcnt := hI.count
    by_cases hcd : h.pc.counted = true
    · have := count_pos s.hs i h hi hcd
      simp only [hcd, if_true] at hc ⊢
      omega
    · simp only [hcd] at hc ⊢
      simp at hc ⊢
      omega
  · intro j u hu
    simp only at hu
    rw [List.getElem?_set] at hu
    split at hu
    · rename_i hij; subst hij
      simp [lt_of_getElem? hi] at hu
      subst hu; exact hh
    · exact hI.hinv j u hu

/-- the wait group's waiter bookkeeping is not part of the invariant -/
theorem inv_waitFlags (order : List Nat) (s : Sys) (w r : Bool) (hI : Inv order s) :
    Inv order { s with waiting := w, released := r } :=
  ⟨hI.count, hI.waitLate, hI.lateTodo, hI.lis, hI.cur, hI.hinv⟩

theorem good_mono (h h' : H) (hv : h'.ver = h.ver) (ho : ∀ o ∈ h.out, o ∈ h'.out)
    (hp : h.peerClosed = true → h'.peerClosed = true) (hg : good h) : good h' := by
  intro hv5
  rw [hv] at hv5
  rcases hg hv5 with h1 | h1
  · exact Or.inl (ho _ h1)
  · exact Or.inr (hp h1)

macro "hinv_auto" : tactic =>
  `(tactic| (constructor <;> (try split) <;> simp_all [afterAdd, HPc.counted, good, H.isOpen] <;> (try assumption)))

theorem inv_stepHandler (order : List Nat) (s : Sys) (i : Nat) (hI : Inv order s) :
    Inv order (stepHandler s i) := by
  unfold stepHandler
  cases hi : s.hs[i]? with
  | none => exact hI
  | some h =>
    simp only
    have hh := hI.hinv i h hi
    have same : ∀ (h' : H), h'.pc.counted = h.pc.counted →
        HInv order s.waitPassed s.snapshotted s.cpc i h' →
        Inv order { s with hs := s.hs.set i h' } := by
      intro h' hc hh'
      have := inv_setH order s i h h' s.wg hI hi (by rw [hc]) hh'
      simpa using this
    cases hpc : h.pc with
    | endTest =>
      simp only
      apply same
      · split <;> simp [hpc, HPc.counted]
      · obtain ⟨a1, a2, a3, a4, a5, a6, a7, a8, a9, a10⟩ := hh
        hinv_auto
    | dropped => exact hI
    | wgAdd =>
      simp only
      apply inv_setH order s i h _ _ hI hi
      · simp [hpc, HPc.counted]
      · obtain ⟨a1, a2, a3, a4, a5, a6, a7, a8, a9, a10⟩ := hh
        have hw := hI.waitLate
        hinv_auto
    | readConnect =>
      simp only
      apply same
      · split <;> simp [hpc, HPc.counted]
      · obtain ⟨a1, a2, a3, a4, a5, a6, a7, a8, a9, a10⟩ := hh
        hinv_auto
    | auth =>
      simp only
      apply same
      · simp [hpc, HPc.counted]
      · obtain ⟨a1, a2, a3, a4, a5, a6, a7, a8, a9, a10⟩ := hh
        hinv_auto
    | countIncr =>
      simp only
      apply same
      · simp [hpc, HPc.counted]
      · obtain ⟨a1, a2, a3, a4, a5, a6, a7, a8, a9, a10⟩ := hh
        hinv_auto
    | inherit =>
      simp only
      apply same
      · simp [hpc, HPc.counted]
      · obtain ⟨a1, a2, a3, a4, a5, a6, a7, a8, a9, a10⟩ := hh
        hinv_auto
    | clientsAdd =>
      simp only
      apply same
      · simp [hpc, HPc.counted]
      · obtain ⟨a1, a2, a3, a4, a5, a6, a7, a8, a9, a10⟩ := hh
        have hall := hI.allSnap
        hinv_auto
        intro hns ho
        cases hab : h.addBeforeWait with
        | true => rfl
        | false => exact absurd (hall (a2 hab) _ ho).1 hns
    | connack =>
      simp only
      split
      · apply same
        · simp [hpc, HPc.counted]
        · obtain ⟨a1, a2, a3, a4, a5, a6, a7, a8, a9, a10⟩ := hh
          hinv_auto
      · apply same
        · simp [hpc, HPc.counted]
        · obtain ⟨a1, a2, a3, a4, a5, a6, a7, a8, a9, a10⟩ := hh
          hinv_auto
          cases hst : h.stopped <;> simp_all
    | readLoop =>
      simp only
      split
      · exact hI
      · apply same
        · simp [hpc, HPc.counted]
        · obtain ⟨a1, a2, a3, a4, a5, a6, a7, a8, a9, a10⟩ := hh
          hinv_auto
          cases hst : h.stopped <;> simp_all
    | teardown =>
      simp only
      apply same
      · simp [hpc, HPc.counted]
      · obtain ⟨a1, a2, a3, a4, a5, a6, a7, a8, a9, a10⟩ := hh
        hinv_auto
        intro hv
        rcases a5 with a5 | a5
        · exact a4 a5 hv
        · exact Or.inr a5
    | wgDone =>
      simp only
      have hstep := inv_setH order s i h { h with pc := .finished } (s.wg - 1) hI hi
        (by
          have := count_pos s.hs i h hi (by simp [hpc, HPc.counted])
          have hc := hI.count
          simp [hpc, HPc.counted]
          omega)
        (by
          obtain ⟨a1, a2, a3, a4, a5, a6, a7, a8, a9, a10⟩ := hh
          clear same
          hinv_auto)
      exact inv_waitFlags order _ _ _ hstep
    | finished => exact hI

theorem inv_peerClose (order : List Nat) (s : Sys) (i : Nat) (hI : Inv order s) :
    Inv order (peerClose s i) := by
  unfold peerClose
  cases hi : s.hs[i]? with
  | none => exact hI
  | some h =>
    simp only
    split
    · exact hI
    · rename_i hst
      have hh := hI.hinv i h hi
      have := inv_setH order s i h { h with peerClosed := true } s.wg hI hi (by simp) (by
        obtain ⟨a1, a2, a3, a4, a5, a6, a7, a8, a9, a10⟩ := hh
        hinv_auto)
      simpa using this

/-- a closer step that leaves the handlers alone -/
theorem inv_closerShared (order : List Nat) (s s' : Sys) (hI : Inv order s)
    (hhs : s'.hs = s.hs) (hwg : s'.wg = s.wg)
    (h2 : s'.waitPassed = true ↔ afterWait s'.cpc = true)
    (h3 : lateC s'.cpc = true → s'.todoL = [])
    (h4 : ∀ l ∈ order, l ∈ s'.todoL ∨ curL s'.cpc = some l ∨ (l ∈ s'.snapshotted ∧ l ∈ s'.ended ∧ l ∈ s'.netClosed))
    (h5 : ∀ l, curL s'.cpc = some l → l ∈ s'.ended ∧ (s'.cpc ≠ .snapshot l → l ∈ s'.snapshotted))
    (h6 : ∀ i h, s.hs[i]? = some h → HInv order s.waitPassed s.snapshotted s.cpc i h →
            HInv order s'.waitPassed s'.snapshotted s'.cpc i h) : Inv order s' := by
  refine ⟨by rw [hwg, hhs]; exact hI.count, h2, h3, h4, h5, ?_⟩
  intro i h hi
  rw [hhs] at hi
  exact h6 i h hi (hI.hinv i h hi)

theorem mem_snapshotOf (hs : List H) (l i : Nat) (h : H) (hi : hs[i]? = some h)
    (hl : h.lis = l) (hr : h.registered = true) (hst : h.stopped = false) : i ∈ snapshotOf hs l := by
  unfold snapshotOf
  rw [List.mem_filter]
  refine ⟨List.mem_range.2 (lt_of_getElem? hi), ?_⟩
  simp [hi, hl, hr, hst]

/-- a closer step that rewrites handler `c` (its `pc` unchanged) -/
theorem inv_closerSet (order : List Nat) (s s' : Sys) (c : Nat) (h h' : H) (hI : Inv order s)
    (hi : s.hs[c]? = some h) (hpc : h'.pc = h.pc)
    (hhs : s'.hs = s.hs.set c h') (hwg : s'.wg = s.wg)
    (h2 : s'.waitPassed = true ↔ afterWait s'.cpc = true)
    (h3 : lateC s'.cpc = true → s'.todoL = [])
    (h4 : ∀ l ∈ order, l ∈ s'.todoL ∨ curL s'.cpc = some l ∨ (l ∈ s'.snapshotted ∧ l ∈ s'.ended ∧ l ∈ s'.netClosed))
    (h5 : ∀ l, curL s'.cpc = some l → l ∈ s'.ended ∧ (s'.cpc ≠ .snapshot l → l ∈ s'.snapshotted))
    (h6 : ∀ i u, s.hs[i]? = some u → i ≠ c → HInv order s.waitPassed s.snapshotted s.cpc i u →
            HInv order s'.waitPassed s'.snapshotted s'.cpc i u)
    (h7 : HInv order s.waitPassed s.snapshotted s.cpc c h → HInv order s'.waitPassed s'.snapshotted s'.cpc c h') :
    Inv order s' := by
  refine ⟨?_, h2, h3, h4, h5, ?_⟩
  · rw [hwg, hhs, count_set s.hs c h h' hi, hpc, hI.count]
    by_cases hcd : h.pc.counted = true
    · have := count_pos s.hs c h hi hcd
      simp only [hcd, if_true]
      omega
    · simp [hcd]
  · intro j u hu
    rw [hhs, List.getElem?_set] at hu
    split at hu
    · rename_i hij; subst hij
      simp [lt_of_getElem? hi] at hu
      subst hu; exact h7 (hI.hinv c h hi)
    · rename_i hij
      exact h6 j u hu (fun e => hij e.symm) (hI.hinv j u hu)

/-- `Wait` returns (at once, or after the release) with the counter at 0 -/
theorem inv_waitReturn (order : List Nat) (s s' : Sys) (hI : Inv order s) (hz : s.wg = 0)
    (hlate : lateC s.cpc = true)
    (hhs : s'.hs = s.hs) (hwg : s'.wg = s.wg) (hcpc : s'.cpc = .hooksStop) (hwp : s'.waitPassed = true)
    (htodo : s'.todoL = s.todoL) (hsnap : s'.snapshotted = s.snapshotted)
    (hen : s'.ended = s.ended ∧ s'.netClosed = s.netClosed) : Inv order s' := by
  have hcur : curL s.cpc = none := by
    revert hlate; cases s.cpc <;> simp [curL, lateC]
  have hpend : ∀ l, pendingFor s.cpc l = [] := by
    intro l; revert hlate; cases s.cpc <;> simp [pendingFor, lateC]
  have hnostop : ∀ l c todo, s.cpc ≠ .discStop l c todo := by
    intro l c todo h; rw [h] at hlate; simp [lateC] at hlate
  refine inv_closerShared order s s' hI hhs hwg ?_ ?_ ?_ ?_ ?_
  · simp [hcpc, hwp, afterWait]
  · intro _; rw [htodo]; exact hI.lateTodo hlate
  · intro l' hl'
    rcases hI.lis l' hl' with h | h | h
    · exact Or.inl (htodo ▸ h)
    · rw [hcur] at h; exact absurd h (by simp)
    · exact Or.inr (Or.inr (by rw [hsnap, hen.1, hen.2]; exact h))
  · simp [hcpc, curL]
  · intro i h hi hh
    have hcnt := hI.count
    rw [hz] at hcnt
    have hnc : h.pc.counted = false := by
      have := (List.countP_eq_zero.1 hcnt.symm) h (List.mem_iff_getElem?.2 ⟨i, hi⟩)
      simpa using this
    obtain ⟨a1, a2, a3, a4, a5, a6, a7, a8, a9, a10⟩ := hh
    rw [hwp, hsnap, hcpc]
    refine ⟨a1, fun _ _ => rfl, a3, a4, a5, a6, ?_, ?_, a9, ?_⟩
    · intro _ hab
      have := a3 hab
      simpa [afterAdd, hnc] using this
    · intro hr hl
      rcases a8 hr hl with h1 | h1
      · exact Or.inl h1
      · rw [hpend] at h1; exact absurd h1 (by simp)
    · intro l todo he; simp at he

theorem inv_stepCloser (order : List Nat) (s : Sys) (hI : Inv order s) : Inv order (stepCloser s) := by
  unfold stepCloser
  cases hc : s.cpc with
  | closeDone =>
    simp only
    refine inv_closerShared order s _ hI ?_ ?_ ?_ ?_ ?_ ?_ ?_
    · rfl
    · rfl
    · have := hI.waitLate; simpa [hc, afterWait] using this
    · simp [lateC]
    · intro l hl
      rcases hI.lis l hl with h | h | h
      · exact Or.inl h
      · simp [hc, curL] at h
      · exact Or.inr (Or.inr h)
    · simp [curL]
    · intro i h hi hh
      obtain ⟨a1, a2, a3, a4, a5, a6, a7, a8, a9, a10⟩ := hh
      constructor <;> simp_all [pendingFor]
  | loop =>
    simp only
    cases ht : s.todoL with
    | nil =>
      simp only
      refine inv_closerShared order s _ hI ?_ ?_ ?_ ?_ ?_ ?_ ?_
      · rfl
      · rfl
      · have := hI.waitLate; simpa [hc, afterWait] using this
      · intro _; simp
      · intro l hl
        rcases hI.lis l hl with h | h | h
        · simp [ht] at h
        · simp [hc, curL] at h
        · exact Or.inr (Or.inr h)
      · simp [curL]
      · intro i h hi hh
        obtain ⟨a1, a2, a3, a4, a5, a6, a7, a8, a9, a10⟩ := hh
        constructor <;> simp_all [pendingFor]
    | cons l rest =>
      simp only
      refine inv_closerShared order s _ hI ?_ ?_ ?_ ?_ ?_ ?_ ?_
      · rfl
      · rfl
      · have := hI.waitLate; simpa [hc, afterWait] using this
      · simp [lateC]
      · intro l' hl'
        rcases hI.lis l' hl' with h | h | h
        · rw [ht] at h
          rcases List.mem_cons.1 h with h | h
          · subst h; exact Or.inr (Or.inl (by simp [curL]))
          · exact Or.inl h
        · simp [hc, curL] at h
        · exact Or.inr (Or.inr ⟨h.1, List.mem_cons_of_mem _ h.2.1, h.2.2⟩)
      · intro l' hl'
        simp only [curL, Option.some.injEq] at hl'
        subst hl'
        simp
      · intro i h hi hh
        obtain ⟨a1, a2, a3, a4, a5, a6, a7, a8, a9, a10⟩ := hh
        constructor <;> simp_all [pendingFor]
  | snapshot l =>
    simp only
    refine inv_closerShared order s _ hI ?_ ?_ ?_ ?_ ?_ ?_ ?_
    · rfl
    · rfl
    · have := hI.waitLate; simpa [hc, afterWait] using this
    · simp [lateC]
    · intro l' hl'
      rcases hI.lis l' hl' with h | h | h
      · exact Or.inl h
      · simp only [hc, curL] at h; exact Or.inr (Or.inl (by simpa [curL] using h))
      · exact Or.inr (Or.inr ⟨List.mem_cons_of_mem _ h.1, h.2.1, h.2.2⟩)
    · intro l' hl'
      simp only [curL, Option.some.injEq] at hl'
      subst hl'
      have := (hI.cur l (by simp [hc, curL])).1
      exact ⟨this, fun _ => by simp⟩
    · intro i h hi hh
      obtain ⟨a1, a2, a3, a4, a5, a6, a7, a8, a9, a10⟩ := hh
      constructor <;> (try (simp_all [pendingFor]; done))
      intro hr hl
      cases hst : h.stopped with
      | true => exact Or.inl rfl
      | false =>
        right
        rcases List.mem_cons.1 hl with hl | hl
        · simp only [pendingFor, hl.symm, if_true]
          exact hl ▸ mem_snapshotOf s.hs h.lis i h hi rfl (a1 hr) hst
        · have := a8 hr hl
          simp [hc, pendingFor, hst] at this
  | disc l todo =>
    cases todo with
    | nil =>
      simp only
      refine inv_closerShared order s _ hI ?_ ?_ ?_ ?_ ?_ ?_ ?_
      · rfl
      · rfl
      · have := hI.waitLate; simpa [hc, afterWait] using this
      · simp [lateC]
      · intro l' hl'
        rcases hI.lis l' hl' with h | h | h
        · exact Or.inl h
        · simp only [hc, curL] at h; exact Or.inr (Or.inl (by simpa [curL] using h))
        · exact Or.inr (Or.inr h)
      · intro l' hl'
        simp only [curL, Option.some.injEq] at hl'
        subst hl'
        have := hI.cur l (by simp [hc, curL])
        exact ⟨this.1, fun _ => this.2 (by simp [hc])⟩
      · intro i h hi hh
        obtain ⟨a1, a2, a3, a4, a5, a6, a7, a8, a9, a10⟩ := hh
        constructor <;> (try (simp_all [pendingFor]; done))
    | cons c todo =>
      simp only
      have hshared4 : ∀ l' ∈ order, l' ∈ s.todoL ∨ curL (CPc.discStop l c todo) = some l' ∨
          (l' ∈ s.snapshotted ∧ l' ∈ s.ended ∧ l' ∈ s.netClosed) := by
        intro l' hl'
        rcases hI.lis l' hl' with h | h | h
        · exact Or.inl h
        · simp only [hc, curL] at h; exact Or.inr (Or.inl (by simpa [curL] using h))
        · exact Or.inr (Or.inr h)
      have hshared5 : ∀ l', curL (CPc.discStop l c todo) = some l' → l' ∈ s.ended ∧
          (CPc.discStop l c todo ≠ .snapshot l' → l' ∈ s.snapshotted) := by
        intro l' hl'
        simp only [curL, Option.some.injEq] at hl'
        subst hl'
        have := hI.cur l (by simp [hc, curL])
        exact ⟨this.1, fun _ => this.2 (by simp [hc])⟩
      have hother : ∀ i u, s.hs[i]? = some u → i ≠ c → HInv order s.waitPassed s.snapshotted s.cpc i u →
          HInv order s.waitPassed s.snapshotted (CPc.discStop l c todo) i u := by
        intro i u hu hne hh
        obtain ⟨a1, a2, a3, a4, a5, a6, a7, a8, a9, a10⟩ := hh
        constructor <;> (try (simp_all [pendingFor]; done))
        intro l' todo' he
        simp only [CPc.discStop.injEq] at he
        exact absurd he.2.1.symm hne
      cases hi : s.hs[c]? with
      | none =>
        simp only
        refine inv_closerShared order s _ hI ?_ ?_ ?_ ?_ ?_ ?_ ?_
        · rfl
        · rfl
        · have := hI.waitLate; simpa [hc, afterWait] using this
        · simp [lateC]
        · exact hshared4
        · exact hshared5
        · intro i u hu hh
          exact hother i u hu (fun e => by subst e; rw [hi] at hu; exact absurd hu (by simp)) hh
      | some h =>
        simp only
        refine inv_closerSet order s _ c h (if h.isOpen then { h with out := h.out ++ [.disconnect (discCode h.ver)] } else h) hI hi ?_ rfl rfl ?_ ?_ hshared4 hshared5 hother ?_
        · split <;> rfl
        · have := hI.waitLate; simpa [hc, afterWait] using this
        · simp [lateC]
        · intro hh
          obtain ⟨a1, a2, a3, a4, a5, a6, a7, a8, a9, a10⟩ := hh
          by_cases hop : h.isOpen = true
          · simp only [hop, if_true]
            constructor <;> (try (simp_all [pendingFor, good, H.isOpen]; done))
            intro l' todo' _ hv
            left
            have hv' : 5 ≤ h.ver := hv
            simp [discCode, hv']
          · simp only [hop]
            constructor <;> (try (simp_all [pendingFor]; done))
            intro l' todo' _
            cases hst : h.stopped with
            | true => exact a4 hst
            | false =>
              have : h.peerClosed = true := by simpa [H.isOpen, hst] using hop
              intro _; exact Or.inr this
  | discStop l c todo =>
    simp only
    have hw : s.waitPassed = true ↔ afterWait (CPc.disc l todo) = true := by
      have := hI.waitLate; simpa [hc, afterWait] using this
    have hshared4 : ∀ l' ∈ order, l' ∈ s.todoL ∨ curL (CPc.disc l todo) = some l' ∨
        (l' ∈ s.snapshotted ∧ l' ∈ s.ended ∧ l' ∈ s.netClosed) := by
      intro l' hl'
      rcases hI.lis l' hl' with h | h | h
      · exact Or.inl h
      · simp only [hc, curL] at h; exact Or.inr (Or.inl (by simpa [curL] using h))
      · exact Or.inr (Or.inr h)
    have hshared5 : ∀ l', curL (CPc.disc l todo) = some l' → l' ∈ s.ended ∧
        (CPc.disc l todo ≠ .snapshot l' → l' ∈ s.snapshotted) := by
      intro l' hl'
      simp only [curL, Option.some.injEq] at hl'
      subst hl'
      have := hI.cur l (by simp [hc, curL])
      exact ⟨this.1, fun _ => this.2 (by simp [hc])⟩
    have hother : ∀ i u, s.hs[i]? = some u → i ≠ c → HInv order s.waitPassed s.snapshotted s.cpc i u →
        HInv order s.waitPassed s.snapshotted (CPc.disc l todo) i u := by
      intro i u hu hne hh
      obtain ⟨a1, a2, a3, a4, a5, a6, a7, a8, a9, a10⟩ := hh
      constructor <;> (try (simp_all [pendingFor]; done))
    cases hi : s.hs[c]? with
    | none =>
      simp only
      refine inv_closerShared order s _ hI ?_ ?_ hw ?_ hshared4 hshared5 ?_
      · rfl
      · rfl
      · simp [lateC]
      · intro i u hu hh
        exact hother i u hu (fun e => by subst e; rw [hi] at hu; exact absurd hu (by simp)) hh
    | some h =>
      simp only
      refine inv_closerSet order s _ c h { h with stopped := true } hI hi rfl rfl rfl hw ?_ hshared4 hshared5 hother ?_
      · simp [lateC]
      · intro hh
        obtain ⟨a1, a2, a3, a4, a5, a6, a7, a8, a9, a10⟩ := hh
        have hg : good h := a10 l todo hc
        constructor <;> (try (simp_all [pendingFor, good]; done))
  | closeNet l =>
    simp only
    refine inv_closerShared order s _ hI ?_ ?_ ?_ ?_ ?_ ?_ ?_
    · rfl
    · rfl
    · have := hI.waitLate; simpa [hc, afterWait] using this
    · simp [lateC]
    · intro l' hl'
      rcases hI.lis l' hl' with h | h | h
      · exact Or.inl h
      · simp only [hc, curL, Option.some.injEq] at h
        subst h
        have := hI.cur l (by simp [hc, curL])
        exact Or.inr (Or.inr ⟨this.2 (by simp [hc]), this.1, by simp⟩)
      · exact Or.inr (Or.inr ⟨h.1, h.2.1, List.mem_cons_of_mem _ h.2.2⟩)
    · simp [curL]
    · intro i h hi hh
      obtain ⟨a1, a2, a3, a4, a5, a6, a7, a8, a9, a10⟩ := hh
      constructor <;> (try (simp_all [pendingFor]; done))
  | wgWait =>
    simp only
    split
    · rename_i hz
      have hz : s.wg = 0 := by simpa using hz
      exact inv_waitReturn order s _ hI hz (by simp [hc, lateC]) rfl rfl rfl rfl rfl rfl ⟨rfl, rfl⟩
    · refine inv_closerShared order s _ hI ?_ ?_ ?_ ?_ ?_ ?_ ?_
      · rfl
      · rfl
      · have := hI.waitLate; simpa [hc, afterWait] using this
      · intro _; exact hI.lateTodo (by simp [hc, lateC])
      · intro l' hl'
        rcases hI.lis l' hl' with h | h | h
        · exact Or.inl h
        · simp [hc, curL] at h
        · exact Or.inr (Or.inr h)
      · simp [curL]
      · intro i h hi hh
        obtain ⟨a1, a2, a3, a4, a5, a6, a7, a8, a9, a10⟩ := hh
        constructor <;> (try (simp_all [pendingFor]; done))
  | wgBlocked =>
    simp only
    split
    · split
      · rename_i hz
        have hz : s.wg = 0 := by simpa using hz
        exact inv_waitReturn order s _ hI hz (by simp [hc, lateC]) rfl rfl rfl rfl rfl rfl ⟨rfl, rfl⟩
      · refine inv_closerShared order s _ hI ?_ ?_ ?_ ?_ ?_ ?_ ?_
        · rfl
        · rfl
        · have := hI.waitLate; simpa [hc, afterWait] using this
        · intro _; exact hI.lateTodo (by simp [hc, lateC])
        · intro l' hl'
          rcases hI.lis l' hl' with h | h | h
          · exact Or.inl h
          · simp [hc, curL] at h
          · exact Or.inr (Or.inr h)
        · simp [curL]
        · intro i h hi hh
          obtain ⟨a1, a2, a3, a4, a5, a6, a7, a8, a9, a10⟩ := hh
          constructor <;> (try (simp_all [pendingFor]; done))
    · exact hI
  | hooksStop =>
    simp only
    refine inv_closerShared order s _ hI ?_ ?_ ?_ ?_ ?_ ?_ ?_
    · rfl
    · rfl
    · have := hI.waitLate; simpa [hc, afterWait] using this
    · intro _; exact hI.lateTodo (by simp [hc, lateC])
    · intro l' hl'
      rcases hI.lis l' hl' with h | h | h
      · exact Or.inl h
      · simp [hc, curL] at h
      · exact Or.inr (Or.inr h)
    · simp [curL]
    · intro i h hi hh
      obtain ⟨a1, a2, a3, a4, a5, a6, a7, a8, a9, a10⟩ := hh
      constructor <;> (try (simp_all [pendingFor]; done))
  | returned => simp only; exact hI
  | panicked => simp only; exact hI

theorem inv_closerNext (order : List Nat) (s : Sys) (c : Nat) (hI : Inv order s) : Inv order (closerNext s c) := by
  unfold closerNext
  cases hc : s.cpc with
  | disc l todo =>
    simp only
    split
    · rename_i hmem
      refine inv_closerShared order s _ hI ?_ ?_ ?_ ?_ ?_ ?_ ?_
      · rfl
      · rfl
      · have := hI.waitLate; simpa [hc, afterWait] using this
      · simp [lateC]
      · intro l' hl'
        rcases hI.lis l' hl' with h | h | h
        · exact Or.inl h
        · simp only [hc, curL] at h; exact Or.inr (Or.inl (by simpa [curL] using h))
        · exact Or.inr (Or.inr h)
      · intro l' hl'
        simp only [curL, Option.some.injEq] at hl'
        subst hl'
        have := hI.cur l (by simp [hc, curL])
        exact ⟨this.1, fun _ => this.2 (by simp [hc])⟩
      · intro i h hi hh
        obtain ⟨a1, a2, a3, a4, a5, a6, a7, a8, a9, a10⟩ := hh
        constructor <;> (try (simp_all [pendingFor]; done))
        intro hr hl
        rcases a8 hr hl with h1 | h1
        · exact Or.inl h1
        · right
          rw [hc] at h1
          simp only [pendingFor] at h1 ⊢
          split
          · rename_i hll
            simp only [hll, if_true] at h1
            by_cases hic : i = c
            · simp [hic]
            · exact List.mem_cons_of_mem _ ((List.mem_erase_of_ne hic).2 h1)
          · rename_i hll
            simp [hll] at h1
    · exact hI
  | _ => simp only; exact hI

theorem inv_step (order : List Nat) (s : Sys) (e : Ev) (hI : Inv order s) : Inv order (step s e) := by
  cases e with
  | closerNext c => exact inv_closerNext order s c hI
  | closer => exact inv_stepCloser order s hI
  | handler i => exact inv_stepHandler order s i hI
  | peerClose i => exact inv_peerClose order s i hI

theorem inv_run (order : List Nat) (sched : List Ev) (s : Sys) (hI : Inv order s) : Inv order (run s sched) := by
  induction sched generalizing s with
  | nil => exact hI
  | cons e rest ih => exact ih _ (inv_step order s e hI)

end Mochi.Shutdown
