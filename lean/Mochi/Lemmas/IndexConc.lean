import Mochi.Model.IndexConc
/-! Mutual exclusion by the root lock makes every concurrent execution of index mutators a serial one. -/
namespace Mochi.Topics.Conc
open Mochi.Topics

/-- ops of goroutine `i` already written, in order -/
def doneOf (s : Sys) (i : Nat) : List IOp := (s.log.filter (fun e => e.1 == i)).map (·.2)

/-- what goroutine `t` has still to write -/
def remaining (t : Thr) : List IOp := if t.pc == 3 then t.ops.tail else t.ops

structure Inv (progs : List (List IOp)) (s : Sys) : Prop where
  idx : s.idx = runOps (s.log.map (·.2))
  len : s.thrs.length = progs.length
  excl : ∀ (i : Nat) (t : Thr), s.thrs[i]? = some t → t.pc ≠ 0 → s.holder = some i
  snap : ∀ (i : Nat) (t : Thr), s.thrs[i]? = some t → t.pc = 2 → t.snap = s.idx
  pcs : ∀ (i : Nat) (t : Thr), s.thrs[i]? = some t → t.pc ≤ 3 ∧ (t.ops = [] → t.pc = 0)
  order : ∀ (i : Nat) (t : Thr), s.thrs[i]? = some t → doneOf s i ++ remaining t = progs[i]?.getD []

theorem getElem?_set' {α} (l : List α) (i j : Nat) (a : α) :
    (l.set i a)[j]? = if i = j then (if i < l.length then some a else none) else l[j]? := by
  by_cases h : i = j
  · subst h
    by_cases hl : i < l.length
    · simp [hl]
    · simp [hl]
  · simp [h, List.getElem?_set_ne h]

theorem runOps_append (l : List IOp) (op : IOp) : runOps (l ++ [op]) = applyOp (runOps l) op := by
  simp [runOps, List.foldl_append]

theorem inv_start (progs : List (List IOp)) : Inv progs (start progs) := by
  refine ⟨rfl, by simp [start], ?_, ?_, ?_, ?_⟩
  · intro i t h hp
    simp only [start, List.getElem?_map] at h
    cases hh : progs[i]? <;> simp [hh] at h
    subst h; simp at hp
  · intro i t h hp
    simp only [start, List.getElem?_map] at h
    cases hh : progs[i]? <;> simp [hh] at h
    subst h; simp at hp
  · intro i t h
    simp only [start, List.getElem?_map] at h
    cases hh : progs[i]? <;> simp [hh] at h
    subst h; simp
  · intro i t h
    simp only [start, List.getElem?_map] at h
    cases hh : progs[i]? with
    | none => simp [hh] at h
    | some p =>
      simp [hh] at h
      subst h
      simp [doneOf, remaining, start]

theorem doneOf_log_append_ne (s : Sys) (i j : Nat) (op : IOp) (h : j ≠ i) (idx' : Index) (thrs' : List Thr) :
    doneOf { s with idx := idx', log := s.log ++ [(j, op)], thrs := thrs' } i = doneOf s i := by
  simp [doneOf, List.filter_append, h]

theorem doneOf_log_append_eq (s : Sys) (i : Nat) (op : IOp) (idx' : Index) (thrs' : List Thr) :
    doneOf { s with idx := idx', log := s.log ++ [(i, op)], thrs := thrs' } i = doneOf s i ++ [op] := by
  simp [doneOf, List.filter_append]

theorem inv_step (progs : List (List IOp)) (s : Sys) (h : Inv progs s) (i : Nat) :
    Inv progs (stepThr true s i) := by
  unfold stepThr
  cases hti : s.thrs[i]? with
  | none => exact h
  | some t =>
    simp only
    cases hops : t.ops with
    | nil => exact h
    | cons op rest =>
      simp only [if_true]
      have hil : i < s.thrs.length := by
        cases hl : decide (i < s.thrs.length) with
        | true => exact of_decide_eq_true hl
        | false =>
          have := of_decide_eq_false hl
          rw [List.getElem?_eq_none (by omega)] at hti; exact absurd hti (by simp)
      have hpc := (h.pcs i t hti).1
      split
      · -- pc = 0: lock
        rename_i hp0
        have hp0 : t.pc = 0 := by simpa using hp0
        split
        · rename_i hnone
          have hnone : s.holder = none := by simpa using hnone
          refine ⟨h.idx, by simpa using h.len, ?_, ?_, ?_, ?_⟩
          · intro j u hu hp
            rw [getElem?_set'] at hu
            split at hu
            · rename_i hij; subst hij; rfl
            · have := h.excl j u hu hp; rw [hnone] at this; exact absurd this (by simp)
          · intro j u hu hp
            rw [getElem?_set'] at hu
            split at hu
            · simp [hil] at hu; subst hu; simp at hp
            · exact h.snap j u hu hp
          · intro j u hu
            rw [getElem?_set'] at hu
            split at hu
            · simp [hil] at hu; subst hu; simp [hops]
            · exact h.pcs j u hu
          · intro j u hu
            rw [getElem?_set'] at hu
            split at hu
            · rename_i hij; subst hij
              simp [hil] at hu; subst hu
              have := h.order i t hti
              simpa [doneOf, remaining, hp0, hops] using this
            · simpa [doneOf] using h.order j u hu
        · exact h
      · split
        · -- pc = 1: read
          rename_i _ hp1
          have hp1 : t.pc = 1 := by simpa using hp1
          refine ⟨h.idx, by simpa using h.len, ?_, ?_, ?_, ?_⟩
          · intro j u hu hp
            rw [getElem?_set'] at hu
            split at hu
            · rename_i hij; subst hij; exact h.excl i t hti (by omega)
            · exact h.excl j u hu hp
          · intro j u hu hp
            rw [getElem?_set'] at hu
            split at hu
            · simp [hil] at hu; subst hu; rfl
            · exact h.snap j u hu hp
          · intro j u hu
            rw [getElem?_set'] at hu
            split at hu
            · simp [hil] at hu; subst hu; simp [hops]
            · exact h.pcs j u hu
          · intro j u hu
            rw [getElem?_set'] at hu
            split at hu
            · rename_i hij; subst hij
              simp [hil] at hu; subst hu
              have := h.order i t hti
              simpa [doneOf, remaining, hp1, hops] using this
            · simpa [doneOf] using h.order j u hu
        · split
          · -- pc = 2: write
            rename_i _ _ hp2
            have hp2 : t.pc = 2 := by simpa using hp2
            have hsnap := h.snap i t hti hp2
            have hhold := h.excl i t hti (by omega)
            refine ⟨?_, by simpa using h.len, ?_, ?_, ?_, ?_⟩
            · simp only [List.map_append, List.map_cons, List.map_nil]
              rw [runOps_append, ← h.idx, hsnap]
            · intro j u hu hp
              rw [getElem?_set'] at hu
              split at hu
              · rename_i hij; subst hij; exact hhold
              · exact h.excl j u hu hp
            · intro j u hu hp
              rw [getElem?_set'] at hu
              split at hu
              · simp [hil] at hu; subst hu; simp at hp
              · rename_i hij
                -- another goroutine that has read would hold the lock too
                have := h.excl j u hu (by omega)
                rw [hhold] at this
                exact absurd (Option.some.inj this) hij
            · intro j u hu
              rw [getElem?_set'] at hu
              split at hu
              · simp [hil] at hu; subst hu; simp [hops]
              · exact h.pcs j u hu
            · intro j u hu
              rw [getElem?_set'] at hu
              split at hu
              · rename_i hij; subst hij
                simp [hil] at hu; subst hu
                have := h.order i t hti
                rw [doneOf_log_append_eq]
                simp only [remaining, hp2, hops] at this ⊢
                simpa using this
              · rename_i hij
                rw [doneOf_log_append_ne s j i op hij]
                exact h.order j u hu
          · -- pc = 3: unlock
            rename_i hn0 hn1 hn2
            have hp3 : t.pc = 3 := by
              have h0 : t.pc ≠ 0 := by simpa using hn0
              have h1 : t.pc ≠ 1 := by simpa using hn1
              have h2 : t.pc ≠ 2 := by simpa using hn2
              omega
            have hhold := h.excl i t hti (by omega)
            refine ⟨h.idx, by simpa using h.len, ?_, ?_, ?_, ?_⟩
            · intro j u hu hp
              rw [getElem?_set'] at hu
              split at hu
              · simp [hil] at hu; subst hu; simp at hp
              · rename_i hij
                have := h.excl j u hu hp
                rw [hhold] at this
                exact absurd (Option.some.inj this) hij
            · intro j u hu hp
              rw [getElem?_set'] at hu
              split at hu
              · simp [hil] at hu; subst hu; simp at hp
              · exact h.snap j u hu hp
            · intro j u hu
              rw [getElem?_set'] at hu
              split at hu
              · simp [hil] at hu; subst hu; simp
              · exact h.pcs j u hu
            · intro j u hu
              rw [getElem?_set'] at hu
              split at hu
              · rename_i hij; subst hij
                simp [hil] at hu; subst hu
                have := h.order i t hti
                simpa [doneOf, remaining, hp3, hops] using this
              · simpa [doneOf] using h.order j u hu

theorem inv_run (progs : List (List IOp)) (sched : List Nat) (s : Sys) (h : Inv progs s) :
    Inv progs (runSched true s sched) := by
  induction sched generalizing s with
  | nil => exact h
  | cons i rest ih => exact ih _ (inv_step progs s h i)

end Mochi.Topics.Conc
