import Mochi.Lemmas.BrokerAnswers
/-!
# C07, PUBLISH: every exit of `processPublish`, as a table

`pubAnswer s i qos id topic alias` computes — from the state BEFORE the packet — what `processPublish` answers a live
network client: nothing (`silent`), an acknowledgement of type `t` with reason code `rc` (`ack t rc`), or an error that
closes the connection (`close`).  `processPublish_spec` proves the table against the handler, exit by exit.
-/
namespace Mochi.Broker.R07
open Mochi.Topics

inductive PubAns where
  | silent
  | ack (t rc : Nat)
  | close
deriving DecidableEq, Repr

/-- what a handler result has to look like for each answer -/
def PubSpec (conn ver id : Nat) : PubAns → HRes → Prop
  | .silent, r => r.2.2 = none
  | .ack t rc, r => r.2.2 = none ∧ ∃ rest, r.2.1 = .wrote conn (.ack ver t id rc) :: rest
  | .close, r => ∃ code, r.2.2 = some code

theorem PubSpec.ite {conn ver id : Nat} {ans : PubAns} {p : Prop} [Decidable p] {a b : HRes}
    (ha : p → PubSpec conn ver id ans a) (hb : ¬ p → PubSpec conn ver id ans b) :
    PubSpec conn ver id ans (if p then a else b) := by
  by_cases h : p
  · rw [if_pos h]; exact ha h
  · rw [if_neg h]; exact hb h

/-- a refused QoS > 0 publish: MQTT 5 is acknowledged with the failure code, MQTT 3 is disconnected; QoS 0: nothing -/
def refuseAns (ver qos rc : Nat) : PubAns :=
  if qos == 0 then .silent else if ver != 5 then .close else .ack (if qos == 2 then 5 else 4) rc

/-- the topic after the inbound alias is resolved (`TopicAliases.Inbound.Set`) -/
def aliasTopic (aliasIn : List (Nat × Str)) (tamax : Nat) (topic : Str) (alias : Option Nat) : Str :=
  match alias with
  | some a =>
    if a > 0 then
      if tamax == 0 then topic
      else match assocGet aliasIn a with
        | some existing => if topic.isEmpty then existing else topic
        | none => topic
    else topic
  | none => topic

def pubTopic (s : Server) (i : Nat) (topic : Str) (alias : Option Nat) : Str :=
  aliasTopic (getObj s i).aliasIn s.caps.topicAliasMaximum topic alias

/-- the exits after the QoS clamp: `q` is the clamped QoS, `mode` the `OnPublish` hook's verdict for the topic -/
def pubTail (ver q : Nat) (mode : Option String) : PubAns :=
  if mode == some "reject" then .silent
  else if mode == some "err" && ver == 5 && q > 0 then .ack (if q == 2 then 5 else 4) 0x87
  else if q == 0 then .silent
  else .ack (if q == 2 then 5 else 4) (if q == 2 then 0 else q)

/-- the QoS after `if pk.FixedHeader.Qos > MaximumQos { pk.FixedHeader.Qos = MaximumQos }` -/
def clampQos (s : Server) (qos : Nat) : Nat := if qos > s.caps.maximumQos then s.caps.maximumQos else qos

/-- **the table**: the answer of `processPublish` to a live network client, exit by exit -/
def pubAnswer (s : Server) (i qos id : Nat) (topic : Str) (alias : Option Nat) : PubAns :=
  if !isValidFilter topic true then refuseAns (getObj s i).ver qos 0x90
  else if (getObj s i).recvQuota == 0 then .close
  else if !aclOk s (getObj s i).id topic true then refuseAns (getObj s i).ver qos 0x87
  else if ((flGet (getObj s i) id).map (·.type)) == some 5 then .ack 5 0x91
  else if (pubTopic s i topic alias).isEmpty then .close
  else pubTail (getObj s i).ver (clampQos s qos) (assocGet s.pubHook (pubTopic s i topic alias))

/-- client level: the fields a write looks at, and the alias table -/
structure CF (a b : Client) : Prop where
  conn : b.conn = a.conn
  ver : b.ver = a.ver
  isOpen : b.isOpen = a.isOpen
  stopped : b.stopped = a.stopped
  inline : b.inline = a.inline
  peer : b.peerGone = a.peerGone

theorem CF.refl (a : Client) : CF a a := ⟨rfl, rfl, rfl, rfl, rfl, rfl⟩
theorem CF.trans {a b c : Client} (h : CF a b) (g : CF b c) : CF a c :=
  ⟨g.conn.trans h.conn, g.ver.trans h.ver, g.isOpen.trans h.isOpen, g.stopped.trans h.stopped,
   g.inline.trans h.inline, g.peer.trans h.peer⟩

theorem Keep.trans {i : Nat} {s s1 s2 : Server} (h : Keep i s s1) (g : Keep i s1 s2) : Keep i s s2 :=
  ⟨g.conn.trans h.conn, g.ver.trans h.ver, g.isOpen.trans h.isOpen, g.stopped.trans h.stopped,
   g.inline.trans h.inline, g.peer.trans h.peer, g.caps.trans h.caps, g.acl.trans h.acl, g.connOf.trans h.connOf,
   g.hook.trans h.hook⟩

/-- the acting object is overwritten with a client that agrees with the ORIGINAL object on the six fields -/
theorem Keep.set {i : Nat} {s0 s : Server} (h : Keep i s0 s) (c : Client) (hc : CF (getObj s0 i) c) :
    Keep i s0 (setObj s i c) := by
  rcases getObj_setObj_self_cases s i c with e | e
  · exact ⟨by rw [e]; exact hc.conn, by rw [e]; exact hc.ver, by rw [e]; exact hc.isOpen, by rw [e]; exact hc.stopped,
      by rw [e]; exact hc.inline, by rw [e]; exact hc.peer, h.caps, h.acl, h.connOf, h.hook⟩
  · exact ⟨by rw [e]; exact h.conn, by rw [e]; exact h.ver, by rw [e]; exact h.isOpen, by rw [e]; exact h.stopped,
      by rw [e]; exact h.inline, by rw [e]; exact h.peer, h.caps, h.acl, h.connOf, h.hook⟩

theorem Keep.cf {i : Nat} {s s' : Server} (h : Keep i s s') : CF (getObj s i) (getObj s' i) :=
  ⟨h.conn, h.ver, h.isOpen, h.stopped, h.inline, h.peer⟩

theorem retainMsg_keep (s : Server) (pk : Msg) (i : Nat) : Keep i s (retainMsg s pk) := by
  unfold retainMsg
  split
  · exact Keep.refl i s
  · exact (Keep.refl i s).upd rfl rfl rfl rfl rfl

theorem flSet_cf (c : Client) (m : Msg) : CF c (flSet c m).1 := by
  obtain ⟨a, b, d, e, f, g⟩ := flSet_fields c m
  exact ⟨a, g, b, d, e, f⟩

theorem decRecv_cf (c : Client) : CF c (decRecv c) := by
  obtain ⟨a, b, d, e, f, g⟩ := decRecv_fields c
  exact ⟨a, g, b, d, e, f⟩

/-- a live client is written a non-PUBLISH message as an acknowledgement -/
theorem writeMsg_live {s : Server} {conn i : Nat} (L : Live s conn i) (m : Msg) (ht : m.type ≠ 3) :
    writeMsg s i m = [.wrote conn (.ack (getObj s i).ver m.type m.id m.reasonCode)] := by
  unfold writeMsg
  have : (m.type == 3) = false := by simpa using ht
  simp [L.isOpen, L.inline, L.peer, this, L.conn]

/-! ### `processPublish` after its duplicate test, cut into three named stages (copies of the model's text; that the
cut is faithful is checked by `show` in `processPublish_spec`) -/

/-- `Inflight.Delete` of a (non-PUBREC) record under the client's packet id -/
def ppDel (s : Server) (i : Nat) (c : Client) (id : Nat) : Server × Client :=
  if !c.inline && (flGet c id).isSome then
    let c' := (flDelete c id).1
    ({ setObj s i c' with info := { s.info with inflight := s.info.inflight - 1 } }, c')
  else (s, c)

/-- the inbound topic alias -/
def ppAlias (s : Server) (c : Client) (pk : Msg) (topic : Str) (alias : Option Nat) : Client × Msg :=
  match alias with
  | some a =>
    if a > 0 then
      if s.caps.topicAliasMaximum == 0 then (c, pk)
      else match assocGet c.aliasIn a with
        | some existing => if topic.isEmpty then (c, { pk with topic := existing })
                           else ({ c with aliasIn := assocSet c.aliasIn a topic }, pk)
        | none => ({ c with aliasIn := assocSet c.aliasIn a topic }, pk)
    else (c, pk)
  | none => (c, pk)

/-- everything after the alias -/
def ppRest (s : Server) (i : Nat) (c : Client) (pk : Msg) (id : Nat) : HRes :=
  let s := setObj s i c
  if !c.inline && pk.topic.isEmpty then
    let (s, o) := disconnectClient s i 0x82
    (s, o, some 0x82)
  else
  let pk := if pk.qos > s.caps.maximumQos then { pk with qos := s.caps.maximumQos } else pk
  let mode := assocGet s.pubHook pk.topic
  if mode == some "reject" then (s, [], none)
  else if mode == some "err" && c.ver == 5 && pk.qos > 0 then ackRes s i (if pk.qos == 2 then 5 else 4) id 0x87
  else
    let pk := if mode == some "ignore" then { pk with ignore := true } else pk
    let s := if pk.retain then retainMsg s pk else s
    if pk.qos == 0 || c.inline then
      let (s, o) := publishToSubscribers s pk
      (s, o, none)
    else
      let s := modObj s i decRecv
      let ackT := if pk.qos == 2 then 5 else 4
      let ackRC := if pk.qos == 2 then 0 else pk.qos
      let ack : Msg := { type := ackT, id := id, reasonCode := ackRC, created := NOW, expiry := NOW + s.caps.maxMessageExpiry }
      let (c', isNew) := flSet (getObj s i) ack
      let s := setObj s i c'
      let s := if isNew then { s with info := { s.info with inflight := s.info.inflight + 1 } } else s
      if dead (getObj s i) then (s, [], some 0)
      else
        let o1 := writeMsg s i ack
        let s := if pk.qos == 1 then
            let (c'', ok) := flDelete (getObj s i) id
            let s := setObj s i (incRecv c'')
            if ok then { s with info := { s.info with inflight := s.info.inflight - 1 } } else s
          else s
        let (s, o2) := publishToSubscribers s pk
        (s, o1 ++ o2, none)

theorem ppRest_spec {s0 : Server} {conn i : Nat} (L : Live s0 conn i) (s1 : Server) (c2 : Client) (pk : Msg) (id : Nat)
    (hk : Keep i s0 s1) (hc : CF (getObj s0 i) c2) :
    PubSpec conn (getObj s0 i).ver id
      (if pk.topic.isEmpty then .close
       else pubTail (getObj s0 i).ver (clampQos s0 pk.qos) (assocGet s0.pubHook pk.topic))
      (ppRest s1 i c2 pk id) := by
  have hin : c2.inline = false := hc.inline.trans L.inline
  unfold ppRest
  extract_lets +onlyGivenNames s2
  have hk2 : Keep i s0 s2 := hk.set c2 hc
  have L2 : Live s2 conn i := hk2.live L
  by_cases h1 : (!c2.inline && pk.topic.isEmpty) = true
  · rw [if_pos h1]
    have h1' : pk.topic.isEmpty = true := by rw [hin] at h1; simpa using h1
    rw [if_pos h1']
    generalize disconnectClient s2 i 0x82 = d
    obtain ⟨s', o⟩ := d
    exact ⟨0x82, rfl⟩
  · rw [if_neg h1]
    have h1' : ¬ pk.topic.isEmpty = true := by rw [hin] at h1; simpa using h1
    rw [if_neg h1']
    extract_lets +onlyGivenNames pk3 mode
    have hq3 : pk3.qos = clampQos s0 pk.qos := by
      show (if pk.qos > s2.caps.maximumQos then _ else pk).qos = _
      unfold clampQos
      rw [show s2.caps = s0.caps from hk2.caps]
      by_cases hcl : pk.qos > s0.caps.maximumQos
      · rw [if_pos hcl, if_pos hcl]
      · rw [if_neg hcl, if_neg hcl]
    have ht3 : pk3.topic = pk.topic := by
      show (if pk.qos > s2.caps.maximumQos then _ else pk).topic = _
      by_cases hcl : pk.qos > s2.caps.maximumQos
      · rw [if_pos hcl]
      · rw [if_neg hcl]
    have hmode : mode = assocGet s0.pubHook pk.topic := by
      show assocGet s2.pubHook pk3.topic = _
      rw [ht3, hk2.hook]
    rw [← hmode, ← hq3]
    unfold pubTail
    by_cases h2 : (mode == some "reject") = true
    · rw [if_pos h2, if_pos h2]; exact rfl
    · rw [if_neg h2, if_neg h2]
      by_cases h3 : (mode == some "err" && c2.ver == 5 && decide (pk3.qos > 0)) = true
      · have h3' : (mode == some "err" && (getObj s0 i).ver == 5 && decide (pk3.qos > 0)) = true := by
          rw [← hc.ver]; exact h3
        have ht : (if (pk3.qos == 2) = true then 5 else 4) ≠ 3 := by split <;> decide
        rw [if_pos h3, if_pos h3', ackRes_live' L2 _ id 0x87 ht, hk2.ver]
        exact ⟨rfl, [], rfl⟩
      · have h3' : ¬ (mode == some "err" && (getObj s0 i).ver == 5 && decide (pk3.qos > 0)) = true := by
          rw [← hc.ver]; exact h3
        rw [if_neg h3, if_neg h3']
        extract_lets +onlyGivenNames pk4 s3
        have hq4 : pk4.qos = pk3.qos := by
          show (if (mode == some "ignore") = true then _ else pk3).qos = _
          by_cases hm : (mode == some "ignore") = true
          · rw [if_pos hm]
          · rw [if_neg hm]
        have hk3 : Keep i s0 s3 := by
          show Keep i s0 (if pk4.retain = true then retainMsg s2 pk4 else s2)
          by_cases hr : pk4.retain = true
          · rw [if_pos hr]; exact hk2.trans (retainMsg_keep s2 pk4 i)
          · rw [if_neg hr]; exact hk2
        by_cases h4 : (pk4.qos == 0 || c2.inline) = true
        · rw [if_pos h4]
          have hz : (pk3.qos == 0) = true := by rw [hin, Bool.or_false, hq4] at h4; exact h4
          rw [if_pos hz]
          generalize publishToSubscribers s3 pk4 = d
          obtain ⟨s', o⟩ := d
          exact rfl
        · rw [if_neg h4]
          have hz : ¬ (pk3.qos == 0) = true := by rw [hin, Bool.or_false, hq4] at h4; exact h4
          rw [if_neg hz]
          extract_lets +onlyGivenNames s4 ackT ackRC ack
          have hk4 : Keep i s0 s4 := hk3.mod decRecv (fun c => by
            obtain ⟨a, b, d, e, f, g⟩ := decRecv_fields c
            exact ⟨a, g, b, d, e, f⟩)
          have hfr : CF (getObj s0 i) (flSet (getObj s4 i) ack).1 := hk4.cf.trans (flSet_cf _ _)
          generalize flSet (getObj s4 i) ack = fr at hfr ⊢
          obtain ⟨c', isNew⟩ := fr
          dsimp -zeta only at hfr ⊢
          extract_lets +onlyGivenNames s5 src6 s6
          have hk5 : Keep i s0 s5 := hk4.set c' hfr
          have hk6 : Keep i s0 s6 := by
            show Keep i s0 (if isNew = true then _ else s5)
            by_cases hn : isNew = true
            · rw [if_pos hn]; exact hk5.upd rfl rfl rfl rfl rfl
            · rw [if_neg hn]; exact hk5
          have L6 : Live s6 conn i := hk6.live L
          have hd6 : ¬ dead (getObj s6 i) = true := by rw [L6.notDead]; decide
          rw [if_neg hd6]
          extract_lets +onlyGivenNames o1
          have hty : ack.type ≠ 3 := by
            show (if (pk4.qos == 2) = true then 5 else 4) ≠ 3
            split <;> decide
          have ho1 : o1 = [.wrote conn (.ack (getObj s0 i).ver ackT id ackRC)] := by
            have := writeMsg_live L6 ack hty
            rw [hk6.ver] at this
            exact this
          have hT : ackT = if (pk3.qos == 2) = true then 5 else 4 := by
            show (if (pk4.qos == 2) = true then 5 else 4) = _
            rw [hq4]
          have hR : ackRC = if (pk3.qos == 2) = true then 0 else pk3.qos := by
            show (if (pk4.qos == 2) = true then 0 else pk4.qos) = _
            rw [hq4]
          rw [ho1, hT, hR]
          exact ⟨rfl, _, rfl⟩

theorem ppDel_spec (s : Server) (i id : Nat) :
    Keep i s (ppDel s i (getObj s i) id).1 ∧ CF (getObj s i) (ppDel s i (getObj s i) id).2 ∧
    (ppDel s i (getObj s i) id).2.aliasIn = (getObj s i).aliasIn := by
  unfold ppDel
  split
  · refine ⟨?_, ⟨rfl, rfl, rfl, rfl, rfl, rfl⟩, rfl⟩
    exact ((Keep.refl i s).set (flDelete (getObj s i) id).1 ⟨rfl, rfl, rfl, rfl, rfl, rfl⟩).upd
      (s := setObj s i (flDelete (getObj s i) id).1) rfl rfl rfl rfl rfl
  · exact ⟨Keep.refl i s, CF.refl _, rfl⟩

theorem ppAlias_spec (s : Server) (c : Client) (pk : Msg) (topic : Str) (alias : Option Nat) (ht : pk.topic = topic) :
    CF c (ppAlias s c pk topic alias).1 ∧
    (ppAlias s c pk topic alias).2 = { pk with topic := aliasTopic c.aliasIn s.caps.topicAliasMaximum topic alias } := by
  subst ht
  cases alias with
  | none => exact ⟨CF.refl _, rfl⟩
  | some a =>
    simp only [ppAlias, aliasTopic]
    by_cases ha : a > 0
    · simp only [if_pos ha]
      by_cases htm : (s.caps.topicAliasMaximum == 0) = true
      · simp only [if_pos htm]; exact ⟨CF.refl _, trivial⟩
      · simp only [if_neg htm]
        cases hg : assocGet c.aliasIn a with
        | none => exact ⟨⟨rfl, rfl, rfl, rfl, rfl, rfl⟩, rfl⟩
        | some ex =>
          simp only []
          by_cases he : pk.topic.isEmpty = true
          · simp only [if_pos he]; exact ⟨CF.refl _, trivial⟩
          · simp only [if_neg he]; exact ⟨⟨rfl, rfl, rfl, rfl, rfl, rfl⟩, trivial⟩
    · simp only [if_neg ha]; exact ⟨CF.refl _, trivial⟩

/-- **every exit of `processPublish`**, for a live network client: the handler's verdict and first output are what the
    table `pubAnswer` says -/
theorem processPublish_spec {s : Server} {conn i : Nat} (L : Live s conn i) (qos : Nat) (dup retain : Bool) (id : Nat)
    (topic payload : Str) (me : Nat) (alias : Option Nat) :
    PubSpec conn (getObj s i).ver id (pubAnswer s i qos id topic alias)
      (processPublish s i qos dup retain id topic payload me alias) := by
  have hin : (getObj s i).inline = false := L.inline
  unfold processPublish
  extract_lets +onlyGivenNames c
  -- the refusal exits share one shape
  have refuse : ∀ code, PubSpec conn (getObj s i).ver id (refuseAns (getObj s i).ver qos code)
      (if (qos == 0) = true then ((s, [], none) : HRes)
        else if (c.ver != 5) = true then
          match disconnectClient s i code with
          | (s, o) => (s, o, some code)
        else ackRes s i (if (qos == 2) = true then 5 else 4) id code) := by
    intro code
    unfold refuseAns
    by_cases hq : (qos == 0) = true
    · rw [if_pos hq, if_pos hq]; exact rfl
    · rw [if_neg hq, if_neg hq]
      by_cases hv : (c.ver != 5) = true
      · have hv' : ((getObj s i).ver != 5) = true := hv
        rw [if_pos hv, if_pos hv']
        generalize disconnectClient s i code = d
        obtain ⟨s', o⟩ := d
        exact ⟨code, rfl⟩
      · have hv' : ¬ ((getObj s i).ver != 5) = true := hv
        rw [if_neg hv, if_neg hv']
        have ht : (if (qos == 2) = true then 5 else 4) ≠ 3 := by split <;> decide
        rw [ackRes_live' L _ id code ht]
        exact ⟨rfl, [], rfl⟩
  unfold pubAnswer
  by_cases h1 : (!c.inline && !isValidFilter topic true) = true
  · have h1' : (!isValidFilter topic true) = true := by
      rw [show c.inline = false from hin] at h1; simpa using h1
    rw [if_pos h1, if_pos h1']
    exact refuse 0x90
  · have h1' : ¬ (!isValidFilter topic true) = true := by
      rw [show c.inline = false from hin] at h1; simpa using h1
    rw [if_neg h1, if_neg h1']
    by_cases h2 : (c.recvQuota == 0) = true
    · have h2' : ((getObj s i).recvQuota == 0) = true := h2
      rw [if_pos h2, if_pos h2']
      generalize disconnectClient s i 0x93 = d
      obtain ⟨s', o⟩ := d
      exact ⟨0x93, rfl⟩
    · have h2' : ¬ ((getObj s i).recvQuota == 0) = true := h2
      rw [if_neg h2, if_neg h2']
      by_cases h3 : (!c.inline && !aclOk s c.id topic true) = true
      · have h3' : (!aclOk s (getObj s i).id topic true) = true := by
          rw [show c.inline = false from hin] at h3; simpa using h3
        rw [if_pos h3, if_pos h3']
        exact refuse 0x87
      · have h3' : ¬ (!aclOk s (getObj s i).id topic true) = true := by
          rw [show c.inline = false from hin] at h3; simpa using h3
        rw [if_neg h3, if_neg h3']
        extract_lets +onlyGivenNames e pk pre
        by_cases h4 : (((flGet (getObj s i) id).map (·.type)) == some 5) = true
        · rw [if_pos h4]
          have hpre : pre = some (ackRes s i 5 id 0x91) := by
            cases hg : flGet (getObj s i) id with
            | none => rw [hg] at h4; simp at h4
            | some pki =>
              have ht : (pki.type == 5) = true := by rw [hg] at h4; simpa using h4
              simp only [pre, c, hin, hg, ht, Bool.false_eq_true, if_false, if_true]
          rw [hpre]
          show PubSpec conn _ id _ (ackRes s i 5 id 0x91)
          rw [ackRes_live' L 5 id 0x91 (by decide)]
          exact ⟨rfl, [], rfl⟩
        · rw [if_neg h4]
          have hpre : pre = none := by
            cases hg : flGet (getObj s i) id with
            | none => simp only [pre, c, hin, hg, Bool.false_eq_true, if_false]
            | some pki =>
              have ht : (pki.type == 5) = false := by
                rw [hg] at h4
                cases hx : (pki.type == 5)
                · rfl
                · exfalso; apply h4; simpa using hx
              simp only [pre, c, hin, hg, ht, Bool.false_eq_true, if_false]
          rw [hpre]
          show PubSpec conn _ id _ (match ppDel s i (getObj s i) id with
            | (s1, c1) => match ppAlias s1 c1 pk topic alias with
              | (c2, pk2) => ppRest s1 i c2 pk2 id)
          obtain ⟨hA1, hA2, hA3⟩ := ppDel_spec s i id
          generalize ppDel s i (getObj s i) id = pr at hA1 hA2 hA3 ⊢
          obtain ⟨s1, c1⟩ := pr
          dsimp -zeta only at hA1 hA2 hA3 ⊢
          obtain ⟨hB1, hB2⟩ := ppAlias_spec s1 c1 pk topic alias rfl
          generalize ppAlias s1 c1 pk topic alias = pr2 at hB1 hB2 ⊢
          obtain ⟨c2, pk2⟩ := pr2
          dsimp -zeta only at hB1 hB2 ⊢
          subst hB2
          have hT : aliasTopic c1.aliasIn s1.caps.topicAliasMaximum topic alias = pubTopic s i topic alias := by
            unfold pubTopic; rw [hA3, hA1.caps]
          have := ppRest_spec L s1 c2
            { pk with topic := aliasTopic c1.aliasIn s1.caps.topicAliasMaximum topic alias } id hA1 (hA2.trans hB1)
          rw [hT] at this ⊢
          exact this

/-- the answer to a PUBLISH packet, `PublishValidate` included (a validation error closes the connection) -/
def pubVerdict (s : Server) (i qos id : Nat) (topic : Str) (alias : Option Nat) : PubAns :=
  match publishValidate s qos id topic alias with
  | some _ => .close
  | none => pubAnswer s i qos id topic alias

theorem handler_publish_spec {s : Server} {conn i : Nat} (L : Live s conn i) (qos : Nat) (dup retain : Bool) (id : Nat)
    (topic payload : Str) (me : Nat) (alias : Option Nat) :
    PubSpec conn (getObj s i).ver id (pubVerdict s i qos id topic alias)
      (handler s i (.publish qos dup retain id topic payload me alias)) := by
  unfold pubVerdict
  show PubSpec conn _ id _ (match publishValidate s qos id topic alias with
    | some code => (s, [], some code)
    | none => processPublish s i qos dup retain id topic payload me alias)
  cases publishValidate s qos id topic alias with
  | some code => exact ⟨code, rfl⟩
  | none => exact processPublish_spec L qos dup retain id topic payload me alias

/-- **the op, exit by exit**: verdict `close` — `closed conn` is emitted; verdict `ack t rc` — the FIRST output of the op
    is that acknowledgement, with the request's identifier, on the same connection -/
theorem step_publish_table {s : Server} {conn i : Nat} (L : Live s conn i) (qos : Nat) (dup retain : Bool) (id : Nat)
    (topic payload : Str) (me : Nat) (alias : Option Nat) :
    (pubVerdict s i qos id topic alias = .close →
      Out.closed conn ∈ (step s (.recv conn (.publish qos dup retain id topic payload me alias))).2) ∧
    (∀ t rc, pubVerdict s i qos id topic alias = .ack t rc →
      ∃ rest, (step s (.recv conn (.publish qos dup retain id topic payload me alias))).2 =
        .wrote conn (.ack (getObj s i).ver t id rc) :: rest) := by
  have h := handler_publish_spec L qos dup retain id topic payload me alias
  refine ⟨fun hv => ?_, fun t rc hv => ?_⟩
  · rw [hv] at h
    obtain ⟨code, hc⟩ := h
    exact step_error_closes L _ code hc
  · rw [hv] at h
    obtain ⟨_, rest, hr⟩ := h
    obtain ⟨rest2, h2⟩ := step_prefix L (.publish qos dup retain id topic payload me alias)
    exact ⟨rest ++ rest2, by rw [h2, hr]; rfl⟩

/-- QoS 1, outside the three exceptions (QoS clamp F07c, PUBREC record under the identifier F07d, rejecting hook):
    the verdict is `close` or a PUBACK -/
theorem pubVerdict_qos1 (s : Server) (i id : Nat) (topic : Str) (alias : Option Nat)
    (hclamp : 1 ≤ s.caps.maximumQos)
    (hrec : ((flGet (getObj s i) id).map (·.type)) ≠ some 5)
    (hhook : assocGet s.pubHook (pubTopic s i topic alias) ≠ some "reject") :
    pubVerdict s i 1 id topic alias = .close ∨ ∃ rc, pubVerdict s i 1 id topic alias = .ack 4 rc := by
  have hr : (((flGet (getObj s i) id).map (·.type)) == some 5) = false := by simpa using hrec
  have hh : (assocGet s.pubHook (pubTopic s i topic alias) == some "reject") = false := by simpa using hhook
  have hc : clampQos s 1 = 1 := by
    unfold clampQos
    rw [if_neg (by omega)]
  have href : ∀ code, refuseAns (getObj s i).ver 1 code = .close ∨ ∃ rc, refuseAns (getObj s i).ver 1 code = .ack 4 rc := by
    intro code
    unfold refuseAns
    by_cases hv : ((getObj s i).ver != 5) = true
    · left; simp [hv]
    · right; exact ⟨code, by simp [hv]⟩
  unfold pubVerdict
  cases publishValidate s 1 id topic alias with
  | some code => exact Or.inl rfl
  | none =>
    show pubAnswer s i 1 id topic alias = .close ∨ ∃ rc, pubAnswer s i 1 id topic alias = .ack 4 rc
    unfold pubAnswer
    by_cases h1 : (!isValidFilter topic true) = true
    · rw [if_pos h1]; exact href _
    · rw [if_neg h1]
      by_cases h2 : ((getObj s i).recvQuota == 0) = true
      · rw [if_pos h2]; exact Or.inl rfl
      · rw [if_neg h2]
        by_cases h3 : (!aclOk s (getObj s i).id topic true) = true
        · rw [if_pos h3]; exact href _
        · rw [if_neg h3, hr]
          by_cases h5 : (pubTopic s i topic alias).isEmpty = true
          · simp [h5]
          · right
            rw [hc]
            unfold pubTail
            rw [hh]
            simp only [Bool.false_eq_true, if_false]
            by_cases h6 : (assocGet s.pubHook (pubTopic s i topic alias) == some "err" && (getObj s i).ver == 5 &&
                decide (1 > 0)) = true
            · exact ⟨0x87, by rw [if_neg h5, if_pos h6]; rfl⟩
            · exact ⟨1, by rw [if_neg h5, if_neg h6]; rfl⟩

/-- QoS 2, outside the exceptions (QoS clamp F07c, rejecting hook): the verdict is `close` or a PUBREC (a hook error
    code for an MQTT 5 client is a PUBREC 0x87) -/
theorem pubVerdict_qos2 (s : Server) (i id : Nat) (topic : Str) (alias : Option Nat)
    (hclamp : 2 ≤ s.caps.maximumQos)
    (hhook : assocGet s.pubHook (pubTopic s i topic alias) ≠ some "reject") :
    pubVerdict s i 2 id topic alias = .close ∨ ∃ rc, pubVerdict s i 2 id topic alias = .ack 5 rc := by
  have hh : (assocGet s.pubHook (pubTopic s i topic alias) == some "reject") = false := by simpa using hhook
  have hc : clampQos s 2 = 2 := by
    unfold clampQos
    rw [if_neg (by omega)]
  have href : ∀ code, refuseAns (getObj s i).ver 2 code = .close ∨ ∃ rc, refuseAns (getObj s i).ver 2 code = .ack 5 rc := by
    intro code
    unfold refuseAns
    by_cases hv : ((getObj s i).ver != 5) = true
    · left; simp [hv]
    · right; exact ⟨code, by simp [hv]⟩
  unfold pubVerdict
  cases publishValidate s 2 id topic alias with
  | some code => exact Or.inl rfl
  | none =>
    show pubAnswer s i 2 id topic alias = .close ∨ ∃ rc, pubAnswer s i 2 id topic alias = .ack 5 rc
    unfold pubAnswer
    by_cases h1 : (!isValidFilter topic true) = true
    · rw [if_pos h1]; exact href _
    · rw [if_neg h1]
      by_cases h2 : ((getObj s i).recvQuota == 0) = true
      · rw [if_pos h2]; exact Or.inl rfl
      · rw [if_neg h2]
        by_cases h3 : (!aclOk s (getObj s i).id topic true) = true
        · rw [if_pos h3]; exact href _
        · rw [if_neg h3]
          by_cases h4 : (((flGet (getObj s i) id).map (·.type)) == some 5) = true
          · rw [if_pos h4]; exact Or.inr ⟨0x91, rfl⟩
          · rw [if_neg h4]
            by_cases h5 : (pubTopic s i topic alias).isEmpty = true
            · simp [h5]
            · right
              rw [hc]
              unfold pubTail
              rw [hh]
              simp only [Bool.false_eq_true, if_false]
              by_cases h6 : (assocGet s.pubHook (pubTopic s i topic alias) == some "err" && (getObj s i).ver == 5 &&
                  decide (2 > 0)) = true
              · exact ⟨0x87, by rw [if_neg h5, if_pos h6]; rfl⟩
              · exact ⟨0, by rw [if_neg h5, if_neg h6]; rfl⟩

/-- QoS 0 (no PUBREC record under the identifier — `PublishValidate` forces identifier 0): never an acknowledgement -/
theorem pubVerdict_qos0 (s : Server) (i id : Nat) (topic : Str) (alias : Option Nat)
    (hrec : ((flGet (getObj s i) id).map (·.type)) ≠ some 5) :
    pubVerdict s i 0 id topic alias = .close ∨ pubVerdict s i 0 id topic alias = .silent := by
  have hr : (((flGet (getObj s i) id).map (·.type)) == some 5) = false := by simpa using hrec
  have hc : clampQos s 0 = 0 := by
    unfold clampQos
    split
    · omega
    · rfl
  unfold pubVerdict
  cases publishValidate s 0 id topic alias with
  | some code => exact Or.inl rfl
  | none =>
    show pubAnswer s i 0 id topic alias = .close ∨ pubAnswer s i 0 id topic alias = .silent
    unfold pubAnswer
    by_cases h1 : (!isValidFilter topic true) = true
    · rw [if_pos h1]; exact Or.inr rfl
    · rw [if_neg h1]
      by_cases h2 : ((getObj s i).recvQuota == 0) = true
      · rw [if_pos h2]; exact Or.inl rfl
      · rw [if_neg h2]
        by_cases h3 : (!aclOk s (getObj s i).id topic true) = true
        · rw [if_pos h3]; exact Or.inr rfl
        · rw [if_neg h3, hr]
          by_cases h5 : (pubTopic s i topic alias).isEmpty = true
          · simp [h5]
          · right
            rw [hc]
            unfold pubTail
            simp [h5]

end Mochi.Broker.R07
